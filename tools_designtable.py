#!/usr/bin/env python3
import json,glob
c=json.load(open('/verif/checks.json'))
print("| property | level | harness binaries (variant) | quick: evaluations / distinct non-trivial | states / transitions / traces (model checking) | quick wall |")
print("|---|---|---|---|---|---|")
for pid in sorted(c['checks']):
    ch=c['checks'][pid]
    try: ev=json.load(open('/verif/evidence/%s.json'%pid))
    except Exception: continue
    cov=ev['coverage']
    hs=", ".join("`%s`.%s%s"%(h['name'],h['variant']," (thorough only)" if h.get('thorough_only') else (" (build only)" if h.get('build_only') else "")) for h in ch['harnesses'])
    mc="%s / %s / %s"%(cov.get('states','-'),cov.get('transitions','-'),cov.get('traces_validated_against_impl','-')) if ch['level']=='model_checking' else "-"
    print("| %s | %s | %s | %s / %s | %s | %s s |"%(pid,ch['level'],hs,cov['evaluations'],cov['distinct_nontrivial'],mc,round(ev['wall_s'])))
