#!/usr/bin/env python3
"""tools_seedmeta.py <seed> <property> '<needs>'  -- writes seeded/<seed>/meta.json from confirm.log"""
import json,sys,re,os
seed,prop,needs=sys.argv[1:4]
d='/verif/seeded/'+seed
log=open(d+'/confirm.log').read()
last=[l for l in log.splitlines() if l.startswith('seed=')][-1]
kv=dict(x.split('=',1) for x in last.split())
tests=re.findall(r'unit test (\S+): .*?(Passed|Failed)',log)
chk=open(d+'/check_quick.log').read()
keys=sorted(set(re.findall(r'key=(.*)',chk)))[:12]
meta={"seed":seed,"breaks_property":prop,"needs_to_manifest":needs,
 "origin":"written by a fresh sub-agent that was given only the property text and its own git worktree of the repository (nothing from /verif)",
 "confirmed":{"patch_applies_and_builds":True,"unit_tests_run_with_change":[{"test":t,"result":r} for t,r in tests],
   "demo_exit_without_change":int(kv['demo_clean_exit']),"demo_exit_with_change":int(kv['demo_changed_exit']),
   "how":"tools_seedcheck.sh: validation worktree /var/tmp/mutwt (own cmake build of the repository), unit tests via ctest, demo linked against that build; then ./vf check on a scratch copy of /repo with the patch (VERIF_REPO)"},
 "detected_by":{"command":"VERIF_REPO=<scratch copy with patch> ./vf check %s --tier quick"%prop,"exit":int(kv['check_exit']),"violation_lines":int(kv['violations']),"keys":keys}}
json.dump(meta,open(d+'/meta.json','w'),indent=1)
print(seed,"detected" if meta["detected_by"]["exit"]==1 else "MISSED")
