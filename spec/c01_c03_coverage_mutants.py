#!/usr/bin/env python3
# fresh mutants validating the additions of the coverage audit
import subprocess, sys, os, re, shutil
M='/var/tmp/feat3-mut.c01c03'; T='43107320'
MUT=[
 ('V1 CSCR allocating constructor stores used_rows/used_elements swapped', [('kernel/lafem/sparse_matrix_cscr.hpp', '        this->_scalar_index.push_back(used_elements_in);\n        this->_scalar_index.push_back(used_rows_in);\n\n        this->_indices.push_back(MemoryPool::template allocate_memory<IT_>(_used_elements()));', '        this->_scalar_index.push_back(used_rows_in);\n        this->_scalar_index.push_back(used_elements_in);\n\n        this->_indices.push_back(MemoryPool::template allocate_memory<IT_>(_used_elements()));', 0)], ['c01_apply_csr']),
 ('V2 BCSR allocating constructor swaps rows/columns', [('kernel/lafem/sparse_matrix_bcsr.hpp', '        XASSERT(rows_in != Index(0) && columns_in != Index(0));\n\n        this->_scalar_index.push_back(rows_in);\n        this->_scalar_index.push_back(columns_in);\n        this->_scalar_index.push_back(used_elements_in);', '        XASSERT(rows_in != Index(0) && columns_in != Index(0));\n\n        this->_scalar_index.push_back(columns_in);\n        this->_scalar_index.push_back(rows_in);\n        this->_scalar_index.push_back(used_elements_in);', 0)], ['c01_apply_blk']),
 ('V3 banded transposed kernel returns silently instead of aborting', [('kernel/lafem/arch/apply_generic.hpp', '        XABORTM("not implemented");', '        return;', 0)], ['c01_apply_blk', 'c01_apply_bandu']),
 ('V4 radius_row ignores the last entry of a row', [('kernel/lafem/sparse_matrix_csr.hpp', '          if (this->row_ptr()[row+1] > 0)\n          {', '          if (this->row_ptr()[row+1] > this->row_ptr()[row] + 1 && false)\n          {', 0)], ['c03_algebra']),
 ('V5 bandwidth_row reports the last row attaining the maximum (>=)', [('kernel/lafem/sparse_matrix_csr.hpp', '          if(temp > bandw)', '          if(temp >= bandw)', 0)], ['c03_algebra']),
 ('V6 add_trace_double_mat_mult scales with a[..+i] instead of a[..+j]', [('kernel/lafem/sparse_matrix_bcsr.hpp', 'data_a[bwd*col_d + j];', 'data_a[bwd*col_d + (i < bwd ? i : j)];', 0)], ['c03_algebra_bcsr']),
]
def sh(cmd): return subprocess.run(cmd, shell=True, capture_output=True, text=True)
only=sys.argv[1:]
for name,edits,hs in MUT:
    if only and not any(name.startswith(o+' ') for o in only): continue
    origs={}; okk=True
    for f,old,new,occ in edits:
        path=os.path.join(M,f)
        if f not in origs: origs[f]=open(os.path.join('/repo',f)).read()
        src=open(path).read()
        if src.count(old)==0: print('MUTANT',name,': pattern not found in',f); okk=False; break
        idx=-1
        for _ in range(occ+1): idx=src.index(old, idx+1)
        open(path,'w').write(src[:idx]+new+src[idx+len(old):])
    if okk:
        for h in hs:
            b=sh(f'make -C /verif -j8 REPO={M} /verif/build/{T}/bin/{h}.plain 2>&1 | grep -E "error" -A3 | head -8')
            if b.stdout.strip(): print('BUILD PROBLEM', name, b.stdout[:800]); continue
            r=sh(f'VERIF_REPO={M} /verif/build/{T}/bin/{h}.plain --tier quick --jobs 12 2>&1')
            out=r.stdout
            summ=[l for l in out.splitlines() if l.startswith('[C0')]
            keys=sorted(set(k for k in re.findall(r'key=(.*)', out) if not k.startswith('entry-free')))
            print(f'MUTANT {name} | {h} | {"CAUGHT" if summ and "violations=0 " not in summ[0] else "MISSED"} | {summ[0][:150] if summ else out[-300:]} | keys: {keys[:6]}', flush=True)
    for f,o in origs.items(): open(os.path.join(M,f),'w').write(o)
shutil.rmtree('/verif/replays/C01', ignore_errors=True); shutil.rmtree('/verif/replays/C03', ignore_errors=True)
print('done')
