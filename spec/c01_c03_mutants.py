#!/usr/bin/env python3
# applies one mutant at a time to the scratch copy, rebuilds the given harnesses against it, runs the quick tier, reverts.
import subprocess, sys, os, re, shutil, json
M='/var/tmp/feat3-mut.c01c03'; T='43107320'; ROOT='/verif/build/scratch/c03_root'
MUT=[
 # name, file, old, new, occurrence index (0-based, among matches), harnesses
 ('C01-m1 csr transposed: ba=b instead of b/a', 'kernel/lafem/arch/apply_generic.hpp', 'DT_ ba = b/a;', 'DT_ ba = b;', 0, ['c01_apply_csr']),
 ('C01-m2 csr apply(r,x,y,a) early-out formats r for entry-free matrix', 'kernel/lafem/sparse_matrix_csr.hpp', '''        if (this->used_elements() == 0 || Math::abs(alpha) < Math::eps<DT_>())
        {
          r.copy(y);''', '''        if (this->used_elements() == 0) { r.format(); return; }
        if (Math::abs(alpha) < Math::eps<DT_>())
        {
          r.copy(y);''', 0, ['c01_apply_csr']),
 ('C01-m3 cscr transposed: row index without row_numbers indirection', 'kernel/lafem/arch/apply_generic.hpp', '''            const Index row(row_numbers[nzrow]);
            for (Index i(row_ptr[nzrow]) ; i < row_ptr[nzrow+1] ; ++i)''', '''            const Index row(nzrow);
            for (Index i(row_ptr[nzrow]) ; i < row_ptr[nzrow+1] ; ++i)''', 0, ['c01_apply_csr']),
 ('C01-m4 bcsr transposed: y copied with BlockHeight stride', 'kernel/lafem/arch/apply_generic.hpp', 'MemoryPool::copy(r, y, columns * BlockWidth_);', 'MemoryPool::copy(r, y, columns * BlockHeight_);', 0, ['c01_apply_blk']),
 ('C01-m5 banded generic: first upper offset search off by one', 'kernel/lafem/arch/apply_generic.hpp', 'while (k < num_of_offsets && offsets[k] + 1 < rows)', 'while (k < num_of_offsets && offsets[k] < rows)', 0, ['c01_apply_blk']),
 ('C01-m6 banded unrolled: Iteration_Left end bound', 'kernel/lafem/arch/apply_generic.hpp', 'Intern::ApplyBanded::end_offset(i-2, offsets, rows, columns, noo) + 1));', 'Intern::ApplyBanded::end_offset(i-2, offsets, rows, columns, noo)));', 0, ['c01_apply_bandu','c01_apply_blk']),
 ('C01-m7 dense transposed: column-major indexing', 'kernel/lafem/arch/apply_generic.hpp', 'sum += val[row * columns + col] * x[row];', 'sum += val[col * rows + row] * x[row];', 0, ['c01_apply_blk']),
 ('C01-m8 PowerCol apply_transposed(dense) overwrites instead of accumulating', 'kernel/lafem/power_col_matrix.hpp', 'rest().apply_transposed(r, x_rest, r, DataType(1));', 'rest().apply_transposed(r, x_rest);', 0, ['c01_apply_meta']),
 ('C01-m9 SaddlePoint apply(r,x,y,alpha) native: B block ignores alpha', 'kernel/lafem/saddle_point_matrix.hpp', 'block_b().apply(r.template at<0>(), x.template at<1>(), r.template at<0>(), alpha);', 'block_b().apply(r.template at<0>(), x.template at<1>(), r.template at<0>(), DataType(1));', 0, ['c01_apply_meta']),
 ('C01-m10 csrsb: y copied with rows instead of rows*BlockSize', 'kernel/lafem/arch/apply_generic.hpp', 'MemoryPool::copy(r, y, /*(transposed?columns:rows)*/ rows * BlockSize_);', 'MemoryPool::copy(r, y, /*(transposed?columns:rows)*/ rows);', 0, ['c01_apply_csr']),
 ('C01-m11 csr apply_transposed: alpha<eps instead of |alpha|<eps', 'kernel/lafem/sparse_matrix_csr.hpp', '''        XASSERTM(y.size() == this->columns(), "Vector size of y does not match!");

        TimeStamp ts_start;

        if (this->used_elements() == 0 || Math::abs(alpha) < Math::eps<DT_>())''', '''        XASSERTM(y.size() == this->columns(), "Vector size of y does not match!");

        TimeStamp ts_start;

        if (this->used_elements() == 0 || alpha < Math::eps<DT_>())''', 0, ['c01_apply_csr']),
 ('C01-m12 TupleMatrixRow apply: second block uses alpha twice? (rest gets y instead of r)', 'kernel/lafem/tuple_matrix.hpp', '''        first().apply(r, x.first(), y, alpha);
        rest().apply(r, x.rest(), r, alpha);''', '''        first().apply(r, x.first(), y, alpha);
        rest().apply(r, x.rest(), y, alpha);''', 0, ['c01_apply_meta']),
 ('C01-m13 bcsr apply: r==y branch test inverted (copy skipped when r!=y for b!=0)', 'kernel/lafem/arch/apply_generic.hpp', '''        else if (r != y)
        {
          MemoryPool::copy(r, y, /*(transposed?columns:rows)*/ rows * BlockHeight_);''', '''        else if (r == y)
        {
          MemoryPool::copy(r, y, /*(transposed?columns:rows)*/ rows * BlockHeight_);''', 0, ['c01_apply_blk']),
 ('C01-m5b banded generic: end_offset off by one', 'kernel/lafem/arch/apply_generic.hpp', 'return Math::min(rows, columns + rows - Index(offsets[i]) - Index(1)) - Index(1);', 'return Math::min(rows, columns + rows - Index(offsets[i])) - Index(1);', 0, ['c01_apply_blk']),
 ('C01-m5c banded generic: inner loop starts one band late', 'kernel/lafem/arch/apply_generic.hpp', 'for (Index a(i); a < j; ++a)', 'for (Index a(i + 1); a < j; ++a)', 0, ['c01_apply_blk']),
 # ---------------- C03
 ('C03-n1 double product: missing X entry silently dropped instead of abort', 'kernel/lafem/sparse_matrix_csr.hpp', '''                  if(allow_incomplete)
                    ++lj;
                  else
                    XABORTM("Incomplete output matrix structure");''', '''                  ++lj;''', 0, ['c03_algebra']),
 ('C03-n2 mat_mat product: end of X row -> break instead of abort', 'kernel/lafem/sparse_matrix_csr.hpp', '''                if(allow_incomplete)
                  break; // continue with next row
                else
                  XABORTM("Incomplete output matrix structure");''', '''                break;''', 1, ['c03_algebra']),
 ('C03-n3 diag-vector product: a indexed by row i instead of k', 'kernel/lafem/sparse_matrix_csr.hpp', 'const DT_ omega = alpha *  data_d[ik] * data_a[k];', 'const DT_ omega = alpha *  data_d[ik] * data_a[i];', 0, ['c03_algebra']),
 ('C03-n4 scale_cols uses the row index', 'kernel/lafem/arch/scale_row_col_generic.hpp', 'r[i] = a[i] * x[col_ind[i]];', 'r[i] = a[i] * x[row];', 0, ['c03_algebra']),
 ('C03-n5 lumping: sum not reset per row', 'kernel/lafem/arch/lumping_generic.hpp', '''        for (Index row(0); row < rows; row++)
        {
          Index end = row_ptr[row + 1];
          DT_ sum(0);''', '''        DT_ sum(0);
        for (Index row(0); row < rows; row++)
        {
          Index end = row_ptr[row + 1];''', 0, ['c03_algebra']),
 ('C03-n6 diagonal: missing-diagonal marker row_ptr[row+1]', 'kernel/lafem/arch/diagonal_generic.hpp', 'diag[row] = row_ptr[rows];', 'diag[row] = row_ptr[row + 1];', 0, ['c03_algebra','c03_algebra_bcsr']),
 ('C03-n7 shrink: > eps instead of >= eps', 'kernel/lafem/sparse_matrix_csr.hpp', 'if (Math::abs(this->val()[el]) >= eps)', 'if (Math::abs(this->val()[el]) > eps)', 'all', ['c03_algebra']),
 ('C03-n8 (revert of fix) csr scaled row norm uses scal[row]', 'kernel/lafem/arch/row_norm_generic.hpp', 'norm += scal[col_ind[col]]*Math::sqr(val[col]);', 'norm += scal[row]*Math::sqr(val[col]);', 0, ['c03_algebra']),
 ('C03-n9 axpy alias branch r*=a', 'kernel/lafem/arch/axpy_generic.hpp', 'r[i] *= DT_(1) + a;', 'r[i] *= a;', 0, ['c03_algebra']),
 ('C03-n10 min_abs_index starts from 0 instead of |x[0]|', 'kernel/lafem/arch/min_abs_index_generic.hpp', 'DT_ min(Math::abs(x[0]));', 'DT_ min(0);', 0, ['c03_algebra']),
 ('C03-n11 bcsr product: block factors multiplied in swapped order', 'kernel/lafem/sparse_matrix_bcsr.hpp', 'temp.set_mat_mat_mult(omega, data_b[lj]);', 'temp.set_mat_mat_mult(data_b[lj], omega);', 0, ['c03_algebra_bcsr']),
 ('C03-n12 frobenius norm skips first element', 'kernel/lafem/arch/norm_generic.hpp', '''        DT_ r(0);
        for (Index i(0) ; i < size ; ++i)
        {
          r += x[i] * x[i];''', '''        DT_ r(0);
        for (Index i(1) ; i < size ; ++i)
        {
          r += x[i] * x[i];''', 0, ['c03_algebra','c03_algebra_bcsr']),
 ('C03-n13 double product merge: X poorer... equal branch forgets ++lj? -> uses col of next (ij advanced twice)', 'kernel/lafem/sparse_matrix_csr.hpp', '''                  data_x[ij] += omega * data_b[lj];
                  ++ij;
                  ++lj;''', '''                  data_x[ij] += omega * data_b[lj];
                  ++ij; ++ij;
                  ++lj;''', 0, ['c03_algebra']),
 ('C03-n14 bcsr scale_rows uses column index of the block entry', 'kernel/lafem/arch/scale_row_col_generic.hpp', 'br[i][irow][icol] = ba[i][irow][icol] * bx[row][irow];', 'br[i][irow][icol] = ba[i][irow][icol] * bx[row][icol % bh_];', 0, ['c03_algebra_bcsr']),
 ('C03-n15 (revert of fix) bcsr row_norm2 sqrt inside block loop', 'kernel/lafem/arch/row_norm_generic.hpp', None, None, 0, ['c03_algebra_bcsr']),
]
def sh(cmd, **kw): return subprocess.run(cmd, shell=True, capture_output=True, text=True, **kw)
only = sys.argv[1:] 
res=[]
for name,f,old,new,occ,hs in MUT:
    if only and not any(name.startswith(o) for o in only): continue
    path=os.path.join(M,f); orig=open(os.path.join('/repo',f)).read()
    src=orig
    if old is None:  # special: n15
        a=src.index('void RowNorm::bcsr_generic_norm2(')
        b=src.index('void RowNorm::bcsr_generic_norm2sqr(')
        seg=src[a:b]
        # move sqrt loop back inside: find the separate sqrt loop
        print('--- segment of fixed bcsr_generic_norm2:\n', seg[-900:]); 
        m=re.search(r'\n(\s*)for\s*\(Index i\(0\); i < block_height; \+\+i\)\s*\{\s*(?://[^\n]*\n\s*)?row_norms\[block_height\*row \+ i\] = Math::sqrt\(row_norms\[block_height\*row \+ i\]\);\s*\}', seg)
        if not m: print('n15: pattern not found'); continue
        seg2=seg[:m.start()]+seg[m.end():]
        seg2=seg2.replace('row_norms[block_height*row + i] += Math::sqr(val[block_height*block_width*col + i*block_width + j]);\n              }','row_norms[block_height*row + i] += Math::sqr(val[block_height*block_width*col + i*block_width + j]);\n              }\n              row_norms[block_height*row + i] = Math::sqrt(row_norms[block_height*row + i]);',1)
        src=src[:a]+seg2+src[b:]
    else:
        n=src.count(old)
        if n==0: print('MUTANT',name,': pattern not found'); continue
        if occ=='all': src=src.replace(old,new)
        else:
            idx=-1
            for _ in range(occ+1): idx=src.index(old, idx+1)
            src=src[:idx]+new+src[idx+len(old):]
    open(path,'w').write(src)
    for h in hs:
        b=sh(f'make -C /verif -j8 REPO={M} /verif/build/{T}/bin/{h}.plain 2>&1 | grep -E "error" -A3 | head -5')
        if b.stdout.strip(): print('BUILD PROBLEM', name, b.stdout[:500]); 
        shutil.rmtree(ROOT+'/replays', ignore_errors=True)
        r=sh(f'VERIF_ROOT={ROOT} VERIF_REPO={M} /verif/build/{T}/bin/{h}.plain --tier quick --jobs 8 2>&1')
        out=r.stdout
        summ=[l for l in out.splitlines() if l.startswith('[C0')]
        keys=sorted(set(re.findall(r'key=(.*)', out)))
        print(f'MUTANT {name} | {h} | {"CAUGHT" if "violations=0 " not in (summ[0] if summ else "") else "MISSED"} | {summ[0] if summ else out[-300:]} | keys: {keys[:6]}', flush=True)
    open(path,'w').write(orig)
print('done')
