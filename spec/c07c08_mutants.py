# Mutation driver used for C07/C08 (run from /verif). Needs a pristine copy of /repo in BASE:
#   rsync -a --exclude _build --exclude .git /repo/ /var/tmp/feat3-mut.c07c08.base/
# usage: python3 spec/c07c08_mutants.py [name-prefix ...]   (afterwards: rm -rf /var/tmp/feat3-mut.c07c08* /verif/build/<tag of MUT>)
import subprocess, sys, os, re, shutil
BASE='/var/tmp/feat3-mut.c07c08.base'; MUT='/var/tmp/feat3-mut.c07c08'
TAG=subprocess.check_output("printf %s "+MUT+" | md5sum | cut -c1-8",shell=True,text=True).strip()
M=[
 # ---- C07 stopping automaton (kernel/solver/iterative.hpp)
 ('st1 is_converged <= -> < (rel)','kernel/solver/iterative.hpp','((def_cur <= (_tol_rel * _def_init)) ||','((def_cur < (_tol_rel * _def_init)) ||',['c07_stopping','c07_solvers']),
 ('st2 min_iter ignored','kernel/solver/iterative.hpp','if(num_iter < this->_min_iter)\n          return Status::progress;','if(false)\n          return Status::progress;',['c07_stopping','c07_solvers']),
 ('st3 stagnation counter never reset','kernel/solver/iterative.hpp','            // this iteration did not stagnate\n            this->_num_stag_iter = Index(0);','            // this iteration did not stagnate',['c07_stopping']),
 ('st4 new solve keeps old stagnation count','kernel/solver/iterative.hpp','        this->_num_iter = Index(0);\n        this->_num_stag_iter = Index(0);\n        Statistics','        this->_num_iter = Index(0);\n        Statistics',['c07_stopping']),
 ('st5 stagnation >= -> >','kernel/solver/iterative.hpp','if(def_cur >= this->_stag_rate * def_prev)','if(def_cur > this->_stag_rate * def_prev)',['c07_stopping']),
 ('st6 _update_defect forgets def_prev','kernel/solver/iterative.hpp','        // store previous defect\n        this->_def_prev = this->_def_cur;\n\n        // update current defect','        // update current defect',['c07_stopping']),
 ('st7 defect skipped also for min_iter == max_iter-1 (<= -> +1)','kernel/solver/iterative.hpp','calc_def = calc_def || (this->_min_iter < this->_max_iter);','calc_def = calc_def || (this->_min_iter + 1 < this->_max_iter);',['c07_stopping','c07_solvers']),
 ('st8 max_iter reported as success','kernel/solver/iterative.hpp','        if(num_iter >= this->_max_iter)\n          return Status::max_iter;','        if(num_iter >= this->_max_iter)\n          return Status::success;',['c07_stopping','c07_solvers']),
 ('st9 initial zero-defect test eps^2 -> eps','kernel/solver/iterative.hpp','if(this->_def_init <= Math::sqr(Math::eps<DataType>()))','if(this->_def_init <= Math::eps<DataType>())',['c07_stopping']),
 # ---- C07 real solvers
 ('so1 PCG apply() keeps the start vector','kernel/solver/pcg.hpp','        // clear solution vector\n        vec_cor.format();\n\n        // apply solver\n        this->_status = _apply_intern(vec_cor);','        // apply solver\n        this->_status = _apply_intern(vec_cor);',['c07_solvers']),
 ('so2 PCG reports the defect of the previous iterate','kernel/solver/pcg.hpp','          vec_r.axpy(vec_q, -alpha);\n\n          // compute defect norm\n          status = this->_set_new_defect(vec_r, vec_sol);','          status = this->_set_new_defect(vec_r, vec_sol);\n          vec_r.axpy(vec_q, -alpha);',['c07_solvers']),
 ('so3 PCR correct() ignores the start vector for the defect','kernel/solver/pcr.hpp','        // compute defect\n        this->_system_matrix.apply(this->_vec_r, vec_sol, vec_rhs, -DataType(1));\n        this->_system_filter.filter_def(this->_vec_r);\n\n        // apply solver\n        this->_status = _apply_intern(vec_sol);','        this->_vec_r.copy(vec_rhs);\n        this->_system_filter.filter_def(this->_vec_r);\n\n        // apply solver\n        this->_status = _apply_intern(vec_sol);',['c07_solvers']),
 ('so4 FGMRES keeps Givens data of the previous cycle','kernel/solver/fgmres.hpp','          _q.clear();\n          _s.clear();\n          _c.clear();','          _q.clear();\n          _c.clear();',['c07_solvers']),
 ('so5 Richardson scales the rhs it was given (const_cast)','kernel/solver/richardson.hpp','        // save defect\n        this->_vec_def.copy(vec_def);','        // save defect\n        this->_vec_def.copy(vec_def);\n        const_cast<VectorType&>(vec_def).scale(vec_def, DataType(1));\n        if(vec_def.size() > Index(1)) const_cast<VectorType&>(vec_def)(Index(1), vec_def(Index(1)) * DataType(1.0000000000000002));',['c07_solvers']),
 ('so6 RGCR never forgets recycled directions and reuses them after re-init','kernel/solver/rgcr.hpp','        q_list.clear();\n        p_list.clear();\n        BaseClass::done_symbolic();','        BaseClass::done_symbolic();',['c07_solvers']),
 ('so7 BiCGStab half step honours divergence only','kernel/solver/bicgstab.hpp','              else if(this->is_converged(def_half))\n              {\n                this->_def_cur = def_half;','              else if(this->is_converged(def_half))\n              {',['c07_solvers']),
 ('so8 PipePCG second-iteration branch off by one','kernel/solver/pipepcg.hpp','if (this->_num_iter == 1)','if (this->_num_iter <= 2)',['c07_solvers_glob']),
 ('so9 GMRES does not filter the correction through the preconditioner at cycle end (uses w)','kernel/solver/gmres.hpp','          vec_sol.axpy(this->_vec_v.front());','          vec_sol.axpy(this->_vec_w);',['c07_solvers']),
 ('so10 PCG with unit filter: q not filtered','kernel/solver/pcg.hpp','          matrix.apply(vec_q, vec_p);\n          filter.filter_def(vec_q);','          matrix.apply(vec_q, vec_p);',['c07_solvers_uf']),
 ('so11 RGCR shrinks only the p list between solves','kernel/solver/rgcr.hpp','        p_list.resize(p_list.size() / 4);\n        q_list.resize(q_list.size() / 4);\n\n        // return status\n        return this->_status;\n      }\n\n      virtual Status correct','        p_list.resize(p_list.size() / 4);\n\n        // return status\n        return this->_status;\n      }\n\n      virtual Status correct',['c07_solvers']),
 ('so12 GroppPCG forgets to update the preconditioned residual','kernel/solver/gropppcg.hpp','          vec_z.axpy(vec_S, -alpha);\n','',['c07_solvers_glob']),
 ('so13 RBiCGStab half-step exit keeps the old defect','kernel/solver/rbicgstab.hpp','            else if(this->is_converged(def_half))\n            {\n              this->_def_cur = def_half;','            else if(this->is_converged(def_half))\n            {',['c07_solvers_glob']),
 # ---- C08
 ('pc1 SSOR(CSR) backward sweep skips the first row','kernel/solver/ssor_precond.hpp','        // __backward-insertion__\n        // iteration over all rows\n        for (Index i(n); i > 0;)\n        {\n          --i;\n          IndexType col;\n          DataType d(0);','        // __backward-insertion__\n        // iteration over all rows\n        for (Index i(n); i > 1;)\n        {\n          --i;\n          IndexType col;\n          DataType d(0);',['c08_precond']),
 ('pc2 SOR(CSR) omega applied to the sum only','kernel/solver/sor_precond.hpp','          pout[i] = _omega * (pin[i] - d) / pval[col];','          pout[i] = (pin[i] - _omega * d) / pval[col];',['c08_precond']),
 ('pc3 ILU(CSR) init_numeric keeps the old factorisation','kernel/solver/ilu_precond.hpp','      virtual void init_numeric() override\n      {\n        _ilu.copy_data(_matrix);\n        _ilu.factorize_numeric_il_du();\n      }\n\n      /**\n       * \\brief apply the preconditioner\n       *\n       * \\param[out] out The preconditioner result.\n       * \\param[in] in The vector to be preconditioned.\n       */\n      virtual Status apply(VectorType& out, const VectorType& in) override\n      {\n        TimeStamp ts_start;\n\n        // get vector data arrays\n        DataType* x = out.elements();','      virtual void init_numeric() override\n      {\n        if(_ilu._data_d[0] != DataType(0)) return;\n        _ilu.copy_data(_matrix);\n        _ilu.factorize_numeric_il_du();\n      }\n\n      /**\n       * \\brief apply the preconditioner\n       *\n       * \\param[out] out The preconditioner result.\n       * \\param[in] in The vector to be preconditioned.\n       */\n      virtual Status apply(VectorType& out, const VectorType& in) override\n      {\n        TimeStamp ts_start;\n\n        // get vector data arrays\n        DataType* x = out.elements();',['c08_precond']),
 ('pc4 ILU symbolic level bound off by one','kernel/solver/ilu_precond.hpp','                if(ll > p)\n                  continue;','                if(ll > p + 1)\n                  continue;',['c08_precond']),
 ('pc5 ILU scalar numeric: diagonal update missed (>= -> >)','kernel/solver/ilu_precond.hpp','                const IT_ ck = cidx_u[k];\n                if(ck >= i)\n                  break;\n                for(; (pl < ql) && (cidx_l[pl] <= ck); ++pl)\n                {\n                  if(cidx_l[pl] == ck)\n                    data_l[pl] -= data_l[j] * data_u[k];','                const IT_ ck = cidx_u[k];\n                if(ck > i)\n                  break;\n                for(; (pl < ql) && (cidx_l[pl] <= ck); ++pl)\n                {\n                  if(cidx_l[pl] == ck)\n                    data_l[pl] -= data_l[j] * data_u[k];',['c08_precond']),
 ('pc6 Polynomial one term short','kernel/solver/polynomial_precond.hpp','for (Index i = 1; i <= _m; ++i)','for (Index i = 1; i < _m; ++i)',['c08_precond']),
 ('pc7 SOR(BCSR) inverse applied before subtracting the sum','kernel/solver/sor_precond.hpp','          pout[i] = _omega * inverse * (pin[i] - d);','          pout[i] = _omega * (inverse * pin[i] - d);',['c08_precond_bcsr']),
 ('pc8 Tiny 3x3 inverse: one cofactor sign','kernel/util/tiny_algebra.hpp','          b[1*snb_+2] = d*(a[0*sna_+2]*a[1*sna_+0] - a[0*sna_+0]*a[1*sna_+2]);\n          b[2*snb_+2] = d*(a[0*sna_+0]*a[1*sna_+1] - a[0*sna_+1]*a[1*sna_+0]);\n          return det;','          b[1*snb_+2] = d*(a[0*sna_+0]*a[1*sna_+2] - a[0*sna_+2]*a[1*sna_+0]);\n          b[2*snb_+2] = d*(a[0*sna_+0]*a[1*sna_+1] - a[0*sna_+1]*a[1*sna_+0]);\n          return det;',['c08_inverse','c08_precond_bcsr']),
 ('pc9 SSOR(CSR) correction not filtered','kernel/solver/ssor_precond.hpp','        vec_cor.scale(vec_cor, _omega * (DataType(2.0) - _omega));\n\n        this->_filter.filter_cor(vec_cor);\n\n        TimeStamp ts_stop;\n        Statistics::add_time_precon(ts_stop.elapsed(ts_start));\n        Statistics::add_flops(_matrix.used_elements() *2','        vec_cor.scale(vec_cor, _omega * (DataType(2.0) - _omega));\n\n        TimeStamp ts_stop;\n        Statistics::add_time_precon(ts_stop.elapsed(ts_start));\n        Statistics::add_flops(_matrix.used_elements() *2',['c08_precond']),
 ('pc10 Jacobi inverts the diagonal only at the first init_numeric','kernel/solver/jacobi_precond.hpp','        // extract matrix diagonal\n        _matrix.extract_diag(_inv_diag);','        // extract matrix diagonal\n        if(_inv_done) return;\n        _inv_done = true;\n        _matrix.extract_diag(_inv_diag);',['c08_precond']),
 ('pc11 ILU(BCSR) solve_du uses D instead of stored inverse on last block row only','kernel/solver/ilu_precond.hpp','            x[i].set_mat_vec_mult(data_d[i], r);','            if(i + 1 == this->_n && this->_n > 1) { x[i] = r; } else x[i].set_mat_vec_mult(data_d[i], r);',['c08_precond_bcsr']),
 ('pc12 invert_matrix: elimination skips the last row','kernel/util/math.hpp','        for(IT_ i(0); i < n; ++i)\n        {\n          // skip the pivot row\n          if(i == p[k])\n            continue;','        for(IT_ i(0); i < n; ++i)\n        {\n          // skip the pivot row\n          if((i == p[k]) || ((k == 0) && (i + 1 == n) && (n > 3)))\n            continue;',['c08_inverse']),
]
only=sys.argv[1:] 
res=[]
for name,f,old,new,hs in M:
    if only and not any(name.startswith(o) for o in only): continue
    subprocess.check_call(['rsync','-a','--delete',BASE+'/',MUT+'/'])
    p=os.path.join(MUT,f); s=open(p).read()
    if s.count(old)!=1:
        res.append((name,'PATTERN-COUNT %d'%s.count(old))); print(res[-1],flush=True); continue
    s=s.replace(old,new)
    if name.startswith('pc10'):
        s=s.replace('      /// The component-wise inverted diagonal of _matrix\n      VectorType _inv_diag;','      /// The component-wise inverted diagonal of _matrix\n      VectorType _inv_diag;\n      bool _inv_done = false;',1)
    open(p,'w').write(s)
    # the Makefile tracks dependencies by mtime; rsync restored mtimes of base, the mutated file is newer
    for h in hs:
        b=subprocess.run(['make','-C','/verif','-j8','REPO='+MUT,'/verif/build/%s/bin/%s.plain'%(TAG,h)],capture_output=True,text=True)
        if b.returncode!=0:
            res.append((name,h,'BUILD-FAIL',b.stderr[-400:])); print(res[-1],flush=True); continue
        r=subprocess.run(['/verif/build/%s/bin/%s.plain'%(TAG,h),'--tier','quick','--jobs','8'],capture_output=True,text=True,env=dict(os.environ,VERIF_REPO=MUT),cwd='/verif')
        keys={}
        for m in re.finditer(r'key=(.*)',r.stdout): keys[m.group(1)]=keys.get(m.group(1),0)+1
        summ=[l for l in r.stdout.split('\n') if l.startswith('[')]
        res.append((name,h,'exit=%d'%r.returncode,sorted(keys.items()),summ[-1][:140] if summ else '')); print(res[-1],flush=True)
subprocess.check_call(['rsync','-a','--delete',BASE+'/',MUT+'/'])
