#!/usr/bin/env python3
# fresh mutants validating the additions made for the "lessons" task (history, re-invocation, views, derived objects, alphabets)
import subprocess, sys, os, re, shutil
M='/var/tmp/feat3-mut.c01c03'; T='43107320'
CSR='kernel/lafem/sparse_matrix_csr.hpp'
MUT=[
 ('L1 views: csr kernel zeroes rows+1 entries of r (writes one entry past the result)', [('kernel/lafem/arch/apply_generic.hpp', 'MemoryPool::set_memory(r, DT_(0), (transposed?columns:rows));', 'MemoryPool::set_memory(r, DT_(0), (transposed?columns:rows) + Index(1));', 0)], ['c01_apply_csr']),
 ('L2 history: hidden per-object flag set by apply_transposed makes apply(r,x) drop row 0', [(CSR, '      static constexpr bool is_global = false;', '      mutable bool _vf_flag = false;\n      static constexpr bool is_global = false;', 0),
    (CSR, '''        Arch::Apply::csr(r.elements(), DT_(1), x.elements(), DT_(0), r.elements(),
          this->val(), this->col_ind(), this->row_ptr(), this->rows(), this->columns(), this->used_elements(), true);''', '''        Arch::Apply::csr(r.elements(), DT_(1), x.elements(), DT_(0), r.elements(),
          this->val(), this->col_ind(), this->row_ptr(), this->rows(), this->columns(), this->used_elements(), true);
        _vf_flag = true;''', 0),
    (CSR, '''        Arch::Apply::csr(r.elements(), DT_(1), x.elements(), DT_(0), r.elements(),
            this->val(), this->col_ind(), this->row_ptr(), this->rows(), this->columns(), this->used_elements(), false);''', '''        Arch::Apply::csr(r.elements(), DT_(1), x.elements(), DT_(0), r.elements(),
            this->val(), this->col_ind(), this->row_ptr(), this->rows(), this->columns(), this->used_elements(), false);
        if(_vf_flag) r.elements()[0] = DT_(0);''', 0)], ['c01_apply_csr']),
 ('L3 re-invocation: hidden per-object call counter, second apply(r,x,y,alpha) on the same matrix scales with 2*alpha', [(CSR, '      static constexpr bool is_global = false;', '      mutable int _vf_calls = 0;\n      static constexpr bool is_global = false;', 0),
    (CSR, '''        Arch::Apply::csr(r.elements(), alpha, x.elements(), DT_(1.), y.elements(),
            this->val(), this->col_ind(), this->row_ptr(), this->rows(), this->columns(), this->used_elements(), false);''', '''        Arch::Apply::csr(r.elements(), (++_vf_calls > 1 ? DT_(2) * alpha : alpha), x.elements(), DT_(1.), y.elements(),
            this->val(), this->col_ind(), this->row_ptr(), this->rows(), this->columns(), this->used_elements(), false);''', 0)], ['c01_apply_csr']),
 ('L4 derived objects: weak clone copies one value too few', [('kernel/lafem/container.hpp', '''            MemoryPool::template copy<DT_>(this->_elements.at(i), other._elements.at(i), this->_elements_size.at(i));
          }

          return;
        }
      }''', '''            MemoryPool::template copy<DT_>(this->_elements.at(i), other._elements.at(i), this->_elements_size.at(i) > 1 ? this->_elements_size.at(i) - 1 : this->_elements_size.at(i));
            if(this->_elements_size.at(i) > 1) this->_elements.at(i)[this->_elements_size.at(i) - 1] = DT_(0);
          }

          return;
        }
      }''', 0)], ['c01_apply_csr', 'c01_apply_blk', 'c01_apply_meta', 'c03_algebra', 'c03_algebra_bcsr']),
 ('L5 extreme alphabet: csr kernel skips entries with |val| < eps', [('kernel/lafem/arch/apply_generic.hpp', '''              sum += val[i] * x[col_ind[i]];
            }
            r[row] = (sum * a) + (b * r[row]);
          }
        }
      }

      template <typename DT_, typename IT_>
      void Apply::cscr_generic''', '''              if(Math::abs(val[i]) < Math::eps<DT_>()) continue;
              sum += val[i] * x[col_ind[i]];
            }
            r[row] = (sum * a) + (b * r[row]);
          }
        }
      }

      template <typename DT_, typename IT_>
      void Apply::cscr_generic''', 0)], ['c01_apply_csr', 'c01_apply_meta']),
 ('L6 all-negative alphabet: MaxIndex starts from 0', [('kernel/lafem/arch/max_index_generic.hpp', 'DT_ max(x[0]);', 'DT_ max(0);', 0)], ['c03_algebra']),
 ('L7 extreme alphabet: MaxAbsIndex compares in float precision', [('kernel/lafem/arch/max_abs_index_generic.hpp', 'if (Math::abs(x[i]) > max)', 'if (float(Math::abs(x[i])) > float(max))', 0)], ['c03_algebra', 'c03_algebra_bcsr']),
 ('L8 bystander/derived: shrink clears the (possibly shared) row pointer array in place before replacing it', [(CSR, '        this->move(SparseMatrixCSR<DT_, IT_>(this->rows(), this->columns(), new_col_ind, new_val, new_row_ptr));\n      }\n\n', '        for (Index row(0) ; row <= this->rows() ; ++row) this->row_ptr()[row] = IT_(0);\n        this->move(SparseMatrixCSR<DT_, IT_>(this->rows(), this->columns(), new_col_ind, new_val, new_row_ptr));\n      }\n\n', 0)], ['c03_algebra']),
 ('L9 product re-invocation: hidden call counter, second add_double_mat_product on the same X uses alpha/2', [(CSR, '      static constexpr bool is_global = false;', '      mutable int _vf_prod = 0;\n      static constexpr bool is_global = false;', 0),
    (CSR, '              const DT_ omega = alpha *  data_d[ik] * data_a[kl];', '              const DT_ omega = (_vf_prod > 1 ? alpha / DT_(2) : alpha) *  data_d[ik] * data_a[kl];', 0),
    (CSR, '''        XASSERT(d.columns() == a.rows());
        XASSERT(a.columns() == b.rows());''', '''        XASSERT(d.columns() == a.rows()); ++_vf_prod;
        XASSERT(a.columns() == b.rows());''', 0)], ['c03_algebra']),
 ('L10 meta history: PowerRowMatrix native apply leaves a flag, later apply_transposed(native) skips the rest blocks', [('kernel/lafem/power_row_matrix.hpp', '      void apply(VectorTypeL& r, const VectorTypeR& x) const\n      {\n        first().apply(r, x.first());', '      void apply(VectorTypeL& r, const VectorTypeR& x) const\n      {\n        _vf_seen() = this;\n        first().apply(r, x.first());', 0),
    ('kernel/lafem/power_row_matrix.hpp', '      void apply_transposed(VectorTypeR& r, const VectorTypeL& x) const\n      {\n        first().apply_transposed(r.first(), x);\n        rest().apply_transposed(r.rest(), x);', '      static const void*& _vf_seen() { static const void* p = nullptr; return p; }\n      void apply_transposed(VectorTypeR& r, const VectorTypeL& x) const\n      {\n        first().apply_transposed(r.first(), x);\n        if(_vf_seen() == this) r.rest().format(); else\n        rest().apply_transposed(r.rest(), x);', 0)], ['c01_apply_meta']),
 ('L11 meta history: per-object flag set by PowerRowMatrix::apply(native) makes apply_transposed(native) drop the rest blocks', [('kernel/lafem/power_row_matrix.hpp', '      void apply(VectorTypeL& r, const VectorTypeR& x) const\n      {\n        first().apply(r, x.first());', '      mutable bool _vf_flag = false;\n      void apply(VectorTypeL& r, const VectorTypeR& x) const\n      {\n        _vf_flag = true;\n        first().apply(r, x.first());', 0),
    ('kernel/lafem/power_row_matrix.hpp', '      void apply_transposed(VectorTypeR& r, const VectorTypeL& x) const\n      {\n        first().apply_transposed(r.first(), x);\n        rest().apply_transposed(r.rest(), x);', '      void apply_transposed(VectorTypeR& r, const VectorTypeL& x) const\n      {\n        first().apply_transposed(r.first(), x);\n        if(_vf_flag) r.rest().format(); else\n        rest().apply_transposed(r.rest(), x);', 0)], ['c01_apply_meta']),
]
def sh(cmd): return subprocess.run(cmd, shell=True, capture_output=True, text=True)
only=sys.argv[1:]
for name,edits,hs in MUT:
    if only and not any(name.startswith(o+' ') for o in only): continue
    origs={}
    okk=True
    for f,old,new,occ in edits:
        path=os.path.join(M,f)
        if f not in origs: origs[f]=open(os.path.join('/repo',f)).read()
        src=open(path).read()
        if src.count(old)==0: print('MUTANT',name,': pattern not found in',f, repr(old[:60])); okk=False; break
        idx=-1
        for _ in range(occ+1): idx=src.index(old, idx+1)
        src=src[:idx]+new+src[idx+len(old):]
        open(path,'w').write(src)
    if okk:
        for h in hs:
            b=sh(f'make -C /verif -j8 REPO={M} /verif/build/{T}/bin/{h}.plain 2>&1 | grep -E "error" -A3 | head -8')
            if b.stdout.strip(): print('BUILD PROBLEM', name, b.stdout[:800]); continue
            r=sh(f'VERIF_REPO={M} /verif/build/{T}/bin/{h}.plain --tier quick --jobs 12 2>&1')
            out=r.stdout
            summ=[l for l in out.splitlines() if l.startswith('[C0')]
            keys=sorted(set(re.findall(r'key=(.*)', out)))
            keys=[k for k in keys if not k.startswith('entry-free')]
            print(f'MUTANT {name} | {h} | {"CAUGHT" if summ and "violations=0 " not in summ[0] else "MISSED"} | {summ[0][:160] if summ else out[-300:]} | keys: {keys[:8]}', flush=True)
    for f,o in origs.items(): open(os.path.join(M,f),'w').write(o)
shutil.rmtree('/verif/replays/C01', ignore_errors=True); shutil.rmtree('/verif/replays/C03', ignore_errors=True)
print('done')
