#!/usr/bin/env python3
"""register a check in checks.json:  tools_reg.py Cxx level engine 'harness.variant,harness.variant[!thorough]' design_ref <<< JSON{"technique","level_text","level_note"}"""
import json,sys
pid,level,engine,hs,dref=sys.argv[1:6]
t=json.load(sys.stdin)
c=json.load(open('/verif/checks.json'))
H=[]
for h in hs.split(','):
    to=h.endswith('!thorough'); h=h.replace('!thorough','')
    bo=h.endswith('!build'); h=h.replace('!build','')
    n,v=h.rsplit('.',1)
    d={"name":n,"variant":v}
    if to: d["thorough_only"]=True
    if bo: d["build_only"]=True
    H.append(d)
c['checks'][pid]={"harnesses":H,"level":level,"engine":engine,"technique":t["technique"],"design_ref":dref,"level_text":t["level_text"],"level_note":t["level_note"]}
json.dump(c,open('/verif/checks.json','w'),indent=1)
print("registered",pid,[h["name"]+"."+h["variant"] for h in H])
