// vsched.cpp -- scheduler core (see vsched.h). This TU is always compiled without sanitizer instrumentation.
#include "vsched.h"

#include <atomic>
#include <cerrno>
#include <climits>
#include <cstdio>
#include <cstdlib>
#include <cstring>
#include <dlfcn.h>
#include <linux/futex.h>
#include <pthread.h>
#include <string>
#include <sys/syscall.h>
#include <unistd.h>

namespace
{
  enum TState { T_UNUSED = 0, T_RUNNABLE, T_WAIT_MUTEX, T_WAIT_COND, T_WAIT_JOIN, T_FINISHED, T_WAIT_PRED, T_WAIT_QUIESCE };

  struct Thr
  {
    TState st;
    int obj;          // mutex index / cond index / thread id it waits for
    int cond_mutex;   // mutex to re-acquire after a condition wait
    std::atomic<int> turn;
    pthread_t real;
    uint64_t trace;   // rolling hash of the thread's own operation sequence (condition waits excluded, see vs_op_cond_wait)
    int woken;        // 1 between the return from a condition wait and the thread's next traced operation
    void* (*fn)(void*);
    void* arg;
    int (*pred)(void*);   // T_WAIT_PRED
    void* pred_ctx;
    int pred_tag;
  };
  struct Mtx { void* native; int id; int owner; };
  struct Cnd { void* native; int id; };

  const int MAXM = 128;
  Thr T[VS_MAXT];
  int nT = 0;
  Mtx M[MAXM];
  int nM = 0;
  Cnd C[MAXM];
  int nC = 0;
  std::atomic<int> g_active{0};
  int g_cur = -1;

  std::vector<int> g_prefix;
  size_t g_pos = 0;
  bool g_diverged = false;
  bool g_allow_spurious = false;
  int g_preempt = 0, g_spurious = 0;
  bool g_record_events = false;
  std::vector<vsched::Decision> g_dec;
  std::vector<vsched::Event> g_ev;
  uint64_t (*g_state_cb)(void*) = nullptr;
  void* g_state_ctx = nullptr;
  void (*g_dead_cb)(void*) = nullptr;
  void* g_dead_ctx = nullptr;
  std::string g_blocked;

  thread_local int tl_id = -1;

  typedef int (*create_t)(pthread_t*, const pthread_attr_t*, void* (*)(void*), void*);
  typedef int (*join_t)(pthread_t, void**);
  create_t real_create = nullptr;
  join_t real_join = nullptr;

  inline uint64_t mix(uint64_t h, uint64_t v)
  {
    h ^= v + 0x9e3779b97f4a7c15ull + (h << 6) + (h >> 2);
    h *= 0xff51afd7ed558ccdull;
    h ^= h >> 29;
    return h;
  }

  void futex_wait(std::atomic<int>* a, int val) { syscall(SYS_futex, reinterpret_cast<int*>(a), FUTEX_WAIT_PRIVATE, val, nullptr, nullptr, 0); }
  void futex_wake(std::atomic<int>* a) { syscall(SYS_futex, reinterpret_cast<int*>(a), FUTEX_WAKE_PRIVATE, INT_MAX, nullptr, nullptr, 0); }

  void wait_turn(int self)
  {
    while(T[self].turn.load(std::memory_order_acquire) == 0)
      futex_wait(&T[self].turn, 0);
    T[self].turn.store(0, std::memory_order_relaxed);
  }
  void handoff(int t)
  {
    T[t].turn.store(1, std::memory_order_release);
    futex_wake(&T[t].turn);
  }

  void ev(int thread, int kind, long a, long b = 0)
  {
    if(g_record_events) g_ev.push_back(vsched::Event{thread, kind, a, b});
  }
  void trace(int self, int kind, long a, long b = 0)
  {
    T[self].trace = mix(mix(mix(T[self].trace, (uint64_t)kind), (uint64_t)a), (uint64_t)b);
    T[self].woken = 0;
    ev(self, kind, a, b);
  }

  int mutex_index(void* m)
  {
    for(int i = 0; i < nM; ++i) if(M[i].native == m) return i;
    if(nM >= MAXM) { fprintf(stderr, "vsched: too many mutexes\n"); _exit(98); }
    M[nM].native = m; M[nM].id = 1000 + nM; M[nM].owner = -1;
    return nM++;
  }
  int cond_index(void* c)
  {
    for(int i = 0; i < nC; ++i) if(C[i].native == c) return i;
    if(nC >= MAXM) { fprintf(stderr, "vsched: too many condition variables\n"); _exit(98); }
    C[nC].native = c; C[nC].id = 1000 + nC;
    return nC++;
  }

  bool enabled_basic(int t)
  {
    switch(T[t].st)
    {
    case T_RUNNABLE: return true;
    case T_WAIT_MUTEX: return M[T[t].obj].owner == -1;
    case T_WAIT_JOIN: return T[T[t].obj].st == T_FINISHED;
    case T_WAIT_PRED: return T[t].pred(T[t].pred_ctx) != 0;
    default: return false;
    }
  }
  bool enabled(int t)
  {
    if(T[t].st == T_WAIT_QUIESCE)
    {
      // enabled iff nobody else can make progress (other quiescence waiters do not count)
      for(int u = 0; u < nT; ++u)
        if(u != t && T[u].st != T_WAIT_QUIESCE && enabled_basic(u)) return false;
      return true;
    }
    return enabled_basic(t);
  }

  uint64_t state_hash(int cur)
  {
    uint64_t h = 0x1234567ull;
    h = mix(h, (uint64_t)(cur + 1));
    h = mix(h, (uint64_t)nT);
    for(int t = 0; t < nT; ++t)
    {
      h = mix(h, (uint64_t)T[t].st);
      // objects are identified by their stable ids, never by address
      uint64_t o = 0;
      if(T[t].st == T_WAIT_MUTEX) o = (uint64_t)M[T[t].obj].id;
      else if(T[t].st == T_WAIT_COND) o = (uint64_t)C[T[t].obj].id * 4096u + (uint64_t)M[T[t].cond_mutex].id;
      else if(T[t].st == T_WAIT_JOIN) o = (uint64_t)T[t].obj;
      else if(T[t].st == T_WAIT_PRED) o = (uint64_t)T[t].pred_tag;
      h = mix(h, o);
      h = mix(h, T[t].trace);
      h = mix(h, (uint64_t)T[t].woken);
    }
    // mutex owners, ordered by stable id (registered ones first in registration order)
    for(int i = 0; i < nM; ++i)
    {
      if(M[i].owner != -1) { h = mix(h, (uint64_t)M[i].id); h = mix(h, (uint64_t)M[i].owner + 7u); }
    }
    if(g_state_cb) h = mix(h, g_state_cb(g_state_ctx));
    return h;
  }

  void build_blocked_graph()
  {
    g_blocked.clear();
    char b[160];
    for(int t = 0; t < nT; ++t)
    {
      const char* s = "?";
      long o = -1, o2 = -1;
      switch(T[t].st)
      {
      case T_RUNNABLE: s = "runnable"; break;
      case T_WAIT_MUTEX: s = "waits-mutex"; o = M[T[t].obj].id; o2 = M[T[t].obj].owner; break;
      case T_WAIT_COND: s = "waits-cond"; o = C[T[t].obj].id; break;
      case T_WAIT_JOIN: s = "waits-join"; o = T[t].obj; break;
      case T_FINISHED: s = "finished"; break;
      case T_WAIT_PRED: s = "waits-until"; o = T[t].pred_tag; break;
      case T_WAIT_QUIESCE: s = "waits-quiescence"; break;
      default: break;
      }
      snprintf(b, sizeof b, "T%d:%s(%ld%s%ld) ", t, s, o, o2 >= 0 ? " owner " : "/", o2);
      g_blocked += b;
    }
  }

  /// The scheduling decision. Called by the running thread 'self' after it has updated its own state
  /// (still RUNNABLE at a plain scheduling point; WAIT_* if it is about to block; FINISHED at its end).
  /// Returns when 'self' has been chosen to run again (never for a finished thread).
  void reschedule(int self)
  {
    int opt_t[2 * VS_MAXT], opt_k[2 * VS_MAXT];
    int n = 0;
    const bool cur_en = (T[self].st != T_FINISHED) && enabled(self);
    if(cur_en) { opt_t[n] = self; opt_k[n] = vsched::opt_thread; ++n; }
    for(int t = 0; t < nT; ++t)
      if(t != self && enabled(t)) { opt_t[n] = t; opt_k[n] = vsched::opt_thread; ++n; }
    if(g_allow_spurious)
    {
      for(int t = 0; t < nT; ++t)
        if(T[t].st == T_WAIT_COND && M[T[t].cond_mutex].owner == -1) { opt_t[n] = t; opt_k[n] = vsched::opt_spurious; ++n; }
    }
    // without any *thread* option nothing can run (a spurious wake-up alone is not progress we may rely on)
    int nthread_opts = 0;
    for(int i = 0; i < n; ++i) if(opt_k[i] == vsched::opt_thread) ++nthread_opts;
    if(nthread_opts == 0)
    {
      build_blocked_graph();
      if(g_dead_cb) g_dead_cb(g_dead_ctx);
      fprintf(stderr, "vsched: deadlock: %s\n", g_blocked.c_str());
      _exit(97);
    }
    int choice = 0;
    if(n >= 2)
    {
      if(g_pos < g_prefix.size())
      {
        choice = g_prefix[g_pos];
        if(choice < 0 || choice >= n) { g_diverged = true; choice = 0; }
      }
      ++g_pos;
      vsched::Decision d;
      d.nopts = n; d.chosen = choice; d.cur = cur_en ? self : -1; d.cur_enabled = cur_en ? 1 : 0;
      for(int i = 0; i < n; ++i) { d.opt_thread[i] = opt_t[i]; d.opt_kind[i] = opt_k[i]; }
      d.preempt_before = g_preempt; d.spurious_before = g_spurious;
      d.state = state_hash(cur_en ? self : -1);
      g_dec.push_back(d);
      if(cur_en && choice != 0) ++g_preempt;
      if(opt_k[choice] == vsched::opt_spurious) ++g_spurious;
    }
    const int target = opt_t[choice];
    if(opt_k[choice] == vsched::opt_spurious)
    {
      // the waiter returns from its wait without a notification: it now competes for its mutex (which is free)
      T[target].st = T_WAIT_MUTEX;
      T[target].obj = T[target].cond_mutex;
      ev(target, vsched::ev_spurious, C[0].id);
    }
    g_cur = target;
    if(target != self)
    {
      handoff(target);
      if(T[self].st != T_FINISHED)
        wait_turn(self);
    }
  }

  void* trampoline(void* p)
  {
    const int id = (int)(long)p;
    tl_id = id;
    wait_turn(id);
    void* r = T[id].fn(T[id].arg);
    T[id].st = T_FINISHED;
    trace(id, vsched::ev_finish, 0);
    reschedule(id);
    return r;
  }

  void resolve_real()
  {
    if(!real_create)
    {
      real_create = (create_t)dlsym(RTLD_NEXT, "pthread_create");
      real_join = (join_t)dlsym(RTLD_NEXT, "pthread_join");
      if(!real_create || !real_join) { fprintf(stderr, "vsched: cannot resolve real pthread functions\n"); _exit(98); }
    }
  }
} // namespace

// ------------------------------------------------------------------------------------------------
// operations called by the interposers (vsched_pthread.cpp); all require an active, managed caller
// ------------------------------------------------------------------------------------------------
extern "C" int vs_managed(void) { return (g_active.load(std::memory_order_relaxed) != 0 && tl_id >= 0) ? 1 : 0; }

extern "C" int vs_op_mutex_lock(void* m)
{
  const int self = tl_id;
  const int mi = mutex_index(m);
  trace(self, vsched::ev_lock, M[mi].id);
  T[self].st = T_WAIT_MUTEX;
  T[self].obj = mi;
  reschedule(self);               // scheduling point + blocking in one: enabled iff the mutex is free
  if(M[mi].owner != -1) { fprintf(stderr, "vsched: internal error: mutex not free on resume\n"); _exit(98); }
  M[mi].owner = self;
  T[self].st = T_RUNNABLE;
  return 0;
}

extern "C" int vs_op_mutex_trylock(void* m)
{
  const int self = tl_id;
  const int mi = mutex_index(m);
  trace(self, vsched::ev_trylock, M[mi].id);
  reschedule(self);
  if(M[mi].owner != -1) return EBUSY;
  M[mi].owner = self;
  return 0;
}

extern "C" int vs_op_mutex_unlock(void* m)
{
  const int self = tl_id;
  const int mi = mutex_index(m);
  trace(self, vsched::ev_unlock, M[mi].id);
  if(M[mi].owner != self) { fprintf(stderr, "vsched: unlock of a mutex not owned by the caller (T%d, mutex %d owner %d)\n", self, M[mi].id, M[mi].owner); _exit(98); }
  M[mi].owner = -1;
  return 0;
}

extern "C" int vs_op_cond_wait(void* c, void* m)
{
  const int self = tl_id;
  const int ci = cond_index(c);
  const int mi = mutex_index(m);
  // Whether (and how often) a thread had to wait inside a 'while(!pred) wait' loop is not part of its
  // program position: a thread that returns from the wait is in the same situation as one that is about
  // to acquire the mutex for the first time, except that it has not re-checked the predicate yet -- that
  // difference is kept in the transient 'woken' flag. The wait is therefore logged but not hashed.
  ev(self, vsched::ev_wait, C[ci].id, M[mi].id);
  if(M[mi].owner != self) { fprintf(stderr, "vsched: cond_wait with a mutex not owned by the caller\n"); _exit(98); }
  M[mi].owner = -1;
  T[self].st = T_WAIT_COND;
  T[self].obj = ci;
  T[self].cond_mutex = mi;
  reschedule(self);
  // resumed: we were notified (or spuriously woken) and the mutex is free
  if(T[self].st != T_WAIT_MUTEX || M[mi].owner != -1) { fprintf(stderr, "vsched: internal error: bad state on wake\n"); _exit(98); }
  M[mi].owner = self;
  T[self].st = T_RUNNABLE;
  T[self].woken = 1;
  ev(self, vsched::ev_wake, C[ci].id);
  return 0;
}

extern "C" int vs_op_cond_broadcast(void* c)
{
  const int self = tl_id;
  const int ci = cond_index(c);
  trace(self, vsched::ev_bcast, C[ci].id);
  for(int t = 0; t < nT; ++t)
    if(T[t].st == T_WAIT_COND && T[t].obj == ci) { T[t].st = T_WAIT_MUTEX; T[t].obj = T[t].cond_mutex; }
  return 0;
}

extern "C" int vs_op_cond_signal(void* c)
{
  // deterministic model: the waiter with the lowest id is woken (FEAT only uses notify_all)
  const int self = tl_id;
  const int ci = cond_index(c);
  trace(self, vsched::ev_bcast, C[ci].id, 1);
  for(int t = 0; t < nT; ++t)
    if(T[t].st == T_WAIT_COND && T[t].obj == ci) { T[t].st = T_WAIT_MUTEX; T[t].obj = T[t].cond_mutex; break; }
  return 0;
}

extern "C" int vs_op_create(pthread_t* th, const pthread_attr_t* attr, void* (*fn)(void*), void* arg)
{
  const int self = tl_id;
  resolve_real();
  if(nT >= VS_MAXT) { fprintf(stderr, "vsched: too many threads\n"); _exit(98); }
  const int id = nT;
  T[id].st = T_RUNNABLE; T[id].obj = -1; T[id].cond_mutex = -1; T[id].turn.store(0); T[id].trace = (uint64_t)id * 7919u + 13u; T[id].woken = 0;
  T[id].fn = fn; T[id].arg = arg;
  ++nT;
  int rc = real_create(&T[id].real, attr, trampoline, (void*)(long)id);
  if(rc != 0) { fprintf(stderr, "vsched: pthread_create failed\n"); _exit(98); }
  *th = T[id].real;
  trace(self, vsched::ev_create, id);
  reschedule(self);
  return 0;
}

extern "C" int vs_op_join(pthread_t th, void** ret)
{
  const int self = tl_id;
  resolve_real();
  int id = -1;
  for(int t = 1; t < nT; ++t) if(pthread_equal(T[t].real, th)) id = t;
  if(id < 0) return real_join(th, ret);
  trace(self, vsched::ev_join, id);
  T[self].st = T_WAIT_JOIN;
  T[self].obj = id;
  reschedule(self);
  T[self].st = T_RUNNABLE;
  return real_join(th, ret);
}

extern "C" void vs_point(int tag, long arg)
{
  if(!vs_managed()) return;
  const int self = tl_id;
  trace(self, vsched::ev_point, tag, arg);
  reschedule(self);
}

extern "C" void vs_wait_until(int (*pred)(void*), void* ctx, int tag)
{
  if(!vs_managed())
  {
    if(!pred(ctx)) { fprintf(stderr, "vsched: vs_wait_until outside the scheduler with a false predicate\n"); _exit(98); }
    return;
  }
  const int self = tl_id;
  trace(self, vsched::ev_until, tag);
  T[self].st = T_WAIT_PRED; T[self].pred = pred; T[self].pred_ctx = ctx; T[self].pred_tag = tag;
  reschedule(self);
  T[self].st = T_RUNNABLE;
}

extern "C" void vs_wait_quiescent(int tag)
{
  if(!vs_managed()) return;
  const int self = tl_id;
  trace(self, vsched::ev_quiesce, tag);
  T[self].st = T_WAIT_QUIESCE;
  reschedule(self);
  T[self].st = T_RUNNABLE;
}

extern "C" int vs_choose(int n, int tag)
{
  if(n <= 1 || !vs_managed()) return 0;
  const int self = tl_id;
  if(n > 2 * VS_MAXT) { fprintf(stderr, "vsched: vs_choose with too many options\n"); _exit(98); }
  int choice = 0;
  if(g_pos < g_prefix.size())
  {
    choice = g_prefix[g_pos];
    if(choice < 0 || choice >= n) { g_diverged = true; choice = 0; }
  }
  ++g_pos;
  vsched::Decision d;
  d.nopts = n; d.chosen = choice; d.cur = self; d.cur_enabled = 1;
  for(int i = 0; i < n; ++i) { d.opt_thread[i] = self; d.opt_kind[i] = vsched::opt_value; }
  d.preempt_before = g_preempt; d.spurious_before = g_spurious;
  d.state = mix(state_hash(self), (uint64_t)tag * 1315423911u + (uint64_t)n);
  g_dec.push_back(d);
  if(choice != 0) ++g_preempt;
  trace(self, vsched::ev_choose, tag, choice);
  return choice;
}

extern "C" int vs_self(void) { return vs_managed() ? tl_id : -1; }
extern "C" int vs_active(void) { return g_active.load(std::memory_order_relaxed); }

// ------------------------------------------------------------------------------------------------
namespace vsched
{
  void register_mutex(void* native, int id)
  {
    int i = mutex_index(native);
    M[i].id = id;
  }
  void register_cond(void* native, int id)
  {
    int i = cond_index(native);
    C[i].id = id;
  }
  void set_state_cb(uint64_t (*cb)(void*), void* ctx) { g_state_cb = cb; g_state_ctx = ctx; }
  void set_deadlock_cb(void (*cb)(void*), void* ctx) { g_dead_cb = cb; g_dead_ctx = ctx; }

  void reset(const std::vector<int>& prefix, bool allow_spurious)
  {
    if(g_active.load()) { fprintf(stderr, "vsched: reset while active\n"); _exit(98); }
    g_prefix = prefix; g_pos = 0; g_diverged = false; g_allow_spurious = allow_spurious;
    g_preempt = g_spurious = 0;
    g_dec.clear(); g_ev.clear();
    nT = 0; nM = 0; nC = 0; g_cur = -1;
  }

  void begin()
  {
    resolve_real();
    tl_id = 0;
    T[0].st = T_RUNNABLE; T[0].obj = -1; T[0].cond_mutex = -1; T[0].turn.store(0); T[0].trace = 13u; T[0].woken = 0; T[0].fn = nullptr; T[0].arg = nullptr;
    nT = 1;
    g_cur = 0;
    g_active.store(1);
  }

  void end()
  {
    for(int t = 1; t < nT; ++t)
      if(T[t].st != T_FINISHED) { fprintf(stderr, "vsched: end() while thread %d is unfinished\n", t); _exit(98); }
    g_active.store(0);
    tl_id = -1;
  }

  const std::vector<Decision>& decisions() { return g_dec; }
  const std::vector<Event>& events() { return g_ev; }
  bool diverged() { return g_diverged || g_pos < g_prefix.size(); }
  const char* blocked_graph() { return g_blocked.c_str(); }
  int num_threads() { return nT; }
  void record_events(bool on) { g_record_events = on; }
}
