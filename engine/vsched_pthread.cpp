// vsched_pthread.cpp -- link-time interposition of the pthread operations used by the code under test.
// Defining these symbols in the executable makes both the harness and libstdc++.so (std::thread,
// std::mutex, std::condition_variable) call them. While the scheduler is inactive, or for threads it
// does not manage, every call is forwarded to the real implementation (dlsym RTLD_NEXT).
#include <dlfcn.h>
#include <pthread.h>
#include <cstdio>
#include <cstdlib>
#include <unistd.h>

extern "C" {
  int vs_managed(void);
  int vs_op_mutex_lock(void*);
  int vs_op_mutex_trylock(void*);
  int vs_op_mutex_unlock(void*);
  int vs_op_cond_wait(void*, void*);
  int vs_op_cond_broadcast(void*);
  int vs_op_cond_signal(void*);
  int vs_op_create(pthread_t*, const pthread_attr_t*, void* (*)(void*), void*);
  int vs_op_join(pthread_t, void**);
}

namespace
{
  template<typename F> F real(const char* name)
  {
    void* p = dlsym(RTLD_NEXT, name);
    if(!p) { fprintf(stderr, "vsched: cannot resolve %s\n", name); _exit(98); }
    return reinterpret_cast<F>(p);
  }
}

#define REAL(name, ...) using fn_t = __VA_ARGS__; static fn_t r = nullptr; if(!r) r = real<fn_t>(name)

extern "C" int pthread_mutex_lock(pthread_mutex_t* m)
{
  if(vs_managed()) return vs_op_mutex_lock(m);
  REAL("pthread_mutex_lock", int (*)(pthread_mutex_t*));
  return r(m);
}
extern "C" int pthread_mutex_trylock(pthread_mutex_t* m)
{
  if(vs_managed()) return vs_op_mutex_trylock(m);
  REAL("pthread_mutex_trylock", int (*)(pthread_mutex_t*));
  return r(m);
}
extern "C" int pthread_mutex_unlock(pthread_mutex_t* m)
{
  if(vs_managed()) return vs_op_mutex_unlock(m);
  REAL("pthread_mutex_unlock", int (*)(pthread_mutex_t*));
  return r(m);
}
extern "C" int pthread_cond_wait(pthread_cond_t* c, pthread_mutex_t* m)
{
  if(vs_managed()) return vs_op_cond_wait(c, m);
  REAL("pthread_cond_wait", int (*)(pthread_cond_t*, pthread_mutex_t*));
  return r(c, m);
}
extern "C" int pthread_cond_broadcast(pthread_cond_t* c)
{
  if(vs_managed()) return vs_op_cond_broadcast(c);
  REAL("pthread_cond_broadcast", int (*)(pthread_cond_t*));
  return r(c);
}
extern "C" int pthread_cond_signal(pthread_cond_t* c)
{
  if(vs_managed()) return vs_op_cond_signal(c);
  REAL("pthread_cond_signal", int (*)(pthread_cond_t*));
  return r(c);
}
extern "C" int pthread_cond_timedwait(pthread_cond_t* c, pthread_mutex_t* m, const struct timespec* ts)
{
  if(vs_managed()) { fprintf(stderr, "vsched: pthread_cond_timedwait is not modelled\n"); _exit(98); }
  REAL("pthread_cond_timedwait", int (*)(pthread_cond_t*, pthread_mutex_t*, const struct timespec*));
  return r(c, m, ts);
}
extern "C" int pthread_cond_clockwait(pthread_cond_t* c, pthread_mutex_t* m, clockid_t clk, const struct timespec* ts)
{
  if(vs_managed()) { fprintf(stderr, "vsched: pthread_cond_clockwait is not modelled\n"); _exit(98); }
  REAL("pthread_cond_clockwait", int (*)(pthread_cond_t*, pthread_mutex_t*, clockid_t, const struct timespec*));
  return r(c, m, clk, ts);
}
extern "C" int pthread_create(pthread_t* t, const pthread_attr_t* a, void* (*fn)(void*), void* arg)
{
  if(vs_managed()) return vs_op_create(t, a, fn, arg);
  REAL("pthread_create", int (*)(pthread_t*, const pthread_attr_t*, void* (*)(void*), void*));
  return r(t, a, fn, arg);
}
extern "C" int pthread_join(pthread_t t, void** ret)
{
  if(vs_managed()) return vs_op_join(t, ret);
  REAL("pthread_join", int (*)(pthread_t, void**));
  return r(t, ret);
}
