#!/usr/bin/env python3
"""Generate feat_config.hpp from <repo>/feat_config.hpp.in the way cmake would for the baseline build
(no third-party libraries, no debug mode), except that OpenMP and MPI are switched by the compiler
flags -DVERIF_WITH_OMP / -DVERIF_WITH_MPI / -DVERIF_MPI_THREAD_MULTIPLE of the harness variant."""
import re, sys
repo, out = sys.argv[1], sys.argv[2]
src = open(repo + "/feat_config.hpp.in").read()
switch = {"FEAT_HAVE_OMP": "VERIF_WITH_OMP", "FEAT_HAVE_MPI": "VERIF_WITH_MPI",
          "FEAT_MPI_THREAD_MULTIPLE": "VERIF_MPI_THREAD_MULTIPLE", "FEAT_DEBUG_MODE": "VERIF_DEBUG_MODE"}
vals = {"FEAT_SOURCE_DIR": repo, "FEAT_BINARY_DIR": "/verif/build", "CMAKE_CXX_COMPILER_ID": "GNU",
        "CMAKE_CXX_COMPILER_VERSION": "12.2.0", "CMAKE_VERSION": "0", "CMAKE_GENERATOR": "make",
        "FEAT_HOSTNAME": "verif", "FEAT_GIT_SHA1": "worktree"}
def cmdef(m):
    name = m.group(1)
    if name in switch:
        return "#ifdef %s\n#define %s\n#endif" % (switch[name], name)
    return "/* #undef %s */" % name
src = re.sub(r"#cmakedefine\s+(\w+).*", cmdef, src)
src = re.sub(r"[@$]\{?(\w+)\}?@?", lambda m: vals.get(m.group(1), "") if (m.group(0).startswith("@") or m.group(0).startswith("${")) else m.group(0), src)
open(out, "w").write(src)
