// explore.hpp -- stateless depth-first exploration of schedules with iterative deviation bounding
// (CHESS-style preemption bounding) and visited-state pruning, on top of vsched.
#pragma once
#include "vsched.h"
#include <cstdint>
#include <functional>
#include <string>
#include <unordered_map>
#include <vector>

namespace vsched
{
  struct ExploreStats
  {
    uint64_t executions = 0;       // complete executions run
    uint64_t decisions = 0;        // decision points passed (with >= 2 options)
    uint64_t states = 0;           // distinct (state, deviations-used) pairs expanded
    uint64_t transitions = 0;      // alternatives scheduled for exploration + default steps
    uint64_t pruned = 0;           // executions whose expansion was cut at a dominated state
    uint64_t max_decisions = 0;
    bool capped = false;
  };

  /// run_one(prefix) must execute the system under test once under vsched::reset(prefix)/begin/end
  /// and return false if the oracle failed (then exploration stops and 'failing' holds the schedule).
  class Explorer
  {
  public:
    int preempt_bound = 0;
    int spurious_bound = 0;
    uint64_t max_executions = 0;    // 0 = unlimited
    std::function<bool()> stop;     // polled every 256 executions; true = stop (stats.capped is set)
    ExploreStats stats;
    std::vector<int> failing;
    // key: state hash -> packed best (preempt, spurious) seen when expanded
    std::unordered_map<uint64_t, std::vector<std::pair<int,int>>> visited;

    bool dominated(uint64_t st, int p, int s)
    {
      auto it = visited.find(st);
      if(it == visited.end()) return false;
      for(auto& x : it->second) if(x.first <= p && x.second <= s) return true;
      return false;
    }
    void remember(uint64_t st, int p, int s)
    {
      auto& v = visited[st];
      for(auto& x : v) if(x.first <= p && x.second <= s) return;
      v.push_back(std::make_pair(p, s));
      ++stats.states;
    }

    /// returns true if no execution failed
    bool explore(const std::function<bool(const std::vector<int>&)>& run_one)
    {
      std::vector<std::vector<int>> stack;
      stack.push_back(std::vector<int>());
      while(!stack.empty())
      {
        std::vector<int> prefix = std::move(stack.back());
        stack.pop_back();
        if(max_executions && stats.executions >= max_executions) { stats.capped = true; return true; }
        if(stop && (stats.executions & 255u) == 255u && stop()) { stats.capped = true; return true; }
        const bool ok = run_one(prefix);
        ++stats.executions;
        const std::vector<Decision>& dec = decisions();
        stats.decisions += dec.size();
        if(dec.size() > stats.max_decisions) stats.max_decisions = dec.size();
        if(!ok)
        {
          failing.clear();
          for(auto& d : dec) failing.push_back(d.chosen);
          return false;
        }
        // expand alternatives at every decision after the prefix, until a dominated state is met
        for(size_t i = prefix.size(); i < dec.size(); ++i)
        {
          const Decision& d = dec[i];
          if(dominated(d.state, d.preempt_before, d.spurious_before)) { ++stats.pruned; break; }
          remember(d.state, d.preempt_before, d.spurious_before);
          ++stats.transitions; // the default step
          for(int alt = 1; alt < d.nopts; ++alt)
          {
            int p = d.preempt_before + (d.cur_enabled ? 1 : 0);
            int s = d.spurious_before + (d.opt_kind[alt] == opt_spurious ? 1 : 0);
            if(p > preempt_bound || s > spurious_bound) continue;
            std::vector<int> np;
            np.reserve(i + 1);
            for(size_t k = 0; k < i; ++k) np.push_back(dec[k].chosen);
            np.push_back(alt);
            stack.push_back(std::move(np));
            ++stats.transitions;
          }
        }
      }
      return true;
    }
  };

  inline std::string schedule_to_string(const std::vector<int>& s)
  {
    std::string o;
    for(size_t i = 0; i < s.size(); ++i) { if(i) o += ","; o += std::to_string(s[i]); }
    return o;
  }
  inline std::vector<int> schedule_from_string(const std::string& s)
  {
    std::vector<int> v;
    size_t a = 0;
    while(a < s.size())
    {
      size_t b = s.find(',', a);
      if(b == std::string::npos) b = s.size();
      if(b > a) v.push_back(atoi(s.substr(a, b - a).c_str()));
      a = b + 1;
    }
    return v;
  }
}
