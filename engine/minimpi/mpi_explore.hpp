// mpi_explore.hpp -- exploration of the environment nondeterminism of minimpi (the vs_choose answers of
// MPI_Waitany & co.) on top of vsched. Thread decisions (which rank runs next) always take the default:
// between two MPI calls ranks share nothing and MPI matching is deterministic, and every Waitany answer set is
// computed after maximal progress of all other ranks (DESIGN.md 2.2), so the rank interleaving does not
// influence any rank-visible value. (c13_minimpi_selftest validates this claim on the model itself by running
// the point-to-point tests under the full vsched::Explorer as well.)
#pragma once
#include "../vsched.h"
#include <cstdint>
#include <functional>
#include <unordered_set>
#include <vector>

namespace minimpi
{
  struct ExploreStats
  {
    uint64_t executions = 0;        // complete executions
    uint64_t value_decisions = 0;   // environment decision points passed (>= 2 answers)
    uint64_t thread_decisions = 0;  // scheduler decision points passed (always default)
    uint64_t transitions = 0;       // answers scheduled for exploration + default steps
    uint64_t states = 0;            // distinct scheduler states at environment decision points
    uint64_t max_options = 0;
    uint64_t max_value_decisions = 0;
    bool capped = false;
  };

  class Explorer
  {
  public:
    int deviation_bound = -1;       // maximal number of non-default answers per execution; -1 = unlimited (full product)
    uint64_t max_executions = 0;    // 0 = unlimited
    std::function<bool()> stop;
    ExploreStats stats;
    std::vector<int> failing;
    std::unordered_set<uint64_t> seen;

    /// run_one(prefix) executes the system once under vsched::reset(prefix, false) and returns false on an oracle failure
    bool explore(const std::function<bool(const std::vector<int>&)>& run_one)
    {
      std::vector<std::vector<int>> stack;
      stack.push_back(std::vector<int>());
      while(!stack.empty())
      {
        std::vector<int> prefix = std::move(stack.back());
        stack.pop_back();
        if(max_executions && stats.executions >= max_executions) { stats.capped = true; return true; }
        if(stop && (stats.executions & 15u) == 15u && stop()) { stats.capped = true; return true; }
        const bool ok = run_one(prefix);
        ++stats.executions;
        const std::vector<vsched::Decision>& dec = vsched::decisions();
        if(!ok)
        {
          failing.clear();
          for(auto& d : dec) failing.push_back(d.chosen);
          return false;
        }
        int devs = 0;
        uint64_t nval = 0;
        for(size_t i = 0; i < dec.size(); ++i)
        {
          const vsched::Decision& d = dec[i];
          const bool is_value = (d.opt_kind[0] == vsched::opt_value);
          if(i >= prefix.size())
          {
            if(is_value)
            {
              ++stats.value_decisions; ++stats.transitions;
              if(uint64_t(d.nopts) > stats.max_options) stats.max_options = uint64_t(d.nopts);
              if(seen.insert(d.state).second) ++stats.states;
              if(deviation_bound < 0 || devs + 1 <= deviation_bound)
              {
                for(int alt = 1; alt < d.nopts; ++alt)
                {
                  std::vector<int> np;
                  np.reserve(i + 1);
                  for(size_t k = 0; k < i; ++k) np.push_back(dec[k].chosen);
                  np.push_back(alt);
                  stack.push_back(std::move(np));
                  ++stats.transitions;
                }
              }
            }
            else ++stats.thread_decisions;
          }
          if(is_value) { ++nval; if(d.chosen != 0) ++devs; }
        }
        if(nval > stats.max_value_decisions) stats.max_value_decisions = nval;
      }
      return true;
    }
  };
}
