// minimpi.cpp -- in-process MPI environment model on top of vsched (see mpi.h and DESIGN.md 2.2).
//
// Only one managed thread runs at a time and thread switches happen only inside vsched operations, so no
// locking is needed here. Every blocking MPI call blocks through vs_wait_until / vs_wait_quiescent.
#include "mpi.h"
#include "../vsched.h"

#include <algorithm>
#include <cstdarg>
#include <cstdint>
#include <cstdio>
#include <cstdlib>
#include <cstring>
#include <map>
#include <string>
#include <thread>
#include <utility>
#include <vector>
#include <fcntl.h>
#include <sys/stat.h>
#include <unistd.h>

namespace
{
  [[noreturn]] void die(const char* fmt, ...)
  {
    va_list ap;
    va_start(ap, fmt);
    fprintf(stderr, "minimpi: FATAL: ");
    vfprintf(stderr, fmt, ap);
    fprintf(stderr, "\n");
    va_end(ap);
    fflush(stderr);
    abort();
  }

  // tags of the scheduler operations (they go into the per-thread traces)
  enum { TAG_WAIT = 101, TAG_WAITALL, TAG_WAITANY, TAG_WAITANY_BLOCK, TAG_TEST, TAG_COLL, TAG_SEND, TAG_RECV, TAG_CHOOSE_ANY = 120, TAG_CHOOSE_LAG };

  // ---------------------------------------------------------------------------------------------
  // global state of the model
  // ---------------------------------------------------------------------------------------------
  thread_local int tl_rank = -1;     // world rank of a rank thread, -1 otherwise
  int g_P = 1;                       // world size while run() is active
  bool g_running = false;
  bool g_initialized = false, g_finalized = false;
  minimpi::Mode g_mode = minimpi::eager;
  bool g_test_may_lag = false;
  minimpi::Stats g_stats;
  unsigned long long g_fruitless_tests = 0;
  unsigned long long g_progress = 0;             // counts posts / completions / cancellations of all ranks
  thread_local unsigned long long tl_fruitless_at = ~0ull;   // g_progress at this rank's last unsuccessful Test* call

  inline int my_world_rank() { return tl_rank >= 0 ? tl_rank : 0; }
  inline int my_world_size() { return tl_rank >= 0 ? g_P : 1; }

  void check_caller(const char* what)
  {
    if(!g_initialized) die("%s called before MPI_Init", what);
    if(g_finalized) die("%s called after MPI_Finalize", what);
    if(g_running && tl_rank < 0) die("%s called from a thread that is not a rank thread while minimpi::run is active (helper threads are not supported)", what);
  }

  // ---- datatypes ------------------------------------------------------------------------------
  struct DType { size_t size; bool alive; bool committed; };
  const size_t predef_size[MINIMPI_NUM_PREDEF_TYPES] = {0, 1, sizeof(char), sizeof(wchar_t), sizeof(signed char), sizeof(short), sizeof(int), sizeof(long),
    sizeof(long long), sizeof(unsigned char), sizeof(unsigned short), sizeof(unsigned), sizeof(unsigned long), sizeof(unsigned long long), sizeof(float),
    sizeof(double), sizeof(long double), 1, 2, 4, 8, 1, 2, 4, 8, sizeof(bool)};
  const int DT_BASE = 100;
  std::vector<DType> g_dtypes;       // derived types: handle = DT_BASE + index

  size_t dt_size(MPI_Datatype dt, const char* what)
  {
    if(dt >= 1 && dt < MINIMPI_NUM_PREDEF_TYPES) return predef_size[dt];
    if(dt >= DT_BASE && size_t(dt - DT_BASE) < g_dtypes.size())
    {
      const DType& d = g_dtypes[size_t(dt - DT_BASE)];
      if(!d.alive) die("%s: datatype %d was freed", what, dt);
      if(!d.committed) die("%s: datatype %d is not committed", what, dt);
      return d.size;
    }
    die("%s: invalid datatype handle %d", what, dt);
  }
  size_t nbytes(int count, MPI_Datatype dt, const char* what)
  {
    if(count < 0) die("%s: negative count %d", what, count);
    return size_t(count) * dt_size(dt, what);
  }

  // ---- operations -----------------------------------------------------------------------------
  struct UserOp { MPI_User_function* fn; int commute; bool alive; };
  const int OP_BASE = 16;
  std::vector<UserOp> g_ops;

  // ---- communicators and groups ---------------------------------------------------------------
  struct CommObj
  {
    int ctx = 0;                       // unique context id (matching key)
    std::vector<int> group;            // world ranks in rank order
    std::vector<uint64_t> seq;         // per local rank: number of collective calls made
    std::vector<char> freed;           // per local rank
  };
  const int COMM_BASE = 3;
  std::vector<CommObj> g_comms;        // handle = COMM_BASE + index
  CommObj g_world, g_world_single;     // world of the rank threads / of an unmanaged thread
  std::vector<CommObj> g_self;         // per world rank
  CommObj g_self_single;
  int g_next_ctx = 10;

  struct GroupObj { std::vector<int> ranks; bool alive; };
  const int GROUP_BASE = 2;
  std::vector<GroupObj> g_groups;      // handle = GROUP_BASE + index

  int local_rank_of(const std::vector<int>& g, int world)
  {
    for(size_t i = 0; i < g.size(); ++i) if(g[i] == world) return int(i);
    return -1;
  }
  int local_rank(const CommObj& c, int world)
  {
    for(size_t i = 0; i < c.group.size(); ++i) if(c.group[i] == world) return int(i);
    return -1;
  }

  /// resolves a communicator handle for the calling thread; lr = local rank of the caller
  CommObj& get_comm(MPI_Comm h, int& lr, const char* what)
  {
    if(h == MPI_COMM_NULL) die("%s: MPI_COMM_NULL", what);
    if(h == MPI_COMM_WORLD)
    {
      if(tl_rank >= 0) { lr = tl_rank; return g_world; }
      lr = 0; return g_world_single;
    }
    if(h == MPI_COMM_SELF)
    {
      lr = 0;
      if(tl_rank >= 0) return g_self[size_t(tl_rank)];
      return g_self_single;
    }
    if(h < COMM_BASE || size_t(h - COMM_BASE) >= g_comms.size()) die("%s: invalid communicator handle %d", what, h);
    CommObj& c = g_comms[size_t(h - COMM_BASE)];
    lr = local_rank(c, my_world_rank());
    if(lr < 0) die("%s: world rank %d is not a member of communicator %d", what, my_world_rank(), h);
    if(c.freed[size_t(lr)]) die("%s: communicator %d was already freed by world rank %d", what, h, my_world_rank());
    return c;
  }

  int new_comm(const std::vector<int>& group)
  {
    CommObj c;
    c.ctx = g_next_ctx++;
    c.group = group;
    c.seq.assign(group.size(), 0);
    c.freed.assign(group.size(), 0);
    g_comms.push_back(c);
    return COMM_BASE + int(g_comms.size()) - 1;
  }

  // ---- point-to-point operations --------------------------------------------------------------
  struct P2P
  {
    bool is_send = false;
    int ctx = 0, src = 0, dst = 0, tag = 0;     // communicator-local ranks
    int src_world = 0, dst_world = 0;
    const void* sbuf = nullptr;
    void* rbuf = nullptr;
    size_t bytes = 0;                // send: message size, recv: capacity
    std::vector<char> payload;       // send: captured data
    bool captured = false;
    bool eager = false;               // payload was copied when the send was posted
    bool matched = false;
    bool cancelled = false;
    int peer = -1;                   // index of the matched operation
  };
  std::vector<P2P> g_p2p;
  struct Queues { std::vector<int> sends, recvs; };   // unmatched operations in post order
  std::map<int, Queues> g_queues;    // by context id

  // ---- collectives ----------------------------------------------------------------------------
  enum CollKind { C_BARRIER = 1, C_BCAST, C_GATHER, C_SCATTER, C_ALLGATHER, C_ALLGATHERV, C_ALLTOALL, C_ALLTOALLV, C_REDUCE, C_ALLREDUCE, C_SCAN, C_EXSCAN,
    C_COMM_DUP, C_COMM_SPLIT, C_COMM_CREATE, C_FILE_OPEN, C_FILE_CLOSE, C_FILE_SET_SIZE, C_FILE_READ_ORDERED, C_FILE_WRITE_ORDERED };
  const char* coll_name(int k)
  {
    static const char* n[] = {"?", "Barrier", "Bcast", "Gather", "Scatter", "Allgather", "Allgatherv", "Alltoall", "Alltoallv", "Reduce", "Allreduce", "Scan", "Exscan",
      "Comm_dup", "Comm_split", "Comm_create", "File_open", "File_close", "File_set_size", "File_read_ordered", "File_write_ordered"};
    return (k >= 1 && k <= 20) ? n[k] : "?";
  }
  struct Seg { const void* ptr; size_t len; };
  struct Out { void* ptr; std::vector<char> data; };
  struct Part
  {
    bool here = false;
    std::vector<Seg> in;                       // input segments of this rank
    std::vector<std::vector<char>> data;       // captured inputs (same order as 'in')
    bool captured = false;
    std::vector<Out> out;                      // results, written to the user buffers at completion
    long long iv[4] = {0, 0, 0, 0};            // integer parameters (color/key, counts, ...)
    std::vector<int> v1, v2;                   // recvcounts/displs etc. (copied at post)
    void* p1 = nullptr;                        // main output buffer
    int* out_handle = nullptr;                 // where a created handle is stored
    int handle_value = 0;
    std::string sval;
    bool delivered = false;
  };
  struct Coll
  {
    int ctx = 0; uint64_t seq = 0; int kind = 0; int n = 0; int arrived = 0;
    int root = -1; MPI_Op op = MPI_OP_NULL; MPI_Datatype dt = MPI_DATATYPE_NULL;
    long long sig = 0;                         // size signature that must agree on all ranks (-1: not checked)
    int file = 0;
    std::vector<int> group;                    // world ranks
    std::vector<Part> part;
    bool done = false;
  };
  std::vector<Coll> g_colls;
  std::map<std::pair<int, uint64_t>, int> g_coll_index;

  // ---- requests -------------------------------------------------------------------------------
  enum ReqKind { R_SEND = 1, R_RECV, R_COLL };
  struct Req
  {
    int kind = 0;
    int owner = 0;        // world rank
    bool active = false;  // false once completed/freed (handle slots are never reused within a run)
    int p2p = -1;
    int coll = -1, coll_rank = -1;
  };
  std::vector<Req> g_reqs;   // handle = index + 1

  // ---- files ----------------------------------------------------------------------------------
  struct FileObj { int fd = -1; long long shared_ptr = 0; int ctx = 0; std::vector<int> group; std::vector<uint64_t> seq; int open_refs = 0; int amode = 0; std::string name; };
  std::vector<FileObj> g_files;  // handle = index + 1

  // ---------------------------------------------------------------------------------------------
  void reset_state(int P)
  {
    g_P = P;
    g_dtypes.clear(); g_ops.clear(); g_comms.clear(); g_groups.clear(); g_p2p.clear(); g_queues.clear();
    g_colls.clear(); g_coll_index.clear(); g_reqs.clear();
    for(auto& f : g_files) if(f.fd >= 0) close(f.fd);
    g_files.clear();
    g_next_ctx = 10;
    g_world = CommObj(); g_world.ctx = 1;
    for(int r = 0; r < P; ++r) g_world.group.push_back(r);
    g_world.seq.assign(size_t(P), 0); g_world.freed.assign(size_t(P), 0);
    g_world_single = CommObj(); g_world_single.ctx = 2; g_world_single.group.assign(1, 0); g_world_single.seq.assign(1, 0); g_world_single.freed.assign(1, 0);
    g_self.clear();
    for(int r = 0; r < P; ++r)
    {
      CommObj c; c.ctx = 1000000 + r; c.group.assign(1, r); c.seq.assign(1, 0); c.freed.assign(1, 0);
      g_self.push_back(c);
    }
    g_self_single = CommObj(); g_self_single.ctx = 3; g_self_single.group.assign(1, 0); g_self_single.seq.assign(1, 0); g_self_single.freed.assign(1, 0);
    g_stats = minimpi::Stats();
    g_fruitless_tests = 0;
    g_progress = 0;
  }
  struct StaticInit { StaticInit() { reset_state(1); } } g_static_init;

  // ---------------------------------------------------------------------------------------------
  // point-to-point machinery
  // ---------------------------------------------------------------------------------------------
  void capture(P2P& s)
  {
    if(s.captured) return;
    s.payload.resize(s.bytes);
    if(s.bytes) memcpy(s.payload.data(), s.sbuf, s.bytes);
    s.captured = true;
  }

  bool tags_match(const P2P& recv, const P2P& send)
  {
    return recv.src == send.src && (recv.tag == MPI_ANY_TAG || recv.tag == send.tag);
  }

  void do_match(int si, int ri)
  {
    P2P& s = g_p2p[size_t(si)];
    P2P& r = g_p2p[size_t(ri)];
    if(s.bytes > r.bytes)
      die("message truncated: send of %zu bytes (rank %d -> %d, tag %d) matched a receive of %zu bytes", s.bytes, s.src, s.dst, s.tag, r.bytes);
    s.matched = r.matched = true;
    s.peer = ri; r.peer = si;
  }

  int post_p2p(const P2P& op)
  {
    ++g_progress;
    g_p2p.push_back(op);
    const int idx = int(g_p2p.size()) - 1;
    Queues& q = g_queues[op.ctx];
    if(op.is_send)
    {
      ++g_stats.sends;
      for(size_t k = 0; k < q.recvs.size(); ++k)
      {
        const P2P& r = g_p2p[size_t(q.recvs[k])];
        if(r.dst == op.dst && tags_match(r, op))
        {
          const int ri = q.recvs[k];
          q.recvs.erase(q.recvs.begin() + long(k));
          do_match(idx, ri);
          return idx;
        }
      }
      q.sends.push_back(idx);
    }
    else
    {
      ++g_stats.recvs;
      for(size_t k = 0; k < q.sends.size(); ++k)
      {
        const P2P& s = g_p2p[size_t(q.sends[k])];
        if(s.dst == op.dst && tags_match(op, s))
        {
          const int si = q.sends[k];
          q.sends.erase(q.sends.begin() + long(k));
          do_match(si, idx);
          return idx;
        }
      }
      q.recvs.push_back(idx);
    }
    return idx;
  }

  void unqueue(int idx)
  {
    P2P& o = g_p2p[size_t(idx)];
    Queues& q = g_queues[o.ctx];
    std::vector<int>& v = o.is_send ? q.sends : q.recvs;
    v.erase(std::remove(v.begin(), v.end(), idx), v.end());
  }

  int new_req(int kind)
  {
    Req r; r.kind = kind; r.owner = my_world_rank(); r.active = true;
    g_reqs.push_back(r);
    return int(g_reqs.size());
  }

  Req& get_req(MPI_Request h, const char* what)
  {
    if(h <= 0 || size_t(h) > g_reqs.size()) die("%s: invalid request handle %d", what, h);
    Req& r = g_reqs[size_t(h - 1)];
    if(!r.active) die("%s: request handle %d is stale (already completed or freed)", what, h);
    if(r.owner != my_world_rank()) die("%s: request %d belongs to world rank %d but is used by world rank %d", what, h, r.owner, my_world_rank());
    return r;
  }

  bool req_complete(const Req& r)
  {
    switch(r.kind)
    {
    case R_SEND: { const P2P& s = g_p2p[size_t(r.p2p)]; return s.cancelled || s.matched || s.eager; }
    case R_RECV: { const P2P& o = g_p2p[size_t(r.p2p)]; return o.cancelled || o.matched; }
    case R_COLL: return g_colls[size_t(r.coll)].done;
    default: return false;
    }
  }

  void set_status(MPI_Status* st, int source, int tag, long long bytes, bool cancelled)
  {
    if(st == MPI_STATUS_IGNORE) return;
    st->MPI_SOURCE = source; st->MPI_TAG = tag; st->MPI_ERROR = MPI_SUCCESS; st->_bytes = bytes; st->_cancelled = cancelled ? 1 : 0;
  }
  void empty_status(MPI_Status* st) { set_status(st, MPI_ANY_SOURCE, MPI_ANY_TAG, 0, false); }

  void deliver_coll(Coll& c, int lr);

  /// the owner observes the completion of request h: data is moved, the status is filled, the handle dies
  void finish_req(MPI_Request* h, MPI_Status* st)
  {
    Req& r = g_reqs[size_t(*h - 1)];
    switch(r.kind)
    {
    case R_SEND:
      {
        P2P& s = g_p2p[size_t(r.p2p)];
        if(!s.cancelled && !s.captured) { capture(s); ++g_stats.late_payload_reads; }
        set_status(st, MPI_ANY_SOURCE, MPI_ANY_TAG, 0, s.cancelled);
      }
      break;
    case R_RECV:
      {
        P2P& o = g_p2p[size_t(r.p2p)];
        if(o.cancelled) { set_status(st, MPI_ANY_SOURCE, MPI_ANY_TAG, 0, true); break; }
        P2P& s = g_p2p[size_t(o.peer)];
        if(!s.captured) { capture(s); ++g_stats.late_payload_reads; }
        if(s.bytes) memcpy(o.rbuf, s.payload.data(), s.bytes);
        set_status(st, s.src, s.tag, (long long)s.bytes, false);
      }
      break;
    case R_COLL:
      deliver_coll(g_colls[size_t(r.coll)], r.coll_rank);
      empty_status(st);
      break;
    default: die("internal: bad request kind");
    }
    r.active = false;
    *h = MPI_REQUEST_NULL;
    g_fruitless_tests = 0;
    ++g_progress;
    tl_fruitless_at = ~0ull;
  }

  struct ReqSet { int n; const MPI_Request* reqs; };
  int pred_one(void* p) { const MPI_Request h = *static_cast<MPI_Request*>(p); return req_complete(g_reqs[size_t(h - 1)]) ? 1 : 0; }
  int pred_all(void* p)
  {
    ReqSet* s = static_cast<ReqSet*>(p);
    for(int i = 0; i < s->n; ++i) if(s->reqs[i] != MPI_REQUEST_NULL && !req_complete(g_reqs[size_t(s->reqs[i] - 1)])) return 0;
    return 1;
  }
  int pred_any(void* p)
  {
    ReqSet* s = static_cast<ReqSet*>(p);
    for(int i = 0; i < s->n; ++i) if(s->reqs[i] != MPI_REQUEST_NULL && req_complete(g_reqs[size_t(s->reqs[i] - 1)])) return 1;
    return 0;
  }

  /// validates all handles of an array; returns the number of active requests
  int validate_array(int count, MPI_Request* a, const char* what)
  {
    if(count < 0) die("%s: negative count", what);
    int act = 0;
    for(int i = 0; i < count; ++i) if(a[i] != MPI_REQUEST_NULL) { get_req(a[i], what); ++act; }
    return act;
  }

  int pred_progress(void* p) { return g_progress != *static_cast<unsigned long long*>(p) ? 1 : 0; }
  /// Fairness of polling loops: a rank whose last Test* call was unsuccessful and for which nothing has happened since
  /// (no rank posted, completed or cancelled anything) waits until some other rank has acted. Without this the polling
  /// rank would keep the processor for ever under the default schedule while another poller starves. If nobody can act
  /// any more the scheduler reports the deadlock (= a polling loop that can never succeed).
  void poll_fairness()
  {
    if(tl_fruitless_at == g_progress) { unsigned long long at = g_progress; vs_wait_until(pred_progress, &at, TAG_TEST); }
  }
  void note_fruitless(const char* what)
  {
    tl_fruitless_at = g_progress;
    if(++g_fruitless_tests > 200000ull) die("%s: 200000 consecutive unsuccessful Test calls without any completion (livelock of a polling loop)", what);
  }

  /// a Test-family call may lag behind once (deviation) if enabled
  bool lag() { return g_test_may_lag && vs_choose(2, TAG_CHOOSE_LAG) == 1; }
}

// =================================================================================================
// environment
// =================================================================================================
extern "C" int MPI_Init(int*, char***)
{
  if(g_initialized) die("MPI_Init called twice");
  g_initialized = true; g_finalized = false;
  return MPI_SUCCESS;
}
extern "C" int MPI_Init_thread(int* argc, char*** argv, int, int* provided)
{
  // helper threads of a rank cannot be attributed to their rank by this model: MPI_THREAD_SERIALIZED is the
  // highest level offered (FEAT_MPI_THREAD_MULTIPLE builds then refuse to start, loudly)
  if(provided) *provided = MPI_THREAD_SERIALIZED;
  return MPI_Init(argc, argv);
}
extern "C" int MPI_Initialized(int* flag) { *flag = g_initialized ? 1 : 0; return MPI_SUCCESS; }
extern "C" int MPI_Finalized(int* flag) { *flag = g_finalized ? 1 : 0; return MPI_SUCCESS; }
extern "C" int MPI_Finalize(void)
{
  if(!g_initialized) die("MPI_Finalize without MPI_Init");
  if(g_finalized) die("MPI_Finalize called twice");
  if(g_running) die("MPI_Finalize inside minimpi::run");
  g_finalized = true;
  // a harness may initialise the runtime again (Runtime::ScopeGuard per case): allow a fresh MPI_Init
  g_initialized = false;
  return MPI_SUCCESS;
}
extern "C" int MPI_Abort(MPI_Comm, int errorcode)
{
  fprintf(stderr, "minimpi: MPI_Abort(%d) called by world rank %d\n", errorcode, my_world_rank());
  fflush(stderr);
  abort();
}
extern "C" double MPI_Wtime(void) { die("MPI_Wtime is not modelled (no wall clock in the environment model)"); }

// =================================================================================================
// datatypes, operations
// =================================================================================================
extern "C" int MPI_Type_contiguous(int count, MPI_Datatype oldtype, MPI_Datatype* newtype)
{
  if(count < 0) die("MPI_Type_contiguous: negative count");
  size_t os = 0;
  if(oldtype >= DT_BASE && size_t(oldtype - DT_BASE) < g_dtypes.size() && g_dtypes[size_t(oldtype - DT_BASE)].alive) os = g_dtypes[size_t(oldtype - DT_BASE)].size;
  else os = dt_size(oldtype, "MPI_Type_contiguous");
  g_dtypes.push_back(DType{size_t(count) * os, true, false});
  *newtype = DT_BASE + int(g_dtypes.size()) - 1;
  return MPI_SUCCESS;
}
extern "C" int MPI_Type_commit(MPI_Datatype* dt)
{
  if(*dt >= 1 && *dt < MINIMPI_NUM_PREDEF_TYPES) return MPI_SUCCESS;
  if(*dt < DT_BASE || size_t(*dt - DT_BASE) >= g_dtypes.size() || !g_dtypes[size_t(*dt - DT_BASE)].alive) die("MPI_Type_commit: invalid datatype %d", *dt);
  g_dtypes[size_t(*dt - DT_BASE)].committed = true;
  return MPI_SUCCESS;
}
extern "C" int MPI_Type_free(MPI_Datatype* dt)
{
  if(*dt < DT_BASE || size_t(*dt - DT_BASE) >= g_dtypes.size() || !g_dtypes[size_t(*dt - DT_BASE)].alive) die("MPI_Type_free: invalid or predefined datatype %d", *dt);
  g_dtypes[size_t(*dt - DT_BASE)].alive = false;
  *dt = MPI_DATATYPE_NULL;
  return MPI_SUCCESS;
}
extern "C" int MPI_Type_size(MPI_Datatype dt, int* size) { *size = int(dt_size(dt, "MPI_Type_size")); return MPI_SUCCESS; }

extern "C" int MPI_Op_create(MPI_User_function* fn, int commute, MPI_Op* op)
{
  if(!fn) die("MPI_Op_create: null function");
  g_ops.push_back(UserOp{fn, commute, true});
  *op = OP_BASE + int(g_ops.size()) - 1;
  return MPI_SUCCESS;
}
extern "C" int MPI_Op_free(MPI_Op* op)
{
  if(*op < OP_BASE || size_t(*op - OP_BASE) >= g_ops.size() || !g_ops[size_t(*op - OP_BASE)].alive) die("MPI_Op_free: invalid or predefined operation %d", *op);
  g_ops[size_t(*op - OP_BASE)].alive = false;
  *op = MPI_OP_NULL;
  return MPI_SUCCESS;
}

// =================================================================================================
// point to point
// =================================================================================================
namespace
{
  /// returns the request handle (0 for MPI_PROC_NULL)
  MPI_Request post_send(const void* buf, int count, MPI_Datatype dt, int dest, int tag, MPI_Comm comm, const char* what)
  {
    check_caller(what);
    int lr = 0;
    CommObj& c = get_comm(comm, lr, what);
    const size_t nb = nbytes(count, dt, what);
    if(dest == MPI_PROC_NULL) return MPI_REQUEST_NULL;
    if(dest < 0 || size_t(dest) >= c.group.size()) die("%s: invalid destination rank %d (communicator size %zu)", what, dest, c.group.size());
    if(tag < 0 || tag > MPI_TAG_UB_VALUE) die("%s: invalid tag %d", what, tag);
    if(nb > 0 && buf == nullptr) die("%s: null buffer", what);
    P2P op; op.is_send = true; op.ctx = c.ctx; op.src = lr; op.dst = dest; op.tag = tag; op.sbuf = buf; op.bytes = nb;
    op.src_world = c.group[size_t(lr)]; op.dst_world = c.group[size_t(dest)];
    if(g_mode == minimpi::eager) { op.payload.assign(static_cast<const char*>(buf), static_cast<const char*>(buf) + nb); op.captured = true; op.eager = true; }
    const int idx = post_p2p(op);
    const MPI_Request h = new_req(R_SEND);
    g_reqs[size_t(h - 1)].p2p = idx;
    return h;
  }
  MPI_Request post_recv(void* buf, int count, MPI_Datatype dt, int source, int tag, MPI_Comm comm, const char* what)
  {
    check_caller(what);
    int lr = 0;
    CommObj& c = get_comm(comm, lr, what);
    const size_t nb = nbytes(count, dt, what);
    if(source == MPI_PROC_NULL) return MPI_REQUEST_NULL;
    if(source == MPI_ANY_SOURCE) die("%s: MPI_ANY_SOURCE is not supported by this model (it would add a nondeterminism source that FEAT never uses)", what);
    if(source < 0 || size_t(source) >= c.group.size()) die("%s: invalid source rank %d (communicator size %zu)", what, source, c.group.size());
    if(tag != MPI_ANY_TAG && (tag < 0 || tag > MPI_TAG_UB_VALUE)) die("%s: invalid tag %d", what, tag);
    if(nb > 0 && buf == nullptr) die("%s: null buffer", what);
    P2P op; op.is_send = false; op.ctx = c.ctx; op.src = source; op.dst = lr; op.tag = tag; op.rbuf = buf; op.bytes = nb;
    op.src_world = c.group[size_t(source)]; op.dst_world = c.group[size_t(lr)];
    const int idx = post_p2p(op);
    const MPI_Request h = new_req(R_RECV);
    g_reqs[size_t(h - 1)].p2p = idx;
    return h;
  }
}

extern "C" int MPI_Isend(const void* buf, int count, MPI_Datatype dt, int dest, int tag, MPI_Comm comm, MPI_Request* request)
{
  *request = post_send(buf, count, dt, dest, tag, comm, "MPI_Isend");
  return MPI_SUCCESS;
}
extern "C" int MPI_Irecv(void* buf, int count, MPI_Datatype dt, int source, int tag, MPI_Comm comm, MPI_Request* request)
{
  *request = post_recv(buf, count, dt, source, tag, comm, "MPI_Irecv");
  return MPI_SUCCESS;
}
extern "C" int MPI_Send(const void* buf, int count, MPI_Datatype dt, int dest, int tag, MPI_Comm comm)
{
  MPI_Request h = post_send(buf, count, dt, dest, tag, comm, "MPI_Send");
  if(h == MPI_REQUEST_NULL) return MPI_SUCCESS;
  if(!req_complete(g_reqs[size_t(h - 1)])) vs_wait_until(pred_one, &h, TAG_SEND);
  finish_req(&h, MPI_STATUS_IGNORE);
  return MPI_SUCCESS;
}
extern "C" int MPI_Recv(void* buf, int count, MPI_Datatype dt, int source, int tag, MPI_Comm comm, MPI_Status* status)
{
  MPI_Request h = post_recv(buf, count, dt, source, tag, comm, "MPI_Recv");
  if(h == MPI_REQUEST_NULL) { set_status(status, MPI_PROC_NULL, MPI_ANY_TAG, 0, false); return MPI_SUCCESS; }
  if(!req_complete(g_reqs[size_t(h - 1)])) vs_wait_until(pred_one, &h, TAG_RECV);
  finish_req(&h, status);
  return MPI_SUCCESS;
}

extern "C" int MPI_Wait(MPI_Request* request, MPI_Status* status)
{
  check_caller("MPI_Wait");
  if(*request == MPI_REQUEST_NULL) { empty_status(status); return MPI_SUCCESS; }
  get_req(*request, "MPI_Wait");
  MPI_Request h = *request;
  if(!req_complete(g_reqs[size_t(h - 1)])) vs_wait_until(pred_one, &h, TAG_WAIT);
  finish_req(request, status);
  return MPI_SUCCESS;
}

extern "C" int MPI_Waitall(int count, MPI_Request reqs[], MPI_Status stats[])
{
  check_caller("MPI_Waitall");
  validate_array(count, reqs, "MPI_Waitall");
  ReqSet s{count, reqs};
  if(!pred_all(&s)) vs_wait_until(pred_all, &s, TAG_WAITALL);
  for(int i = 0; i < count; ++i)
  {
    MPI_Status* st = (stats == MPI_STATUSES_IGNORE) ? MPI_STATUS_IGNORE : &stats[i];
    if(reqs[i] == MPI_REQUEST_NULL) empty_status(st);
    else finish_req(&reqs[i], st);
  }
  return MPI_SUCCESS;
}

namespace
{
  /// maximal progress of everybody else, then the list of completed active requests (indices)
  std::vector<int> completed_after_quiescence(int count, MPI_Request reqs[], bool block)
  {
    std::vector<int> done;
    ReqSet s{count, reqs};
    for(;;)
    {
      vs_wait_quiescent(TAG_WAITANY);
      for(int i = 0; i < count; ++i) if(reqs[i] != MPI_REQUEST_NULL && req_complete(g_reqs[size_t(reqs[i] - 1)])) done.push_back(i);
      if(!done.empty() || !block) return done;
      // nothing complete although nobody else can move right now (the others wait for quiescence themselves)
      vs_wait_until(pred_any, &s, TAG_WAITANY_BLOCK);
    }
  }
}

extern "C" int MPI_Waitany(int count, MPI_Request reqs[], int* index, MPI_Status* status)
{
  check_caller("MPI_Waitany");
  ++g_stats.waitany_calls;
  if(validate_array(count, reqs, "MPI_Waitany") == 0) { *index = MPI_UNDEFINED; empty_status(status); return MPI_SUCCESS; }
  std::vector<int> done = completed_after_quiescence(count, reqs, true);
  if(done.size() > g_stats.max_waitany_options) g_stats.max_waitany_options = done.size();
  if(done.size() > 1) ++g_stats.waitany_choices;
  const int k = vs_choose(int(done.size()), TAG_CHOOSE_ANY);
  *index = done[size_t(k)];
  finish_req(&reqs[*index], status);
  return MPI_SUCCESS;
}

extern "C" int MPI_Waitsome(int incount, MPI_Request reqs[], int* outcount, int indices[], MPI_Status stats[])
{
  check_caller("MPI_Waitsome");
  ++g_stats.waitany_calls;
  if(validate_array(incount, reqs, "MPI_Waitsome") == 0) { *outcount = MPI_UNDEFINED; return MPI_SUCCESS; }
  std::vector<int> done = completed_after_quiescence(incount, reqs, true);
  // MPI may return any non-empty subset of the completed requests: model = one chosen request or all of them
  int n = 0;
  const int k = vs_choose(int(done.size()) + (done.size() > 1 ? 1 : 0), TAG_CHOOSE_ANY);
  if(done.size() > 1) ++g_stats.waitany_choices;
  if(done.size() > 1 && k == 0)
  {
    for(int i : done) { indices[n] = i; finish_req(&reqs[i], stats == MPI_STATUSES_IGNORE ? MPI_STATUS_IGNORE : &stats[n]); ++n; }
  }
  else
  {
    const int i = done[size_t(done.size() > 1 ? k - 1 : 0)];
    indices[0] = i; finish_req(&reqs[i], stats == MPI_STATUSES_IGNORE ? MPI_STATUS_IGNORE : &stats[0]); n = 1;
  }
  *outcount = n;
  return MPI_SUCCESS;
}

extern "C" int MPI_Test(MPI_Request* request, int* flag, MPI_Status* status)
{
  check_caller("MPI_Test");
  if(*request == MPI_REQUEST_NULL) { *flag = 1; empty_status(status); return MPI_SUCCESS; }
  get_req(*request, "MPI_Test");
  poll_fairness();
  vs_wait_quiescent(TAG_TEST);   // scheduling point: everybody else makes maximal progress first
  if(req_complete(g_reqs[size_t(*request - 1)]) && !lag()) { *flag = 1; finish_req(request, status); }
  else { *flag = 0; note_fruitless("MPI_Test"); }
  return MPI_SUCCESS;
}

extern "C" int MPI_Testall(int count, MPI_Request reqs[], int* flag, MPI_Status stats[])
{
  check_caller("MPI_Testall");
  validate_array(count, reqs, "MPI_Testall");
  poll_fairness();
  vs_wait_quiescent(TAG_TEST);
  ReqSet s{count, reqs};
  if(pred_all(&s) && !lag())
  {
    *flag = 1;
    for(int i = 0; i < count; ++i)
    {
      MPI_Status* st = (stats == MPI_STATUSES_IGNORE) ? MPI_STATUS_IGNORE : &stats[i];
      if(reqs[i] == MPI_REQUEST_NULL) empty_status(st); else finish_req(&reqs[i], st);
    }
  }
  else { *flag = 0; note_fruitless("MPI_Testall"); }
  return MPI_SUCCESS;
}

extern "C" int MPI_Testany(int count, MPI_Request reqs[], int* index, int* flag, MPI_Status* status)
{
  check_caller("MPI_Testany");
  if(validate_array(count, reqs, "MPI_Testany") == 0) { *index = MPI_UNDEFINED; *flag = 1; empty_status(status); return MPI_SUCCESS; }
  poll_fairness();
  std::vector<int> done = completed_after_quiescence(count, reqs, false);
  if(done.empty() || lag()) { *flag = 0; *index = MPI_UNDEFINED; note_fruitless("MPI_Testany"); return MPI_SUCCESS; }
  const int k = vs_choose(int(done.size()), TAG_CHOOSE_ANY);
  *index = done[size_t(k)]; *flag = 1;
  finish_req(&reqs[*index], status);
  return MPI_SUCCESS;
}

extern "C" int MPI_Testsome(int incount, MPI_Request reqs[], int* outcount, int indices[], MPI_Status stats[])
{
  check_caller("MPI_Testsome");
  if(validate_array(incount, reqs, "MPI_Testsome") == 0) { *outcount = MPI_UNDEFINED; return MPI_SUCCESS; }
  poll_fairness();
  std::vector<int> done = completed_after_quiescence(incount, reqs, false);
  if(done.empty() || lag()) { *outcount = 0; note_fruitless("MPI_Testsome"); return MPI_SUCCESS; }
  int n = 0;
  const int k = vs_choose(int(done.size()) + (done.size() > 1 ? 1 : 0), TAG_CHOOSE_ANY);
  if(done.size() > 1 && k == 0)
  {
    for(int i : done) { indices[n] = i; finish_req(&reqs[i], stats == MPI_STATUSES_IGNORE ? MPI_STATUS_IGNORE : &stats[n]); ++n; }
  }
  else
  {
    const int i = done[size_t(done.size() > 1 ? k - 1 : 0)];
    indices[0] = i; finish_req(&reqs[i], stats == MPI_STATUSES_IGNORE ? MPI_STATUS_IGNORE : &stats[0]); n = 1;
  }
  *outcount = n;
  return MPI_SUCCESS;
}

extern "C" int MPI_Cancel(MPI_Request* request)
{
  check_caller("MPI_Cancel");
  Req& r = get_req(*request, "MPI_Cancel");
  if(r.kind == R_COLL) die("MPI_Cancel on a collective request");
  P2P& o = g_p2p[size_t(r.p2p)];
  // cancellation succeeds iff the operation has not been matched yet (eager sends are already on their way)
  if(!o.matched && !o.cancelled && !(o.is_send && o.eager))
  {
    o.cancelled = true;
    ++g_progress;
    unqueue(r.p2p);
  }
  return MPI_SUCCESS;
}
extern "C" int MPI_Test_cancelled(const MPI_Status* status, int* flag) { *flag = status->_cancelled; return MPI_SUCCESS; }

extern "C" int MPI_Request_free(MPI_Request* request)
{
  check_caller("MPI_Request_free");
  Req& r = get_req(*request, "MPI_Request_free");
  if(r.kind == R_SEND)
  {
    // the operation goes on; the buffer is read now (the application has no later point to keep it valid for)
    P2P& s = g_p2p[size_t(r.p2p)];
    if(!s.captured) capture(s);
  }
  else if(r.kind == R_RECV) die("MPI_Request_free on an active receive request: its completion could never be observed (not modelled)");
  else die("MPI_Request_free on an active collective request (erroneous in MPI-3.1)");
  r.active = false;
  *request = MPI_REQUEST_NULL;
  return MPI_SUCCESS;
}

extern "C" int MPI_Get_count(const MPI_Status* status, MPI_Datatype dt, int* count)
{
  const size_t s = dt_size(dt, "MPI_Get_count");
  if(s == 0) { *count = 0; return MPI_SUCCESS; }
  if(size_t(status->_bytes) % s != 0) *count = MPI_UNDEFINED;
  else *count = int(size_t(status->_bytes) / s);
  return MPI_SUCCESS;
}

#include "minimpi_coll.inc"
#include "minimpi_file.inc"
#include "minimpi_ctl.inc"
