// minimpi -- an in-process model of the MPI environment (engine E2 of /verif, see DESIGN.md 2.2).
//
// This header replaces <mpi.h> for the harness variant `mpi`. The MPI "processes" are threads managed by the
// vsched scheduler (engine E1); exactly one of them runs at a time. All handles are plain integers, so that
// they can be used in constant expressions and static initialisers (kernel/util/dist.cpp does both).
//
// Semantics implemented (MPI-3.1 subset, everything FEAT3 uses):
//  * point-to-point: deterministic non-overtaking matching per (communicator, source, destination, tag);
//    MPI_ANY_TAG supported, MPI_ANY_SOURCE rejected (it would be a second nondeterminism source; FEAT never uses it);
//  * two send-completion modes (minimpi::set_mode): eager and rendezvous, see minimpi.cpp;
//  * receive buffers are written when the receiver *observes* completion (Wait*/Test* success), never earlier;
//  * collectives are matched by per-communicator call sequence number; mismatching kinds/roots/sizes abort;
//    reductions are evaluated in rank order 0,1,...,n-1; results are written at completion;
//  * MPI_Waitany/Waitsome/Testany/Testsome: maximal progress of all other ranks (vs_wait_quiescent), then
//    vs_choose among the completed active requests -- the only data nondeterminism of the model;
//  * errors are fatal: every misuse or unsupported feature prints "minimpi: ..." and calls abort().
#ifndef VERIF_MINIMPI_MPI_H
#define VERIF_MINIMPI_MPI_H 1

#include <stddef.h>

#define MINIMPI 1
#define MPI_VERSION 3
#define MPI_SUBVERSION 1

typedef int MPI_Comm;
typedef int MPI_Datatype;
typedef int MPI_Op;
typedef int MPI_Request;
typedef int MPI_Group;
typedef int MPI_Info;
typedef int MPI_File;
typedef int MPI_Errhandler;
typedef long long MPI_Offset;
typedef long MPI_Aint;
typedef long long MPI_Count;

typedef struct MPI_Status
{
  int MPI_SOURCE;
  int MPI_TAG;
  int MPI_ERROR;
  int _cancelled;
  long long _bytes;
} MPI_Status;

typedef void MPI_User_function(void* invec, void* inoutvec, int* len, MPI_Datatype* datatype);

/* ---- constants --------------------------------------------------------------------------------- */
#define MPI_SUCCESS 0
#define MPI_ERR_OTHER 15
#define MPI_UNDEFINED (-32766)
#define MPI_ANY_TAG (-1)
#define MPI_PROC_NULL (-2)
#define MPI_ANY_SOURCE (-3)
#define MPI_ROOT (-4)
#define MPI_TAG_UB_VALUE 32767

#define MPI_COMM_NULL ((MPI_Comm)0)
#define MPI_COMM_WORLD ((MPI_Comm)1)
#define MPI_COMM_SELF ((MPI_Comm)2)

#define MPI_GROUP_NULL ((MPI_Group)0)
#define MPI_GROUP_EMPTY ((MPI_Group)1)

#define MPI_REQUEST_NULL ((MPI_Request)0)
#define MPI_INFO_NULL ((MPI_Info)0)
#define MPI_FILE_NULL ((MPI_File)0)
#define MPI_OP_NULL ((MPI_Op)0)
#define MPI_DATATYPE_NULL ((MPI_Datatype)0)

#define MPI_STATUS_IGNORE ((MPI_Status*)0)
#define MPI_STATUSES_IGNORE ((MPI_Status*)0)
#define MPI_IN_PLACE ((void*)1)
#define MPI_BOTTOM ((void*)0)

#define MPI_THREAD_SINGLE 0
#define MPI_THREAD_FUNNELED 1
#define MPI_THREAD_SERIALIZED 2
#define MPI_THREAD_MULTIPLE 3

#define MPI_MAX_PROCESSOR_NAME 64
#define MPI_MAX_ERROR_STRING 128

/* predefined datatypes (see minimpi.cpp: dt_size) */
#define MPI_BYTE               ((MPI_Datatype)1)
#define MPI_CHAR               ((MPI_Datatype)2)
#define MPI_WCHAR              ((MPI_Datatype)3)
#define MPI_SIGNED_CHAR        ((MPI_Datatype)4)
#define MPI_SHORT              ((MPI_Datatype)5)
#define MPI_INT                ((MPI_Datatype)6)
#define MPI_LONG               ((MPI_Datatype)7)
#define MPI_LONG_LONG          ((MPI_Datatype)8)
#define MPI_LONG_LONG_INT      MPI_LONG_LONG
#define MPI_UNSIGNED_CHAR      ((MPI_Datatype)9)
#define MPI_UNSIGNED_SHORT     ((MPI_Datatype)10)
#define MPI_UNSIGNED           ((MPI_Datatype)11)
#define MPI_UNSIGNED_LONG      ((MPI_Datatype)12)
#define MPI_UNSIGNED_LONG_LONG ((MPI_Datatype)13)
#define MPI_FLOAT              ((MPI_Datatype)14)
#define MPI_DOUBLE             ((MPI_Datatype)15)
#define MPI_LONG_DOUBLE        ((MPI_Datatype)16)
#define MPI_INT8_T             ((MPI_Datatype)17)
#define MPI_INT16_T            ((MPI_Datatype)18)
#define MPI_INT32_T            ((MPI_Datatype)19)
#define MPI_INT64_T            ((MPI_Datatype)20)
#define MPI_UINT8_T            ((MPI_Datatype)21)
#define MPI_UINT16_T           ((MPI_Datatype)22)
#define MPI_UINT32_T           ((MPI_Datatype)23)
#define MPI_UINT64_T           ((MPI_Datatype)24)
#define MPI_C_BOOL             ((MPI_Datatype)25)
#define MINIMPI_NUM_PREDEF_TYPES 26

/* predefined reduction operations */
#define MPI_SUM  ((MPI_Op)1)
#define MPI_MAX  ((MPI_Op)2)
#define MPI_MIN  ((MPI_Op)3)
#define MPI_PROD ((MPI_Op)4)
#define MPI_LAND ((MPI_Op)5)
#define MPI_LOR  ((MPI_Op)6)
#define MPI_BAND ((MPI_Op)7)
#define MPI_BOR  ((MPI_Op)8)
#define MINIMPI_NUM_PREDEF_OPS 9

/* file access modes */
#define MPI_MODE_CREATE 1
#define MPI_MODE_RDONLY 2
#define MPI_MODE_WRONLY 4
#define MPI_MODE_RDWR 8
#define MPI_MODE_DELETE_ON_CLOSE 16
#define MPI_MODE_UNIQUE_OPEN 32
#define MPI_MODE_EXCL 64
#define MPI_MODE_APPEND 128
#define MPI_MODE_SEQUENTIAL 256

#ifdef __cplusplus
extern "C" {
#endif

/* ---- environment ------------------------------------------------------------------------------- */
int MPI_Init(int* argc, char*** argv);
int MPI_Init_thread(int* argc, char*** argv, int required, int* provided);
int MPI_Initialized(int* flag);
int MPI_Finalize(void);
int MPI_Finalized(int* flag);
int MPI_Abort(MPI_Comm comm, int errorcode);
double MPI_Wtime(void);

/* ---- communicators and groups ------------------------------------------------------------------ */
int MPI_Comm_rank(MPI_Comm comm, int* rank);
int MPI_Comm_size(MPI_Comm comm, int* size);
int MPI_Comm_dup(MPI_Comm comm, MPI_Comm* newcomm);
int MPI_Comm_split(MPI_Comm comm, int color, int key, MPI_Comm* newcomm);
int MPI_Comm_create(MPI_Comm comm, MPI_Group group, MPI_Comm* newcomm);
int MPI_Comm_free(MPI_Comm* comm);
int MPI_Comm_group(MPI_Comm comm, MPI_Group* group);
int MPI_Group_incl(MPI_Group group, int n, const int ranks[], MPI_Group* newgroup);
int MPI_Group_range_incl(MPI_Group group, int n, int ranges[][3], MPI_Group* newgroup);
int MPI_Group_size(MPI_Group group, int* size);
int MPI_Group_rank(MPI_Group group, int* rank);
int MPI_Group_free(MPI_Group* group);

/* ---- datatypes and operations ------------------------------------------------------------------ */
int MPI_Type_contiguous(int count, MPI_Datatype oldtype, MPI_Datatype* newtype);
int MPI_Type_commit(MPI_Datatype* datatype);
int MPI_Type_free(MPI_Datatype* datatype);
int MPI_Type_size(MPI_Datatype datatype, int* size);
int MPI_Op_create(MPI_User_function* user_fn, int commute, MPI_Op* op);
int MPI_Op_free(MPI_Op* op);

/* ---- point to point ---------------------------------------------------------------------------- */
int MPI_Send(const void* buf, int count, MPI_Datatype datatype, int dest, int tag, MPI_Comm comm);
int MPI_Recv(void* buf, int count, MPI_Datatype datatype, int source, int tag, MPI_Comm comm, MPI_Status* status);
int MPI_Isend(const void* buf, int count, MPI_Datatype datatype, int dest, int tag, MPI_Comm comm, MPI_Request* request);
int MPI_Irecv(void* buf, int count, MPI_Datatype datatype, int source, int tag, MPI_Comm comm, MPI_Request* request);
int MPI_Wait(MPI_Request* request, MPI_Status* status);
int MPI_Waitall(int count, MPI_Request array_of_requests[], MPI_Status array_of_statuses[]);
int MPI_Waitany(int count, MPI_Request array_of_requests[], int* index, MPI_Status* status);
int MPI_Waitsome(int incount, MPI_Request array_of_requests[], int* outcount, int array_of_indices[], MPI_Status array_of_statuses[]);
int MPI_Test(MPI_Request* request, int* flag, MPI_Status* status);
int MPI_Testall(int count, MPI_Request array_of_requests[], int* flag, MPI_Status array_of_statuses[]);
int MPI_Testany(int count, MPI_Request array_of_requests[], int* index, int* flag, MPI_Status* status);
int MPI_Testsome(int incount, MPI_Request array_of_requests[], int* outcount, int array_of_indices[], MPI_Status array_of_statuses[]);
int MPI_Cancel(MPI_Request* request);
int MPI_Test_cancelled(const MPI_Status* status, int* flag);
int MPI_Request_free(MPI_Request* request);
int MPI_Get_count(const MPI_Status* status, MPI_Datatype datatype, int* count);

/* ---- collectives ------------------------------------------------------------------------------- */
int MPI_Barrier(MPI_Comm comm);
int MPI_Bcast(void* buffer, int count, MPI_Datatype datatype, int root, MPI_Comm comm);
int MPI_Gather(const void* sendbuf, int sendcount, MPI_Datatype sendtype, void* recvbuf, int recvcount, MPI_Datatype recvtype, int root, MPI_Comm comm);
int MPI_Scatter(const void* sendbuf, int sendcount, MPI_Datatype sendtype, void* recvbuf, int recvcount, MPI_Datatype recvtype, int root, MPI_Comm comm);
int MPI_Allgather(const void* sendbuf, int sendcount, MPI_Datatype sendtype, void* recvbuf, int recvcount, MPI_Datatype recvtype, MPI_Comm comm);
int MPI_Allgatherv(const void* sendbuf, int sendcount, MPI_Datatype sendtype, void* recvbuf, const int recvcounts[], const int displs[], MPI_Datatype recvtype, MPI_Comm comm);
int MPI_Alltoall(const void* sendbuf, int sendcount, MPI_Datatype sendtype, void* recvbuf, int recvcount, MPI_Datatype recvtype, MPI_Comm comm);
int MPI_Alltoallv(const void* sendbuf, const int sendcounts[], const int sdispls[], MPI_Datatype sendtype, void* recvbuf, const int recvcounts[], const int rdispls[], MPI_Datatype recvtype, MPI_Comm comm);
int MPI_Reduce(const void* sendbuf, void* recvbuf, int count, MPI_Datatype datatype, MPI_Op op, int root, MPI_Comm comm);
int MPI_Allreduce(const void* sendbuf, void* recvbuf, int count, MPI_Datatype datatype, MPI_Op op, MPI_Comm comm);
int MPI_Scan(const void* sendbuf, void* recvbuf, int count, MPI_Datatype datatype, MPI_Op op, MPI_Comm comm);
int MPI_Exscan(const void* sendbuf, void* recvbuf, int count, MPI_Datatype datatype, MPI_Op op, MPI_Comm comm);

int MPI_Ibarrier(MPI_Comm comm, MPI_Request* request);
int MPI_Ibcast(void* buffer, int count, MPI_Datatype datatype, int root, MPI_Comm comm, MPI_Request* request);
int MPI_Igather(const void* sendbuf, int sendcount, MPI_Datatype sendtype, void* recvbuf, int recvcount, MPI_Datatype recvtype, int root, MPI_Comm comm, MPI_Request* request);
int MPI_Iscatter(const void* sendbuf, int sendcount, MPI_Datatype sendtype, void* recvbuf, int recvcount, MPI_Datatype recvtype, int root, MPI_Comm comm, MPI_Request* request);
int MPI_Iallgather(const void* sendbuf, int sendcount, MPI_Datatype sendtype, void* recvbuf, int recvcount, MPI_Datatype recvtype, MPI_Comm comm, MPI_Request* request);
int MPI_Iallgatherv(const void* sendbuf, int sendcount, MPI_Datatype sendtype, void* recvbuf, const int recvcounts[], const int displs[], MPI_Datatype recvtype, MPI_Comm comm, MPI_Request* request);
int MPI_Ialltoall(const void* sendbuf, int sendcount, MPI_Datatype sendtype, void* recvbuf, int recvcount, MPI_Datatype recvtype, MPI_Comm comm, MPI_Request* request);
int MPI_Ialltoallv(const void* sendbuf, const int sendcounts[], const int sdispls[], MPI_Datatype sendtype, void* recvbuf, const int recvcounts[], const int rdispls[], MPI_Datatype recvtype, MPI_Comm comm, MPI_Request* request);
int MPI_Ireduce(const void* sendbuf, void* recvbuf, int count, MPI_Datatype datatype, MPI_Op op, int root, MPI_Comm comm, MPI_Request* request);
int MPI_Iallreduce(const void* sendbuf, void* recvbuf, int count, MPI_Datatype datatype, MPI_Op op, MPI_Comm comm, MPI_Request* request);
int MPI_Iscan(const void* sendbuf, void* recvbuf, int count, MPI_Datatype datatype, MPI_Op op, MPI_Comm comm, MPI_Request* request);
int MPI_Iexscan(const void* sendbuf, void* recvbuf, int count, MPI_Datatype datatype, MPI_Op op, MPI_Comm comm, MPI_Request* request);

/* ---- files (POSIX files, shared file pointer, rank-ordered collective access) -------------------- */
int MPI_File_open(MPI_Comm comm, const char* filename, int amode, MPI_Info info, MPI_File* fh);
int MPI_File_close(MPI_File* fh);
int MPI_File_set_size(MPI_File fh, MPI_Offset size);
int MPI_File_get_size(MPI_File fh, MPI_Offset* size);
int MPI_File_read_ordered(MPI_File fh, void* buf, int count, MPI_Datatype datatype, MPI_Status* status);
int MPI_File_write_ordered(MPI_File fh, const void* buf, int count, MPI_Datatype datatype, MPI_Status* status);
int MPI_File_read_shared(MPI_File fh, void* buf, int count, MPI_Datatype datatype, MPI_Status* status);
int MPI_File_write_shared(MPI_File fh, const void* buf, int count, MPI_Datatype datatype, MPI_Status* status);

#ifdef __cplusplus
} /* extern "C" */

#include <functional>
#include <string>

/// control interface of the environment model (harness side)
namespace minimpi
{
  enum Mode
  {
    /// payload copied when the send is posted; the send request is complete immediately; MPI_Send never blocks
    eager = 0,
    /// a send completes only when the matching receive has been posted; the user's send buffer is read as LATE
    /// as MPI allows (when the sender or the receiver first observes completion) so that premature reuse of a
    /// send buffer changes the transmitted data; MPI_Send blocks until matched (unsafe programs deadlock);
    /// contributions to non-blocking collectives are read when the last rank arrives
    rendezvous = 1
  };
  void set_mode(Mode m);
  Mode get_mode();
  /// Test-family calls may report "not complete" once although the request is complete (a vs_choose deviation)
  void set_test_may_lag(bool on);

  /// Runs fn(rank) on P rank threads under the vsched scheduler. Must be called by the harness main thread
  /// between vsched::reset() and the inspection of vsched::decisions(); it calls vsched::begin() / end() itself.
  /// All handles other than the predefined ones are invalidated at entry.
  void run(int nranks, const std::function<void(int)>& fn);

  /// world rank of the calling thread (0 outside a rank thread) / world size (1 outside a rank thread)
  int world_rank();
  int world_size();

  struct Stats
  {
    unsigned long long sends = 0, recvs = 0, collectives = 0, waitany_calls = 0, waitany_choices = 0, max_waitany_options = 0;
    unsigned long long late_payload_reads = 0;
  };
  /// counters of the last run()
  const Stats& stats();
  /// Empty if the last run() ended clean; otherwise a description of what the ranks left behind (unmatched
  /// sends / receives, active requests, incomplete collectives, communicators/groups/files not freed).
  std::string leftovers(bool include_handles = false);
  /// hash of the scheduler-visible state of the model (for vsched::set_state_cb)
  unsigned long long state_hash();
}
#endif /* __cplusplus */

#endif /* VERIF_MINIMPI_MPI_H */
