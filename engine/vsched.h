// vsched -- a controlled (cooperative, serialising) scheduler for real pthreads.
//
// Exactly one managed thread runs at a time. Scheduling decisions are taken at the synchronisation
// operations the code under test really uses -- they are intercepted by *defining* pthread_create/join,
// pthread_mutex_lock/trylock/unlock, pthread_cond_wait/signal/broadcast in the harness executable
// (engine/vsched_pthread.cpp) -- and at explicit vs_point() calls in harness-owned code.
// The scheduler keeps its own model of every mutex (owner) and condition variable (wait set); the real
// pthread objects are never touched while the scheduler is active.
//
// A schedule is the sequence of choices (indices into the canonical list of options) taken at the decision
// points that had at least two options. Options at a decision point, in canonical order:
//   [current thread, if it is still enabled] ++ [other enabled threads in ascending id] ++
//   [spurious wake-up of thread t for every t blocked in a condition wait, ascending id, if allowed]
// Choice 0 is the default ("keep running, else lowest id"). Taking another option while the current
// thread is enabled is a preemption; a spurious wake-up is a counted deviation of its own kind.
#pragma once
#include <cstdint>
#include <vector>

#define VS_MAXT 24

extern "C" {
  /// explicit scheduling point in harness-owned code
  void vs_point(int tag, long arg);
  /// id of the calling managed thread (0 = the thread that called vs_begin), -1 if unmanaged / inactive
  int vs_self(void);
  int vs_active(void);
  /// Blocks the calling managed thread until pred(ctx) is true (evaluated by the scheduler whenever it
  /// decides; it must be a pure function of state that only managed threads change). 'tag' goes into the
  /// thread's operation trace. With no managed caller it spins on pred (must already be true).
  void vs_wait_until(int (*pred)(void*), void* ctx, int tag);
  /// Blocks the calling thread until no other managed thread is enabled (all others are blocked, finished
  /// or waiting for quiescence themselves): "maximal progress of everybody else".
  void vs_wait_quiescent(int tag);
  /// A data nondeterminism point of the environment model: returns a value in [0,n). n <= 1 returns 0
  /// without recording anything. Any value other than 0 counts as one deviation (like a preemption).
  int vs_choose(int n, int tag);
}

namespace vsched
{
  enum OptKind { opt_thread = 0, opt_spurious = 1, opt_value = 2 };

  struct Decision
  {
    int nopts;                 // number of options (>= 2)
    int chosen;                // index taken
    int cur;                   // running thread at the decision (-1 if it just blocked/finished)
    int cur_enabled;           // 1 if option 0 is "keep running cur"
    int opt_thread[2 * VS_MAXT];
    int opt_kind[2 * VS_MAXT];
    int preempt_before;        // preemptions used before this decision
    int spurious_before;       // spurious wake-ups used before this decision
    uint64_t state;            // hash of the global state at this decision (before choosing)
  };

  struct Event { int thread; int kind; long a; long b; };
  enum EvKind { ev_lock = 1, ev_unlock, ev_wait, ev_wake, ev_bcast, ev_create, ev_join, ev_finish, ev_point, ev_block, ev_spurious, ev_trylock, ev_until, ev_quiesce, ev_choose };

  /// stable ids for the synchronisation objects of the system under test (call between reset and begin)
  void register_mutex(void* native, int id);
  void register_cond(void* native, int id);
  /// shared-state hash contribution of the harness (protocol data read by the threads)
  void set_state_cb(uint64_t (*cb)(void*), void* ctx);
  /// called when no thread is enabled; must not return normally into the execution (default: _exit(97))
  void set_deadlock_cb(void (*cb)(void*), void* ctx);

  /// Prepare a fresh execution. prefix = choices to replay; afterwards default choices are taken.
  void reset(const std::vector<int>& prefix, bool allow_spurious);
  /// The calling thread becomes managed thread 0 and interposition becomes active.
  void begin();
  /// Deactivate; all other managed threads must have finished and been joined.
  void end();

  const std::vector<Decision>& decisions();
  const std::vector<Event>& events();
  /// true if the replayed prefix did not fit the execution (a hard machinery error)
  bool diverged();
  /// human readable description of who is blocked on what (for deadlock reports)
  const char* blocked_graph();
  int num_threads();
  void record_events(bool on);
}
