// verif.hpp -- common runner for all bounded-exhaustive / model-checking harnesses of /verif.
//
// A harness is one deterministic enumeration of "cases". It is written as plain nested loops:
//
//   int main(int argc, char** argv) {
//     verif::Spec spec; spec.property = "C19"; spec.harness = "c19_graph"; spec.rule = "...";
//     return verif::run(spec, argc, argv, [](verif::Ctx& c) {
//       for(...) for(...) {
//         if(!c.want()) continue;                 // case numbering + sharding over forked workers
//         c.desc([&]{ return std::string("..."); }); // lazily evaluated description of the case (replay handle)
//         ... run the real code, compare with the oracle ...
//         c.check(cond, "key", [&]{ return "explanation"; });
//         c.nontrivial(hash);                     // counts distinct non-trivial cases
//       }
//     });
//   }
//
// The runner forks W workers; worker w executes the cases with index % W == w (the enumeration itself
// is re-run by every worker, the case bodies are not). A worker that dies (XASSERT -> abort, ASan, SEGV)
// is detected, the case is re-run alone (replay before report) and reported as a violation, and the
// worker is restarted with that case on its skip list. Results come back through files under
// build/scratch. The parent writes an evidence *part* file and prints VIOLATION / KNOWN-FINDING lines.
//
// Nothing in here is random; VERIF_SEED is recorded only.
#pragma once
#include <algorithm>
#include <chrono>
#include <cinttypes>
#include <csignal>
#include <cstdint>
#include <cstdio>
#include <cstdlib>
#include <cstring>
#include <fstream>
#include <functional>
#include <map>
#include <set>
#include <sstream>
#include <string>
#include <unordered_set>
#include <vector>
#include <fcntl.h>
#include <sys/mman.h>
#include <sys/stat.h>
#include <sys/wait.h>
#include <unistd.h>

#ifdef VERIF_COV
extern "C" void __gcov_dump(void);
#define VERIF_COV_DUMP() __gcov_dump()
#else
#define VERIF_COV_DUMP() ((void)0)
#endif

namespace verif
{
  inline std::string json_escape(const std::string& s)
  {
    std::string o;
    o.reserve(s.size() + 8);
    for(unsigned char ch : s)
    {
      switch(ch)
      {
      case '"': o += "\\\""; break;
      case '\\': o += "\\\\"; break;
      case '\n': o += "\\n"; break;
      case '\r': o += "\\r"; break;
      case '\t': o += "\\t"; break;
      default:
        if(ch < 0x20 || ch >= 0x7f) { char b[8]; snprintf(b, sizeof b, "\\u%04x", ch); o += b; }
        else o += char(ch);
      }
    }
    return o;
  }

  /// FNV-1a style 64 bit hashing helper (deterministic across runs)
  struct Hash
  {
    uint64_t h = 1469598103934665603ull;
    Hash& bytes(const void* p, size_t n)
    {
      const unsigned char* c = static_cast<const unsigned char*>(p);
      for(size_t i = 0; i < n; ++i) { h ^= c[i]; h *= 1099511628211ull; }
      return *this;
    }
    template<typename T> Hash& pod(const T& t) { return bytes(&t, sizeof(T)); }
    Hash& str(const std::string& s) { uint64_t n = s.size(); pod(n); return bytes(s.data(), s.size()); }
    uint64_t get() const { uint64_t x = h; x ^= x >> 33; x *= 0xff51afd7ed558ccdull; x ^= x >> 33; return x; }
  };

  struct Spec
  {
    std::string property;       // "C19"
    std::string harness;        // "c19_graph"
    std::string rule;           // how cases are enumerated, what is non-trivial
    std::vector<std::string> assumptions;
    std::string bounds_quick, bounds_thorough; // free text, goes into the evidence
    size_t max_samples = 6;
    size_t max_fail_per_worker = 40;
    size_t max_report = 12;     // VIOLATION lines printed
    double deadline_quick_s = 540, deadline_thorough_s = 3300;
    double case_timeout_s = 900; // a worker that stays in one case longer than this is killed and the case reported as a hang
    bool silence_stderr = true; // the code under test prints on abort
    int max_jobs = 16;
  };

  struct Fail { long idx; std::string key, msg, desc, extra; };

  class Ctx
  {
  public:
    // ---- configuration visible to the harness
    bool thorough = false;
    uint64_t seed = 0;
    std::string extra;          // harness specific replay payload (e.g. a schedule), --extra
    bool replaying = false;     // --only mode

    /// next case: returns true if this process shall execute the case body
    bool want()
    {
      ++_idx;
      _have_desc = false;
      if(_cut) return false;
      if(_only >= 0) { _active = (_idx == _only); if(_idx > _only) _cut = true; return _active; }
      if((_idx & 63) == 0 && _deadline > 0.0 && now() > _deadline) { _cut = true; return false; }
      if(_nworkers > 1 && (_idx % _nworkers) != _me) return false;
      if(!_skip.empty() && _skip.count(_idx)) return false;
      if(_nfail >= _max_fail) { _cut = true; return false; }
      ++_evals;
      if(_shm) { _shm->cur = _idx; }
      _active = true;
      return true;
    }

    long index() const { return _idx; }

    /// lazily evaluated description of the current case
    void desc(std::function<std::string()> f)
    {
      _desc = std::move(f);
      _have_desc = true;
      if(_only >= 0 && _active)
      {
        std::string d = _desc();
        fprintf(stdout, "case %ld: %s\n", _idx, d.c_str());
        fflush(stdout);
        if(_shm) { strncpy(_shm->desc, d.c_str(), sizeof(_shm->desc) - 1); }
      }
      else if(_samples.size() < _max_samples && (_evals % _sample_stride) == 0)
      {
        _samples.push_back(_desc());
      }
    }

    /// record a property violation for the current case; key identifies the failing input stably
    void fail(const std::string& key, const std::string& msg, const std::string& extra_payload = std::string())
    {
      ++_nfail;
      Fail f; f.idx = _idx; f.key = key; f.msg = msg; f.extra = extra_payload;
      f.desc = _have_desc ? _desc() : std::string();
      if(_only >= 0) { fprintf(stdout, "FAIL key=%s msg=%s\n", key.c_str(), msg.c_str()); fflush(stdout); }
      _fails.push_back(f);
      flush_fail(f);
    }

    template<typename F>
    bool check(bool cond, const std::string& key, F&& msgf)
    {
      if(!cond) fail(key, msgf());
      return cond;
    }
    bool check(bool cond, const std::string& key, const char* msg) { if(!cond) fail(key, msg); return cond; }

    /// mark the current case as a distinct non-trivial case identified by hash h
    void nontrivial(uint64_t h) { _hashes.insert(h); }
    /// distinct observed outcomes (small sets only)
    void outcome(const std::string& o) { if(_outcomes.size() < 4096) _outcomes.insert(o); }
    /// named counters, summed over workers
    void count(const std::string& name, uint64_t n = 1) { _counters[name] += n; }
    /// named maxima
    void maxi(const std::string& name, uint64_t v) { auto& r = _maxima[name]; if(v > r) r = v; }
    /// add a written-out sample explicitly
    void sample(const std::string& s) { if(_samples.size() < _max_samples) _samples.push_back(s); }
    /// an exclusion (forbidden operand etc.), listed in the evidence
    void excluded(const std::string& what) { _counters["excluded:" + what] += 1; }

    /// Runs fn in a forked child. Returns 0 if fn returned normally, the signal number if the child
    /// was killed, 1000+exit code for an unexpected exit code.
    int run_forked(const std::function<void()>& fn, int timeout_s = 20)
    {
      fflush(stdout); fflush(stderr);
      pid_t p = fork();
      if(p < 0) { perror("fork"); _exit(3); }
      if(p == 0)
      {
        // own process group not needed; silence
        int dn = open("/dev/null", O_WRONLY);
        if(dn >= 0) { dup2(dn, 2); if(_only < 0) dup2(dn, 1); }
        alarm((unsigned)timeout_s);
        fn();
        VERIF_COV_DUMP();
        _exit(0);
      }
      int st = 0;
      while(waitpid(p, &st, 0) < 0) {}
      count("forked_cases");
      if(WIFSIGNALED(st)) return WTERMSIG(st);
      if(WIFEXITED(st) && WEXITSTATUS(st) != 0) return 1000 + WEXITSTATUS(st);
      return 0;
    }

    double now() const
    {
      using namespace std::chrono;
      return duration<double>(steady_clock::now().time_since_epoch()).count();
    }
    bool cut() const { return _cut; }
    /// long-running cases (a whole state-space exploration inside one case) tell the watchdog that they are alive
    void heartbeat() { if(_shm) _shm->hb = _shm->hb + 1; }
    /// harness may declare that it hit its own cap
    void capped(const std::string& what) { _counters["cap:" + what] += 1; _capped = true; }

    // ---- internals (used by run())
    struct Shm { volatile long cur; volatile long hb; char desc[8192]; };
    long _idx = -1, _only = -1;
    long _me = 0, _nworkers = 1;
    bool _cut = false, _capped = false, _active = false, _have_desc = false;
    double _deadline = 0.0;
    uint64_t _evals = 0;
    size_t _nfail = 0, _max_fail = 40, _max_samples = 6, _sample_stride = 1;
    std::set<long> _skip;
    std::function<std::string()> _desc;
    std::vector<Fail> _fails;
    std::vector<std::string> _samples;
    std::unordered_set<uint64_t> _hashes;
    std::set<std::string> _outcomes;
    std::map<std::string, uint64_t> _counters, _maxima;
    Shm* _shm = nullptr;
    std::string _outfile;

    static std::string enc(const std::string& s)
    {
      std::string o;
      for(char ch : s) { if(ch == '\n') o += "\\n"; else if(ch == '\t') o += "\\t"; else if(ch == '\\') o += "\\\\"; else o += ch; }
      return o;
    }
    static std::string dec(const std::string& s)
    {
      std::string o;
      for(size_t i = 0; i < s.size(); ++i)
      {
        if(s[i] == '\\' && i + 1 < s.size()) { ++i; o += (s[i] == 'n' ? '\n' : s[i] == 't' ? '\t' : s[i]); }
        else o += s[i];
      }
      return o;
    }
    void flush_fail(const Fail& f)
    {
      if(_outfile.empty()) return;
      FILE* fp = fopen(_outfile.c_str(), "a");
      if(!fp) return;
      fprintf(fp, "F\t%ld\t%s\t%s\t%s\t%s\n", f.idx, enc(f.key).c_str(), enc(f.msg).c_str(), enc(f.desc).c_str(), enc(f.extra).c_str());
      fclose(fp);
    }
    void write_results()
    {
      if(_outfile.empty()) return;
      FILE* fp = fopen(_outfile.c_str(), "a");
      if(!fp) return;
      for(auto& s : _samples) fprintf(fp, "S\t%s\n", enc(s).c_str());
      for(auto& c : _counters) fprintf(fp, "C\t%s\t%" PRIu64 "\n", enc(c.first).c_str(), c.second);
      for(auto& c : _maxima) fprintf(fp, "M\t%s\t%" PRIu64 "\n", enc(c.first).c_str(), c.second);
      for(auto& o : _outcomes) fprintf(fp, "O\t%s\n", enc(o).c_str());
      fprintf(fp, "E\t%" PRIu64 "\t%d\t%d\t%ld\n", _evals, _cut ? 1 : 0, _capped ? 1 : 0, _idx + 1);
      fclose(fp);
      std::string hf = _outfile + ".hashes";
      FILE* hp = fopen(hf.c_str(), "wb");
      if(hp)
      {
        std::vector<uint64_t> v(_hashes.begin(), _hashes.end());
        if(!v.empty()) fwrite(v.data(), sizeof(uint64_t), v.size(), hp);
        fclose(hp);
      }
    }
  };

  namespace detail
  {
    inline std::string getenv_s(const char* n, const std::string& d) { const char* v = std::getenv(n); return v ? std::string(v) : d; }
    inline std::string verif_root() { return getenv_s("VERIF_ROOT", "/verif"); }

    struct Known { std::vector<std::string> findings; };
    inline Known load_known(const std::string& prop)
    {
      Known k;
      std::ifstream in(verif_root() + "/known_findings.txt");
      std::string line;
      const std::string pre = "finding: property=" + prop + " case=";
      while(std::getline(in, line))
      {
        if(line.compare(0, pre.size(), pre) == 0)
        {
          std::string c = line.substr(pre.size());
          // the case key extends to the first " :: " (free-text comment follows)
          size_t p = c.find(" :: ");
          if(p != std::string::npos) c = c.substr(0, p);
          k.findings.push_back(c);
        }
      }
      return k;
    }
  }

  /// Entry point. Returns the process exit code (0 ok, 1 violation, 2 machinery error).
  inline int run(const Spec& spec_in, int argc, char** argv, const std::function<void(Ctx&)>& body)
  {
    Spec spec = spec_in;
    {
      // checks.json may tighten the hang watchdog for harnesses whose cases are tiny
      const char* ct = std::getenv("VERIF_CASE_TIMEOUT_S");
      if(ct && atof(ct) > 0.0) spec.case_timeout_s = atof(ct);
    }
    std::string tier = detail::getenv_s("VERIF_TIER", "quick");
    long only = -1;
    int jobs = spec.max_jobs;
    std::string extra;
    double deadline_override = -1.0;
    for(int i = 1; i < argc; ++i)
    {
      std::string a = argv[i];
      if(a == "--tier" && i + 1 < argc) tier = argv[++i];
      else if(a == "--only" && i + 1 < argc) only = atol(argv[++i]);
      else if(a == "--jobs" && i + 1 < argc) jobs = atoi(argv[++i]);
      else if(a == "--extra" && i + 1 < argc) extra = argv[++i];
      else if(a == "--deadline" && i + 1 < argc) deadline_override = atof(argv[++i]);
    }
    {
      std::string dj = detail::getenv_s("VERIF_JOBS", "");
      if(!dj.empty()) jobs = std::min(jobs, atoi(dj.c_str()));
      std::string dd = detail::getenv_s("VERIF_DEADLINE_S", "");
      if(!dd.empty() && deadline_override < 0) deadline_override = atof(dd.c_str());
    }
    if(jobs < 1) jobs = 1;
    const bool thorough = (tier == "thorough");
    uint64_t seed = (uint64_t)atoll(detail::getenv_s("VERIF_SEED", "0").c_str());
    const std::string root = detail::verif_root();
    const std::string scratch = detail::getenv_s("VERIF_SCRATCH", root + "/build/scratch");
    { std::string cmd = "mkdir -p '" + scratch + "'"; if(system(cmd.c_str()) != 0) return 2; }

    auto t0 = std::chrono::steady_clock::now();
    auto nowf = []{ return std::chrono::duration<double>(std::chrono::steady_clock::now().time_since_epoch()).count(); };
    double dl = deadline_override > 0 ? deadline_override : (thorough ? spec.deadline_thorough_s : spec.deadline_quick_s);
    const double deadline = nowf() + dl;

    // ---------------------------------------------------------------- replay mode
    if(only >= 0)
    {
      Ctx c; c.thorough = thorough; c.seed = seed; c._only = only; c.extra = extra; c.replaying = true;
      c._max_fail = 1000000;
      body(c);
      if(c._idx < only) { fprintf(stdout, "replay: case index %ld out of range (%ld cases)\n", only, c._idx + 1); return 2; }
      if(!c._fails.empty()) { fprintf(stdout, "replay: %zu failure(s) reproduced\n", c._fails.size()); return 1; }
      fprintf(stdout, "replay: case passed\n");
      return 0;
    }

    // ---------------------------------------------------------------- forked workers
    struct W { pid_t pid = -1; std::set<long> skip; int crashes = 0; bool done = false; Ctx::Shm* shm = nullptr; std::string out; };
    std::vector<W> ws((size_t)jobs);
    std::vector<Fail> crash_fails;
    bool machinery_error = false;
    bool crash_capped = false;

    auto spawn = [&](int w)
    {
      W& x = ws[(size_t)w];
      if(!x.shm)
      {
        x.shm = static_cast<Ctx::Shm*>(mmap(nullptr, sizeof(Ctx::Shm), PROT_READ | PROT_WRITE, MAP_SHARED | MAP_ANONYMOUS, -1, 0));
        x.out = scratch + "/" + spec.harness + "." + tier + "." + std::to_string(w) + ".out";
      }
      x.shm->cur = -1; x.shm->hb = 0; x.shm->desc[0] = 0;
      unlink(x.out.c_str());
      unlink((x.out + ".hashes").c_str());
      fflush(stdout); fflush(stderr);
      pid_t p = fork();
      if(p < 0) { perror("fork"); exit(2); }
      if(p == 0)
      {
        if(spec.silence_stderr && detail::getenv_s("VERIF_VERBOSE", "").empty())
        {
          int dn = open("/dev/null", O_WRONLY);
          if(dn >= 0) { dup2(dn, 2); }
        }
        Ctx c; c.thorough = thorough; c.seed = seed; c._me = w; c._nworkers = jobs; c._deadline = deadline;
        c._skip = x.skip; c._shm = x.shm; c._outfile = x.out; c._max_fail = spec.max_fail_per_worker;
        c._max_samples = (spec.max_samples + (size_t)jobs - 1) / (size_t)jobs + 1;
        c._sample_stride = 1 + (uint64_t)w * 7;
        body(c);
        c.write_results();
        fflush(stdout);
        VERIF_COV_DUMP();
        _exit(0);
      }
      x.pid = p;
    };

    for(int w = 0; w < jobs; ++w) spawn(w);
    size_t running = (size_t)jobs;
    std::vector<long> wd_cur((size_t)jobs, -2);
    std::vector<double> wd_t((size_t)jobs, nowf());
    std::vector<char> wd_killed((size_t)jobs, 0);
    while(running > 0)
    {
      int st = 0;
      pid_t p = waitpid(-1, &st, WNOHANG);
      if(p < 0) { if(errno == EINTR) continue; break; }
      if(p == 0)
      {
        // watchdog: a worker that does not leave its current case within case_timeout_s hangs
        const double tn = nowf();
        for(int i = 0; i < jobs; ++i)
        {
          W& y = ws[(size_t)i];
          if(y.done || y.pid <= 0 || !y.shm) continue;
          const long c = y.shm->cur * 1000003L + y.shm->hb;
          if(c != wd_cur[(size_t)i]) { wd_cur[(size_t)i] = c; wd_t[(size_t)i] = tn; }
          else if(y.shm->cur >= 0 && tn - wd_t[(size_t)i] > spec.case_timeout_s && !wd_killed[(size_t)i])
          { wd_killed[(size_t)i] = 1; kill(y.pid, SIGKILL); }
        }
        usleep(100000);
        continue;
      }
      int w = -1;
      for(int i = 0; i < jobs; ++i) if(ws[(size_t)i].pid == p) w = i;
      if(w < 0) continue;
      W& x = ws[(size_t)w];
      if(WIFEXITED(st) && WEXITSTATUS(st) == 0) { x.done = true; --running; continue; }
      // worker died
      long idx = x.shm->cur;
      int sig = WIFSIGNALED(st) ? WTERMSIG(st) : -WEXITSTATUS(st);
      const bool was_hang = wd_killed[(size_t)w] != 0;
      wd_killed[(size_t)w] = 0; wd_cur[(size_t)w] = -2; wd_t[(size_t)w] = nowf();
      x.crashes++;
      // replay the single case alone
      std::string d;
      int sig2 = 0;
      {
        x.shm->desc[0] = 0;
        fflush(stdout);
        pid_t q = fork();
        if(q == 0)
        {
          int dn = open("/dev/null", O_WRONLY);
          if(dn >= 0) { dup2(dn, 2); dup2(dn, 1); }
          alarm((unsigned)(spec.case_timeout_s + 30));
          Ctx c; c.thorough = thorough; c.seed = seed; c._only = idx; c._shm = x.shm; c._max_fail = 1000000;
          body(c);
          _exit(c._fails.empty() ? 0 : 77);
        }
        int st2 = 0;
        while(waitpid(q, &st2, 0) < 0) {}
        d = x.shm->desc;
        if(WIFSIGNALED(st2)) sig2 = WTERMSIG(st2);
        else if(WEXITSTATUS(st2) == 77) sig2 = -77;
        else if(WEXITSTATUS(st2) != 0) sig2 = -WEXITSTATUS(st2);
      }
      Fail f; f.idx = idx; f.desc = d;
      if(sig2 != 0)
      {
        f.key = (was_hang || sig2 == SIGALRM) ? "hang" : "crash";
        f.msg = (was_hang ? std::string("case did not finish within the case timeout (worker killed)") : "worker died at this case (signal/exit " + std::to_string(sig) + ")")
          + ", reproduced alone (" + std::to_string(sig2) + (sig2 == SIGALRM ? " = timeout" : "") + ")";
        crash_fails.push_back(f);
      }
      else
      {
        f.key = "flaky-crash";
        f.msg = "worker died at this case (signal/exit " + std::to_string(sig) + ") but the case passes alone: machinery nondeterminism";
        crash_fails.push_back(f);
        machinery_error = true;
      }
      x.skip.insert(idx);
      if(x.crashes >= 6) { crash_capped = true; x.done = true; --running; continue; }
      spawn(w);
    }

    // ---------------------------------------------------------------- merge
    uint64_t evals = 0; bool cut = false, capped = crash_capped; long ncases = 0;
    std::vector<Fail> fails = crash_fails;
    std::vector<std::string> samples;
    std::map<std::string, uint64_t> counters, maxima;
    std::set<std::string> outcomes;
    std::unordered_set<uint64_t> hashes;
    for(auto& x : ws)
    {
      std::ifstream in(x.out);
      std::string line;
      bool have_e = false;
      while(std::getline(in, line))
      {
        std::vector<std::string> f;
        { size_t a = 0; while(true) { size_t b = line.find('\t', a); if(b == std::string::npos) { f.push_back(line.substr(a)); break; } f.push_back(line.substr(a, b - a)); a = b + 1; } }
        if(f[0] == "F" && f.size() >= 6) { Fail z; z.idx = atol(f[1].c_str()); z.key = Ctx::dec(f[2]); z.msg = Ctx::dec(f[3]); z.desc = Ctx::dec(f[4]); z.extra = Ctx::dec(f[5]); fails.push_back(z); }
        else if(f[0] == "S" && f.size() >= 2) { if(samples.size() < spec.max_samples) samples.push_back(Ctx::dec(f[1])); }
        else if(f[0] == "C" && f.size() >= 3) counters[Ctx::dec(f[1])] += strtoull(f[2].c_str(), nullptr, 10);
        else if(f[0] == "M" && f.size() >= 3) { auto& r = maxima[Ctx::dec(f[1])]; r = std::max<uint64_t>(r, strtoull(f[2].c_str(), nullptr, 10)); }
        else if(f[0] == "O" && f.size() >= 2) outcomes.insert(Ctx::dec(f[1]));
        else if(f[0] == "E" && f.size() >= 5) { have_e = true; evals += strtoull(f[1].c_str(), nullptr, 10); cut = cut || f[2] == "1"; capped = capped || f[3] == "1"; ncases = std::max(ncases, atol(f[4].c_str())); }
      }
      if(!have_e && !crash_capped) { machinery_error = true; fprintf(stdout, "MACHINERY: worker result file incomplete: %s\n", x.out.c_str()); }
      FILE* hp = fopen((x.out + ".hashes").c_str(), "rb");
      if(hp) { uint64_t v; while(fread(&v, sizeof v, 1, hp) == 1) hashes.insert(v); fclose(hp); }
      unlink(x.out.c_str()); unlink((x.out + ".hashes").c_str());
      if(x.shm) munmap(x.shm, sizeof(Ctx::Shm));
    }
    // a failing case may have been seen by a crashed-and-restarted worker twice
    std::sort(fails.begin(), fails.end(), [](const Fail& a, const Fail& b){ return a.idx != b.idx ? a.idx < b.idx : a.key < b.key; });
    fails.erase(std::unique(fails.begin(), fails.end(), [](const Fail& a, const Fail& b){ return a.idx == b.idx && a.key == b.key && a.msg == b.msg; }), fails.end());

    detail::Known known = detail::load_known(spec.property);
    size_t nviol = 0, nknown = 0;
    std::ostringstream vjson;
    std::set<std::string> known_printed;
    { std::string cmd = "mkdir -p '" + root + "/replays/" + spec.property + "'"; if(!fails.empty() && system(cmd.c_str()) != 0) machinery_error = true; }
    for(auto& f : fails)
    {
      if(f.key == "flaky-crash") { fprintf(stdout, "MACHINERY: %s [%s]\n", f.msg.c_str(), f.desc.c_str()); continue; }
      bool is_known = false;
      for(auto& k : known.findings) if(k == f.key) is_known = true;
      if(is_known)
      {
        ++nknown;
        if(known_printed.insert(f.key).second)
          fprintf(stdout, "KNOWN-FINDING: property=%s %s (%s)\n", spec.property.c_str(), f.key.c_str(), f.msg.c_str());
        continue;
      }
      ++nviol;
      if(nviol <= spec.max_report)
      {
        Hash h; h.str(spec.harness).str(tier).pod(f.idx).str(f.key);
        char hb[32]; snprintf(hb, sizeof hb, "%016" PRIx64, h.get());
        std::string path = root + "/replays/" + spec.property + "/" + spec.harness + "-" + hb + ".json";
        std::ofstream rp(path);
        rp << "{\n  \"property\": \"" << spec.property << "\",\n  \"harness\": \"" << spec.harness << "\",\n  \"tier\": \"" << tier
           << "\",\n  \"index\": " << f.idx << ",\n  \"key\": \"" << json_escape(f.key) << "\",\n  \"message\": \"" << json_escape(f.msg)
           << "\",\n  \"case\": \"" << json_escape(f.desc) << "\",\n  \"extra\": \"" << json_escape(f.extra) << "\"\n}\n";
        rp.close();
        fprintf(stdout, "VIOLATION property=%s replay=%s\n", spec.property.c_str(), path.c_str());
        fprintf(stdout, "  harness=%s case=%ld key=%s\n  %s\n  input: %s\n", spec.harness.c_str(), f.idx, f.key.c_str(), f.msg.c_str(), f.desc.substr(0, 600).c_str());
      }
    }
    if(nviol > spec.max_report) fprintf(stdout, "  ... and %zu more violating cases\n", nviol - spec.max_report);

    double wall = std::chrono::duration<double>(std::chrono::steady_clock::now() - t0).count();
    const bool exhaustive = !cut && !capped && !machinery_error;

    // ---------------------------------------------------------------- evidence part
    {
      std::string pd = root + "/build/evidence_parts";
      std::string cmd = "mkdir -p '" + pd + "'"; if(system(cmd.c_str()) != 0) machinery_error = true;
      std::ofstream ev(pd + "/" + spec.property + "." + spec.harness + ".json");
      ev << "{\n \"property_id\": \"" << spec.property << "\",\n \"harness\": \"" << spec.harness << "\",\n \"tier\": \"" << tier << "\",\n \"seed\": " << seed
         << ",\n \"evaluations\": " << evals << ",\n \"cases_enumerated\": " << ncases << ",\n \"distinct_nontrivial\": " << hashes.size()
         << ",\n \"rule\": \"" << json_escape(spec.rule) << "\",\n \"bounds\": \"" << json_escape(thorough ? spec.bounds_thorough : spec.bounds_quick)
         << "\",\n \"exhaustive\": " << (exhaustive ? "true" : "false") << ",\n \"deadline_cut\": " << (cut ? "true" : "false")
         << ",\n \"capped\": " << (capped ? "true" : "false") << ",\n \"workers\": " << jobs
         << ",\n \"violations\": " << nviol << ",\n \"known_findings\": " << nknown << ",\n \"wall_s\": " << wall << ",\n \"samples\": [";
      for(size_t i = 0; i < samples.size(); ++i) ev << (i ? ", " : "") << "\"" << json_escape(samples[i].substr(0, 1500)) << "\"";
      ev << "],\n \"counters\": {";
      { bool first = true; for(auto& c : counters) { ev << (first ? "" : ", ") << "\"" << json_escape(c.first) << "\": " << c.second; first = false; } }
      ev << "},\n \"maxima\": {";
      { bool first = true; for(auto& c : maxima) { ev << (first ? "" : ", ") << "\"" << json_escape(c.first) << "\": " << c.second; first = false; } }
      ev << "},\n \"distinct_outcomes\": " << outcomes.size() << ",\n \"outcomes\": [";
      { size_t i = 0; for(auto& o : outcomes) { if(i >= 24) break; ev << (i ? ", " : "") << "\"" << json_escape(o.substr(0, 200)) << "\""; ++i; } }
      ev << "],\n \"assumptions\": [";
      for(size_t i = 0; i < spec.assumptions.size(); ++i) ev << (i ? ", " : "") << "\"" << json_escape(spec.assumptions[i]) << "\"";
      ev << "]\n}\n";
    }

    fprintf(stdout, "[%s/%s %s] cases=%ld evaluations=%" PRIu64 " distinct_nontrivial=%zu outcomes=%zu violations=%zu known=%zu exhaustive=%s wall=%.1fs\n",
      spec.property.c_str(), spec.harness.c_str(), tier.c_str(), ncases, evals, hashes.size(), outcomes.size(), nviol, nknown, exhaustive ? "true" : "false", wall);
    for(auto& c : counters) fprintf(stdout, "    %s = %" PRIu64 "\n", c.first.c_str(), c.second);
    for(auto& c : maxima) fprintf(stdout, "    max %s = %" PRIu64 "\n", c.first.c_str(), c.second);
    fflush(stdout);
    if(nviol > 0) return 1;
    if(machinery_error) return 2;
    return 0;
  }
} // namespace verif
