#!/usr/bin/env python3
"""tools_cov.py <Cxx> [--tier quick] [--deadline S] [--keep]

Coverage AUDIT of one property's harnesses (not a check, not a deciding step): builds the property's harness binaries in the
`cov` variant (g++ -O1 --coverage; `covmpi` for the minimpi harnesses), runs them on /repo with the given tier, and reports for every
anchor file of the property
  * functions that were compiled (instantiated) but never executed,
  * blocks of statement lines for which no code was generated at all (member functions of class templates that no harness
    instantiates) - found heuristically: >= 4 consecutive statement-like source lines without any gcov line record.
The report goes to build/coverage/<Cxx>.txt. It answers "which code that the property is anchored in does no harness reach?" -
the question behind the structurally missed seeded changes of round d (C08d, C18d, C03d, C02d).
"""
import sys, os, json, gzip, glob, re, subprocess, hashlib, shutil, collections
ROOT = '/verif'
REPO = os.environ.get('VERIF_REPO', '/repo')
TAG = hashlib.md5(REPO.encode()).hexdigest()[:8]
B = f'{ROOT}/build/{TAG}'
pid = sys.argv[1]
tier = 'quick'; deadline = '600'; keep = False
a = sys.argv[2:]
while a:
    x = a.pop(0)
    if x == '--tier': tier = a.pop(0)
    elif x == '--deadline': deadline = a.pop(0)
    elif x == '--keep': keep = True
checks = json.load(open(f'{ROOT}/checks.json'))['checks']
props = {json.loads(l)['id']: json.loads(l) for l in open(f'{ROOT}/properties.jsonl')}
anchors = [f for f in props[pid]['anchors']['files'] if os.path.exists(f'{REPO}/{f}') and not f.endswith('.dox')]
extra = [x for x in os.environ.get('COV_EXTRA_FILES', '').split() if x]
anchors += extra
hs = []
for h in checks[pid]['harnesses']:
    if h.get('build_only'): continue
    v = h.get('variant', 'plain')
    if v in ('vs', 'tsan', 'rmpi'): continue
    cv = 'covmpi' if v == 'mpi' else 'cov'
    if not any(x[0] == h['name'] and x[1] == cv for x in hs): hs.append((h['name'], cv, h))
targets = [f'{B}/bin/{n}.{cv}' for n, cv, _ in hs]
print('building', ' '.join(os.path.basename(t) for t in targets), flush=True)
subprocess.check_call(['make', '-s', '-j16', '-C', ROOT, f'REPO={REPO}'] + targets)
# only this property's harness objects are reset: audits of different properties may run concurrently; the counters of the few
# non-header kernel sources (k/) accumulate over all audits (an over-approximation of their coverage)
for n, cv, h in hs:
    for f in glob.glob(f'{B}/{cv}/h/{n}.gcda'): os.remove(f)
for n, cv, h in hs:
    env = dict(os.environ); env.update(h.get('env', {}))
    # own output root: the audit must not touch evidence parts / replays of the real checks
    croot = f'{B}/covroot.{pid}'; os.makedirs(croot, exist_ok=True); shutil.copy(f'{ROOT}/known_findings.txt', croot)
    env['VERIF_ROOT'] = croot; env['VERIF_DEADLINE_S'] = deadline; env['VERIF_SCRATCH'] = f'{B}/covscratch'
    os.makedirs(env['VERIF_SCRATCH'], exist_ok=True)
    cmd = [f'{B}/bin/{n}.{cv}', '--tier', tier, '--jobs', '16'] + h.get('args', [])
    print('running', ' '.join(cmd), flush=True)
    r = subprocess.run(cmd, env=env, stdout=subprocess.PIPE, stderr=subprocess.STDOUT, text=True, cwd=ROOT)
    tail = [l for l in r.stdout.splitlines() if l.startswith('[')][-1:]
    print('  rc', r.returncode, *tail, flush=True)
# gcov over all object files of the cov variants
fn = collections.defaultdict(lambda: collections.defaultdict(lambda: [0, 0]))   # file -> (name,start) -> [count, end]
ln = collections.defaultdict(dict)                                             # file -> line -> count
work = f'{B}/covwork.{pid}'; shutil.rmtree(work, ignore_errors=True); os.makedirs(work)
objs = []
for cv in sorted(set(cv for _, cv, _ in hs)):
    objs += glob.glob(f'{B}/{cv}/k/**/*.gcda', recursive=True)
for n, cv, h in hs:
    objs += glob.glob(f'{B}/{cv}/h/{n}.gcda')
for g in objs:
    subprocess.run(['gcov', '-j', '-m', '-o', os.path.dirname(g), g], cwd=work, stdout=subprocess.DEVNULL, stderr=subprocess.DEVNULL)
for jf in glob.glob(work + '/*.gcov.json.gz'):
    d = json.load(gzip.open(jf))
    for f in d['files']:
        p = os.path.normpath(f['file'])
        if not p.startswith(REPO + '/'): continue
        rel = p[len(REPO) + 1:]
        if rel not in anchors: continue
        for x in f['functions']:
            k = (x['demangled_name'] if 'demangled_name' in x else x['name'], x['start_line'])
            fn[rel][k][0] += x['execution_count']; fn[rel][k][1] = x['end_line']
        for x in f['lines']:
            ln[rel][x['line_number']] = ln[rel].get(x['line_number'], 0) + x['count']
out = []
stmt = re.compile(r'(;\s*(//.*)?$)|(^\s*(if|for|while|switch|return)\b)')
tot_unexec = tot_blocks = 0
for rel in anchors:
    src = open(f'{REPO}/{rel}', errors='replace').read().split('\n')
    out.append(f'== {rel}')
    if rel not in ln and rel not in fn:
        out.append('   NO CODE GENERATED FROM THIS FILE BY ANY HARNESS (not included, or only declarations / uninstantiated templates)')
    # (a) compiled but never executed: collapse template instantiations by start line
    bystart = collections.defaultdict(lambda: [0, 0, None, 0])
    for (name, st), (cnt, end) in fn[rel].items():
        e = bystart[st]; e[0] += cnt; e[1] += 1; e[3] = end
        if e[2] is None or len(name) < len(e[2]): e[2] = name
    un = [(st, e) for st, e in sorted(bystart.items()) if e[0] == 0]
    for st, e in un:
        out.append(f'   never executed  l.{st}-{e[3]}  ({e[1]} instantiation(s))  {e[2][:160]}')
    tot_unexec += len(un)
    # (b) statement blocks without any generated code
    have = set(ln[rel].keys())
    # lines inside functions known to gcov count as generated
    spans = [(st, e[3]) for st, e in bystart.items()]
    def in_span(i):
        return any(a <= i <= b for a, b in spans)
    run = []; depth_comment = False
    blocks = []
    for i, t in enumerate(src, 1):
        s = t.strip()
        if s.startswith('/*'): depth_comment = True
        is_stmt = (not depth_comment) and bool(stmt.search(t)) and not s.startswith(('//', '*', '#', 'typedef', 'using', 'static constexpr', 'static const', 'friend', 'template')) \
            and not re.match(r'^(virtual\s+|static\s+|explicit\s+|inline\s+)?[\w:<>,&\*\s]+\([^;{]*\)\s*(const)?\s*(override)?\s*(=\s*(0|default|delete))?;\s*$', s)
        if '*/' in s: depth_comment = False
        if is_stmt and i not in have and not in_span(i): run.append(i)
        elif s == '' or s in ('{', '}', '};') or s.startswith(('//', '*', '/*')): continue
        elif i in have or in_span(i):
            if len(run) >= 4: blocks.append((run[0], run[-1], len(run)))
            run = []
    if len(run) >= 4: blocks.append((run[0], run[-1], len(run)))
    for a1, b1, n in blocks:
        # nearest preceding signature-like line
        sig = ''
        for j in range(a1 - 1, max(a1 - 40, 0), -1):
            tj = src[j - 1].strip()
            if re.search(r'\w\s*\(.*\)?\s*(const)?\s*(override)?\s*$', tj) and not tj.startswith(('//', '*', 'if', 'for', 'while', 'XASSERT', 'ASSERT', 'return')) and ';' not in tj:
                sig = tj; break
        out.append(f'   no code generated  l.{a1}-{b1}  ({n} statement lines)  near: {sig[:140]}')
    tot_blocks += len(blocks)
os.makedirs(f'{ROOT}/build/coverage', exist_ok=True)
rep = f'{ROOT}/build/coverage/{pid}.txt'
open(rep, 'w').write(f'# coverage audit {pid} tier={tier} deadline={deadline}s harnesses={" ".join(n + "." + cv for n, cv, _ in hs)}\n' + '\n'.join(out) + '\n')
print(f'{pid}: {tot_unexec} compiled-but-unexecuted functions, {tot_blocks} uninstantiated blocks -> {rep}')
if not keep:
    shutil.rmtree(work, ignore_errors=True)
