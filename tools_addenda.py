#!/usr/bin/env python3
"""appends the descriptions of later harness extensions to level_text / level_note / technique of checks.json (idempotent)"""
import json
A={
'C02':("level_text"," Later rounds added: a relatives / target-reuse phase (targets sharing index arrays with bystanders), a derived-object phase, MemoryPool bookkeeping in the state key, self-aliasing x.op(x) for every target-writing operation on every state (incl. non-square shapes), copy(x, full), and DenseMatrix in the whole operation alphabet."),
'C03':("level_text"," Later rounds added: every operation a second time on the same objects, derived/weak-clone operands with bystanders, all-negative and extreme alphabets, and DenseMatrix::multiply (dense x dense, CSR x dense; separate and aliased addend z, alpha/beta in {0,1,-1,0.5,2,0.3}^2, NaN-prefilled outputs, repeated accumulating calls)."),
'C08':("level_text"," New harnesses c08_amavanka, c08_vanka, c08_uzawa (AmaVanka on CSR / blocked saddle-point matrices with user and automatic macros, Vanka in all 8 variants, UzawaPrecond in all 4 types with exact sub-solvers, SchwarzPrecond on one process) with dense long-double oracles and the same life-cycle BFS; the BFS key also carries 'applied since init' bits and the number of init_numeric calls since the last done_numeric (re-run without done_numeric)."),
'C12':("level_text"," New harness c12_control (minimpi): PartiDomainControl::create on P in {1..8,12,16} rank threads over four mesh files, plain and layered level strings, default/2level/naive/genetic/extern partitioners; every level all ranks own is compared bitwise with the one-process refinement (cover, injectivity, neighbour and halo agreement, global masked boundary per patch)."),
'C16':("level_text"," Later rounds added: c16_history(3d) (every entry point as fresh / refill / marker history, bystander layout clones, alpha alphabet, element/facet orders and subsets, clear()-and-re-add histories) and c16_pattern(3d) (every SymbolicAssembler entry point on meshes with {none, fine, coarse, both} permuted x 7 strategies against couplings required by geometry, then numeric assembly into the pattern)."),
'C17':("level_text"," Later rounds added: fault configurations (one task operation - constructor / prepare / assemble / scatter / combine at every cell or ordinal - throws in one of two assemble() calls; all schedules must terminate, nothing is assembled twice or scattered next to a neighbour, the clean call on the same assembler assembles every cell exactly once), and the real-job harnesses run all job kinds of basic_assembly_jobs.hpp / function_integral_jobs.hpp in three groups."),
'C18':("level_text"," New harnesses c18_asm (Control::Asm::asm_transfer_scalar/blocked into Global::Transfer: first assembly / mesh update + re-assembly / third assembly / trunc switched on, each compared bitwise with fresh objects and the kernel route) and c18_intermesh (assemble_intermesh_transfer(_direct) fine<-coarse, renumbered, coarse<-fine against lattice oracle and 2-level prolongation; matrix-free transfer_intermesh_vector == assembled matrix; LocalMassMatrixSingularException; structured CoarseFineCellMapping)."),
'C20':("level_text"," Later rounds added: no-op transitions kept one more level, accessors as first access, raw-pointer co-owner constructors, and 'grown' cases (SparseVector / SparseVectorBlocked after 1-2 re-allocations followed by every chain of copy-like operations with size bookkeeping and full array reads under ASan)."),
}
N={
'C08':("Schwarz only through c07_solvers_glob; Uzawa/Vanka/AmaVanka not covered.","AmaVanka on SaddlePoint<CSR,..> does not compile (class doc lists BCSR only); the SOR/SSOR PropertyMap constructors do not compile when instantiated (observation)."),
'C12':("Partitions produced by the control layer need a communicator and belong to C13.","The control layer (PartiDomainControl) runs over the in-process MPI model in c12_control."),
}
c=json.load(open('/verif/checks.json'))
for p,(f,t) in A.items():
    x=c['checks'][p]
    if t.strip()[:40] not in x[f]: x[f]=x[f].rstrip()+t
for p,(old,new) in N.items():
    x=c['checks'][p]
    if old in x['level_note']: x['level_note']=x['level_note'].replace(old,new)
json.dump(c,open('/verif/checks.json','w'),indent=1)
print("ok")
