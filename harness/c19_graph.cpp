// C19 -- graph, permutation, colouring and Cuthill-McKee tools meet their definitions.
//
// Bounded-exhaustive enumeration (no sampling) of
//   A  all adjacency relations nd x ni (nd,ni <= 3, per-node ordered lists of length <= 2 with duplicates):
//      every single-adjactor render type of Graph and DynamicGraph, both copy constructors, clone/move,
//      sort_indices, serialize round trip, the permutation copy constructor for all (P,Q) in S_nd x S_ni,
//      permute_indices
//   B  all pairs of relations R1 (nd x nm), R2 (nm x ni): composite render of Graph (8 types), of the
//      CompositeAdjactor, of DynamicGraph (+compose)
//   C  all permutations of length 1..5 (thorough ..7) through every ConstrType, apply (in-place, out-of-place,
//      inverted or not, type converting), inverse, clone, move, concat of all pairs; the empty permutation
//   D  all symmetric graphs (n <= 5) with several loop masks and three list orders (ascending, descending, scrambled): Coloring without and with
//      every order array, partition graph, array/vector constructors; CuthillMcKee::compute for every
//      root x sort x reverse option (bijection + an independent level-structure reference); all directed
//      graphs n <= 3 (thorough 4) for CuthillMcKee
//   E  CSR matrix / DenseVector / Graph permuted by the same permutations relabel consistently
//   F  DynamicGraph operation histories (BFS by history replay, std::set<pair> reference)
//
// The oracle is a std::vector<std::vector<Index>> / std::set based reference written here.
#include <verif.hpp>
#include <kernel/runtime.hpp>
#include <kernel/adjacency/graph.hpp>
#include <kernel/adjacency/dynamic_graph.hpp>
#include <kernel/adjacency/permutation.hpp>
#include <kernel/adjacency/coloring.hpp>
#include <kernel/adjacency/cuthill_mckee.hpp>
#include <kernel/util/random.hpp>
#include <kernel/lafem/dense_vector.hpp>
#include <kernel/lafem/sparse_matrix_csr.hpp>

#include <numeric>
#include <memory>
#include <deque>

using namespace FEAT;
using namespace FEAT::Adjacency;

namespace
{
  typedef std::vector<Index> IV;
  typedef std::vector<IV> Lists;

  struct Rel
  {
    Index nd = 0, ni = 0;
    Lists l;
    Index nidx() const { Index s = 0; for(auto& x : l) s += Index(x.size()); return s; }
    bool operator==(const Rel& o) const { return nd == o.nd && ni == o.ni && l == o.l; }
  };

  std::string str(const IV& v)
  {
    std::string s = "[";
    for(size_t i = 0; i < v.size(); ++i) { if(i) s += ","; s += std::to_string(v[i]); }
    return s + "]";
  }
  std::string str(const Rel& r)
  {
    std::string s = std::to_string(r.nd) + "x" + std::to_string(r.ni) + "{";
    for(size_t i = 0; i < r.l.size(); ++i) { if(i) s += " "; s += str(r.l[i]); }
    return s + "}";
  }
  uint64_t hash_rel(const Rel& r, uint64_t salt = 0)
  {
    verif::Hash h; h.pod(salt).pod(r.nd).pod(r.ni);
    for(auto& x : r.l) { h.pod(uint64_t(x.size())); for(Index k : x) h.pod(k); }
    return h.get();
  }

  // all ordered lists of length <= maxlen over {0..ni-1}, shortest first
  std::vector<IV> all_lists(Index ni, Index maxlen)
  {
    std::vector<IV> out; out.push_back(IV());
    size_t first = 0;
    for(Index len = 1; len <= maxlen; ++len)
    {
      size_t last = out.size();
      for(size_t k = first; k < last; ++k)
        for(Index j = 0; j < ni; ++j) { IV v = out[k]; v.push_back(j); out.push_back(v); }
      first = last;
    }
    return out;
  }

  // odometer over relations: calls f(rel) for every relation with nd nodes whose lists come from 'lists'
  template<typename F>
  void for_each_rel(Index nd, Index ni, const std::vector<IV>& lists, F&& f)
  {
    std::vector<size_t> od(nd, 0);
    Rel r; r.nd = nd; r.ni = ni; r.l.assign(nd, IV());
    while(true)
    {
      for(Index i = 0; i < nd; ++i) r.l[i] = lists[od[i]];
      f(const_cast<const Rel&>(r));
      Index k = 0;
      for(; k < nd; ++k) { if(++od[k] < lists.size()) break; od[k] = 0; }
      if(k == nd) break;
    }
  }

  Graph make_graph(const Rel& r, bool array_ctor)
  {
    IV dp(r.nd + 1, 0), ix;
    for(Index i = 0; i < r.nd; ++i) { for(Index k : r.l[i]) ix.push_back(k); dp[i + 1] = Index(ix.size()); }
    if(array_ctor)
      return Graph(r.nd, r.ni, Index(ix.size()), dp.data(), ix.data());
    return Graph(r.ni, dp, ix);
  }

  // reads the raw arrays of a graph, validating the layout
  bool read_graph(const Graph& g, Rel& out, std::string& err)
  {
    out = Rel();
    out.nd = g.get_num_nodes_domain();
    out.ni = g.get_num_nodes_image();
    const IV& dp = g._domain_ptr;
    const IV& ix = g._image_idx;
    if(dp.empty())
    {
      if(!ix.empty()) { err = "no domain pointer but image indices"; return false; }
      return true;
    }
    if(dp[0] != 0) { err = "domain_ptr[0] != 0"; return false; }
    for(size_t i = 0; i + 1 < dp.size(); ++i) if(dp[i + 1] < dp[i]) { err = "domain_ptr not monotone"; return false; }
    if(dp.back() != ix.size()) { err = "domain_ptr[nd]=" + std::to_string(dp.back()) + " != number of indices " + std::to_string(ix.size()); return false; }
    if(g.get_num_indices() != ix.size()) { err = "get_num_indices"; return false; }
    out.l.assign(out.nd, IV());
    Index deg = 0;
    for(Index i = 0; i < out.nd; ++i)
    {
      for(Index k = dp[i]; k < dp[i + 1]; ++k)
      {
        if(ix[k] >= out.ni) { err = "image index " + std::to_string(ix[k]) + " out of range"; return false; }
        out.l[i].push_back(ix[k]);
      }
      if(g.degree(i) != out.l[i].size()) { err = "degree(i)"; return false; }
      deg = std::max(deg, Index(out.l[i].size()));
      // adjactor interface
      IV viaadj;
      for(auto it = g.image_begin(i); it != g.image_end(i); ++it) viaadj.push_back(*it);
      if(viaadj != out.l[i]) { err = "image_begin/end differ from arrays"; return false; }
    }
    if(g.degree() != deg) { err = "degree()"; return false; }
    return true;
  }

  template<typename Adj_>
  Rel read_adj(const Adj_& a)
  {
    Rel r; r.nd = a.get_num_nodes_domain(); r.ni = a.get_num_nodes_image(); r.l.assign(r.nd, IV());
    for(Index i = 0; i < r.nd; ++i)
    {
      auto it = a.image_begin(i); auto jt = a.image_end(i);
      for(; it != jt; ++it) r.l[i].push_back(*it);
    }
    return r;
  }

  IV uniq_first(const IV& v)
  {
    IV o;
    for(Index k : v) if(std::find(o.begin(), o.end(), k) == o.end()) o.push_back(k);
    return o;
  }

  Rel ref_transpose(const Rel& r)
  {
    Rel t; t.nd = r.ni; t.ni = r.nd; t.l.assign(t.nd, IV());
    for(Index i = 0; i < r.nd; ++i) for(Index k : r.l[i]) t.l[k].push_back(i);
    return t;
  }

  // the definition of the eight render types in terms of lists
  Rel ref_render(RenderType rt, const Rel& r)
  {
    Rel o;
    switch(rt)
    {
    case RenderType::as_is: case RenderType::as_is_sorted: o = r; break;
    case RenderType::injectify: case RenderType::injectify_sorted: o = r; for(auto& x : o.l) x = uniq_first(x); break;
    case RenderType::transpose: case RenderType::transpose_sorted: o = ref_transpose(r); break;
    case RenderType::injectify_transpose: case RenderType::injectify_transpose_sorted:
      o = r; for(auto& x : o.l) x = uniq_first(x); o = ref_transpose(o); break;
    }
    if(rt == RenderType::as_is_sorted || rt == RenderType::injectify_sorted)
      for(auto& x : o.l) std::sort(x.begin(), x.end());
    return o;
  }

  Rel ref_compose(const Rel& a, const Rel& b)
  {
    Rel o; o.nd = a.nd; o.ni = b.ni; o.l.assign(o.nd, IV());
    for(Index i = 0; i < a.nd; ++i) for(Index k : a.l[i]) for(Index j : b.l[k]) o.l[i].push_back(j);
    return o;
  }

  Rel as_sets(const Rel& r)
  {
    Rel o = r;
    for(auto& x : o.l) { std::sort(x.begin(), x.end()); x.erase(std::unique(x.begin(), x.end()), x.end()); }
    return o;
  }

  bool is_transposing(RenderType rt) { return int(rt) >= 4; }

  const char* rt_name(RenderType rt)
  {
    static const char* n[] = {"as_is", "as_is_sorted", "injectify", "injectify_sorted", "transpose", "transpose_sorted", "injectify_transpose", "injectify_transpose_sorted"};
    return n[int(rt)];
  }
  const RenderType all_rt[8] = {RenderType::as_is, RenderType::as_is_sorted, RenderType::injectify, RenderType::injectify_sorted,
    RenderType::transpose, RenderType::transpose_sorted, RenderType::injectify_transpose, RenderType::injectify_transpose_sorted};

  // runs f in a forked child: 0 = returned true, 1 = returned false, 2 = died
  int probe(const std::function<bool()>& f)
  {
    fflush(stdout); fflush(stderr);
    pid_t p = fork();
    if(p < 0) return 2;
    if(p == 0)
    {
      int dn = open("/dev/null", O_WRONLY);
      if(dn >= 0) { dup2(dn, 2); dup2(dn, 1); }
      alarm(20);
      bool ok = f();
      _exit(ok ? 0 : 7);
    }
    int st = 0;
    while(waitpid(p, &st, 0) < 0) {}
    if(WIFEXITED(st) && WEXITSTATUS(st) == 0) return 0;
    if(WIFEXITED(st) && WEXITSTATUS(st) == 7) return 1;
    return 2;
  }
  const char* probe_txt(int s) { return s == 0 ? "ok" : (s == 1 ? "wrong result" : "abort/crash"); }

  std::vector<IV> all_perms(Index n)
  {
    std::vector<IV> out;
    IV p(n); std::iota(p.begin(), p.end(), Index(0));
    do { out.push_back(p); } while(std::next_permutation(p.begin(), p.end()));
    return out;
  }
  IV inv_of(const IV& p) { IV q(p.size()); for(Index i = 0; i < p.size(); ++i) q[p[i]] = i; return q; }

  Permutation make_perm(const IV& p)
  {
    if(p.empty()) return Permutation();
    return Permutation(Index(p.size()), Permutation::ConstrType::perm, p.data());
  }

  // ---------------------------------------------------------------------------------------------
  // Cuthill-McKee reference: level structure with stable degree sort
  struct CmkRef { IV perm; IV layers; bool multi_hazard = false; };
  CmkRef ref_cmk(const Rel& g, bool reverse, CuthillMcKee::RootType rtp, CuthillMcKee::SortType stp)
  {
    const Index n = g.nd;
    CmkRef out;
    std::vector<char> mask(n, 0);
    IV deg(n); for(Index i = 0; i < n; ++i) deg[i] = Index(g.l[i].size());
    out.layers.push_back(0);
    while(out.perm.size() < n)
    {
      Index root = n;
      for(Index j = 0; j < n; ++j)
      {
        if(mask[j]) continue;
        if(root == n) { root = j; if(rtp == CuthillMcKee::RootType::standard) break; continue; }
        if(rtp == CuthillMcKee::RootType::minimum_degree && deg[j] < deg[root]) root = j;
        if(rtp == CuthillMcKee::RootType::maximum_degree && deg[j] > deg[root]) root = j;
      }
      std::vector<IV> levels; levels.push_back(IV(1, root)); mask[root] = 1;
      while(true)
      {
        IV next;
        for(Index v : levels.back()) for(Index k : g.l[v]) if(!mask[k]) { mask[k] = 1; next.push_back(k); }
        if(next.empty()) break;
        if(stp == CuthillMcKee::SortType::asc) std::stable_sort(next.begin(), next.end(), [&](Index a, Index b){ return deg[a] < deg[b]; });
        if(stp == CuthillMcKee::SortType::desc) std::stable_sort(next.begin(), next.end(), [&](Index a, Index b){ return deg[a] > deg[b]; });
        levels.push_back(next);
      }
      // a further component follows and this one ends with a level of >= 2 nodes
      if(levels.size() >= 2 && levels.back().size() >= 2 && out.perm.size() + [&]{ Index s = 0; for(auto& l : levels) s += Index(l.size()); return s; }() < n)
        out.multi_hazard = true;
      if(reverse) { std::reverse(levels.begin(), levels.end()); for(auto& l : levels) std::reverse(l.begin(), l.end()); }
      for(auto& l : levels) { for(Index v : l) out.perm.push_back(v); out.layers.push_back(Index(out.perm.size())); }
    }
    out.layers.push_back(n);
    return out;
  }

  bool is_bijection(const Index* p, Index n)
  {
    std::vector<char> seen(n, 0);
    for(Index i = 0; i < n; ++i) { if(p[i] >= n || seen[p[i]]) return false; seen[p[i]] = 1; }
    return true;
  }

  // in-place apply must equal out-of-place apply, and the swap array must be valid
  bool perm_consistent(const Permutation& P, const IV& expect, std::string& err)
  {
    const Index n = Index(expect.size());
    if(P.size() != n) { err = "size"; return false; }
    if(P.empty() != (n == 0)) { err = "empty()"; return false; }
    for(Index i = 0; i < n; ++i) if(P.get_perm_pos()[i] != expect[i]) { err = "perm_pos=" + str(IV(P.get_perm_pos(), P.get_perm_pos() + n)) + " expected " + str(expect); return false; }
    for(Index i = 0; i < n; ++i) if(P.get_swap_pos()[i] < i || P.get_swap_pos()[i] >= n) { err = "swap_pos[" + std::to_string(i) + "] invalid"; return false; }
    for(Index i = 0; i < n; ++i) if(P.map(i) != expect[i]) { err = "map"; return false; }
    if(n == 0) return true;
    IV x(n), y(n, 9999), z(n, 9999);
    for(Index i = 0; i < n; ++i) x[i] = 100 + 7 * i;
    // y[i] = x[P(i)]
    P.apply(y.data(), x.data());
    for(Index i = 0; i < n; ++i) if(y[i] != x[expect[i]]) { err = "apply(y,x)"; return false; }
    // z[P(i)] = x[i]
    P.apply(z.data(), x.data(), true);
    for(Index i = 0; i < n; ++i) if(z[expect[i]] != x[i]) { err = "apply(y,x,invert)"; return false; }
    IV w = x; P.apply(w.data());
    if(w != y) { err = "in-place apply(x)=" + str(w) + " expected " + str(y) + " swap=" + str(IV(P.get_swap_pos(), P.get_swap_pos() + n)); return false; }
    w = x; P.apply(w.data(), true);
    if(w != z) { err = "in-place apply(x,invert)=" + str(w) + " expected " + str(z); return false; }
    // in-place inverse undoes in-place forward
    w = x; P.apply(w.data()); P.apply(w.data(), true);
    if(w != x) { err = "apply;apply(invert) != id"; return false; }
    // type converting out-of-place
    std::vector<double> yd(n, -1.0);
    P.apply(yd.data(), x.data());
    for(Index i = 0; i < n; ++i) if(yd[i] != double(x[expect[i]])) { err = "apply<double,Index>"; return false; }
    std::vector<float> xf(n); for(Index i = 0; i < n; ++i) xf[i] = 0.25f * float(i) - 1.0f;
    std::vector<float> wf = xf; P.apply(wf.data());
    for(Index i = 0; i < n; ++i) if(wf[i] != xf[expect[i]]) { err = "in-place apply<float>"; return false; }
    return true;
  }

  // symmetric graph on n nodes from an edge mask over pairs (i<j) and a loop mask
  Rel sym_graph(Index n, unsigned emask, unsigned lmask, int order) // order: 0 ascending, 1 descending, 2 scrambled (rotated by one)
  {
    Rel r; r.nd = r.ni = n; r.l.assign(n, IV());
    unsigned b = 0;
    std::vector<std::set<Index>> s(n);
    for(Index i = 0; i < n; ++i) for(Index j = i + 1; j < n; ++j, ++b) if(emask & (1u << b)) { s[i].insert(j); s[j].insert(i); }
    for(Index i = 0; i < n; ++i) if(lmask & (1u << i)) s[i].insert(i);
    for(Index i = 0; i < n; ++i) { r.l[i].assign(s[i].begin(), s[i].end()); if(order == 1) std::reverse(r.l[i].begin(), r.l[i].end()); if(order == 2 && r.l[i].size() > 1) std::rotate(r.l[i].begin(), r.l[i].begin() + 1 + (i % (r.l[i].size() - 1)), r.l[i].end()); }
    return r;
  }
  Rel dir_graph(Index n, unsigned mask)
  {
    Rel r; r.nd = r.ni = n; r.l.assign(n, IV());
    unsigned b = 0;
    for(Index i = 0; i < n; ++i) for(Index j = 0; j < n; ++j, ++b) if(mask & (1u << b)) r.l[i].push_back(j);
    return r;
  }

  const CuthillMcKee::RootType all_root[3] = {CuthillMcKee::RootType::standard, CuthillMcKee::RootType::minimum_degree, CuthillMcKee::RootType::maximum_degree};
  const CuthillMcKee::SortType all_sort[3] = {CuthillMcKee::SortType::standard, CuthillMcKee::SortType::asc, CuthillMcKee::SortType::desc};
  const char* root_name[3] = {"standard", "minimum_degree", "maximum_degree"};
  const char* sort_name[3] = {"standard", "asc", "desc"};

  // stable keys of the defect classes probed up-front
  const char* KEY_SORTED_EMPTY = "graph.render *_sorted of an adjactor without adjacencies aborts (sort_indices asserts non-empty)";
  const char* KEY_COMPOSITE_ADJ = "composite-adjactor: first image node of a domain node has an empty second adjacency list";
  const char* KEY_CMK_MAXDEG = "cmk.maximum_degree root with a degree-0 node: no root found (abort)";
  const char* KEY_CMK_MULTI = "cmk: several components, a non-last component ends with a level of >= 2 nodes (root of the next component overwrites a position)";
  const char* KEY_SELF_CONCAT = "permutation.concat with itself (p.concat(p)) reads entries it has already overwritten: result is not p o p (not even a permutation)";
  const char* KEY_SELF_COMPOSE = "dynamic_graph.compose with itself (g.compose(g)) clears each row before reading it through the argument: result is not g o g";
  const char* KEY_PERMUTE_IDX = "graph.permute_indices asserts num_indices == perm size instead of num_nodes_image";
  const char* KEY_EMPTY_PERM_INV = "permutation: in-place inverse apply of the empty permutation runs out of bounds";

  struct Hazards { int sorted_empty, composite_adj, cmk_maxdeg, cmk_multi, permute_idx, empty_perm_inv, self_concat, self_compose; };

  // --------------------------------------------------------------------------------------------- part A
  void check_single(verif::Ctx& c, const Rel& r, const Hazards& hz)
  {
    std::string err;
    const Index nidx = r.nidx();
    Graph g = make_graph(r, false);
    {
      Rel back;
      c.check(read_graph(g, back, err) && back == r, "graph.copy-vector ctor", [&]{ return err + " got " + str(back); });
      Graph g2 = make_graph(r, true);
      c.check(read_graph(g2, back, err) && back == r, "graph.copy-array ctor", [&]{ return err + " got " + str(back); });
    }
    for(RenderType rt : all_rt)
    {
      const bool sorted_rt = (rt == RenderType::as_is_sorted || rt == RenderType::injectify_sorted);
      const Rel ref = ref_render(rt, r);
      if(sorted_rt && nidx == 0 && hz.sorted_empty != 0) { c.excluded("sorted render of an adjactor without adjacencies (reported once as finding)"); }
      else
      {
        Graph h(rt, g);
        Rel got;
        bool ok = read_graph(h, got, err) && got == ref;
        c.check(ok, std::string("graph.render.single ") + rt_name(rt), [&]{ return err + " got " + str(got) + " expected " + str(ref); });
      }
      {
        DynamicGraph d(rt, g);
        Rel got = read_adj(d);
        Rel want = as_sets(is_transposing(rt) ? ref_transpose(r) : r);
        c.check(got == want, std::string("dynamic_graph.render.single ") + rt_name(rt), [&]{ return " got " + str(got) + " expected " + str(want); });
        c.check(d.get_num_indices() == want.nidx() && d.degree() == [&]{ Index m = 0; for(auto& x : want.l) m = std::max(m, Index(x.size())); return m; }(),
          "dynamic_graph.counts", "get_num_indices/degree");
      }
    }
    // clone, move
    {
      Graph cl = g.clone();
      Rel got; c.check(read_graph(cl, got, err) && got == r, "graph.clone", [&]{ return err + str(got); });
      Graph mv(std::move(cl));
      c.check(read_graph(mv, got, err) && got == r, "graph.move-ctor", [&]{ return err + str(got); });
      c.check(cl.get_num_nodes_domain() == 0 && cl.get_num_indices() == 0 && cl.get_num_nodes_image() == 0, "graph.move-ctor source not emptied", "");
      Graph ma = make_graph(ref_transpose(r), false);
      ma = std::move(mv);
      c.check(read_graph(ma, got, err) && got == r, "graph.move-assign", [&]{ return err + str(got); });
      ma = std::move(ma);
      c.check(read_graph(ma, got, err) && got == r, "graph.self-move-assign", [&]{ return err + str(got); });
      // derived objects: the complete render set from the clone->moved->move-assigned graph and from a deserialised one
      Graph de(g.serialize());
      for(RenderType rt : all_rt)
      {
        if((rt == RenderType::as_is_sorted || rt == RenderType::injectify_sorted) && nidx == 0 && hz.sorted_empty != 0) continue;
        const Rel ref = ref_render(rt, r);
        Graph h1(rt, ma); Graph h2(rt, de);
        Rel g1, g2;
        c.check(read_graph(h1, g1, err) && g1 == ref && read_graph(h2, g2, err) && g2 == ref, std::string("graph.render from derived (moved/deserialised) graph ") + rt_name(rt), [&]{ return err + str(g1) + str(g2); });
      }
      // same object as both factors of a composite render (square relations)
      if(r.nd == r.ni)
      {
        const Rel comp = ref_compose(r, r);
        for(RenderType rt : {RenderType::as_is, RenderType::injectify, RenderType::transpose, RenderType::injectify_transpose})
        {
          Graph h(rt, g, g); Rel got2;
          c.check(read_graph(h, got2, err) && got2 == ref_render(rt, comp), std::string("graph.render.composite of a graph with itself ") + rt_name(rt), [&]{ return err + str(got2); });
        }
        // unusual overloads: mixed adjactor types in one composite render
        DynamicGraph dg(RenderType::as_is, g);
        const Rel rs = as_sets(r);
        Graph hm(RenderType::injectify_sorted, dg, g); Rel gm;
        c.check(read_graph(hm, gm, err) && gm == ref_render(RenderType::injectify_sorted, ref_compose(rs, r)), "graph.render.composite DynamicGraph x Graph", [&]{ return err + str(gm); });
        Graph hm2(RenderType::transpose, g, dg);
        c.check(read_graph(hm2, gm, err) && gm == ref_render(RenderType::transpose, ref_compose(r, rs)), "graph.render.composite Graph x DynamicGraph", [&]{ return err + str(gm); });
      }
      // re-invocation: sort_indices twice, permutation constructor with the same permutation object for both sets
      if(nidx > 0 || hz.sorted_empty == 0)
      {
        Graph s2 = g.clone(); s2.sort_indices(); s2.sort_indices();
        Rel want = r; for(auto& x : want.l) std::sort(x.begin(), x.end());
        c.check(read_graph(s2, got, err) && got == want, "graph.sort_indices twice", [&]{ return err + str(got); });
      }
    }
    // sort_indices keeps every adjacency list as a multiset
    if(nidx > 0 || hz.sorted_empty == 0)
    {
      Graph s = g.clone(); s.sort_indices();
      Rel want = r; for(auto& x : want.l) std::sort(x.begin(), x.end());
      Rel got; c.check(read_graph(s, got, err) && got == want, "graph.sort_indices", [&]{ return err + str(got); });
    }
    else c.excluded("sort_indices() on a graph without domain pointer / without indices while the sorted-render probe fails");
    if(nidx == 0) c.excluded("permute_indices() on a graph without indices (asserted precondition)");
    // allocation constructor filled through the non-const array accessors; clear() and re-use of the cleared object
    {
      Graph a(r.nd, r.ni, nidx);
      Index* dp = a.get_domain_ptr(); Index* ix = a.get_image_idx();
      Index k = 0; dp[0] = 0;
      for(Index i = 0; i < r.nd; ++i) { for(Index j : r.l[i]) ix[k++] = j; dp[i + 1] = k; }
      Rel got; c.check(read_graph(a, got, err) && got == r, "graph.allocation ctor + get_domain_ptr/get_image_idx", [&]{ return err + str(got); });
      a.clear();
      c.check(a.get_num_nodes_domain() == 0 && a.get_num_nodes_image() == 0 && a.get_num_indices() == 0 && a.degree() == 0, "graph.clear", "");
      Graph e(RenderType::as_is, a);
      c.check(e.get_num_nodes_domain() == 0 && e.get_num_indices() == 0, "graph.render of a cleared graph", "");
      a = make_graph(r, true);
      c.check(read_graph(a, got, err) && got == r, "graph.move-assign into a cleared graph", [&]{ return err + str(got); });
      c.count("graph_clear");
    }
    // serialisation round trip
    {
      std::vector<char> buf = g.serialize();
      Graph d(buf);
      Rel got; c.check(read_graph(d, got, err) && got == r, "graph.serialize round trip", [&]{ return err + str(got); });
    }
    // permutation copy ctor: new domain node i is old node P(i), image node k is renamed Q(k)
    {
      const std::vector<IV> dps = all_perms(r.nd), ips = all_perms(r.ni);
      for(const IV& dp : dps) for(const IV& ip : ips)
      {
        Permutation P = make_perm(dp), Q = make_perm(ip);
        Graph h(g, P, Q);
        Rel want; want.nd = r.nd; want.ni = r.ni; want.l.assign(r.nd, IV());
        for(Index i = 0; i < r.nd; ++i) for(Index k : r.l[dp[i]]) want.l[i].push_back(ip[k]);
        Rel got;
        c.check(read_graph(h, got, err) && got == want, "graph.permutation ctor", [&]{ return err + " P=" + str(dp) + " Q=" + str(ip) + " got " + str(got) + " expected " + str(want); });
        c.count("graph_perm_ctor");
      }
      if(nidx > 0 && r.ni > 0)
      {
        if(nidx != r.ni && hz.permute_idx != 0) c.excluded("permute_indices with num_indices != num_nodes_image (reported once as finding)");
        else for(const IV& ip : ips)
        {
          Permutation Q = make_perm(ip);
          Graph h = g.clone(); h.permute_indices(Q);
          Rel want = r; for(auto& x : want.l) for(Index& k : x) k = ip[k];
          Rel got;
          c.check(read_graph(h, got, err) && got == want, "graph.permute_indices", [&]{ return err + " Q=" + str(ip) + " got " + str(got); });
        }
      }
    }
  }

  // --------------------------------------------------------------------------------------------- part B
  void check_pair(verif::Ctx& c, const Rel& r1, const Graph& g1, const Rel& r2, const Hazards& hz)
  {
    std::string err;
    Graph g2 = make_graph(r2, false);
    const Rel comp = ref_compose(r1, r2);
    const Index nidx = comp.nidx();
    bool ca_hazard = false;
    for(Index i = 0; i < r1.nd; ++i) if(!r1.l[i].empty() && r2.l[r1.l[i][0]].empty()) ca_hazard = true;
    auto where = [&]{ return " R2=" + str(r2); };
    for(RenderType rt : all_rt)
    {
      const bool sorted_rt = (rt == RenderType::as_is_sorted || rt == RenderType::injectify_sorted);
      const Rel ref = ref_render(rt, comp);
      if(sorted_rt && nidx == 0 && hz.sorted_empty != 0) c.excluded("sorted render of an adjactor without adjacencies (reported once as finding)");
      else
      {
        Graph h(rt, g1, g2);
        Rel got;
        c.check(read_graph(h, got, err) && got == ref, std::string("graph.render.composite ") + rt_name(rt),
          [&]{ return err + where() + " got " + str(got) + " expected " + str(ref); });
        c.count("composite_renders");
      }
      if(ca_hazard && hz.composite_adj != 0) c.excluded("CompositeAdjactor whose first image node has an empty second list (reported once as finding)");
      else if(!(sorted_rt && nidx == 0 && hz.sorted_empty != 0))
      {
        CompositeAdjactor<Graph, Graph> ca(g1, g2);
        Graph h(rt, ca);
        Rel got;
        c.check(read_graph(h, got, err) && got == ref, std::string("graph.render.composite-adjactor ") + rt_name(rt),
          [&]{ return err + where() + " got " + str(got) + " expected " + str(ref); });
        c.count("composite_adjactor_renders");
      }
    }
    for(RenderType rt : {RenderType::as_is, RenderType::injectify_sorted, RenderType::transpose, RenderType::injectify_transpose})
    {
      DynamicGraph d(rt, g1, g2);
      Rel got = read_adj(d);
      Rel want = as_sets(is_transposing(rt) ? ref_transpose(comp) : comp);
      c.check(got == want, std::string("dynamic_graph.render.composite ") + rt_name(rt), [&]{ return where() + " got " + str(got) + " expected " + str(want); });
    }
    {
      DynamicGraph d(RenderType::as_is, g1);
      d.compose(g2);
      Rel got = read_adj(d);
      Rel want = as_sets(comp);
      c.check(got == want, "dynamic_graph.compose", [&]{ return where() + " got " + str(got) + " expected " + str(want); });
    }
    if(nidx > 0) c.nontrivial(hash_rel(r2, hash_rel(r1, 2)));
    c.count("relation_pairs");
  }

  // --------------------------------------------------------------------------------------------- part D
  void check_coloring_result(verif::Ctx& c, const Rel& g, const Coloring& col, const std::string& key, const std::string& extra)
  {
    const Index n = g.nd;
    std::string err;
    bool ok = true;
    if(col.get_num_nodes() != n || col.size() != n) { ok = false; err = "size"; }
    const Index nc = col.get_num_colors();
    IV cv(n);
    for(Index i = 0; ok && i < n; ++i) { cv[i] = col.get_coloring()[i]; if(col[i] != cv[i]) { ok = false; err = "operator[]"; } }
    std::vector<char> used(nc, 0);
    for(Index i = 0; ok && i < n; ++i) { if(cv[i] >= nc) { ok = false; err = "colour " + std::to_string(cv[i]) + " >= num_colors " + std::to_string(nc); } else used[cv[i]] = 1; }
    for(Index k = 0; ok && k < nc; ++k) if(!used[k]) { ok = false; err = "colour " + std::to_string(k) + " < num_colors is unused"; }
    for(Index i = 0; ok && i < n; ++i) for(Index j : g.l[i]) if(i != j && cv[i] == cv[j]) { ok = false; err = "adjacent nodes " + std::to_string(i) + "," + std::to_string(j) + " share colour " + std::to_string(cv[i]); }
    if(ok && n > 0) { Index deg = 0; for(auto& x : g.l) deg = std::max(deg, Index(x.size())); if(nc > deg + 1) { ok = false; err = "more than degree+1 colours"; } }
    if(ok && n == 0 && (nc != 0 || !col.empty())) { ok = false; err = "empty graph must give the empty colouring"; }
    c.check(ok, key, [&]{ return err + " colouring=" + str(cv) + extra; });
    if(!ok) return;
    // partition graph: each node exactly once under its colour
    Graph pg = col.create_partition_graph();
    Rel got;
    bool pok = read_graph(pg, got, err);
    if(pok && (got.nd != nc || got.ni != n)) { pok = false; err = "dimensions " + std::to_string(got.nd) + "x" + std::to_string(got.ni); }
    if(pok)
    {
      Rel want; want.nd = nc; want.ni = n; want.l.assign(nc, IV());
      for(Index i = 0; i < n; ++i) want.l[cv[i]].push_back(i);
      Rel gs = got; for(auto& x : gs.l) std::sort(x.begin(), x.end());
      if(!(gs == want)) { pok = false; err = "got " + str(got) + " expected " + str(want); }
    }
    c.check(pok, key + " partition graph", [&]{ return err + " colouring=" + str(cv) + extra; });
  }

  void check_cmk(verif::Ctx& c, const Rel& g, const Graph& gr, const Hazards& hz, const std::string& kind)
  {
    const Index n = g.nd;
    if(n == 0) { c.excluded("CuthillMcKee on a graph without nodes (Permutation of size 0 is asserted against)"); return; }
    bool has_deg0 = false; for(auto& x : g.l) if(x.empty()) has_deg0 = true;
    for(int ri = 0; ri < 3; ++ri) for(int si = 0; si < 3; ++si) for(int rev = 0; rev < 2; ++rev)
    {
      if(ri == 2 && has_deg0 && hz.cmk_maxdeg != 0) { c.excluded("maximum_degree root with a degree-0 node (reported once as finding)"); continue; }
      const CmkRef ref = ref_cmk(g, rev != 0, all_root[ri], all_sort[si]);
      if(ref.multi_hazard && hz.cmk_multi != 0) { c.excluded("several components with a non-last component ending in a level of >= 2 nodes (reported once as finding)"); continue; }
      std::vector<Index> layers;
      Permutation P = CuthillMcKee::compute(layers, gr, rev != 0, all_root[ri], all_sort[si]);
      auto opts = [&]{ return std::string(" root=") + root_name[ri] + " sort=" + sort_name[si] + " reverse=" + std::to_string(rev); };
      bool bij = (P.size() == n) && is_bijection(P.get_perm_pos(), n);
      c.check(bij, "cmk.bijection " + kind, [&]{ return opts() + " perm=" + str(IV(P.get_perm_pos(), P.get_perm_pos() + P.size())); });
      c.count("cmk_runs");
      if(!bij) continue;
      std::string err;
      c.check(perm_consistent(P, ref.perm, err), "cmk.level-structure order / swap array " + kind, [&]{ return opts() + " " + err; });
      c.check(layers == ref.layers, "cmk.layers " + kind, [&]{ return opts() + " layers=" + str(layers) + " expected " + str(ref.layers); });
      Permutation P2 = CuthillMcKee::compute(gr, rev != 0, all_root[ri], all_sort[si]);
      c.check(P2.size() == n && std::equal(P2.get_perm_pos(), P2.get_perm_pos() + n, P.get_perm_pos()), "cmk.compute overloads differ " + kind, opts);
    }
  }

  // --------------------------------------------------------------------------------------------- part F
  struct DynOp { int kind; Index i, j; }; // 0 insert, 1 erase, 2 clear, 3 clone+move-assign, 4 compose(shift)
  typedef std::set<std::pair<Index, Index>> PairSet;

  std::string dyn_key(const DynamicGraph& d)
  {
    std::string k = std::to_string(d._num_nodes_domain) + "x" + std::to_string(d._num_nodes_image) + ":";
    for(size_t i = 0; i < d._indices.size(); ++i) { for(Index j : d._indices[i]) { k += std::to_string(j); k += ','; } k += ';'; }
    return k;
  }
  Rel shift_rel(Index ni)
  {
    Rel r; r.nd = r.ni = ni; r.l.assign(ni, IV());
    for(Index j = 0; j + 1 < ni; ++j) { r.l[j].push_back(j + 1); }
    if(ni > 0) r.l[ni - 1].push_back(ni - 1);
    if(ni > 1) r.l[0].push_back(0);
    return r;
  }
  std::string op_str(const DynOp& o)
  {
    static const char* nm[] = {"insert", "erase", "clear", "clone-move", "compose", "compose-with-itself"};
    std::string s = nm[o.kind];
    if(o.kind < 2) s += "(" + std::to_string(o.i) + "," + std::to_string(o.j) + ")";
    return s;
  }
}

int main(int argc, char** argv)
{
  Runtime::ScopeGuard guard(argc, argv);
  verif::Spec spec; spec.property = "C19"; spec.harness = "c19_graph";
  spec.rule = "cases: (A) one per adjacency relation nd x ni with ordered per-node lists of length <= 2 incl. duplicates; (B) one per first relation R1 x image size, "
    "looping over every second relation R2; (C) one per permutation; (D) one per (symmetric or directed) graph; (E) one per CSR pattern; (F) one BFS per DynamicGraph start "
    "configuration. Non-trivial: relation (pair) with >= 1 (composed) adjacency, permutation != identity of length >= 2, graph with >= 1 edge; hashed by the input lists/arrays.";
  spec.bounds_quick = "A: nd,ni<=3, lists<=2 (2197 relations for 3x3), all 8 render types, all S_nd x S_ni; B: R1 nd<=2, nm<=3, R2 ni<=3, lists<=2; C: length<=5, concat length<=4; "
    "D: all symmetric graphs n<=5 (loop masks: all for n<=3, {none,all,even} else), three list orders (ascending, descending, scrambled), all n! colouring orders, 18 CMK options; directed graphs n<=3; E: patterns<=3x3 with all S_m x S_n; F: depth<=4 on <=3x3";
  spec.bounds_thorough = "A: as quick plus lists<=3 for nd,ni<=2 ... ; B: R1 nd<=3; C: length<=7, concat length<=5; D: all loop masks n<=5, symmetric loop-free n=6 (colouring orders: all 720), directed n<=4; E: as quick; F: full closure (depth<=9) on <=3x3";
  spec.assumptions = {
    "reference = list/set based definitions written in the harness (render types, composition, permutation as bijection y[i]=x[P(i)], level-structure Cuthill-McKee with stable degree sort)",
    "excluded (asserted preconditions): Permutation(n=0,...), CuthillMcKee on 0 nodes, explicit permute_indices() on a graph without indices, sort_indices() on a graph without domain pointer, composite render with mismatching inner dimensions, colouring arrays with colour gaps",
    "not exercised (out of the property's scope): export_tga.hpp, CUDA branches of coloring.hpp; cuthill_mckee.hpp contains declarations only",
    "colouring is checked on symmetric relations only (the greedy algorithm looks at lower-numbered neighbours); self loops are allowed and ignored for properness",
    "six defect classes (all repaired in /repo meanwhile) are probed once in a forked child; if a probe fails it is reported under a stable key and the inputs of that class are counted as excluded"};
  spec.max_samples = 8;
  spec.case_timeout_s = 120; // a non-bijective ordering makes Permutation::calc_swap_from_perm loop forever inside CuthillMcKee::compute; report such hangs quickly

  return verif::run(spec, argc, argv, [&](verif::Ctx& c) {
    const bool T = c.thorough;
    std::string err;

    // ------------------------------------------------------------------ probes of suspected defect classes
    Hazards hz;
    hz.sorted_empty = probe([]{
      Rel r; r.nd = 1; r.ni = 1; r.l.assign(1, IV());
      Graph g = make_graph(r, false);
      Graph h(RenderType::injectify_sorted, g);
      Graph h2(RenderType::injectify_sorted, g, g);
      return h.get_num_nodes_domain() == 1 && h.get_num_indices() == 0 && h2.get_num_indices() == 0; });
    hz.composite_adj = probe([]{
      // R1: 0 -> [0,1]; R2: 0 -> [], 1 -> [0]: composition 0 -> [0]
      Rel r1; r1.nd = 1; r1.ni = 2; r1.l = Lists{IV{0, 1}};
      Rel r2; r2.nd = 2; r2.ni = 1; r2.l = Lists{IV{}, IV{0}};
      Graph g1 = make_graph(r1, false), g2 = make_graph(r2, false);
      CompositeAdjactor<Graph, Graph> ca(g1, g2);
      Rel got = read_adj(ca);
      return got == ref_compose(r1, r2); });
    hz.cmk_maxdeg = probe([]{
      Rel r; r.nd = 1; r.ni = 1; r.l.assign(1, IV());
      Graph g = make_graph(r, false);
      Permutation P = CuthillMcKee::compute(g, false, CuthillMcKee::RootType::maximum_degree, CuthillMcKee::SortType::standard);
      return P.size() == 1 && P.get_perm_pos()[0] == 0; });
    hz.cmk_multi = probe([]{
      Rel r; r.nd = 4; r.ni = 4; r.l = Lists{IV{1, 2}, IV{0}, IV{0}, IV{}};
      Graph g = make_graph(r, false);
      Permutation P = CuthillMcKee::compute(g, false, CuthillMcKee::RootType::standard, CuthillMcKee::SortType::standard);
      return P.size() == 4 && is_bijection(P.get_perm_pos(), 4); });
    hz.permute_idx = probe([]{
      Rel r; r.nd = 1; r.ni = 2; r.l = Lists{IV{1}};
      Graph g = make_graph(r, false);
      Index q[2] = {1, 0};
      Permutation Q(2, Permutation::ConstrType::perm, q);
      g.permute_indices(Q);
      return g.get_image_idx()[0] == 0; });
    hz.empty_perm_inv = probe([]{
      Permutation P;
      Index x[1] = {42};
      P.apply(x, true);
      return x[0] == 42; });

    hz.self_concat = probe([]{
      Index v[3] = {1, 2, 0};
      Permutation P(3, Permutation::ConstrType::perm, v);
      P.concat(P);
      return P.get_perm_pos()[0] == 2 && P.get_perm_pos()[1] == 0 && P.get_perm_pos()[2] == 1; });
    hz.self_compose = probe([]{
      // 0 -> {0}: g o g = g
      DynamicGraph d(1, 1); d.insert(0, 0);
      d.compose(d);
      return d.get_num_indices() == 1 && d.exists(0, 0); });
    if(c.want()) { c.desc([]{ return std::string("probe: Permutation p = [1,2,0]; p.concat(p)"); });
      c.check(hz.self_concat == 0, KEY_SELF_CONCAT, [&]{ return std::string(probe_txt(hz.self_concat)); }); }
    if(c.want()) { c.desc([]{ return std::string("probe: DynamicGraph 1x1 {0->0}; g.compose(g)"); });
      c.check(hz.self_compose == 0, KEY_SELF_COMPOSE, [&]{ return std::string(probe_txt(hz.self_compose)); }); }
    if(c.want()) { c.desc([]{ return std::string("probe: Graph(injectify_sorted, 1x1 graph without adjacencies)"); });
      c.check(hz.sorted_empty == 0, KEY_SORTED_EMPTY, [&]{ return std::string(probe_txt(hz.sorted_empty)); }); }
    if(c.want()) { c.desc([]{ return std::string("probe: CompositeAdjactor R1=1x2{[0,1]} R2=2x1{[] [0]} iterated through image_begin/image_end"); });
      c.check(hz.composite_adj == 0, KEY_COMPOSITE_ADJ, [&]{ return std::string(probe_txt(hz.composite_adj)); }); }
    if(c.want()) { c.desc([]{ return std::string("probe: CuthillMcKee::compute(1-node graph without edges, root=maximum_degree)"); });
      c.check(hz.cmk_maxdeg == 0, KEY_CMK_MAXDEG, [&]{ return std::string(probe_txt(hz.cmk_maxdeg)); }); }
    if(c.want()) { c.desc([]{ return std::string("probe: CuthillMcKee::compute(4x4{[1,2] [0] [0] []}, root=standard, sort=standard, reverse=false)"); });
      c.check(hz.cmk_multi == 0, KEY_CMK_MULTI, [&]{ return std::string(probe_txt(hz.cmk_multi)); }); }
    if(c.want()) { c.desc([]{ return std::string("probe: Graph 1x2{[1]}.permute_indices(perm [1,0])"); });
      c.check(hz.permute_idx == 0, KEY_PERMUTE_IDX, [&]{ return std::string(probe_txt(hz.permute_idx)); }); }
    if(c.want()) { c.desc([]{ return std::string("probe: Permutation().apply(x, invert=true)"); });
      c.check(hz.empty_perm_inv == 0, KEY_EMPTY_PERM_INV, [&]{ return std::string(probe_txt(hz.empty_perm_inv)); }); }

    // ------------------------------------------------------------------ A: single relations
    for(Index nd = 0; nd <= 3; ++nd) for(Index ni = 0; ni <= 3; ++ni)
    {
      const Index maxlen = (T && nd <= 2 && ni <= 2) ? 4 : ((T && ni <= 2) ? 3 : 2);
      const std::vector<IV> lists = all_lists(ni, maxlen);
      for_each_rel(nd, ni, lists, [&](const Rel& r)
      {
        if(!c.want()) return;
        c.desc([&]{ return "A single relation " + str(r); });
        check_single(c, r, hz);
        if(r.nidx() > 0) c.nontrivial(hash_rel(r, 1));
        c.count("relations");
        c.outcome("single");
      });
      // the default-constructed graph as adjactor
      if(nd == 0 && ni == 0 && c.want())
      {
        c.desc([]{ return std::string("A default-constructed Graph"); });
        Graph g;
        Rel want;
        for(RenderType rt : {RenderType::as_is, RenderType::injectify, RenderType::transpose, RenderType::injectify_transpose})
        {
          Graph h(rt, g); Rel got;
          c.check(read_graph(h, got, err) && got == want, std::string("graph.render.single default-graph ") + rt_name(rt), [&]{ return err + str(got); });
        }
        Graph cl = g.clone(); Rel got;
        c.check(read_graph(cl, got, err) && got == want, "graph.clone default-graph", [&]{ return err; });
        Coloring col(g);
        check_coloring_result(c, want, col, "coloring default-graph", "");
      }
    }

    // ------------------------------------------------------------------ B: pairs of relations
    for(Index nd = 0; nd <= (T ? 3u : 2u); ++nd) for(Index nm = 0; nm <= 3; ++nm)
    {
      const std::vector<IV> lists1 = all_lists(nm, 2);
      for_each_rel(nd, nm, lists1, [&](const Rel& r1)
      {
        for(Index ni = 0; ni <= 3; ++ni)
        {
          if(!c.want()) continue;
          c.desc([&]{ return "B composite: R1=" + str(r1) + " with every R2 of shape " + std::to_string(nm) + "x" + std::to_string(ni) + " (lists<=2)"; });
          const std::vector<IV> lists2 = all_lists(ni, 2);
          Graph g1 = make_graph(r1, false);
          for_each_rel(nm, ni, lists2, [&](const Rel& r2) { check_pair(c, r1, g1, r2, hz); });
          c.heartbeat();
          c.outcome("pairs");
        }
      });
    }

    // ------------------------------------------------------------------ C: permutations
    {
      // the empty permutation
      if(c.want())
      {
        c.desc([]{ return std::string("C empty permutation"); });
        Permutation P;
        c.check(P.size() == 0 && P.empty(), "permutation.empty", "size/empty");
        Permutation I = P.inverse(), Cl = P.clone();
        c.check(I.size() == 0 && Cl.size() == 0, "permutation.empty inverse/clone", "");
        Index x[2] = {5, 6}, y[2] = {7, 8};
        P.apply(x); P.apply(y, x); P.apply(y, x, true);
        c.check(x[0] == 5 && x[1] == 6 && y[0] == 7 && y[1] == 8, "permutation.empty apply touches data", "");
        if(hz.empty_perm_inv == 0) { P.apply(x, true); c.check(x[0] == 5 && x[1] == 6, "permutation.empty in-place inverse apply", ""); }
        else c.excluded("in-place inverse apply of the empty permutation (reported once as finding)");
        Permutation Q; Q.concat(P);
        c.check(Q.size() == 0, "permutation.empty concat", "");
      }
      // the random constructor (FEAT's deterministic generator with its default and a second seed): whatever it draws must be a
      // bijection with a consistent swap array; the auxiliary image iterators of adjactor.hpp
      if(c.want())
      {
        c.desc([]{ return std::string("C Permutation(n, Random&) for n=1..12, two seeds; IndexImageIterator / NullImageIterator"); });
        for(int seed = 0; seed < 2; ++seed)
        {
          Random rng = seed ? Random(Random::SeedType(4711)) : Random();
          for(Index n = 1; n <= 12; ++n)
          {
            Permutation P(n, rng);
            bool ok = P.size() == n && is_bijection(P.get_perm_pos(), n);
            c.check(ok, "permutation.random ctor is no bijection", [&]{ return str(IV(P.get_perm_pos(), P.get_perm_pos() + P.size())); });
            if(ok) { IV e(P.get_perm_pos(), P.get_perm_pos() + n); c.check(perm_consistent(P, e, err), "permutation.random ctor swap array", [&]{ return err; }); }
            c.count("random_permutations");
          }
        }
        Adjactor::IndexImageIterator a(3), b(5), d;
        Index cnt = 0, sum = 0;
        for(Adjactor::IndexImageIterator it(a); it != b; ++it) { ++cnt; sum += *it; }
        Adjactor::IndexImageIterator e2; e2 = b;
        c.check(cnt == 2 && sum == 7 && *d == 0 && !(e2 != b) && (a != b), "adjactor.IndexImageIterator", "");
        Adjactor::NullImageIterator n1, n2;
        c.check(!(n1 != n2), "adjactor.NullImageIterator compares unequal", "");
      }
      const Index nmax = T ? 7 : 5;
      for(Index n = 1; n <= nmax; ++n)
      {
        const std::vector<IV> perms = all_perms(n);
        // all swap arrays: s[i] in [i, n-1]
        std::vector<IV> swaps;
        {
          IV s(n); for(Index i = 0; i < n; ++i) s[i] = i;
          while(true)
          {
            swaps.push_back(s);
            Index k = 0;
            for(; k + 1 < n; ++k) { if(++s[k] < n) break; s[k] = k; }
            if(k + 1 >= n) break;
          }
        }
        for(size_t pi = 0; pi < perms.size(); ++pi)
        {
          if(!c.want()) continue;
          const IV& p = perms[pi];
          const IV& s = swaps[pi]; // independent enumeration of the same number (n!) of swap arrays
          c.desc([&]{ return "C permutation perm=" + str(p) + " and swap array " + str(s); });
          const IV pinv = inv_of(p);
          {
            Permutation P(n, Permutation::ConstrType::perm, p.data());
            c.check(perm_consistent(P, p, err), "permutation.ctor perm", [&]{ return err; });
            Permutation I = P.inverse();
            c.check(perm_consistent(I, pinv, err), "permutation.inverse", [&]{ return err; });
            // inverse undoes
            IV x(n), y(n), z(n); for(Index i = 0; i < n; ++i) x[i] = 3 * i + 1;
            P.apply(y.data(), x.data()); I.apply(z.data(), y.data());
            c.check(z == x, "permutation.inverse undoes", [&]{ return str(z); });
            Permutation Cl = P.clone();
            c.check(perm_consistent(Cl, p, err), "permutation.clone", [&]{ return err; });
            Permutation Mv(std::move(Cl));
            c.check(perm_consistent(Mv, p, err), "permutation.move-ctor", [&]{ return err; });
            Permutation Ma(n, Permutation::ConstrType::identity);
            Ma = std::move(Mv);
            c.check(perm_consistent(Ma, p, err), "permutation.move-assign", [&]{ return err; });
          }
          {
            Permutation P(n, Permutation::ConstrType::inv_perm, p.data());
            c.check(perm_consistent(P, pinv, err), "permutation.ctor inv_perm", [&]{ return err; });
          }
          {
            // definition of a swap array: x -> for i: swap(x[i], x[s[i]])
            IV ps(n); std::iota(ps.begin(), ps.end(), Index(0));
            for(Index i = 0; i < n; ++i) std::swap(ps[i], ps[s[i]]);
            Permutation P(n, Permutation::ConstrType::swap, s.data());
            c.check(perm_consistent(P, ps, err), "permutation.ctor swap", [&]{ return err; });
            c.check(std::equal(s.begin(), s.end(), P.get_swap_pos()), "permutation.ctor swap keeps swap array", "");
            Permutation Pi(n, Permutation::ConstrType::inv_swap, s.data());
            c.check(perm_consistent(Pi, inv_of(ps), err), "permutation.ctor inv_swap", [&]{ return err; });
            // the swap array computed from a perm array reproduces the perm
            Permutation P2(n, Permutation::ConstrType::perm, ps.data());
            Permutation P3(n, Permutation::ConstrType::swap, P2.get_swap_pos());
            c.check(perm_consistent(P3, ps, err), "permutation.calc_swap_from_perm;calc_perm_from_swap", [&]{ return err; });
          }
          // aliasing: p.concat(p) = p o p; concat applied twice on the same object; concat after the swap array went stale
          if(hz.self_concat == 0)
          {
            Permutation P(n, Permutation::ConstrType::perm, p.data());
            P.concat(P);
            IV want(n); for(Index i = 0; i < n; ++i) want[i] = p[p[i]];
            c.check(perm_consistent(P, want, err), "permutation.concat with itself", [&]{ return err; });
            Permutation Q(n, Permutation::ConstrType::perm, p.data());
            P.concat(Q); // (p o p) then p
            for(Index i = 0; i < n; ++i) want[i] = p[want[i]];
            c.check(perm_consistent(P, want, err), "permutation.concat re-invoked on the same object", [&]{ return err; });
          }
          else c.excluded("p.concat(p) (reported once as finding)");
          if(pi == 0)
          {
            Permutation Id(n, Permutation::ConstrType::identity);
            c.check(perm_consistent(Id, p, err), "permutation.ctor identity", [&]{ return err; });
          }
          bool ident = true; for(Index i = 0; i < n; ++i) if(p[i] != i) ident = false;
          if(!ident) c.nontrivial(verif::Hash().pod(uint64_t(3)).bytes(p.data(), p.size() * sizeof(Index)).get());
          c.count("permutations");
          c.outcome("perm");
        }
      }
      const Index cmax = T ? 5 : 4;
      for(Index n = 1; n <= cmax; ++n)
      {
        const std::vector<IV> perms = all_perms(n);
        for(const IV& p : perms)
        {
          if(!c.want()) continue;
          c.desc([&]{ return "C concat p=" + str(p) + " with every q of the same length"; });
          for(const IV& q : perms)
          {
            Permutation P = make_perm(p), Q = make_perm(q);
            // p.concat(q): applying the result equals applying q first, then p
            IV x(n), t(n), y(n); for(Index i = 0; i < n; ++i) x[i] = 10 * i + 3;
            Q.apply(t.data(), x.data()); P.apply(y.data(), t.data());
            IV want(n); for(Index i = 0; i < n; ++i) want[i] = q[p[i]];
            P.concat(Q);
            bool ok = perm_consistent(P, want, err);
            IV z(n); P.apply(z.data(), x.data());
            c.check(ok && z == y, "permutation.concat", [&]{ return err + " q=" + str(q) + " got " + str(z) + " expected " + str(y); });
            c.check(perm_consistent(Q, q, err), "permutation.concat modified its argument", [&]{ return err; });
            c.count("concat_pairs");
          }
          c.nontrivial(verif::Hash().pod(uint64_t(4)).bytes(p.data(), p.size() * sizeof(Index)).get());
        }
      }
    }

    // ------------------------------------------------------------------ D: colouring and Cuthill-McKee
    {
      const Index nmax = T ? 6 : 5;
      for(Index n = 0; n <= nmax; ++n)
      {
        const unsigned ne = unsigned(n * (n - (n > 0 ? 1 : 0)) / 2);
        std::vector<unsigned> lmasks;
        if(n <= 3 || (T && n <= 5)) { for(unsigned m = 0; m < (1u << n); ++m) lmasks.push_back(m); }
        else if(n == 6) { lmasks = {0u}; }
        else { lmasks = {0u, (1u << n) - 1u, 0x15u & ((1u << n) - 1u)}; }
        const std::vector<IV> orders = all_perms(n);
        for(unsigned em = 0; em < (1u << ne); ++em) for(unsigned lm : lmasks) for(int desc = 0; desc < 3; ++desc)
        {
          if(!c.want()) continue;
          const Rel g = sym_graph(n, em, lm, desc);
          c.heartbeat();
          c.desc([&]{ return "D symmetric graph " + str(g); });
          Graph gr = make_graph(g, false);
          {
            Coloring col(gr);
            check_coloring_result(c, g, col, "coloring(graph)", "");
            if(n > 0)
            {
              // array / vector constructors, clone, move
              IV cv(col.get_coloring(), col.get_coloring() + n);
              Coloring ca(n, cv.data());
              c.check(ca.get_num_colors() == col.get_num_colors() && IV(ca.get_coloring(), ca.get_coloring() + n) == cv, "coloring.array ctor", "");
              check_coloring_result(c, g, ca, "coloring.array ctor result", "");
              Coloring cvv(col.get_num_colors(), cv);
              check_coloring_result(c, g, cvv, "coloring.vector ctor result", "");
              Coloring cl = col.clone();
              check_coloring_result(c, g, cl, "coloring.clone", "");
              Coloring mv(std::move(cl));
              check_coloring_result(c, g, mv, "coloring.move", "");
              c.check(cl.empty() && cl.get_num_colors() == 0, "coloring.move source not emptied", "");
              // allocation constructor filled through the accessor; move assignment into a filled colouring
              Coloring al(n, col.get_num_colors());
              for(Index i = 0; i < n; ++i) al[i] = cv[i];
              check_coloring_result(c, g, al, "coloring.allocation ctor result", "");
              Coloring tgt(n + 1, col.get_num_colors() + 3); // a filled target of another size and colour count
              for(Index i = 0; i <= n; ++i) tgt[i] = i % (col.get_num_colors() + 3);
              Coloring src = col.clone();
              tgt = std::move(src);
              check_coloring_result(c, g, tgt, "coloring.move-assign", "");
              c.check(src.empty() && src.get_num_colors() == 0, "coloring.move-assign source not emptied", "");
              tgt = std::move(tgt);
              check_coloring_result(c, g, tgt, "coloring.self-move-assign", "");
              // ColoringDataHandler: one index map per colour listing exactly the nodes of that colour
              auto check_handler = [&](const ColoringDataHandler& h, Index nc, const std::vector<Index>& colv, const std::string& key)
              {
                bool ok = h.get_num_colors() == nc && h.initialized() == (nc > 0);
                Index mx = 0;
                for(Index k = 0; ok && k < nc; ++k)
                {
                  IV want; for(Index i = 0; i < colv.size(); ++i) if(colv[i] == k) want.push_back(i);
                  mx = std::max(mx, Index(want.size()));
                  if(h.get_color_size(k) != want.size() || h.get_color_sizes().at(k) != want.size()) { ok = false; break; }
                  for(Index i = 0; i < want.size(); ++i) if(Index(h.get_color_map(k)[i]) != want[i]) ok = false;
                  if(h.get_coloring_maps().at(k) != h.get_color_map(k)) ok = false;
                }
                if(ok && (h.get_max_color_size() != mx || h.get_max_size() != mx)) ok = false;
                c.check(ok, key, [&]{ return "colouring " + str(colv); });
              };
              {
                ColoringDataHandler h(col);
                check_handler(h, col.get_num_colors(), cv, "coloring_data_handler(Coloring)");
                ColoringDataHandler h2(std::move(h));
                check_handler(h2, col.get_num_colors(), cv, "coloring_data_handler move ctor");
                c.check(!h.initialized(), "coloring_data_handler move ctor source still initialised", "");
                std::vector<int> civ(cv.begin(), cv.end());
                ColoringDataHandler h3(civ);
                check_handler(h3, col.get_num_colors(), cv, "coloring_data_handler(std::vector<int>)");
                ColoringDataHandler h4(civ, int(col.get_num_colors()) + 1); // hint: one more (empty) colour
                check_handler(h4, col.get_num_colors() + 1, cv, "coloring_data_handler(std::vector<int>, hint)");
                h3 = std::move(h4); // move assignment into a filled handler releases the old maps
                check_handler(h3, col.get_num_colors() + 1, cv, "coloring_data_handler move-assign");
                h3.release_color();
                c.check(!h3.initialized() && h3.get_num_colors() == 0, "coloring_data_handler release_color", "");
                h3.fill_color(col); // re-use after release
                check_handler(h3, col.get_num_colors(), cv, "coloring_data_handler fill_color after release");
                c.count("color_data_handlers", 6);
              }
            }
          }
          for(const IV& ord : orders)
          {
            if(n == 0) break;
            Coloring col(gr, ord.data());
            check_coloring_result(c, g, col, "coloring(graph,order)", " order=" + str(ord));
            c.count("ordered_colorings");
          }
          check_cmk(c, g, gr, hz, "symmetric");
          if(em != 0) c.nontrivial(hash_rel(g, 5));
          c.count("symmetric_graphs");
          c.outcome("sym");
        }
      }
      const Index dmax = T ? 4 : 3;
      for(Index n = 1; n <= dmax; ++n)
      {
        for(unsigned m = 0; m < (1u << (n * n)); ++m)
        {
          if(!c.want()) continue;
          const Rel g = dir_graph(n, m);
          c.desc([&]{ return "D directed graph " + str(g); });
          Graph gr = make_graph(g, false);
          check_cmk(c, g, gr, hz, "directed");
          if(m != 0) c.nontrivial(hash_rel(g, 6));
          c.count("directed_graphs");
          c.outcome("dir");
        }
      }
    }

    // ------------------------------------------------------------------ E: consistent relabelling of matrix, vector and graph
    for(Index m = 1; m <= 3; ++m) for(Index n = 1; n <= 3; ++n)
    {
      const std::vector<IV> rps = all_perms(m), cps = all_perms(n);
      for(unsigned mask = 1; mask < (1u << (m * n)); ++mask)
      {
        if(!c.want()) continue;
        c.desc([&]{ return "E CSR pattern " + std::to_string(m) + "x" + std::to_string(n) + " mask=" + std::to_string(mask) + " with all row/column permutations"; });
        typedef LAFEM::SparseMatrixCSR<double, Index> Mat;
        typedef LAFEM::DenseVector<double, Index> Vec;
        std::vector<double> dense(m * n, 0.0);
        IV rp(m + 1, 0), ci; std::vector<double> va;
        Rel pat; pat.nd = m; pat.ni = n; pat.l.assign(m, IV());
        for(Index i = 0; i < m; ++i)
        {
          for(Index j = 0; j < n; ++j) if(mask & (1u << (i * n + j)))
          {
            double v = double(1 + i + 3 * j) * 0.25 * (((i + j) & 1) ? -1.0 : 1.0);
            dense[i * n + j] = v; ci.push_back(j); va.push_back(v); pat.l[i].push_back(j);
          }
          rp[i + 1] = Index(ci.size());
        }
        for(const IV& P : rps) for(const IV& Q : cps)
        {
          LAFEM::DenseVector<Index, Index> vci(Index(ci.size())), vrp(m + 1);
          Vec vva(Index(va.size()));
          for(Index k = 0; k < ci.size(); ++k) { vci(k, ci[k]); vva(k, va[k]); }
          for(Index k = 0; k <= m; ++k) vrp(k, rp[k]);
          Mat A(m, n, vci, vva, vrp);
          Permutation pr = make_perm(P), pc = make_perm(Q);
          A.permute(pr, pc);
          bool ok = (A.rows() == m && A.columns() == n && A.used_elements() == ci.size());
          for(Index i = 0; ok && i < m; ++i) for(Index j = 0; j < n; ++j) if(A(i, j) != dense[P[i] * n + Q[j]]) ok = false;
          // column indices sorted
          for(Index i = 0; ok && i < m; ++i) for(Index k = A.row_ptr()[i]; k + 1 < A.row_ptr()[i + 1]; ++k) if(A.col_ind()[k] >= A.col_ind()[k + 1]) ok = false;
          c.check(ok, "csr.permute A'(i,j)=A(P i,Q j)", [&]{ return "P=" + str(P) + " Q=" + str(Q); });
          // the graph of the permuted matrix is the permuted graph (image renamed by Q^-1)
          Graph gA = make_graph(pat, false);
          Permutation qi = pc.inverse();
          Graph gP(gA, pr, qi);
          gP.sort_indices();
          Graph gM(RenderType::as_is, A);
          Rel r1, r2;
          bool gok = read_graph(gP, r1, err) && read_graph(gM, r2, err) && r1 == r2;
          c.check(gok, "graph(perm) equals graph of permuted matrix", [&]{ return err + "P=" + str(P) + " Q=" + str(Q) + " " + str(r1) + " vs " + str(r2); });
          // vectors: x'(j) = x(Q j); (A'x')(i) = (A x)(P i)
          Vec x(n), y(m), xp(n), yp(m);
          std::vector<double> xr(n), yr(m, 0.0);
          for(Index j = 0; j < n; ++j) { xr[j] = double(j + 1) * 0.5; x(j, xr[j]); xp(j, xr[j]); }
          for(Index i = 0; i < m; ++i) for(Index j = 0; j < n; ++j) yr[i] += dense[i * n + j] * xr[j];
          xp.permute(pc);
          bool vok = true;
          for(Index j = 0; j < n; ++j) if(xp(j) != xr[Q[j]]) vok = false;
          c.check(vok, "dense_vector.permute x'(j)=x(Q j)", [&]{ return "Q=" + str(Q); });
          A.apply(yp, xp);
          for(Index i = 0; i < m; ++i) y(i, yr[i]);
          y.permute(pr);
          bool aok = true;
          for(Index i = 0; i < m; ++i) if(yp(i) != y(i) || y(i) != yr[P[i]]) aok = false;
          c.check(aok, "permuted matrix times permuted vector equals permuted product", [&]{ return "P=" + str(P) + " Q=" + str(Q); });
          c.count("matrix_permutations");
        }
        // empty permutations are the identity
        {
          LAFEM::DenseVector<Index, Index> vci(Index(ci.size())), vrp(m + 1);
          Vec vva(Index(va.size()));
          for(Index k = 0; k < ci.size(); ++k) { vci(k, ci[k]); vva(k, va[k]); }
          for(Index k = 0; k <= m; ++k) vrp(k, rp[k]);
          Mat A(m, n, vci, vva, vrp);
          Permutation e1, e2;
          A.permute(e1, e2);
          bool ok = true;
          for(Index i = 0; i < m; ++i) for(Index j = 0; j < n; ++j) if(A(i, j) != dense[i * n + j]) ok = false;
          c.check(ok, "csr.permute with empty permutations is the identity", "");
        }
        c.nontrivial(verif::Hash().pod(uint64_t(7)).pod(m).pod(n).pod(mask).get());
        c.outcome("csr");
      }
    }

    // ------------------------------------------------------------------ F: DynamicGraph histories
    for(Index nd = 1; nd <= 3; ++nd) for(Index ni = 1; ni <= 3; ++ni) for(int start = 0; start < 2; ++start)
    {
      if(!c.want()) continue;
      c.desc([&]{ return "F DynamicGraph histories on " + std::to_string(nd) + "x" + std::to_string(ni) + (start ? " from a rendered graph" : " from the empty graph"); });
      const Index depth = T ? 9 : 4;
      std::vector<DynOp> ops;
      for(Index i = 0; i < nd; ++i) for(Index j = 0; j < ni; ++j) { ops.push_back({0, i, j}); ops.push_back({1, i, j}); }
      ops.push_back({2, 0, 0}); ops.push_back({3, 0, 0}); ops.push_back({4, 0, 0});
      if(nd == ni && hz.self_compose == 0) ops.push_back({5, 0, 0});
      else if(nd == ni) c.excluded("g.compose(g) (reported once as finding)");
      const Rel shift = shift_rel(ni);
      const Graph gshift = make_graph(shift, false);
      Rel startrel; startrel.nd = nd; startrel.ni = ni; startrel.l.assign(nd, IV());
      if(start) for(Index i = 0; i < nd; ++i) { startrel.l[i].push_back(i % ni); startrel.l[i].push_back(i % ni); }
      const Graph gstart = make_graph(startrel, false);

      // replays a history on fresh objects, comparing with the reference after every step
      auto replay = [&](const std::vector<int>& hist, PairSet& model, bool validate) -> DynamicGraph
      {
        DynamicGraph d = start ? DynamicGraph(RenderType::as_is, gstart) : DynamicGraph(nd, ni);
        model.clear();
        for(Index i = 0; i < nd; ++i) for(Index k : startrel.l[i]) model.insert({i, k});
        for(size_t step = 0; step <= hist.size(); ++step)
        {
          if(step > 0)
          {
            const DynOp& o = ops[size_t(hist[step - 1])];
            switch(o.kind)
            {
            case 0: { bool r = d.insert(o.i, o.j); bool m = model.insert({o.i, o.j}).second; if(validate) c.check(r == m, "dynamic_graph.insert return value", [&]{ return op_str(o); }); break; }
            case 1: { bool r = d.erase(o.i, o.j); bool m = model.erase({o.i, o.j}) > 0; if(validate) c.check(r == m, "dynamic_graph.erase return value", [&]{ return op_str(o); }); break; }
            case 2: d.clear(); model.clear(); break;
            case 3: { DynamicGraph e = d.clone(); DynamicGraph f(nd, ni); f.insert(0, 0); f = std::move(e); d = std::move(f); break; }
            case 5: { d.compose(d); PairSet nm; for(auto& pr : model) for(auto& qr : model) if(qr.first == pr.second) nm.insert({pr.first, qr.second}); model.swap(nm); break; }
            case 4: { d.compose(gshift); PairSet nm; for(auto& pr : model) for(Index k : shift.l[pr.second]) nm.insert({pr.first, k}); model.swap(nm); break; }
            }
          }
          if(validate && (step == hist.size() || step + 1 == hist.size()))
          {
            bool ok = d.get_num_nodes_domain() == nd && d.get_num_nodes_image() == ni && d.get_num_indices() == model.size();
            for(Index i = 0; ok && i < nd; ++i) for(Index j = 0; j < ni; ++j) if(d.exists(i, j) != (model.count({i, j}) > 0)) ok = false;
            c.check(ok, "dynamic_graph.history state differs from set model", [&]{ std::string s; for(int h : hist) s += op_str(ops[size_t(h)]) + ";"; return s + " impl=" + dyn_key(d); });
          }
        }
        return d;
      };

      std::set<std::string> seen;
      std::deque<std::vector<int>> frontier;
      {
        PairSet model; DynamicGraph d0 = replay({}, model, true);
        seen.insert(dyn_key(d0)); frontier.push_back({}); c.count("states");
      }
      Index maxdepth = 0;
      while(!frontier.empty())
      {
        std::vector<int> hist = frontier.front(); frontier.pop_front();
        if(hist.size() >= depth) continue;
        for(int oi = 0; oi < int(ops.size()); ++oi)
        {
          std::vector<int> h2 = hist; h2.push_back(oi);
          PairSet model;
          DynamicGraph d = replay(h2, model, true);
          c.count("transitions");
          c.count("traces_validated_against_impl");
          // observations on the reached state: renders
          Rel want; want.nd = nd; want.ni = ni; want.l.assign(nd, IV());
          for(auto& pr : model) want.l[pr.first].push_back(pr.second);
          {
            Rel got;
            {
              Graph g(RenderType::as_is, d);
              c.check(read_graph(g, got, err) && got == want, "dynamic_graph.history render as_is", [&]{ return err + str(got) + " expected " + str(want); });
            }
            Graph gt(RenderType::transpose, d);
            c.check(read_graph(gt, got, err) && got == ref_transpose(want), "dynamic_graph.history render transpose", [&]{ return err + str(got); });
            { std::unique_ptr<DynamicGraph> hp(new DynamicGraph(d.clone())); c.check(read_adj(*hp) == want, "dynamic_graph.history heap clone", ""); } // virtual (deleting) destructor
            DynamicGraph dt(RenderType::transpose, d);
            c.check(read_adj(dt) == ref_transpose(want), "dynamic_graph.history dynamic transpose", "");
          }
          std::string key = dyn_key(d);
          if(seen.insert(key).second)
          {
            c.count("states");
            frontier.push_back(h2);
            maxdepth = std::max(maxdepth, Index(h2.size()));
            c.nontrivial(verif::Hash().pod(uint64_t(8)).pod(start).str(key).get());
          }
        }
      }
      c.maxi("depth", maxdepth);
      c.outcome("dyn");
    }
  });
}
