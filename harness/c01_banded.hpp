// C01: enumeration of SparseMatrixBanded mat-vec products (shared by c01_apply_blk and c01_apply_bandu, the latter
// compiles the FEAT_UNROLL_BANDED configuration of the kernel).
#pragma once
#include <c01_common.hpp>
#include <kernel/lafem/sparse_matrix_banded.hpp>

namespace c01
{
  /// shapes: list of (m,n); for every shape ALL subsets of the m+n-1 diagonals are enumerated (optionally only those
  /// with a number of offsets accepted by only_counts(k))
  template<typename DT, typename IT, typename CountFilter>
  void enum_banded(verif::Ctx& c, const std::vector<std::pair<int, int>>& shapes, const char* cfg, CountFilter&& only_counts)
  {
    typedef SparseMatrixBanded<DT, IT> M; typedef DenseVector<DT, IT> V;
    const auto ops = apply_cases(false);
    const std::string tps = std::string(dtname<DT>()) + "," + itname<IT>();
    for(auto sh : shapes)
    {
      const int m = sh.first, n = sh.second, nd = m + n - 1;
      // all subsets of the diagonals; for more than 12 diagonals only the full set and the full set minus one diagonal
      std::vector<uint64_t> subs;
      if(nd <= 12) { for(uint64_t sub = 0; sub < (uint64_t(1) << nd); ++sub) subs.push_back(sub); }
      else { const uint64_t full = (uint64_t(1) << nd) - 1; subs.push_back(full); for(int o = 0; o < nd; ++o) subs.push_back(full & ~(uint64_t(1) << o)); }
      for(uint64_t sub : subs)
      {
        int noff = 0; for(int o = 0; o < nd; ++o) noff += int((sub >> o) & 1u);
        if(noff == 0) continue; // not constructible: SparseMatrixBanded(rows, cols, val, offsets) needs allocated arrays
        if(!only_counts(noff)) continue;
        // apply_transposed: the generic backend has no transposed banded kernel (XABORTM "not implemented"). What the property allows:
        // the early-outs (alpha below eps) return y, everything else must ABORT - returning with any values would be silently wrong.
        for(int tm = 0; tm < 3; ++tm)   // 0: apply_transposed(r,x)   1: (r,x,y,alpha=1)   2: (r,x,y,alpha=0) early-out
        {
          if(!c.want()) continue;
          std::vector<int> offs; for(int o = 0; o < nd; ++o) if((sub >> o) & 1u) offs.push_back(o);
          c.desc([&]{ std::string s = std::string("banded<") + tps + "> " + cfg + " " + std::to_string(m) + "x" + std::to_string(n) + " offsets={";
            for(int o : offs) s += std::to_string(o) + ","; return s + "} apply_transposed mode " + std::to_string(tm); });
          DenseVector<DT, IT> val{Index(m * noff), DT(1)}; DenseVector<IT, IT> off{Index(noff)};
          for(int k = 0; k < noff; ++k) off.elements()[k] = IT(offs[size_t(k)]);
          M A(Index(m), Index(n), val, off);
          V r{Index(n), DT(7)}, x{Index(m), DT(2)}, y{Index(n)}; for(int i = 0; i < n; ++i) y.elements()[i] = DT(i + 1);
          if(tm == 2)
          {
            A.apply_transposed(r, x, y, DT(0));
            bool same = true; for(int i = 0; i < n; ++i) if(!(r.elements()[i] == DT(i + 1))) same = false;
            c.check(same, std::string("banded") + cfg + ".apply_transposed(r,x,y,0) early-out", "early-out does not return y");
          }
          else
          {
            const int st = c.run_forked([&]{ if(tm == 0) A.apply_transposed(r, x); else A.apply_transposed(r, x, y, DT(1)); });
            c.check(st == SIGABRT, std::string("banded") + cfg + ".apply_transposed not-implemented-must-abort", [&]{ return "expected the documented abort (not implemented), got status " + std::to_string(st) + ": the call returned with some values"; });
            c.count("required_abort_cases");
          }
          c.outcome(std::string("banded") + cfg + "/apply_transposed " + (tm == 2 ? "early-out" : "must-abort"));
        }
        for(int pad = 0; pad < 2; ++pad)         // content of the padding entries of val (positions outside of the matrix)
          for(const Variant& var : variants(nd <= 7))
            for(const ApplyCase& op0 : ops)
            {
              if(!c.want()) continue;
              set_extreme_exp<DT>();
              const int alphabet = var.alphabet;
              ApplyCase op = op0; op.alphabet = alphabet; op.scenario = var.scenario;
              DenseRef D(m, n);
              std::vector<int> offs; for(int o = 0; o < nd; ++o) if((sub >> o) & 1u) offs.push_back(o);
              c.desc([&]{ std::string s = std::string("banded<") + tps + "> " + cfg + " " + std::to_string(m) + "x" + std::to_string(n) + " offsets={";
                for(int o : offs) s += std::to_string(o) + ","; return s + "} padding=" + (pad ? "NaN" : "0") + " " + op.str(); });
              DenseVector<DT, IT> val{Index(m * noff)}; DenseVector<IT, IT> off{Index(noff)};
              for(int k = 0; k < noff; ++k)
              {
                off.elements()[k] = IT(offs[size_t(k)]);
                for(int row = 0; row < m; ++row)
                {
                  const int col = row + offs[size_t(k)] - (m - 1);
                  DT v;
                  if(col >= 0 && col < n) { D.set(row, col, aval(alphabet, row, col)); v = DT(D.at(row, col)); }
                  else v = pad ? std::numeric_limits<DT>::quiet_NaN() : DT(0);
                  val.elements()[k * m + row] = v;
                }
              }
              M A0(Index(m), Index(n), val, off);
              const int dk = derive_kind(var.scenario);
              M A = dk ? derive_matrix<M, SparseMatrixBanded<DT, typename OtherIndex<IT>::type>>(A0, dk) : A0.clone(CloneMode::Shallow);
              if(dk) c.count("derived_object_cases");
              auto tie = [&]{
                bool same = (A.rows() == Index(m) && A.columns() == Index(n) && A.used_elements() == Index(D.nnz()) && A.num_of_offsets() == Index(noff));
                for(int i = 0; i < m && same; ++i) for(int j = 0; j < n; ++j) if(!(A(Index(i), Index(j)) == DT(D.at(i, j)))) same = false;
                c.check(same, "banded.operator() != generator", "container does not represent the generated matrix"); };
              if(var.scenario != S_BASE) tie();
              V r{Index(m)}, y{Index(m)}, x{Index(n)};
              const std::string kind = std::string("banded") + cfg + (noff == 0 ? "[no offsets]" : "");
              check_apply(c, kind, D, op, r, y, x,
                [&](int mode, V& rr, const V& xx, const V& yy, DT al) { if(mode == 0) A.apply(rr, xx); else A.apply(rr, xx, yy, al); },
                [&]{ verif::Hash h; hash_container(A0, h); hash_container(A, h); return h.get(); });
              tie();
              const bool early = (noff == 0) || (op.mode && fabsl(scalars[op.alpha].v) < 1e-10L);
              if(!early) c.nontrivial(verif::Hash().str("banded").str(cfg).str(tps).pod(m).pod(n).pod(sub).pod(pad).pod(op.mode).pod(op.alpha).pod(var).get());
              c.outcome(std::string("banded") + cfg + "/" + op.name() + (early ? " early-out" : ""));
              c.count("applies");
            }
      }
    }
  }
}
