// C07 (b) the pipelined solvers PipePCG, GroppPCG, RBiCGStab (they need the asynchronous dot/norm interface of
// Global::Vector) and PCG as control, on Global:: containers over one process; preconditioners none, Jacobi,
// Schwarz(SSOR), Schwarz(ILU(0)); NoneFilter and UnitFilter. Body in c07_solvers.hpp.
#include <c07_solvers.hpp>
int main(int argc, char** argv)
{
  FEAT::Runtime::ScopeGuard guard(argc, argv);
  verif::Spec spec; c07::fill_spec(spec, "c07_solvers_glob", "None and Unit{0}/Unit{n-1}");
  spec.bounds_quick = "PCG, PipePCG, GroppPCG on the SPD systems, RBiCGStab on all systems of c07_solvers; Global::Matrix/Vector/Filter with a single-process gate; same rhs, limits and histories";
  spec.bounds_thorough = "as c07_solvers thorough";
  return verif::run(spec, argc, argv, [&](verif::Ctx& c) {
    c07::enumerate<c07::GlobalPolicy<FEAT::LAFEM::NoneFilter<double, FEAT::Index>>>(c, false);
    c07::enumerate<c07::GlobalPolicy<FEAT::LAFEM::UnitFilter<double, FEAT::Index>>>(c, true);
  });
}
