#include "c17_real.inc"
