// c17_sched -- C17: every interleaving (up to a preemption bound) of the real DomainAssembler worker
// threads, real ThreadFence, real std::thread/mutex/condition_variable under the vsched scheduler.
//
// case = one configuration (mesh, cell subset, strategy, requested workers, job flags, #assemble calls);
// inside a case: iterative preemption bounding PB = 0..bound (+ optional spurious wake-up budget),
// stateless DFS with visited-state pruning; every execution builds a fresh assembler and job.
#include <verif.hpp>
#include <sched.h>
#include <vsched.h>
#include <explore.hpp>
#include "c17_common.hpp"

using namespace FEAT;
using namespace c17;

namespace
{
  struct Ledger
  {
    Index ncells = 0;
    std::vector<int> assembled, scattered;
    int in_scatter[VS_MAXT];
    int in_combine = 0;
    int combines = 0;
    int tasks = 0;
    const std::vector<std::vector<char>>* adj = nullptr;
    std::string violation;
    // fault injection: in assemble() call number fail_job the task operation 'fail_kind' throws
    // (1 = constructor of the fail_arg-th task created in that call, 2 = prepare(cell fail_arg), 3 = scatter(cell fail_arg),
    //  4 = the fail_arg-th combine() of that call, 5 = assemble() of cell fail_arg)
    int fail_kind = 0; long fail_arg = 0; int fail_job = 0;
    int cur_job = 0, job_tasks = 0, job_combines = 0, faults_thrown = 0;
    std::vector<int> job_assembled, job_scattered;   // counts of the current assemble() call
    void init(Index n, const std::vector<std::vector<char>>* a)
    {
      ncells = n; assembled.assign(n, 0); scattered.assign(n, 0); adj = a; in_combine = 0; combines = 0; tasks = 0; violation.clear();
      for(int i = 0; i < VS_MAXT; ++i) in_scatter[i] = -1;
      cur_job = 0; faults_thrown = 0; begin_job(0);
    }
    void begin_job(int j) { cur_job = j; job_tasks = 0; job_combines = 0; job_assembled.assign(ncells, 0); job_scattered.assign(ncells, 0); }
    bool fault(int kind, long arg) { if(fail_kind == kind && cur_job == fail_job && fail_arg == arg) { ++faults_thrown; return true; } return false; }
    uint64_t hash() const
    {
      verif::Hash h;
      for(int v : assembled) h.pod(v);
      for(int v : scattered) h.pod(v);
      for(int i = 0; i < VS_MAXT; ++i) h.pod(in_scatter[i]);
      h.pod(in_combine).pod(combines).pod(tasks).pod(cur_job).pod(job_tasks).pod(job_combines).pod(faults_thrown);
      for(int v : job_assembled) h.pod(v);
      return h.get();
    }
  };

  /// the instrumented job: scatter/combine are observable critical regions with a scheduling point inside
  template<bool NS_, bool NC_>
  class InstrJob
  {
  public:
    Ledger& L;
    explicit InstrJob(Ledger& l) : L(l) {}
    class Task
    {
    public:
      InstrJob& job;
      Index cell;
      static constexpr bool need_scatter = NS_;
      static constexpr bool need_combine = NC_;
      explicit Task(InstrJob& j) : job(j), cell(~Index(0))
      {
        ++job.L.tasks;
        if(job.L.fault(1, long(job.L.job_tasks++))) throw std::runtime_error("injected fault: task constructor");
      }
      void prepare(Index c) { cell = c; if(job.L.fault(2, long(c))) throw std::runtime_error("injected fault: prepare"); }
      void assemble()
      {
        if(job.L.fault(5, long(cell))) throw std::runtime_error("injected fault: assemble");
        ++job.L.assembled.at(cell); ++job.L.job_assembled.at(cell);
      }
      void scatter()
      {
        Ledger& L = job.L;
        int me = vs_self(); if(me < 0) me = 0;
        L.in_scatter[me] = int(cell);
        for(int t = 0; t < VS_MAXT; ++t)
          if(t != me && L.in_scatter[t] >= 0 && (*L.adj)[cell][Index(L.in_scatter[t])] && L.violation.empty())
          {
            std::ostringstream o; o << "threads " << me << " and " << t << " scatter concurrently into vertex-adjacent cells " << cell << " and " << L.in_scatter[t];
            L.violation = o.str();
          }
        vs_point(1, long(cell));    // other threads may run while we are inside scatter
        if(L.fault(3, long(cell))) { L.in_scatter[me] = -1; throw std::runtime_error("injected fault: scatter"); }
        ++L.scattered.at(cell); ++L.job_scattered.at(cell);
        L.in_scatter[me] = -1;
      }
      void finish() {}
      void combine()
      {
        Ledger& L = job.L;
        ++L.in_combine;
        if(L.in_combine != 1 && L.violation.empty()) L.violation = "two threads inside combine()";
        vs_point(2, 0);
        if(L.fault(4, long(L.job_combines++))) { --L.in_combine; throw std::runtime_error("injected fault: combine"); }
        ++L.combines;
        --L.in_combine;
      }
    };
  };

  struct Cfg
  {
    MeshCfg mesh;
    Assembly::ThreadingStrategy strat;
    std::size_t maxw;
    bool ns, nc;
    int repeats;
    int pb, sb;     // preemption / spurious bound to iterate up to
    uint64_t max_exec = 0;
    int fail_kind = 0; long fail_arg = 0; int fail_job = 0;   // injected task fault (0 = none)
    std::string str() const
    {
      std::ostringstream o;
      o << mesh.str() << " strategy=" << strategy_name(strat) << " max_workers=" << maxw << " need_scatter=" << ns << " need_combine=" << nc
        << " assemble_calls=" << repeats << " PB<=" << pb << " spurious<=" << sb;
      static const char* fk[] = {"", "task-constructor#", "prepare(cell)", "scatter(cell)", "combine#", "assemble(cell)"};
      if(fail_kind) o << " fault: " << fk[fail_kind] << fail_arg << " throws in assemble call " << fail_job;
      return o.str();
    }
  };

  // ---- one execution -------------------------------------------------------------------------
  template<typename Mesh_>
  struct World
  {
    typedef Trafo::Standard::Mapping<Mesh_> TrafoT;
    typedef Assembly::DomainAssembler<TrafoT> AsmT;
    const Mesh_& mesh;
    TrafoT trafo;
    std::vector<std::vector<char>> adj;
    std::vector<Index> selected;
    explicit World(const Mesh_& m, const MeshCfg& mc) : mesh(m), trafo(const_cast<Mesh_&>(m)), adj(cell_adjacency(m))
    {
      for(Index i = 0; i < m.get_num_elements(); ++i) if(mc.all || ((mc.subset >> i) & 1u)) selected.push_back(i);
    }
  };

  struct ExecResult { bool ok = true; std::string what; std::size_t workers = 0; int faults = 0; };

  struct DeadCtx { verif::Ctx* c; const Cfg* cfg; int pb; };
  DeadCtx g_dead;

  struct StateCtx { Ledger* L; std::vector<ThreadFence>* fences; };
  uint64_t state_cb(void* p)
  {
    StateCtx* s = static_cast<StateCtx*>(p);
    verif::Hash h;
    h.pod(s->L->hash());
    if(s->fences) for(auto& f : *s->fences) { h.pod(f._open).pod(f._okay); }
    return h.get();
  }

  void deadlock_cb(void*)
  {
    // record the schedule so far and leave the process: the execution cannot be unwound
    std::vector<int> sch;
    for(auto& d : vsched::decisions()) sch.push_back(d.chosen);
    std::string s = vsched::schedule_to_string(sch);
    g_dead.c->fail("deadlock " + std::string(strategy_name(g_dead.cfg->strat)), std::string("deadlock: no thread enabled: ") + vsched::blocked_graph() + " schedule=" + s, s);
    g_dead.c->capped("deadlock-abort");
    g_dead.c->write_results();
    fflush(stdout);
    _exit(0);
  }

  template<typename Mesh_>
  ExecResult run_once(World<Mesh_>& W, const Cfg& cfg, const std::vector<int>& prefix, bool spurious)
  {
    typedef typename World<Mesh_>::AsmT AsmT;
    ExecResult r;
    Ledger L;
    L.init(W.mesh.get_num_elements(), &W.adj);
    AsmT da(W.trafo);
    da.set_threading_strategy(cfg.strat);
    da.set_max_worker_threads(cfg.maxw);
    if(cfg.mesh.all) da.compile_all_elements();
    else { for(Index i : W.selected) da.add_element(i); da.compile(); }
    r.workers = da._num_worker_threads;

    vsched::reset(prefix, spurious);
    vsched::register_mutex(da._thread_mutex.native_handle(), 5);
    for(std::size_t i = 0; i < da._thread_fences.size(); ++i)
    {
      vsched::register_mutex(da._thread_fences[i]._mtx.native_handle(), 10 + int(i));
      vsched::register_cond(da._thread_fences[i]._cvar.native_handle(), 10 + int(i));
    }
    StateCtx sc{&L, &da._thread_fences};
    vsched::set_state_cb(state_cb, &sc);
    L.fail_kind = cfg.fail_kind; L.fail_arg = cfg.fail_arg; L.fail_job = cfg.fail_job;
    std::vector<char> sel(W.mesh.get_num_elements(), 0);
    for(Index i : W.selected) sel[i] = 1;
    const int tasks_per_job = W.selected.empty() ? 0 : int(r.workers == 0 ? 1 : r.workers);
    std::ostringstream e;
    vsched::begin();
    for(int rep = 0; rep < cfg.repeats; ++rep)
    {
      L.begin_job(rep);
      const int tasks0 = L.tasks, comb0 = L.combines;
      if(cfg.ns && cfg.nc) { InstrJob<true, true> job(L); da.assemble(job); }
      else if(cfg.ns) { InstrJob<true, false> job(L); da.assemble(job); }
      else if(cfg.nc) { InstrJob<false, true> job(L); da.assemble(job); }
      else { InstrJob<false, false> job(L); da.assemble(job); }
      // per-call oracle (pure computation on the master thread; all workers have been joined)
      const bool faulty = (cfg.fail_kind != 0 && rep == cfg.fail_job && L.faults_thrown > 0);
      for(Index i = 0; i < W.mesh.get_num_elements(); ++i)
      {
        const int a = L.job_assembled[i], sc = L.job_scattered[i];
        const int want = sel[i] ? 1 : 0, wants = (sel[i] && cfg.ns) ? 1 : 0;
        if(!faulty)
        {
          if(a != want) e << "call " << rep << ": cell " << i << " assembled " << a << " times instead of " << want << "; ";
          if(sc != wants) e << "call " << rep << ": cell " << i << " scattered " << sc << " times instead of " << wants << "; ";
        }
        else
        {
          // a call in which a task threw must still terminate; what was assembled must have been assembled at most once
          if(a > want) e << "faulty call " << rep << ": cell " << i << " assembled " << a << " times; ";
          if(sc > wants || sc > a) e << "faulty call " << rep << ": cell " << i << " scattered " << sc << " times (assembled " << a << "); ";
        }
      }
      if(L.tasks - tasks0 != tasks_per_job) e << "call " << rep << ": tasks created " << (L.tasks - tasks0) << " instead of " << tasks_per_job << "; ";
      const int want_comb = cfg.nc ? tasks_per_job : 0;
      if(!faulty && L.combines - comb0 != want_comb) e << "call " << rep << ": combine() ran " << (L.combines - comb0) << " times instead of " << want_comb << "; ";
      if(faulty && L.combines - comb0 > want_comb) e << "faulty call " << rep << ": combine() ran " << (L.combines - comb0) << " times; ";
      if(!da._threads.empty()) e << "call " << rep << ": thread vector not empty after assemble; ";
    }
    vsched::end();
    vsched::set_state_cb(nullptr, nullptr);

    if(vsched::diverged()) { r.ok = false; r.what = "MACHINERY: schedule prefix diverged on replay"; return r; }
    if(!L.violation.empty()) e << L.violation << "; ";
    if(cfg.fail_kind != 0) r.faults = L.faults_thrown;
    r.what = e.str();
    r.ok = r.what.empty();
    return r;
  }

  template<typename Mesh_>
  void explore_cfg(verif::Ctx& c, const Mesh_& mesh, const Cfg& cfg)
  {
    World<Mesh_> W(mesh, cfg.mesh);
    g_dead.c = &c; g_dead.cfg = &cfg;
    vsched::set_deadlock_cb(deadlock_cb, nullptr);

    if(c.replaying && !c.extra.empty())
    {
      // replay exactly one schedule
      std::vector<int> sch = vsched::schedule_from_string(c.extra);
      ExecResult r = run_once(W, cfg, sch, cfg.sb > 0);
      if(!r.ok) c.fail("replayed schedule", r.what, c.extra);
      return;
    }

    std::size_t workers = 0;
    uint64_t execs_total = 0;
    bool failed = false;
    for(int sb = 0; sb <= cfg.sb && !failed; ++sb)
    for(int pb = 0; pb <= cfg.pb; ++pb)
    {
      if(sb > 0 && pb < cfg.pb) continue; // spurious wake-ups only on top of the full preemption bound
      vsched::Explorer ex;
      ex.preempt_bound = pb; ex.spurious_bound = sb;
      ex.max_executions = cfg.max_exec;
      const double t_end = c._deadline;
      ex.stop = [&c, t_end]() { c.heartbeat(); return t_end > 0.0 && c.now() > t_end; };
      g_dead.pb = pb;
      bool determinism_checked = false;
      std::string failure;
      const bool all_ok = ex.explore([&](const std::vector<int>& prefix) -> bool
      {
        ExecResult r = run_once(W, cfg, prefix, sb > 0);
        workers = r.workers;
        if(!determinism_checked)
        {
          // replay the complete schedule of the first execution and compare the event logs
          determinism_checked = true;
          std::vector<int> full; for(auto& d : vsched::decisions()) full.push_back(d.chosen);
          std::vector<uint64_t> st1; for(auto& d : vsched::decisions()) st1.push_back(d.state);
          ExecResult r2 = run_once(W, cfg, full, sb > 0);
          std::vector<uint64_t> st2; for(auto& d : vsched::decisions()) st2.push_back(d.state);
          if(st1 != st2 || r2.ok != r.ok) { failure = "MACHINERY: replay of an identical schedule gave a different state sequence"; return false; }
          c.count("determinism_replays");
          // restore the trace of the first execution for the explorer
          r = run_once(W, cfg, prefix, sb > 0);
        }
        if(!r.ok) failure = r.what;
        if(cfg.fail_kind) { c.count("executions_with_injected_fault", uint64_t(r.faults > 0)); }
        return r.ok;
      });
      execs_total += ex.stats.executions;
      c.count("executions", ex.stats.executions);
      c.count("states", ex.stats.states);
      c.count("transitions", ex.stats.transitions);
      c.count("traces_validated_against_impl", ex.stats.executions);
      c.count("decision_points", ex.stats.decisions);
      c.count("pruned_at_visited_state", ex.stats.pruned);
      c.maxi("decisions_per_execution", ex.stats.max_decisions);
      c.maxi("preemption_bound_completed", uint64_t(pb));
      if(ex.stats.capped) { c.capped("executions-or-deadline PB=" + std::to_string(pb)); }
      if(c.replaying)
        printf("  PB=%d SB=%d workers=%zu executions=%llu states=%llu transitions=%llu pruned=%llu max_decisions=%llu\n", pb, sb, workers,
          (unsigned long long)ex.stats.executions, (unsigned long long)ex.stats.states, (unsigned long long)ex.stats.transitions,
          (unsigned long long)ex.stats.pruned, (unsigned long long)ex.stats.max_decisions);
      if(!all_ok)
      {
        std::string s = vsched::schedule_to_string(ex.failing);
        // replay before report
        ExecResult r2 = run_once(W, cfg, ex.failing, sb > 0);
        if(failure.compare(0, 9, "MACHINERY") == 0) c.fail("machinery", failure, s);
        else if(r2.ok) c.fail("machinery", "failing schedule did not reproduce: " + failure, s);
        else
        {
          std::ostringstream key; key << strategy_name(cfg.strat) << " workers=" << workers << " ns=" << cfg.ns << " nc=" << cfg.nc;
          c.fail(key.str(), failure + " [PB=" + std::to_string(pb) + " spurious=" + std::to_string(sb) + " schedule=" + s + "]", s);
        }
        failed = true;
        break;
      }
      if(c.cut() || ex.stats.capped) break;
    }
    c.outcome("workers=" + std::to_string(workers));
    c.maxi("workers", workers);
    if(workers >= 2) c.nontrivial(verif::Hash().str(cfg.str()).get());
  }

  void run_cfg(verif::Ctx& c, const Cfg& cfg)
  {
    if(cfg.mesh.kind == 0) { auto m = make_chain(cfg.mesh.a); explore_cfg(c, *m, cfg); }
    else if(cfg.mesh.kind == 1) { auto m = make_quads(cfg.mesh.a, cfg.mesh.b); explore_cfg(c, *m, cfg); }
    else if(cfg.mesh.kind == 3) { auto m = make_quads_scrambled(cfg.mesh.a, cfg.mesh.b); explore_cfg(c, *m, cfg); }
    else { auto m = make_fan(cfg.mesh.a); explore_cfg(c, *m, cfg); }
  }
}

int main(int argc, char** argv)
{
  Runtime::ScopeGuard guard(argc, argv);
  verif::Spec spec;
  spec.property = "C17";
  spec.harness = "c17_sched";
  spec.rule = "case = configuration (mesh: chains 1..16 cells, quad grids up to 4x4 also with scrambled cell numbering, triangle fans, all cell subsets of 2x2 and 3x2 quads and of chain(5); "
    "strategy in {automatic,single,layered,layered_sorted,colored}; requested workers 0..cells+1 (capped); need_scatter x need_combine; 1 or 2 assemble() calls). "
    "Per case all schedules of the real worker threads with at most PB preemptions (iterated 0..PB) are executed (stateless DFS, visited-state pruning). "
    "Non-trivial = configuration resolving to >= 2 worker threads, hashed by its description.";
  spec.bounds_quick = "PB<=2 for <=3 workers and <=9 cells, PB<=1 otherwise; one spurious wake-up on top of PB=2 for the minimal 2/3-worker configurations";
  spec.bounds_thorough = "PB<=3 for <=3 workers and <=9 cells (+1 spurious wake-up), PB<=2 up to 16 cells / 4 workers";
  spec.assumptions = {
    "sequentially consistent interleavings at synchronisation operations (lock, condition wait, create, join) and at the scatter/combine points of the instrumented job; data races are left to the separate TSan pass c17_tsan",
    "thread-local state is a deterministic function of the thread's own operation sequence (basis of visited-state pruning)",
    "pthread_cond_signal is modelled as waking the lowest-id waiter (FEAT uses notify_all only)"};
  spec.deadline_quick_s = 420; spec.deadline_thorough_s = 3000;

  return verif::run(spec, argc, argv, [&](verif::Ctx& c)
  {
    const bool T = c.thorough;
    // all threads of one explorer process share one core: hand-offs between the (serialised) threads are then
    // plain context switches instead of cross-core wake-ups (measured ~20x faster)
    {
      cpu_set_t set; CPU_ZERO(&set);
      long ncpu = sysconf(_SC_NPROCESSORS_ONLN); if(ncpu < 1) ncpu = 1;
      CPU_SET(int(c._me % ncpu), &set);
      sched_setaffinity(0, sizeof(set), &set);
    }
    std::vector<Cfg> cfgs;
    auto add = [&](MeshCfg m, int pbmax_small, int pbmax_large)
    {
      const Index n = m.all ? m.cells() : Index(__builtin_popcountll(m.subset));
      for(auto s : all_strategies)
      {
        std::vector<std::size_t> ws;
        for(std::size_t w = 0; w <= std::size_t(n) + 1 && w <= 5; ++w) ws.push_back(w);
        for(std::size_t w : ws)
        for(int fl = 0; fl < 4; ++fl)
        for(int rep = 1; rep <= 2; ++rep)
        {
          const bool ns = (fl & 1) == 0, nc = (fl & 2) != 0;   // order: (scatter), (no scatter), (scatter+combine), (combine only)
          if(rep == 2 && !(ns && !nc) && !(ns && nc && w >= 2)) continue; // repeated jobs: plain scatter job, and scatter+combine
          Cfg cf; cf.mesh = m; cf.strat = s; cf.maxw = w; cf.ns = ns; cf.nc = nc; cf.repeats = rep;
          const bool small = (n <= 9 && w <= 3);
          cf.pb = small ? pbmax_small : pbmax_large;
          cf.sb = (small && n <= 6 && w >= 2 && w <= 3 && rep == 1) ? 1 : 0;
          if(rep == 2) cf.pb = std::min(cf.pb, 1);
          cf.max_exec = T ? 4000000u : 400000u;
          cfgs.push_back(cf);
        }
      }
    };
    const int ps = T ? 3 : 2, pl = T ? 2 : 1;
    // 1D chains: n layers of one cell each
    for(Index n = 1; n <= (T ? 16u : 12u); ++n) add(MeshCfg{0, n, 0, 0, true}, ps, pl);
    // quad grids
    add(MeshCfg{1, 2, 2, 0, true}, ps, pl); add(MeshCfg{1, 3, 2, 0, true}, ps, pl); add(MeshCfg{1, 3, 3, 0, true}, ps, pl);
    add(MeshCfg{1, 4, 2, 0, true}, ps, pl); add(MeshCfg{1, 4, 4, 0, true}, 1, 1);
    if(T) { add(MeshCfg{1, 6, 2, 0, true}, 2, 2); add(MeshCfg{1, 8, 2, 0, true}, 2, 1); }
    // quad grids with a scrambled cell numbering (layer / colour construction must not depend on the numbering)
    add(MeshCfg{3, 3, 2, 0, true}, ps, pl); add(MeshCfg{3, 3, 3, 0, true}, ps, pl); add(MeshCfg{3, 4, 4, 0, true}, 1, 1); add(MeshCfg{3, 5, 2, 0, true}, ps, pl);
    // triangle fans (every pair of cells is vertex-adjacent)
    for(Index n = 2; n <= 5; ++n) add(MeshCfg{2, n, 0, 0, true}, ps, pl);
    // all proper non-empty cell subsets (disconnected selections) of chain(6), quads 2x2, quads 3x2
    for(uint64_t s = 1; s + 1 < (1u << 6); ++s) add(MeshCfg{0, 6, 0, s, false}, T ? 2 : 1, 1);
    for(uint64_t s = 1; s + 1 < (1u << 4); ++s) add(MeshCfg{1, 2, 2, s, false}, ps, pl);
    for(uint64_t s = 1; s + 1 < (1u << 6); ++s) add(MeshCfg{1, 3, 2, s, false}, T ? 2 : 1, 1);

    // larger configurations, default schedule and one preemption: termination, exactly-once, exclusion
    {
      std::vector<MeshCfg> big = {MeshCfg{1, 8, 4, 0, true}, MeshCfg{1, 6, 6, 0, true}, MeshCfg{0, 32, 0, 0, true}};
      if(T) { big.push_back(MeshCfg{1, 8, 8, 0, true}); big.push_back(MeshCfg{1, 16, 4, 0, true}); big.push_back(MeshCfg{0, 48, 0, 0, true}); }
      for(auto& m : big) for(auto s : all_strategies) for(std::size_t w : {2u, 4u, 6u, 8u, 11u}) for(int fl = 0; fl < 4; ++fl)
      {
        if(!T && (w == 6u || w == 11u || (w == 8u && fl != 0))) continue;
        Cfg cf; cf.mesh = m; cf.strat = s; cf.maxw = w; cf.ns = (fl & 1) == 0; cf.nc = (fl & 2) != 0; cf.repeats = 1;
        cf.pb = (w <= 4 && (T || s != Assembly::ThreadingStrategy::colored)) ? 1 : 0; cf.sb = 0; cf.max_exec = T ? 3000000u : 300000u;
        cfgs.push_back(cf);
      }
    }
    // fault injection: one task operation throws in the first of two assemble() calls (the worker catches it and reports failure
    // through its fence); every schedule must still terminate without deadlock/abort, nothing may be assembled twice or scattered
    // concurrently with a neighbour, and the following clean call on the same assembler must assemble every cell exactly once
    {
      std::vector<MeshCfg> fm = {MeshCfg{0, 6, 0, 0, true}, MeshCfg{1, 3, 2, 0, true}, MeshCfg{2, 4, 0, 0, true}, MeshCfg{1, 3, 3, 0, true}};
      if(T) { fm.push_back(MeshCfg{0, 9, 0, 0, true}); fm.push_back(MeshCfg{1, 4, 2, 0, true}); fm.push_back(MeshCfg{3, 3, 3, 0, true}); fm.push_back(MeshCfg{1, 4, 4, 0, true});
              fm.push_back(MeshCfg{1, 3, 2, 0x2Du, false}); }
      for(auto& m : fm) for(auto s : all_strategies) for(std::size_t w : {1u, 2u, 3u, 4u}) for(int fl = 0; fl < 4; ++fl)
      {
        const bool ns = (fl & 1) == 0, nc = (fl & 2) != 0;
        const Index n = m.cells();
        std::vector<std::pair<int, long>> faults;
        for(long k = 0; k < long(w); ++k) if(k == 0 || k == 1 || k + 1 == long(w)) faults.push_back({1, k});
        for(Index ci = 0; ci < n; ++ci) if(m.all || ((m.subset >> ci) & 1u))
        {
          if(w >= 2 || ci == 0) faults.push_back({2, long(ci)});
          if(ns && w >= 2 && (T || n <= 6 || ci % 2 == 0)) faults.push_back({3, long(ci)});
          if(w >= 2 && (ci == 0 || ci + 1 == n)) faults.push_back({5, long(ci)});
        }
        if(nc) { faults.push_back({4, 0}); if(w >= 2) faults.push_back({4, long(w) - 1}); }
        for(auto& f : faults) for(int fj = 0; fj < 2; ++fj)
        {
          if(fj == 1 && !(f.first == 2 && f.second == 0) && !(f.first == 1 && f.second == 0)) continue;  // clean call first, then the faulty one
          Cfg cf; cf.mesh = m; cf.strat = s; cf.maxw = w; cf.ns = ns; cf.nc = nc; cf.repeats = 2;
          cf.fail_kind = f.first; cf.fail_arg = f.second; cf.fail_job = fj;
          cf.pb = (T && n <= 9 && w <= 3) ? 2 : 1; cf.sb = 0; cf.max_exec = T ? 2000000u : 200000u;
          cfgs.push_back(cf);
        }
      }
    }
    for(const Cfg& cf : cfgs)
    {
      if(!c.want()) continue;
      c.desc([&]{ return cf.str(); });
      const double t_case = c.now();
      run_cfg(c, cf);
      if(c.now() - t_case > 3.0) fprintf(stderr, "SLOW %.1fs %s\n", c.now() - t_case, cf.str().c_str());
    }
  });
}
