// c13_control -- C13 Tier 2: the control layer (Control::Domain::PartiDomainControl, ScalarUnitFilterSystemLevel,
// gate/muxer/transfer assembly) and a Poisson PCG-multigrid solve, exactly the flow of applications/poisson_dirichlet.cpp,
// executed on P rank threads over the MPI model and compared with the one-process run.
//
// case = (mesh file, level string, P). Exploration per case: the default schedule and every schedule with <= D
// MPI_Waitany deviations. Oracle: iteration count equal, initial/final defect norms, H0/H1 errors, |rhs|, |sol| equal to the
// P = 1 run within 1e-8 relative; all ranks agree bitwise on global scalars; global dof count equal.
#include <verif.hpp>
#include <kernel/runtime.hpp>
#include <kernel/util/simple_arg_parser.hpp>
#include <kernel/util/statistics.hpp>
#include <kernel/geometry/conformal_mesh.hpp>
#include <kernel/geometry/mesh_node.hpp>
#include <kernel/trafo/standard/mapping.hpp>
#include <kernel/space/lagrange1/element.hpp>
#include <kernel/space/lagrange2/element.hpp>
#include <kernel/analytic/common.hpp>
#include <kernel/assembly/common_functionals.hpp>
#include <kernel/assembly/error_computer.hpp>
#include <kernel/assembly/mean_filter_assembler.hpp>
#include <kernel/util/property_map.hpp>
#include <kernel/solver/pcg.hpp>
#include <kernel/solver/richardson.hpp>
#include <kernel/solver/jacobi_precond.hpp>
#include <kernel/solver/multigrid.hpp>
#include <kernel/util/dist.hpp>
#include <control/domain/parti_domain_control.hpp>
#include <control/scalar_basic.hpp>
#include <mpi.h>
#include <mpi_explore.hpp>
#include <explore.hpp>
#include <vsched.h>
#include <sched.h>

using namespace FEAT;

namespace
{
  struct Out
  {
    bool done = false;
    std::string note;
    double ndofs = 0, iters = 0, status = 0, def_init = 0, def_final = 0, h0 = 0, h1 = 0, rhs_norm = 0, sol_norm = 0, iters2 = 0, def_final2 = 0, sol_norm2 = 0;
    std::string levels, parti;
    std::vector<double> all() const { return {ndofs, iters, status, def_init, def_final, h0, h1, rhs_norm, sol_norm, iters2, def_final2, sol_norm2}; }
  };
  const char* const out_names[] = {"global dofs", "iterations", "status", "initial defect", "final defect", "H0 error", "H1 error", "|rhs|", "|sol|", "iterations of the 2nd solve with the same solver objects", "final defect of the 2nd solve", "|sol| of the 2nd solve"};

  struct Cfg { std::string mesh; std::string levels; int P; int space; int problem = 0; int route = 0;
    std::string str() const { return "mesh=" + mesh + " levels='" + levels + "' P=" + std::to_string(P) + " space=Lagrange" + std::to_string(space) + (problem == 0 ? " problem=dirichlet(unit filter)" : " problem=neumann(mean filter)") + (route == 0 ? "" : route == 1 ? " partitioner options via parse_args" : " partitioner options via parse_property_map"); } };

  template<typename SpaceTag_> struct SpaceSel;

  template<typename SpaceType_, typename MeshType, typename TrafoType, int problem_>
  void rank_main(const Cfg& cfg, Out& out)
  {
    typedef double DataType; typedef Index IndexType;
    typedef Control::Domain::SimpleDomainLevel<MeshType, TrafoType, SpaceType_> DomainLevelType;
    typedef typename MeshType::ShapeType ShapeType;
    Dist::Comm comm(Dist::Comm::world());
    Control::Domain::PartiDomainControl<DomainLevelType> domain(comm, true);
    if(cfg.route == 1)
    {
      // the command line route of the applications
      const char* av[] = {"c13_control", "--parti-type", "2level", "naive", "--parti-rank-elems", "1"};
      SimpleArgParser args(6, const_cast<char**>(av));
      Control::Domain::add_supported_pdc_args(args);
      if(!domain.parse_args(args)) { out.note = "parse_args rejected valid partitioner options"; return; }
    }
    else if(cfg.route == 2)
    {
      PropertyMap pmap;
      pmap.add_entry("parti-type", "2level naive");
      pmap.add_entry("parti-rank-elems", "1");
      if(!domain.parse_property_map(pmap)) { out.note = "parse_property_map rejected valid partitioner options"; return; }
    }
    {
      std::deque<String> lv = String(cfg.levels).split_by_whitespaces();
      domain.set_desired_levels(lv);
    }
    if(cfg.mesh.compare(0, 5, "rect:") == 0)
    {
      const Index ne = Index(atoi(cfg.mesh.c_str() + 5));
      domain.create_rectilinear(ne, ne);
    }
    else
    {
      std::deque<String> files; files.push_back(String("/repo/data/meshes/") + cfg.mesh);
      domain.create(files);
    }
    domain.add_trafo_mesh_part_charts();
    out.levels = domain.format_chosen_levels();
    out.parti = domain.get_chosen_parti_info();

    typename std::conditional<problem_ == 0, Analytic::Common::ExpBubbleFunction<ShapeType::dimension>, Analytic::Common::CosineWaveFunction<ShapeType::dimension>>::type sol_func;
    typedef typename std::conditional<problem_ == 0, Control::ScalarUnitFilterSystemLevel<DataType, IndexType>, Control::ScalarMeanFilterSystemLevel<DataType, IndexType>>::type SystemLevelType;
    std::deque<std::shared_ptr<SystemLevelType>> system_levels;
    const Index num_levels = domain.size_physical();
    for(Index i(0); i < num_levels; ++i) system_levels.push_back(std::make_shared<SystemLevelType>());
    const String cubature("auto-degree:5");

    for(Index i(0); i < num_levels; ++i)
    {
      domain.at(i)->domain_asm.compile_all_elements();
      system_levels.at(i)->assemble_gate(domain.at(i));
    }
    for(Index i(0); (i < domain.size_physical()) && ((i + 1) < domain.size_virtual()); ++i)
    {
      system_levels.at(i)->assemble_coarse_muxer(domain.at(i + 1));
      if((i + 1) < domain.size_physical())
        system_levels.at(i)->assemble_transfer(*system_levels.at(i + 1), domain.at(i), domain.at(i + 1), cubature);
      else
        system_levels.at(i)->assemble_transfer(domain.at(i), domain.at(i + 1), cubature);
    }
    for(Index i(0); i < num_levels; ++i)
      system_levels.at(i)->assemble_laplace_matrix(domain.at(i)->domain_asm, domain.at(i)->space, cubature);
    for(Index i(0); i < num_levels; ++i)
    {
      if constexpr(problem_ == 0) system_levels.at(i)->assemble_homogeneous_unit_filter(*domain.at(i), domain.at(i)->space);
      else system_levels.at(i)->assemble_mean_filter(domain.at(i)->space, cubature);
    }

    typedef typename SystemLevelType::GlobalSystemVector GlobalSystemVector;
    DomainLevelType& the_domain_level = *domain.front();
    SystemLevelType& the_system_level = *system_levels.front();
    GlobalSystemVector vec_sol = the_system_level.matrix_sys.create_vector_r();
    GlobalSystemVector vec_rhs = the_system_level.matrix_sys.create_vector_r();
    vec_sol.format();
    vec_rhs.format();
    {
      Assembly::Common::LaplaceFunctional<decltype(sol_func)> force_func(sol_func);
      Assembly::assemble_linear_functional_vector(the_domain_level.domain_asm, vec_rhs.local(), force_func, the_domain_level.space, cubature);
      vec_rhs.sync_0();
    }
    the_system_level.filter_sys.filter_sol(vec_sol);
    the_system_level.filter_sys.filter_rhs(vec_rhs);
    out.ndofs = double(the_system_level.gate_sys.get_num_global_dofs());
    out.rhs_norm = vec_rhs.norm2();

    auto multigrid_hierarchy = std::make_shared<Solver::MultiGridHierarchy<typename SystemLevelType::GlobalSystemMatrix,
      typename SystemLevelType::GlobalSystemFilter, typename SystemLevelType::GlobalSystemTransfer>>(domain.size_virtual());
    for(Index i(0); i < num_levels; ++i)
    {
      const SystemLevelType& lvl = *system_levels.at(i);
      auto jacobi = Solver::new_jacobi_precond(lvl.matrix_sys, lvl.filter_sys, 0.7);
      auto smoother = Solver::new_richardson(lvl.matrix_sys, lvl.filter_sys, 1.0, jacobi);
      smoother->set_min_iter(4);
      smoother->set_max_iter(4);
      if((i + 1) < domain.size_virtual())
        multigrid_hierarchy->push_level(lvl.matrix_sys, lvl.filter_sys, lvl.transfer_sys, smoother, smoother, smoother);
      else
        multigrid_hierarchy->push_level(lvl.matrix_sys, lvl.filter_sys, smoother);
    }
    auto mgv = Solver::new_multigrid(multigrid_hierarchy, Solver::MultiGridCycle::V);
    auto solver = Solver::new_pcg(the_system_level.matrix_sys, the_system_level.filter_sys, mgv);
    solver->set_plot_mode(Solver::PlotMode::none);
    solver->set_tol_rel(1E-8);
    solver->set_max_iter(50);
    multigrid_hierarchy->init();
    solver->init();
    auto result = Solver::solve(*solver, vec_sol, vec_rhs, the_system_level.matrix_sys, the_system_level.filter_sys);
    out.status = double(int(result));
    out.iters = double(solver->get_num_iter());
    out.def_init = solver->get_def_initial();
    out.def_final = solver->get_def_final();
    out.sol_norm = vec_sol.norm2();
    {
      // re-invocation: the same solver, hierarchy, gates and vectors once more, starting from the filtered zero vector
      vec_sol.format();
      the_system_level.filter_sys.filter_sol(vec_sol);
      auto result2 = Solver::solve(*solver, vec_sol, vec_rhs, the_system_level.matrix_sys, the_system_level.filter_sys);
      (void)result2;
      out.iters2 = double(solver->get_num_iter());
      out.def_final2 = solver->get_def_final();
      out.sol_norm2 = vec_sol.norm2();
    }
    solver->done();
    multigrid_hierarchy->done();
    auto errors = Assembly::integrate_error_function<1>(the_domain_level.domain_asm, sol_func, vec_sol.local(), the_domain_level.space, cubature);
    errors.synchronize(comm);
    out.h0 = errors.norm_h0_sqr;
    out.h1 = errors.norm_h1_sqr;
    out.done = true;
  }

  void rank_dispatch(const Cfg& cfg, Out& out)
  {
    typedef Geometry::ConformalMesh<Shape::Hypercube<2>> MeshType;
    typedef Trafo::Standard::Mapping<MeshType> TrafoType;
    if(cfg.problem == 0)
    {
      if(cfg.space == 1) rank_main<Space::Lagrange1::Element<TrafoType>, MeshType, TrafoType, 0>(cfg, out);
      else rank_main<Space::Lagrange2::Element<TrafoType>, MeshType, TrafoType, 0>(cfg, out);
    }
    else rank_main<Space::Lagrange1::Element<TrafoType>, MeshType, TrafoType, 1>(cfg, out);
  }

  std::vector<Out> execute(const Cfg& cfg, int P, int mode, const std::vector<int>& prefix, std::string& left)
  {
    std::vector<Out> outs(static_cast<size_t>(P));
    minimpi::set_mode(mode == 0 ? minimpi::eager : minimpi::rendezvous);
    vsched::reset(prefix, false);
    minimpi::run(P, [&](int rank) { rank_dispatch(cfg, outs[size_t(rank)]); });
    left = minimpi::leftovers(false);
    Statistics::reset();
    return outs;
  }

  struct DeadCtx { verif::Ctx* c = nullptr; std::string pre; } g_dead;
  void deadlock_cb(void*)
  {
    std::vector<int> sch; for(auto& x : vsched::decisions()) sch.push_back(x.chosen);
    const std::string s = g_dead.pre + vsched::schedule_to_string(sch);
    g_dead.c->fail("deadlock control layer", std::string("deadlock: no rank can make progress: ") + vsched::blocked_graph(), s);
    g_dead.c->capped("deadlock-abort");
    g_dead.c->write_results();
    fflush(stdout);
    _exit(0);
  }
}

int main(int argc, char** argv)
{
  Runtime::ScopeGuard guard(argc, argv);
  verif::Spec spec;
  spec.property = "C13";
  spec.harness = "c13_control";
  spec.rule = "case = (mesh file or create_rectilinear, desired-level string incl. multi-layered hierarchies, ranks P, space, Dirichlet problem with ScalarUnitFilterSystemLevel or Neumann problem with ScalarMeanFilterSystemLevel / Global::MeanFilter, partitioner options set by default / parse_args / parse_property_map); the flow of applications/poisson_dirichlet.cpp "
    "(PartiDomainControl, ScalarUnitFilterSystemLevel gate/muxer/transfer/matrix/filter assembly, PCG with V-cycle multigrid) runs on P rank threads over the MPI model; "
    "default schedule and all schedules with <= D Waitany deviations, both send modes; compared with the P=1 run. Non-trivial = P >= 2.";
  spec.bounds_quick = "unit-square-quad, levels '3 1' / '3 0' / multi-layered '4 2:1 0', P in {1,2,3,4}(+6,8 default schedule only), Lagrange1 and Lagrange2; <= 1 deviation for P <= 4 capped at 300 executions per case and mode";
  spec.bounds_thorough = "as quick plus P in {16}, levels '5 3:2 1:1 0', <= 1 deviation uncapped for P <= 4";
  spec.assumptions = {"MPI behaves as modelled by engine/minimpi", "partitioner: the deterministic 2-level/naive partitioners of the control layer (no third-party partitioner, genetic partitioner off)",
    "equality with the one-process run is required up to 1e-8 relative (iteration counts exactly)",
    "coverage audit, not exercised: ScalarCombinedSystemLevel, the voxel based assembly entry points of control/scalar_basic.hpp (assemble_laplace_voxel_based, asm_transfer_voxel_*; subject of C16), "
    "system level convert() to other data types, external / genetic / third-party partitioners of PartiDomainControl, the argument help texts"};
  spec.deadline_quick_s = 170; spec.deadline_thorough_s = 1500;

  return verif::run(spec, argc, argv, [&](verif::Ctx& c)
  {
    const bool T = c.thorough;
    {
      cpu_set_t set; CPU_ZERO(&set);
      long ncpu = sysconf(_SC_NPROCESSORS_ONLN); if(ncpu < 1) ncpu = 1;
      CPU_SET(int(c._me % ncpu), &set);
      sched_setaffinity(0, sizeof(set), &set);
    }
    std::vector<std::string> levels = {"3 1", "3 0", "4 2:1 0"};
    if(T) levels.push_back("5 3:2 1:1 0");
    std::vector<int> Ps = {1, 2, 3, 4, 6, 8};
    if(T) Ps.push_back(16);
    vsched::set_deadlock_cb(deadlock_cb, nullptr);
    struct Variant { int space; int problem; const char* mesh; int route; };
    const Variant variants[] = {{1, 0, "unit-square-quad.xml", 0}, {2, 0, "unit-square-quad.xml", 1}, {1, 1, "unit-square-quad.xml", 2}, {1, 0, "rect:2", 0}};
    for(const Variant& va : variants)
    for(const std::string& lv : levels)
    for(int P : Ps)
    {
      if(!c.want()) continue;
      Cfg cfg{va.mesh, lv, P, va.space}; cfg.problem = va.problem; cfg.route = va.route;
      const int space = va.space; (void)space;
      c.desc([&]{ return cfg.str(); });
      if(lv == "5 3:2 1:1 0" && P < 4) { c.excluded("multi-layered hierarchy with fewer ranks than layers need"); continue; }
      if(lv == "4 2:1 0" && P < 2) { c.excluded("layered hierarchy on one rank"); continue; }
      // default schedule first: it tells which levels the control layer has chosen for this P
      std::string left;
      g_dead.c = &c; g_dead.pre = "0:";
      const std::vector<Out> first = execute(cfg, P, 0, std::vector<int>(), left);
      if(!first[0].done) { c.fail("control: default schedule", "rank 0 did not finish the default schedule"); continue; }
      // reference: one process with the same finest and coarsest level
      Cfg ref = cfg; ref.P = 1;
      {
        std::deque<String> tk = String(first[0].levels).split_by_whitespaces();
        String mx = tk.front(), mn = tk.back();
        if(mx.find(':') != mx.npos) mx = mx.substr(0, mx.find(':'));
        if(mn.find(':') != mn.npos) mn = mn.substr(0, mn.find(':'));
        ref.levels = mx + " " + mn;
      }
      g_dead.pre = "ref:";
      const std::vector<Out> r1 = execute(ref, 1, 0, std::vector<int>(), left);
      if(!r1[0].done) { c.fail("control: one-process run", "the one-process reference run did not finish"); continue; }
      const std::vector<double> want = r1[0].all();
      const std::string chosen = first[0].levels;

      auto judge = [&](const std::vector<Out>& outs, const std::string& lft, std::string& what) -> bool
      {
        std::ostringstream o; o.precision(17);
        if(!lft.empty()) o << "MPI objects left behind: " << lft << "; ";
        for(int r = 0; r < P; ++r)
        {
          if(!outs[size_t(r)].done) { o << "rank " << r << " did not finish: " << outs[size_t(r)].note << "; "; continue; }
          const std::vector<double> got = outs[size_t(r)].all(), g0 = outs[0].all();
          for(size_t k = 0; k < got.size(); ++k)
          {
            const bool exact = (k <= 2 || k == 9);
            const double tol = exact ? 0.0 : 1e-8 * (fabs(want[k]) + ((k == 4 || k == 10) ? want[3] * 1e-8 : 0.0)) + ((k == 4 || k == 10) ? 1e-9 * want[3] : 0.0);
            if(!(fabs(got[k] - want[k]) <= tol)) o << out_names[k] << ": rank " << r << " has " << got[k] << ", the one-process run " << want[k] << "; ";
            if(got[k] != g0[k]) o << out_names[k] << ": ranks 0 and " << r << " disagree (" << g0[k] << " vs " << got[k] << "); ";
          }
        }
        what = o.str();
        if(!what.empty()) what = "chosen levels '" + chosen + "' (reference '" + ref.levels + "'): " + what.substr(0, 900);
        return what.empty();
      };

      if(c.replaying && !c.extra.empty())
      {
        const int mode = atoi(c.extra.substr(0, 1).c_str());
        std::string l2, what;
        std::vector<Out> outs = execute(cfg, P, mode, vsched::schedule_from_string(c.extra.substr(2)), l2);
        if(!judge(outs, l2, what)) c.fail("control P=" + std::to_string(P) + " levels " + lv, what, c.extra);
        continue;
      }
      for(int mode = 0; mode < 2; ++mode)
      {
        g_dead.pre = std::to_string(mode) + ":";
        minimpi::Explorer ex;
        ex.deviation_bound = (P <= 4) ? 1 : 0;
        ex.max_executions = T ? 4000 : 300;
        const double t_end = c._deadline;
        ex.stop = [&c, t_end]() { return t_end > 0.0 && c.now() > t_end; };
        std::string failure; std::set<std::string> digests;
        const bool ok = ex.explore([&](const std::vector<int>& prefix) -> bool
        {
          std::string l2;
          std::vector<Out> outs = execute(cfg, P, mode, prefix, l2);
          if(vsched::diverged()) { failure = "MACHINERY: schedule prefix diverged"; return false; }
          if(!judge(outs, l2, failure)) return false;
          verif::Hash h; for(auto& o : outs) for(double v : o.all()) h.pod(v);
          digests.insert(std::to_string(h.get()));
          c.sample(cfg.str() + " -> chosen levels '" + outs[0].levels + "' iterations=" + std::to_string(int(outs[0].iters)));
          return true;
        });
        c.count("executions", ex.stats.executions);
        c.count("traces_validated_against_impl", ex.stats.executions);
        c.count("states", ex.stats.states);
        c.count("transitions", ex.stats.transitions);
        c.count("waitany_decisions", ex.stats.value_decisions);
        c.maxi("waitany_decisions_per_execution", ex.stats.max_value_decisions);
        c.maxi("distinct_digests", digests.size());
        if(ex.stats.capped) c.count("cases_with_capped_deviation_enumeration");
        if(!ok)
        {
          const std::string s = std::to_string(mode) + ":" + vsched::schedule_to_string(ex.failing);
          if(failure.compare(0, 9, "MACHINERY") == 0) c.fail("machinery", failure, s);
          else c.fail("control P=" + std::to_string(P) + " levels " + lv, failure + " [" + (mode ? "rendezvous" : "eager") + "; schedule in the replay file]", s);
          break;
        }
      }
      c.outcome("iterations=" + std::to_string(int(want[1])));
      c.outcome("chosen levels " + chosen);
      if(P >= 2) c.nontrivial(verif::Hash().str(cfg.str()).get());
    }
  });
}
