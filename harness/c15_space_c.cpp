// C15 (part c): the families with derivative degrees of freedom: Hermite-3, Argyris, Bogner-Fox-Schmit.
// See c15_core.hpp for the checks.
#include <c15_desc.hpp>

#include <kernel/runtime.hpp>
#include <kernel/space/argyris/element.hpp>
#include <kernel/space/bogner_fox_schmit/element.hpp>
#include <kernel/space/hermite3/element.hpp>

using namespace FEAT;
using namespace c15;

struct DescHermite3 : DescLagrangeBase<3>
{
  static const char* name() { return "hermite3"; }
  template<typename Trafo_> using Space = FEAT::Space::Hermite3::Element<Trafo_>;
  template<typename Shape_> static constexpr bool has_hess() { return true; }
  template<typename Shape_> static int dofs_per_entity(int d)
  {
    constexpr int D = Shape_::dimension;
    if(d == 0) return D + 1;
    if(d == D) return ShapeInfo<Shape_>::is_simplex ? (D == 2 ? 1 : 0) : ((1 << D) - (D + 1)) * (1 << D);
    return 0;
  }
  // Quadrilateral: FINDING (reported under the key "hermite3/quad dual.count"): the 4 interior basis functions
  // q_i(x)q_j(y) (mixed derivative at the vertices) have no node functional -- the vertex functional computes 4 values
  // but DofTraits assigns 3 per vertex -- so only polynomials with vanishing mixed reference derivative at the four
  // vertices are reproduced. The remaining checks use that subspace: separable cubics f(xi)+g(eta).
  template<typename Shape_> static constexpr bool is_quad() { return !ShapeInfo<Shape_>::is_simplex && Shape_::dimension == 2; }
  template<typename Shape_> static std::vector<Poly<Shape_::dimension>> separable()
  {
    constexpr int D = Shape_::dimension;
    std::vector<Poly<D>> r;
    for(int k = 0; k < D; ++k) for(int a = 1; a <= 3; ++a)
    {
      std::array<int, D> e; e.fill(0); e[(size_t)k] = a;
      r.push_back(Poly<D>::monomial(e));
    }
    return r;
  }
  template<typename Shape_> static int pk() { return is_quad<Shape_>() ? 0 : 3; }
  template<typename Shape_> static int qk() { return (ShapeInfo<Shape_>::is_simplex || is_quad<Shape_>()) ? -1 : 3; }
  template<typename Shape_> static std::vector<Poly<Shape_::dimension>> ref_space()
  {
    if(!is_quad<Shape_>()) return ref_pk_or_qk<Shape_>(3);
    auto r = separable<Shape_>();
    r.insert(r.begin(), Poly<Shape_::dimension>(LD(1)));
    return r;
  }
  template<typename Shape_> static std::vector<Poly<Shape_::dimension>> extra_base_space()
  {
    if(!is_quad<Shape_>()) return {};
    return separable<Shape_>();
  }
};

struct DescArgyris : DescLagrangeBase<5>
{
  static const char* name() { return "argyris"; }
  template<typename Trafo_> using Space = FEAT::Space::Argyris::Element<Trafo_>;
  template<typename Shape_> static constexpr bool has_hess() { return true; }
  static Conformity conformity() { return conf_c1; }
  template<typename Shape_> static int dofs_per_entity(int d) { return d == 0 ? 6 : (d == 1 ? 1 : 0); }
};

struct DescBFS : DescLagrangeBase<3>
{
  static const char* name() { return "bogner_fox_schmit"; }
  template<typename Trafo_> using Space = FEAT::Space::BognerFoxSchmit::Element<Trafo_>;
  template<typename Shape_> static constexpr bool has_hess() { return true; }
  static constexpr bool has_node_func() { return false; }
  static constexpr bool affine_only() { return true; } // documented: paralleloid cells only
  template<typename Shape_> static int dofs_per_entity(int d) { return d == 0 ? (1 << Shape_::dimension) : 0; }

  /// the family has no node functional classes: check the defining vertex functionals (value, real gradient) directly
  template<typename Checker_, typename Space_, typename Geoms_>
  static void extra(Checker_& chk, const Space_& space, const Geoms_& geoms)
  {
    typedef typename Checker_::Fe Fe;
    constexpr int D = Checker_::D;
    constexpr int NV = 1 << D;
    constexpr int VD = 1 << D; // dofs per vertex
    Fe fe(space);
    for(Index k = 0; k < Index(geoms.size()); ++k)
    {
      fe.prepare(k);
      for(int v = 0; v < NV; ++v)
      {
        std::array<LD, D> xi;
        for(int j = 0; j < D; ++j) xi[(size_t)j] = LD((((v >> j) & 1) << 1) - 1);
        fe.eval(xi);
        for(int a = 0; a < fe.nloc; ++a)
        {
          int av = a / VD, ak = a % VD; // vertex and kind of dof a: 0 value, 1..D first derivatives, last mixed
          double ev = (av == v && ak == 0) ? 1.0 : 0.0;
          chk.c.count("bfs_vertex_functionals");
          if(!(std::fabs(fe.sd.phi[a].value - ev) <= 1e-12))
          { chk.c.fail(chk.kp + " bfs.vertex-value", "cell " + std::to_string(k) + " dof " + std::to_string(a) + " at vertex " + std::to_string(v) + ": " + std::to_string(fe.sd.phi[a].value)); fe.finish(); return; }
          for(int i = 0; i < D; ++i)
          {
            double eg = (av == v && ak == 1 + i && ak <= D) ? 1.0 : 0.0;
            if(!(std::fabs(fe.sd.phi[a].grad[i] - eg) <= 1e-11))
            { chk.c.fail(chk.kp + " bfs.vertex-grad", "cell " + std::to_string(k) + " dof " + std::to_string(a) + " at vertex " + std::to_string(v) + " comp " + std::to_string(i) + ": " + std::to_string(fe.sd.phi[a].grad[i])); fe.finish(); return; }
          }
        }
      }
      fe.finish();
    }
  }
};

int main(int argc, char** argv)
{
  Runtime::ScopeGuard guard(argc, argv);
  verif::Spec spec;
  spec.property = "C15";
  spec.harness = "c15_space_c";
  spec.rule = "as c15_space_a, for Hermite-3 (line, tria, quad), Argyris (tria; C1: gradients are compared across the shared edge as well) and "
    "Bogner-Fox-Schmit (line, quad; affine cells only as documented; no node functional classes exist, the defining vertex functionals are evaluated by the harness).";
  spec.max_fail_per_worker = 1000000; // the hermite3/quad finding fires in every case of that family
  spec.bounds_quick = "as c15_space_a";
  spec.bounds_thorough = "as c15_space_a";
  spec.assumptions = {
    "DofAssignmentNull/Identity/SingleEntity (kernel/space/dof_assignment_common.hpp) are not used by any element family (all families use DofAssignmentUniform) and are not checked; the dof mappings/assignments the families do use are compared with the ownership oracle (own.* keys)",
    "BFS: only paralleloid cells (documented precondition); C1-continuity of BFS is not claimed on general parallelogram meshes and not checked",
    "harness oracles: long double sparse polynomials, Newton inverse of the multilinear map, DOF-per-entity tables",
    "tolerance 1e-8 relative for Argyris (21x21 nodal matrix inversion in double), 1e-10 otherwise"};
  return verif::run(spec, argc, argv, [&](verif::Ctx& c) {
    CheckOptions opt;
    CheckOptions opt_arg; opt_arg.tol = 1e-8; opt_arg.tol_fd = 1e-5;
    enumerate_family<DescHermite3, Shape::Hypercube<1>>(c, opt);
    enumerate_family<DescBFS, Shape::Hypercube<1>>(c, opt);
    enumerate_family<DescHermite3, Shape::Simplex<2>>(c, opt);
    enumerate_family<DescArgyris, Shape::Simplex<2>>(c, opt_arg);
    enumerate_family<DescHermite3, Shape::Hypercube<2>>(c, opt);
    enumerate_family<DescBFS, Shape::Hypercube<2>>(c, opt);
  });
}
