// C15 (part c): the families with derivative degrees of freedom: Hermite-3, Argyris, Bogner-Fox-Schmit.
// See c15_core.hpp for the checks.
#include <c15_desc.hpp>

#include <kernel/runtime.hpp>
#include <kernel/space/argyris/element.hpp>
#include <kernel/space/bogner_fox_schmit/element.hpp>
#include <kernel/space/hermite3/element.hpp>
#include <kernel/space/dof_assignment_common.hpp>
#include <kernel/space/lagrange1/element.hpp>

using namespace FEAT;
using namespace c15;

struct DescHermite3 : DescLagrangeBase<3>
{
  static const char* name() { return "hermite3"; }
  template<typename Trafo_> using Space = FEAT::Space::Hermite3::Element<Trafo_>;
  template<typename Shape_> static constexpr bool has_hess() { return true; }
  template<typename Shape_> static int dofs_per_entity(int d)
  {
    constexpr int D = Shape_::dimension;
    if(d == 0) return D + 1;
    if(d == D) return ShapeInfo<Shape_>::is_simplex ? (D == 2 ? 1 : 0) : ((1 << D) - (D + 1)) * (1 << D);
    return 0;
  }
  // Quadrilateral: FINDING (reported under the key "hermite3/quad dual.count"): the 4 interior basis functions
  // q_i(x)q_j(y) (mixed derivative at the vertices) have no node functional -- the vertex functional computes 4 values
  // but DofTraits assigns 3 per vertex -- so only polynomials with vanishing mixed reference derivative at the four
  // vertices are reproduced. The remaining checks use that subspace: separable cubics f(xi)+g(eta).
  template<typename Shape_> static constexpr bool is_quad() { return !ShapeInfo<Shape_>::is_simplex && Shape_::dimension == 2; }
  template<typename Shape_> static std::vector<Poly<Shape_::dimension>> separable()
  {
    constexpr int D = Shape_::dimension;
    std::vector<Poly<D>> r;
    for(int k = 0; k < D; ++k) for(int a = 1; a <= 3; ++a)
    {
      std::array<int, D> e; e.fill(0); e[(size_t)k] = a;
      r.push_back(Poly<D>::monomial(e));
    }
    return r;
  }
  template<typename Shape_> static int pk() { return is_quad<Shape_>() ? 0 : 3; }
  template<typename Shape_> static int qk() { return (ShapeInfo<Shape_>::is_simplex || is_quad<Shape_>()) ? -1 : 3; }
  template<typename Shape_> static std::vector<Poly<Shape_::dimension>> ref_space()
  {
    if(!is_quad<Shape_>()) return ref_pk_or_qk<Shape_>(3);
    auto r = separable<Shape_>();
    r.insert(r.begin(), Poly<Shape_::dimension>(LD(1)));
    return r;
  }
  template<typename Shape_> static std::vector<Poly<Shape_::dimension>> extra_base_space()
  {
    if(!is_quad<Shape_>()) return {};
    return separable<Shape_>();
  }
};

struct DescArgyris : DescLagrangeBase<5>
{
  static const char* name() { return "argyris"; }
  template<typename Trafo_> using Space = FEAT::Space::Argyris::Element<Trafo_>;
  template<typename Shape_> static constexpr bool has_hess() { return true; }
  static Conformity conformity() { return conf_c1; }
  template<typename Shape_> static int dofs_per_entity(int d) { return d == 0 ? 6 : (d == 1 ? 1 : 0); }
};

struct DescBFS : DescLagrangeBase<3>
{
  static const char* name() { return "bogner_fox_schmit"; }
  template<typename Trafo_> using Space = FEAT::Space::BognerFoxSchmit::Element<Trafo_>;
  template<typename Shape_> static constexpr bool has_hess() { return true; }
  static constexpr bool has_node_func() { return false; }
  static constexpr bool affine_only() { return true; } // documented: paralleloid cells only
  template<typename Shape_> static int dofs_per_entity(int d) { return d == 0 ? (1 << Shape_::dimension) : 0; }

  /// the family has no node functional classes: check the defining vertex functionals (value, real gradient) directly
  template<typename Checker_, typename Space_, typename Geoms_>
  static void extra(Checker_& chk, const Space_& space, const Geoms_& geoms)
  {
    typedef typename Checker_::Fe Fe;
    constexpr int D = Checker_::D;
    constexpr int NV = 1 << D;
    constexpr int VD = 1 << D; // dofs per vertex
    Fe fe(space);
    for(Index k = 0; k < Index(geoms.size()); ++k)
    {
      fe.prepare(k);
      for(int v = 0; v < NV; ++v)
      {
        std::array<LD, D> xi;
        for(int j = 0; j < D; ++j) xi[(size_t)j] = LD((((v >> j) & 1) << 1) - 1);
        fe.eval(xi);
        for(int a = 0; a < fe.nloc; ++a)
        {
          int av = a / VD, ak = a % VD; // vertex and kind of dof a: 0 value, 1..D first derivatives, last mixed
          double ev = (av == v && ak == 0) ? 1.0 : 0.0;
          chk.c.count("bfs_vertex_functionals");
          if(!(std::fabs(fe.sd.phi[a].value - ev) <= 1e-12))
          { chk.c.fail(chk.kp + " bfs.vertex-value", "cell " + std::to_string(k) + " dof " + std::to_string(a) + " at vertex " + std::to_string(v) + ": " + std::to_string(fe.sd.phi[a].value)); fe.finish(); return; }
          for(int i = 0; i < D; ++i)
          {
            double eg = (av == v && ak == 1 + i && ak <= D) ? 1.0 : 0.0;
            if(!(std::fabs(fe.sd.phi[a].grad[i] - eg) <= 1e-11))
            { chk.c.fail(chk.kp + " bfs.vertex-grad", "cell " + std::to_string(k) + " dof " + std::to_string(a) + " at vertex " + std::to_string(v) + " comp " + std::to_string(i) + ": " + std::to_string(fe.sd.phi[a].grad[i])); fe.finish(); return; }
          }
        }
      }
      fe.finish();
    }
  }
};

/// The generic DofAssignment classes of dof_assignment_common.hpp are used by no element family of the library (all
/// families use DofAssignmentUniform), so they are instantiated directly: their contract is "entity e of the dof
/// dimension owns the dofs n*e .. n*e+n-1, entities of other dimensions own nothing".
template<typename Shape_>
void check_assignment_common(verif::Ctx& c)
{
  constexpr int D = Shape_::dimension;
  typedef Geometry::ConformalMesh<Shape_, D, double> MeshType;
  typedef Trafo::Standard::Mapping<MeshType> TrafoType;
  typedef FEAT::Space::Lagrange1::Element<TrafoType> SpaceType;
  MeshData<Shape_> md = make_two_cell<Shape_>(1, 2, 1, Twist());
  DataFactory<Shape_> fac(md);
  MeshType mesh(fac);
  TrafoType trafo(mesh);
  SpaceType space(trafo);
  const std::string k = std::string("dof_assignment_common/") + ShapeInfo<Shape_>::name();
  {
    FEAT::Space::DofAssignmentNull<SpaceType, 0, double> da(space);
    da.prepare(1);
    c.check(da.get_num_assigned_dofs() == 0 && da.get_max_assigned_dofs() == 0, k + " null", "DofAssignmentNull assigns dofs");
    da.finish();
  }
  auto identity = [&](auto& da, int n, const std::string& name)
  {
    bool ok = true;
    for(Index e : {Index(1), Index(0), Index(1)})
    {
      da.prepare(e);
      ok = ok && (da.get_num_assigned_dofs() == n) && (da.get_max_assigned_dofs() == n);
      for(int j = 0; ok && j < n; ++j) ok = (da.get_index(j) == Index(n) * e + Index(j));
      da.finish();
      c.count("assignment_common_checks");
    }
    c.check(ok, k + " " + name, [&]{ return "entity e must own exactly the dofs " + std::to_string(n) + "*e .. " + std::to_string(n) + "*e+" + std::to_string(n - 1); });
  };
  { FEAT::Space::DofAssignmentIdentity<SpaceType, D, double, 1> da(space); identity(da, 1, "identity<1>"); }
  { FEAT::Space::DofAssignmentIdentity<SpaceType, D, double, 3> da(space); identity(da, 3, "identity<3>"); }
  { FEAT::Space::DofAssignmentSingleEntity<SpaceType, D, double, D, 1> da(space); identity(da, 1, "single-entity<1>"); }
  { FEAT::Space::DofAssignmentSingleEntity<SpaceType, 0, double, 0, 2> da(space); identity(da, 2, "single-entity<2>"); }
  { FEAT::Space::DofAssignmentSingleEntity<SpaceType, D, double, D, 3> da(space); identity(da, 3, "single-entity<3>"); }
  {
    FEAT::Space::DofAssignmentSingleEntity<SpaceType, 0, double, D, 2> da(space); // dimension 0 asked, dofs live in dimension D
    da.prepare(0);
    c.check(da.get_num_assigned_dofs() == 0, k + " single-entity other-dimension", "entities of another dimension must own no dofs");
    da.finish();
  }
}

int main(int argc, char** argv)
{
  Runtime::ScopeGuard guard(argc, argv);
  verif::Spec spec;
  spec.property = "C15";
  spec.harness = "c15_space_c";
  spec.rule = "as c15_space_a, for Hermite-3 (line, tria, quad), Argyris (tria; C1: gradients are compared across the shared edge as well) and "
    "Bogner-Fox-Schmit (line, quad; affine cells only as documented; no node functional classes exist, the defining vertex functionals are evaluated by the harness).";
  spec.max_fail_per_worker = 1000000; // the hermite3/quad finding fires in every case of that family
  spec.bounds_quick = "as c15_space_a";
  spec.bounds_thorough = "as c15_space_a";
  spec.assumptions = {
    "BFS: only paralleloid cells (documented precondition); C1-continuity of BFS is not claimed on general parallelogram meshes and not checked",
    "harness oracles: long double sparse polynomials, Newton inverse of the multilinear map, DOF-per-entity tables",
    "tolerance 1e-8 relative for Argyris (21x21 nodal matrix inversion in double), 1e-10 otherwise"};
  return verif::run(spec, argc, argv, [&](verif::Ctx& c) {
    CheckOptions opt;
    CheckOptions opt_arg; opt_arg.tol = 1e-8; opt_arg.tol_fd = 1e-5;
    enumerate_family<DescHermite3, Shape::Hypercube<1>>(c, opt);
    enumerate_family<DescBFS, Shape::Hypercube<1>>(c, opt);
    enumerate_family<DescHermite3, Shape::Simplex<2>>(c, opt);
    enumerate_family<DescArgyris, Shape::Simplex<2>>(c, opt_arg);
    enumerate_family<DescHermite3, Shape::Hypercube<2>>(c, opt);
    enumerate_family<DescBFS, Shape::Hypercube<2>>(c, opt);
    if(c.want()) { c.desc([]{ return std::string("dof_assignment_common classes on a 2-cell quad mesh"); }); check_assignment_common<Shape::Hypercube<2>>(c); c.count("cases_assignment_common"); }
    if(c.want()) { c.desc([]{ return std::string("dof_assignment_common classes on a 2-cell tetra mesh"); }); check_assignment_common<Shape::Simplex<3>>(c); c.count("cases_assignment_common"); }
  });
}
