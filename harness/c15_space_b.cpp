// C15 (part b): discontinuous P0/P1, Crouzeix-Raviart / Rannacher-Turek, Bernstein-2, P2-bubble, Cai-Douglas-Santos-
// Sheen-Ye and Q1~-bnp on every shape they support. See c15_core.hpp for the checks.
#include <c15_desc.hpp>

#include <kernel/runtime.hpp>
#include <kernel/space/bernstein2/element.hpp>
#include <kernel/space/cai_dou_san_she_ye/element.hpp>
#include <kernel/space/cro_rav_ran_tur/element.hpp>
#include <kernel/space/discontinuous/element.hpp>
#include <kernel/space/p2bubble/element.hpp>
#include <kernel/space/q1tbnp/element.hpp>

using namespace FEAT;
using namespace c15;

namespace
{
  template<int D> Poly<D> V(int k) { return Poly<D>::var(k); }
  template<int D> Poly<D> C(LD a) { return Poly<D>(a); }
}

struct DescDiscP0 : DescBase
{
  static const char* name() { return "discontinuous-p0"; }
  template<typename Trafo_> using Space = FEAT::Space::Discontinuous::Element<Trafo_, FEAT::Space::Discontinuous::Variant::StdPolyP<0>>;
  template<typename Shape_> static constexpr bool has_grad() { return false; }
  static Conformity conformity() { return conf_functional_only; }
  template<typename Shape_> static int degree() { return 0; }
  template<typename Shape_> static int pk() { return 0; }
  template<typename Shape_> static bool pk_is_complete() { return true; }
  template<typename Shape_> static int dofs_per_entity(int d) { return d == Shape_::dimension ? 1 : 0; }
  template<typename Shape_> static std::vector<Poly<Shape_::dimension>> ref_space() { return {Poly<Shape_::dimension>(LD(1))}; }
};

struct DescDiscP1 : DescBase
{
  static const char* name() { return "discontinuous-p1"; }
  template<typename Trafo_> using Space = FEAT::Space::Discontinuous::Element<Trafo_, FEAT::Space::Discontinuous::Variant::StdPolyP<1>>;
  static Conformity conformity() { return conf_functional_only; }
  // on hypercubes the family is non-parametric: P1 in the coordinates of the linearised cell map
  static constexpr bool linearised_local_space() { return true; }
  template<typename Shape_> static int degree() { return 1; }
  template<typename Shape_> static int pk() { return 1; }
  template<typename Shape_> static bool pk_is_complete() { return true; }
  template<typename Shape_> static int dofs_per_entity(int d) { return d == Shape_::dimension ? Shape_::dimension + 1 : 0; }
  template<typename Shape_> static std::vector<Poly<Shape_::dimension>> ref_space()
  {
    return monomials<Shape_::dimension>(exps_total_degree<Shape_::dimension>(1));
  }
};

struct DescCroRavRanTur : DescBase
{
  static const char* name() { return "cro_rav_ran_tur"; }
  template<typename Trafo_> using Space = FEAT::Space::CroRavRanTur::Element<Trafo_>;
  static Conformity conformity() { return conf_functional_only; }
  static constexpr bool linearised_local_space() { return true; }
  template<typename Shape_> static int degree() { return ShapeInfo<Shape_>::is_simplex ? 1 : 2; }
  template<typename Shape_> static int pk() { return 1; }
  template<typename Shape_> static bool pk_is_complete() { return true; }
  template<typename Shape_> static int dofs_per_entity(int d) { return d == Shape_::dimension - 1 ? 1 : 0; }
  template<typename Shape_> static std::vector<Poly<Shape_::dimension>> rotated()
  {
    constexpr int D = Shape_::dimension;
    std::vector<Poly<D>> r;
    if(ShapeInfo<Shape_>::is_simplex) return r;
    for(int k = 0; k + 1 < D; ++k) r.push_back(V<D>(k) * V<D>(k) - V<D>(k + 1) * V<D>(k + 1));
    return r;
  }
  template<typename Shape_> static std::vector<Poly<Shape_::dimension>> ref_space()
  {
    auto r = monomials<Shape_::dimension>(exps_total_degree<Shape_::dimension>(1));
    for(auto& q : rotated<Shape_>()) r.push_back(q);
    return r;
  }
  template<typename Shape_> static std::vector<Poly<Shape_::dimension>> extra_base_space() { return rotated<Shape_>(); }
};

struct DescQ1TBNP : DescBase
{
  static const char* name() { return "q1tbnp"; }
  template<typename Trafo_> using Space = FEAT::Space::Q1TBNP::Element<Trafo_>;
  static Conformity conformity() { return conf_functional_only; }
  static constexpr bool linearised_local_space() { return true; }
  template<typename Shape_> static int degree() { return 2; }
  template<typename Shape_> static int pk() { return 1; }
  template<typename Shape_> static int qk() { return Shape_::dimension == 2 ? 1 : -1; }
  template<typename Shape_> static bool qk_is_complete() { return true; } // together with the extra functions
  template<typename Shape_> static int dofs_per_entity(int d)
  {
    constexpr int D = Shape_::dimension;
    if(d == D - 1) return 1;
    if(d == D) return D == 2 ? 1 : 3;
    return 0;
  }
  template<typename Shape_> static std::vector<Poly<Shape_::dimension>> extras(bool with_bilinear)
  {
    constexpr int D = Shape_::dimension;
    std::vector<Poly<D>> r;
    for(int k = 0; k + 1 < D; ++k) r.push_back(V<D>(k) * V<D>(k) - V<D>(k + 1) * V<D>(k + 1));
    if(with_bilinear) for(int k = 0; k < D; ++k) for(int l = k + 1; l < D; ++l) r.push_back(V<D>(k) * V<D>(l));
    return r;
  }
  template<typename Shape_> static std::vector<Poly<Shape_::dimension>> ref_space()
  {
    auto r = monomials<Shape_::dimension>(exps_total_degree<Shape_::dimension>(1));
    for(auto& q : extras<Shape_>(true)) r.push_back(q);
    return r;
  }
  // 2D: Q1 (qk) + x^2-y^2; 3D: P1 + rotated + the three bilinear products
  template<typename Shape_> static std::vector<Poly<Shape_::dimension>> extra_base_space() { return extras<Shape_>(Shape_::dimension == 3); }
};

struct DescBernstein2 : DescLagrangeBase<2>
{
  static const char* name() { return "bernstein2"; }
  template<typename Trafo_> using Space = FEAT::Space::Bernstein2::Element<Trafo_>;
  template<typename Shape_> static constexpr bool has_hess() { return true; }
  template<typename Shape_> static int dofs_per_entity(int) { return 1; }
};

struct DescP2Bubble : DescBase
{
  static const char* name() { return "p2bubble"; }
  template<typename Trafo_> using Space = FEAT::Space::P2Bubble::Element<Trafo_>;
  template<typename Shape_> static constexpr bool has_hess() { return true; }
  template<typename Shape_> static int degree() { return 3; }
  template<typename Shape_> static int pk() { return 2; }
  template<typename Shape_> static int dofs_per_entity(int) { return 1; }
  template<typename Shape_> static std::vector<Poly<Shape_::dimension>> ref_space()
  {
    auto r = monomials<2>(exps_total_degree<2>(2));
    r.push_back(V<2>(0) * V<2>(1) * (C<2>(1) - V<2>(0) - V<2>(1)));
    return r;
  }
};

struct DescCaiDou : DescBase
{
  static const char* name() { return "cai_dou_san_she_ye"; }
  template<typename Trafo_> using Space = FEAT::Space::CaiDouSanSheYe::Element<Trafo_>;
  static Conformity conformity() { return conf_functional_only; }
  template<typename Shape_> static int degree() { return 4; }
  template<typename Shape_> static int pk() { return 1; }
  template<typename Shape_> static int qk() { return 1; }
  template<typename Shape_> static int dofs_per_entity(int d) { return d >= 1 ? 1 : 0; }
  template<typename Shape_> static std::vector<Poly<Shape_::dimension>> ref_space()
  {
    auto th = [](const Poly<2>& t) { return t * t * LD(3) - t * t * t * t * LD(5); };
    return {C<2>(1), V<2>(0), V<2>(1), V<2>(0) * V<2>(1), th(V<2>(0)) - th(V<2>(1))};
  }
};

int main(int argc, char** argv)
{
  Runtime::ScopeGuard guard(argc, argv);
  verif::Spec spec;
  spec.property = "C15";
  spec.harness = "c15_space_b";
  spec.rule = "as c15_space_a, for the families discontinuous P0/P1, Crouzeix-Raviart/Rannacher-Turek, Bernstein-2, P2-bubble, "
    "Cai-Douglas-Santos-Sheen-Ye, Q1~-bnp; for the non-conforming families the conformity statement is the agreement of the shared node "
    "functionals (facet means / midpoint values) from both cells, checked through the cell-wise duality.";
  spec.max_fail_per_worker = 1000000; // known findings fire in every case of the affected family
  spec.bounds_quick = "as c15_space_a";
  spec.bounds_thorough = "as c15_space_a";
  spec.assumptions = {
    "local spaces of the non-parametric families are polynomial in the coordinates of the cell map linearised at the cell centre (harness computes this linearisation itself)",
    "harness oracles: long double sparse polynomials, Newton inverse of the multilinear map, DOF-per-entity tables",
    "continuous quantifier: exact for polynomial bases on affine cells by the lattice argument; small-scope sample on non-affine cells"};
  return verif::run(spec, argc, argv, [&](verif::Ctx& c) {
    CheckOptions opt;
    enumerate_family<DescDiscP0, Shape::Hypercube<1>>(c, opt);
    enumerate_family<DescDiscP1, Shape::Hypercube<1>>(c, opt);
    enumerate_family<DescBernstein2, Shape::Hypercube<1>>(c, opt);
    enumerate_family<DescDiscP0, Shape::Simplex<2>>(c, opt);
    enumerate_family<DescDiscP1, Shape::Simplex<2>>(c, opt);
    enumerate_family<DescCroRavRanTur, Shape::Simplex<2>>(c, opt);
    enumerate_family<DescP2Bubble, Shape::Simplex<2>>(c, opt);
    enumerate_family<DescDiscP0, Shape::Hypercube<2>>(c, opt);
    enumerate_family<DescDiscP1, Shape::Hypercube<2>>(c, opt);
    enumerate_family<DescCroRavRanTur, Shape::Hypercube<2>>(c, opt);
    enumerate_family<DescBernstein2, Shape::Hypercube<2>>(c, opt);
    enumerate_family<DescCaiDou, Shape::Hypercube<2>>(c, opt);
    enumerate_family<DescQ1TBNP, Shape::Hypercube<2>>(c, opt);
    enumerate_family<DescDiscP0, Shape::Simplex<3>>(c, opt);
    enumerate_family<DescDiscP1, Shape::Simplex<3>>(c, opt);
    enumerate_family<DescCroRavRanTur, Shape::Simplex<3>>(c, opt);
    enumerate_family<DescDiscP0, Shape::Hypercube<3>>(c, opt);
    enumerate_family<DescDiscP1, Shape::Hypercube<3>>(c, opt);
    enumerate_family<DescCroRavRanTur, Shape::Hypercube<3>>(c, opt);
    enumerate_family<DescBernstein2, Shape::Hypercube<3>>(c, opt);
    enumerate_family<DescQ1TBNP, Shape::Hypercube<3>>(c, opt);
  });
}
