// C15 (part a): Lagrange-1/2/3 on every shape they support (line, tria, quad, tetra, hexa).
// See c15_core.hpp for the checks and c15_mesh.hpp for the enumerated tiny meshes.
#include <c15_desc.hpp>

#include <kernel/runtime.hpp>
#include <kernel/space/lagrange1/element.hpp>
#include <kernel/space/lagrange2/element.hpp>
#include <kernel/space/lagrange3/element.hpp>

using namespace FEAT;
using namespace c15;

struct DescLagrange1 : DescLagrangeBase<1>
{
  static const char* name() { return "lagrange1"; }
  template<typename Trafo_> using Space = FEAT::Space::Lagrange1::Element<Trafo_>;
  template<typename Shape_> static int dofs_per_entity(int d) { return d == 0 ? 1 : 0; }
};

struct DescLagrange2 : DescLagrangeBase<2>
{
  static const char* name() { return "lagrange2"; }
  template<typename Trafo_> using Space = FEAT::Space::Lagrange2::Element<Trafo_>;
  template<typename Shape_> static constexpr bool has_hess() { return true; }
  template<typename Shape_> static int dofs_per_entity(int d)
  {
    if(ShapeInfo<Shape_>::is_simplex) return d <= 1 ? 1 : 0;
    return 1;
  }
};

struct DescLagrange3 : DescLagrangeBase<3>
{
  static const char* name() { return "lagrange3"; }
  template<typename Trafo_> using Space = FEAT::Space::Lagrange3::Element<Trafo_>;
  // the tetrahedral evaluator has no Hessians
  template<typename Shape_> static constexpr bool has_hess() { return !(ShapeInfo<Shape_>::is_simplex && Shape_::dimension == 3); }
  template<typename Shape_> static int dofs_per_entity(int d)
  {
    if(ShapeInfo<Shape_>::is_simplex) { static const int t[4] = {1, 2, 1, 0}; return t[d]; }
    static const int t[4] = {1, 2, 4, 8};
    return t[d];
  }
};

int main(int argc, char** argv)
{
  Runtime::ScopeGuard guard(argc, argv);
  verif::Spec spec;
  spec.property = "C15";
  spec.harness = "c15_space_a";
  spec.rule = "cases = (Lagrange-k family, shape, tiny mesh); tiny meshes: 1-cell meshes in every local numbering (cell symmetry group) x geometry "
    "(reference, affine, mirrored, non-affine multilinear) x explicit edge/face orientation pattern (none, all edges reversed, every face code, "
    "single entities), and 2-cell meshes glued along a facet with pairs of local numberings x geometry x orientation pattern; per case: DOF counts, "
    "derivative consistency by 4th order difference quotients at the full lattice, node-functional duality, interpolation reproduction of a spanning "
    "polynomial set incl. gradients/Hessians, two-sided continuity on the shared facet. Non-trivial = anything but the reference cell in canonical "
    "numbering without twist; hashed by (family, vertex coordinates, all index sets).";
  spec.max_fail_per_worker = 1000000; // known findings fire in every case of the affected family
  spec.bounds_quick = "line/tria/quad: 1-cell all numberings x all geometries x single-entity twists, 2-cell ALL pairs of numberings (line 4, tria 36, quad 64) x "
    "{ref,affine,mirror | ref,affine,nonaffine,affine*nonaffine} x single-entity twists; tetra/hexa: 1-cell numberings {0,last} x {ref,affine(,nonaffine)} (single-entity "
    "twists on the last geometry), 2-cell star pairs (g,0),(0,g) x every global orientation pattern and diagonal pairs (g,g),(g,7g+3), geometries affine (+nonaffine), P_k test functions";
  spec.bounds_thorough = "tetra/hexa additionally: 1-cell all numberings x all 3 resp. 5 geometries (single-entity twists for numbering 0), 2-cell ALL pairs of numberings "
    "(tetra 576 x {ref,affine,mirror}, hexa 2304 x {affine,nonaffine}) with entity orientations as seen from cell A + star pairs x every global orientation pattern, Q_k test functions";
  spec.assumptions = {
    "reference cell conventions (vertex coordinates, FaceIndexMapping tables) are definitions, taken from FEAT",
    "harness oracles: long double sparse polynomials, Newton inverse of the multilinear map, DOF-per-entity tables",
    "continuous quantifier: exact for polynomial bases on affine cells by the lattice argument (degree+2 points per direction); small-scope sample on non-affine cells",
    "2-cell hexa/tetra pairs of numberings are only complete in the thorough tier"};
  return verif::run(spec, argc, argv, [&](verif::Ctx& c) {
    CheckOptions opt;
    enumerate_family<DescLagrange1, Shape::Hypercube<1>>(c, opt);
    enumerate_family<DescLagrange2, Shape::Hypercube<1>>(c, opt);
    enumerate_family<DescLagrange3, Shape::Hypercube<1>>(c, opt);
    enumerate_family<DescLagrange1, Shape::Simplex<2>>(c, opt);
    enumerate_family<DescLagrange2, Shape::Simplex<2>>(c, opt);
    enumerate_family<DescLagrange3, Shape::Simplex<2>>(c, opt);
    enumerate_family<DescLagrange1, Shape::Hypercube<2>>(c, opt);
    enumerate_family<DescLagrange2, Shape::Hypercube<2>>(c, opt);
    enumerate_family<DescLagrange3, Shape::Hypercube<2>>(c, opt);
    enumerate_family<DescLagrange1, Shape::Simplex<3>>(c, opt);
    enumerate_family<DescLagrange2, Shape::Simplex<3>>(c, opt);
    enumerate_family<DescLagrange3, Shape::Simplex<3>>(c, opt);
    enumerate_family<DescLagrange1, Shape::Hypercube<3>>(c, opt);
    enumerate_family<DescLagrange2, Shape::Hypercube<3>>(c, opt);
    enumerate_family<DescLagrange3, Shape::Hypercube<3>>(c, opt);
  });
}
