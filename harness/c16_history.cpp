// C16 assembly entry points on already structured / filled objects, tria/quad; see c16_history_impl.hpp.
#include <c16_history_impl.hpp>
int main(int argc, char** argv) { return c16h::history_main<false>(argc, argv, "c16_history"); }
