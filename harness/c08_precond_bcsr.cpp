// C08, square-blocked matrices (SparseMatrixBCSR<2>, <3>): Jacobi, SOR, SSOR, ILU(p) against the block textbook
// operators and all legal life-cycle histories with in-place value updates. Body in c08_precond.hpp.
#include <c08_precond.hpp>
int main(int argc, char** argv)
{
  FEAT::Runtime::ScopeGuard guard(argc, argv);
  verif::Spec spec; c08::fill_spec(spec, "c08_precond_bcsr", "BCSR<2>/BCSR<3> matrix, block");
  spec.bounds_quick = "block sizes 2 and 3; n 1..3 block rows with all off-diagonal block patterns (1,4,64), block size 2 also n=4 (special patterns + every 31st of 4096); "
    "diagonal blocks = unit-lower x upper with +-2^k diagonal (2 variants + all-negative), off-diagonal blocks position coded; Jacobi/SOR/SSOR omega {1,1/2,3/2}, ILU p {0,1,2,n}; "
    "filters None, Unit{0},{n-1},{1},{0,n-1}; life-cycle depth 14 with set_omega (all patterns n<=3, every 8th pattern of n=4; fixpoint reached)";
  spec.bounds_thorough = "block size 2: n=4 with all 4096 patterns; block size 3: n=4 with special patterns + every 7th; life-cycle depth 16 for all patterns";
  return verif::run(spec, argc, argv, [&](verif::Ctx& c) { c08::enumerate<2>(c, 4, 4, [](int n, bool th) -> unsigned { return (n >= 4 && !th) ? 31u : 1u; }); c08::enumerate<3>(c, 3, 4, [](int n, bool) -> unsigned { return n >= 4 ? 7u : 1u; }); });
}
