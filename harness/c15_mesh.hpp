// c15_mesh.hpp -- harness-owned tiny-mesh generators for C15/C16: 1-cell and 2-cell meshes of every shape in every
// local numbering (cell symmetry group), with explicitly specified edge/face orientations ("twists"), affine and
// non-affine geometries on dyadic coordinates; plus the harness-side geometry of a cell (multilinear/affine map as
// polynomials, Newton inverse in long double, independent volume formulas).
#pragma once
#include <c15_poly.hpp>

#include <kernel/geometry/conformal_mesh.hpp>
#include <kernel/geometry/index_calculator.hpp>
#include <kernel/geometry/intern/face_index_mapping.hpp>
#include <kernel/shape.hpp>

#include <algorithm>
#include <array>
#include <functional>
#include <set>
#include <string>
#include <vector>

namespace c15
{
  using FEAT::Index;
  namespace Shape = FEAT::Shape;
  namespace Geometry = FEAT::Geometry;

  // ------------------------------------------------------------------------------------------------------------------
  // shape information (conventions of the FEAT reference cells: these are definitions, not code under test)
  // ------------------------------------------------------------------------------------------------------------------
  template<typename Shape_> struct ShapeInfo;

  template<int D_>
  struct ShapeInfo<Shape::Hypercube<D_>>
  {
    static constexpr int D = D_;
    static constexpr int NV = 1 << D_;
    static constexpr bool is_simplex = false;
    static const char* name() { return D_ == 1 ? "line" : D_ == 2 ? "quad" : "hexa"; }
    /// reference coordinate j of local vertex i
    static LD ref_coord(int i, int j) { return LD((((i >> j) & 1) << 1) - 1); }
    /// symmetry group: signed axis permutations; element g = perm index * 2^D + flip mask
    static int num_sym() { int f = 1; for(int i = 2; i <= D_; ++i) f *= i; return f * (1 << D_); }
    static int sym(int g, int i)
    {
      int flips = g & ((1 << D_) - 1);
      int pidx = g >> D_;
      int perm[3] = {0, 1, 2};
      // pidx-th permutation of D_ axes (lexicographic)
      {
        int p[3] = {0, 1, 2};
        for(int n = 0; n < pidx; ++n) std::next_permutation(p, p + D_);
        for(int k = 0; k < D_; ++k) perm[k] = p[k];
      }
      int r = 0;
      for(int j = 0; j < D_; ++j)
      {
        int b = ((i >> perm[j]) & 1) ^ ((flips >> j) & 1);
        r |= (b << j);
      }
      return r;
    }
  };

  template<int D_>
  struct ShapeInfo<Shape::Simplex<D_>>
  {
    static constexpr int D = D_;
    static constexpr int NV = D_ + 1;
    static constexpr bool is_simplex = true;
    static const char* name() { return D_ == 1 ? "sline" : D_ == 2 ? "tria" : "tetra"; }
    static LD ref_coord(int i, int j) { return LD(j + 1 == i ? 1 : 0); }
    static int num_sym() { int f = 1; for(int i = 2; i <= D_ + 1; ++i) f *= i; return f; }
    static int sym(int g, int i)
    {
      int p[4] = {0, 1, 2, 3};
      for(int n = 0; n < g; ++n) std::next_permutation(p, p + D_ + 1);
      return p[i];
    }
  };

  /// local vertex indices of local sub-entity `f` of dimension `fd` of a cell of the given shape
  template<typename Shape_>
  std::vector<int> local_face_vertices(int fd, int f)
  {
    constexpr int D = Shape_::dimension;
    std::vector<int> r;
    if(fd == D) { for(int i = 0; i < ShapeInfo<Shape_>::NV; ++i) r.push_back(i); return r; }
    if(fd == 0) { r.push_back(f); return r; }
    if constexpr(D >= 2)
    {
      if(fd == 1) { for(int k = 0; k < 2; ++k) r.push_back(Geometry::Intern::FaceIndexMapping<Shape_, 1, 0>::map(f, k)); return r; }
    }
    if constexpr(D >= 3)
    {
      if(fd == 2)
      {
        constexpr int nfv = Shape::FaceTraits<typename Shape::FaceTraits<Shape_, 2>::ShapeType, 0>::count;
        for(int k = 0; k < nfv; ++k) r.push_back(Geometry::Intern::FaceIndexMapping<Shape_, 2, 0>::map(f, k));
        return r;
      }
    }
    return r;
  }

  template<typename Shape_>
  int num_local_faces(int fd)
  {
    constexpr int D = Shape_::dimension;
    if(fd == D) return 1;
    if(fd == 0) return ShapeInfo<Shape_>::NV;
    if constexpr(D >= 2) { if(fd == 1) return Shape::FaceTraits<Shape_, 1>::count; }
    if constexpr(D >= 3) { if(fd == 2) return Shape::FaceTraits<Shape_, 2>::count; }
    return 0;
  }

  /// the re-numberings of a 2-dimensional face that keep it a valid face: S3 for triangles, D4 for quads
  inline std::vector<std::vector<int>> face_twists(bool simplex)
  {
    std::vector<std::vector<int>> r;
    if(simplex)
    {
      int p[3] = {0, 1, 2};
      do { r.push_back({p[0], p[1], p[2]}); } while(std::next_permutation(p, p + 3));
    }
    else
    {
      // closure of rotation and reflection in FEAT's quad numbering (edges 01,23,02,13)
      std::set<std::vector<int>> seen;
      std::vector<std::vector<int>> todo;
      todo.push_back({0, 1, 2, 3});
      while(!todo.empty())
      {
        std::vector<int> q = todo.back(); todo.pop_back();
        if(!seen.insert(q).second) continue;
        todo.push_back({q[2], q[0], q[3], q[1]}); // rotation
        todo.push_back({q[1], q[0], q[3], q[2]}); // reflection
      }
      r.assign(seen.begin(), seen.end()); // sorted => identity first
    }
    return r;
  }

  // ------------------------------------------------------------------------------------------------------------------
  // mesh description
  // ------------------------------------------------------------------------------------------------------------------
  struct Twist
  {
    // edges: 0 none, 1 all reversed, 2 edge `edge_idx` reversed
    int edge_mode = 0, edge_idx = 0;
    // faces (3D): 0 none, 1 all faces get code face_code, 2 face `face_idx` gets code face_code
    int face_mode = 0, face_idx = 0, face_code = 0;
    std::string str() const
    {
      return "e" + std::to_string(edge_mode) + (edge_mode == 2 ? ":" + std::to_string(edge_idx) : std::string())
        + "f" + std::to_string(face_mode) + (face_mode == 2 ? ":" + std::to_string(face_idx) : std::string())
        + (face_mode ? "c" + std::to_string(face_code) : std::string());
    }
  };

  template<typename Shape_>
  struct MeshData
  {
    static constexpr int D = Shape_::dimension;
    static constexpr int NV = ShapeInfo<Shape_>::NV;
    std::vector<std::array<double, D>> vtx;
    std::vector<std::array<Index, NV>> cells;
    std::vector<std::array<Index, 2>> edges;           // only D >= 2
    std::vector<std::vector<Index>> faces;             // only D == 3
    std::string desc;

    Index num_entities(int d) const
    {
      if(d == 0) return Index(vtx.size());
      if(d == D) return Index(cells.size());
      if(d == 1) return Index(edges.size());
      if(d == 2) return Index(faces.size());
      return 0;
    }

    /// vertex list of entity e of dimension d
    std::vector<Index> entity_vertices(int d, Index e) const
    {
      std::vector<Index> r;
      if(d == 0) r.push_back(e);
      else if(d == D) r.assign(cells[e].begin(), cells[e].end());
      else if(d == 1) r.assign(edges[e].begin(), edges[e].end());
      else r = faces[e];
      return r;
    }

    /// build edge/face lists from the cells, orientation as seen from the first cell, then apply the twist
    void build_entities(const Twist& tw)
    {
      edges.clear(); faces.clear();
      if constexpr(D >= 2)
      {
        std::set<std::set<Index>> seen;
        for(auto& c : cells)
          for(int f = 0; f < num_local_faces<Shape_>(1); ++f)
          {
            auto lv = local_face_vertices<Shape_>(1, f);
            std::array<Index, 2> e{{c[(size_t)lv[0]], c[(size_t)lv[1]]}};
            if(seen.insert(std::set<Index>{e[0], e[1]}).second) edges.push_back(e);
          }
        for(size_t i = 0; i < edges.size(); ++i)
          if(tw.edge_mode == 1 || (tw.edge_mode == 2 && size_t(tw.edge_idx) == i)) std::swap(edges[i][0], edges[i][1]);
      }
      if constexpr(D >= 3)
      {
        std::set<std::set<Index>> seen;
        for(auto& c : cells)
          for(int f = 0; f < num_local_faces<Shape_>(2); ++f)
          {
            auto lv = local_face_vertices<Shape_>(2, f);
            std::vector<Index> fv; std::set<Index> key;
            for(int k : lv) { fv.push_back(c[(size_t)k]); key.insert(c[(size_t)k]); }
            if(seen.insert(key).second) faces.push_back(fv);
          }
        auto tws = face_twists(ShapeInfo<Shape_>::is_simplex);
        for(size_t i = 0; i < faces.size(); ++i)
          if(tw.face_mode == 1 || (tw.face_mode == 2 && size_t(tw.face_idx) == i))
          {
            const auto& p = tws[(size_t)tw.face_code % tws.size()];
            std::vector<Index> o = faces[i];
            for(size_t k = 0; k < o.size(); ++k) faces[i][k] = o[(size_t)p[k]];
          }
      }
    }

    uint64_t hash() const
    {
      uint64_t h = 1469598103934665603ull;
      auto mix = [&](const void* p, size_t n) { const unsigned char* c = (const unsigned char*)p; for(size_t i = 0; i < n; ++i) { h ^= c[i]; h *= 1099511628211ull; } };
      for(auto& v : vtx) mix(v.data(), sizeof(double) * D);
      for(auto& c : cells) mix(c.data(), sizeof(Index) * NV);
      for(auto& e : edges) mix(e.data(), sizeof(Index) * 2);
      for(auto& f : faces) mix(f.data(), sizeof(Index) * f.size());
      return h;
    }
  };

  /// FEAT factory fed from a MeshData
  template<typename Shape_>
  class DataFactory : public Geometry::Factory<Geometry::ConformalMesh<Shape_, Shape_::dimension, double>>
  {
  public:
    typedef Geometry::ConformalMesh<Shape_, Shape_::dimension, double> MeshType;
    typedef typename MeshType::VertexSetType VertexSetType;
    typedef typename MeshType::IndexSetHolderType IndexSetHolderType;
    static constexpr int D = Shape_::dimension;
    const MeshData<Shape_>& md;
    explicit DataFactory(const MeshData<Shape_>& m) : md(m) {}
    virtual Index get_num_entities(int dim) override { return md.num_entities(dim); }
    virtual void fill_vertex_set(VertexSetType& vs) override
    {
      for(Index i = 0; i < Index(md.vtx.size()); ++i) for(int j = 0; j < D; ++j) vs[i][j] = md.vtx[i][(size_t)j];
    }
    virtual void fill_index_sets(IndexSetHolderType& ish) override
    {
      auto& vc = ish.template get_index_set<D, 0>();
      for(Index i = 0; i < Index(md.cells.size()); ++i) for(int j = 0; j < MeshData<Shape_>::NV; ++j) vc[i][j] = md.cells[i][(size_t)j];
      if constexpr(D >= 2)
      {
        auto& ve = ish.template get_index_set<1, 0>();
        for(Index i = 0; i < Index(md.edges.size()); ++i) for(int j = 0; j < 2; ++j) ve[i][j] = md.edges[i][(size_t)j];
      }
      if constexpr(D >= 3)
      {
        auto& vf = ish.template get_index_set<2, 0>();
        for(Index i = 0; i < Index(md.faces.size()); ++i) for(size_t j = 0; j < md.faces[i].size(); ++j) vf[i][int(j)] = md.faces[i][j];
      }
      if constexpr(D >= 2)
        Geometry::RedundantIndexSetBuilder<Shape_>::compute(ish);
    }
  };

  // ------------------------------------------------------------------------------------------------------------------
  // generators
  // ------------------------------------------------------------------------------------------------------------------
  /// geometry map applied to base coordinates; kinds: 0 identity, 1 affine, 2 affine mirrored (det<0),
  /// 3 non-affine vertex perturbation (hypercubes only), 4 = 1 after 3, 5 = 4 scaled by 64 and shifted by ~1e3
  template<int D>
  std::array<double, D> geo_map(int kind, const std::array<double, D>& v, Index idx)
  {
    static const double A1[3][3] = {{1.0, 0.5, 0.0}, {-0.25, 0.75, 0.25}, {0.25, 0.0, 1.25}};
    static const double A2[3][3] = {{0.5, 1.0, 0.25}, {1.0, -0.25, 0.0}, {0.0, 0.5, 1.5}};
    static const double b1[3] = {0.5, -0.25, 0.125};
    std::array<double, D> w = v;
    if(kind == 3 || kind == 4)
    {
      for(int j = 0; j < D; ++j)
        w[(size_t)j] += double(int((idx * Index(j + 2) + Index(3 * j + 1)) % 5u) - 2) / 16.0;
    }
    if(kind == 5)
    {
      // far away and large: exercises absolute tolerances
      static const double off[3] = {1000.0, -2000.0, 500.0};
      std::array<double, D> r = geo_map<D>(4, v, idx);
      for(int i = 0; i < D; ++i) r[(size_t)i] = 64.0 * r[(size_t)i] + off[i];
      return r;
    }
    if(kind == 1 || kind == 2 || kind == 4)
    {
      const double (*A)[3] = (kind == 2 ? A2 : A1);
      std::array<double, D> r;
      for(int i = 0; i < D; ++i)
      {
        double s = b1[i];
        for(int j = 0; j < D; ++j) s += A[i][j] * w[(size_t)j];
        r[(size_t)i] = s;
      }
      // D == 1: keep it a simple scaling/shift (A1[0][0]==1 would be trivial)
      if(D == 1) r[0] = (kind == 2 ? -0.75 : 1.5) * w[0] + 0.25;
      w = r;
    }
    return w;
  }

  inline bool geo_is_affine(int kind) { return kind <= 2; }
  inline const char* geo_name(int kind) { static const char* n[] = {"ref", "affine", "mirror", "nonaffine", "affine*nonaffine", "far+large"}; return n[kind]; }

  /// 1-cell mesh: the reference cell (FEAT coordinates), local numbering g, geometry kind, twist
  template<typename Shape_>
  MeshData<Shape_> make_one_cell(int g, int geo, const Twist& tw)
  {
    typedef ShapeInfo<Shape_> SI;
    constexpr int D = SI::D;
    MeshData<Shape_> md;
    for(int i = 0; i < SI::NV; ++i)
    {
      std::array<double, D> v;
      for(int j = 0; j < D; ++j) v[(size_t)j] = double(SI::ref_coord(i, j));
      md.vtx.push_back(geo_map<D>(geo, v, Index(i)));
    }
    std::array<Index, SI::NV> c;
    for(int i = 0; i < SI::NV; ++i) c[(size_t)i] = Index(SI::sym(g, i));
    md.cells.push_back(c);
    md.build_entities(tw);
    md.desc = std::string(SI::name()) + " 1cell g=" + std::to_string(g) + " geo=" + geo_name(geo) + " tw=" + tw.str();
    return md;
  }

  /// 2-cell mesh: cells A and B glued along one facet, local numberings gA, gB
  template<typename Shape_>
  MeshData<Shape_> make_two_cell(int gA, int gB, int geo, const Twist& tw)
  {
    typedef ShapeInfo<Shape_> SI;
    constexpr int D = SI::D;
    MeshData<Shape_> md;
    std::array<Index, SI::NV> a, b;
    if constexpr(!SI::is_simplex)
    {
      // vertices on the grid {0,1,2} x {0,1}^(D-1)
      int nv = 3 * (1 << (D - 1));
      for(int idx = 0; idx < nv; ++idx)
      {
        std::array<double, D> v;
        int t = idx;
        v[0] = double(t % 3); t /= 3;
        for(int j = 1; j < D; ++j) { v[(size_t)j] = double(t & 1); t >>= 1; }
        md.vtx.push_back(geo_map<D>(geo, v, Index(idx)));
      }
      for(int i = 0; i < SI::NV; ++i)
      {
        int x = i & 1, rest = i >> 1;
        a[(size_t)i] = Index(x + 3 * rest);
        b[(size_t)i] = Index(x + 1 + 3 * rest);
      }
    }
    else
    {
      // vertices: 0, e_1..e_D, and (1,..,1); A = (0,e_1..e_D), B = (e_1..e_D, (1..1))
      for(int i = 0; i <= D + 1; ++i)
      {
        std::array<double, D> v;
        for(int j = 0; j < D; ++j) v[(size_t)j] = (i == D + 1) ? 1.0 : double(j + 1 == i ? 1 : 0);
        if(D == 1 && i == 2) v[0] = 2.0;
        md.vtx.push_back(geo_map<D>(geo, v, Index(i)));
      }
      for(int i = 0; i < SI::NV; ++i) { a[(size_t)i] = Index(i); b[(size_t)i] = Index(i + 1); }
    }
    std::array<Index, SI::NV> ca, cb;
    for(int i = 0; i < SI::NV; ++i) { ca[(size_t)i] = a[(size_t)SI::sym(gA, i)]; cb[(size_t)i] = b[(size_t)SI::sym(gB, i)]; }
    md.cells.push_back(ca);
    md.cells.push_back(cb);
    md.build_entities(tw);
    md.desc = std::string(SI::name()) + " 2cell gA=" + std::to_string(gA) + " gB=" + std::to_string(gB) + " geo=" + geo_name(geo) + " tw=" + tw.str();
    return md;
  }

  /// the list of twists for a mesh with ne edges and nf faces; level 0: none only; 1: global patterns; 2: + single-entity patterns
  inline std::vector<Twist> twist_list(int D, bool simplex, int ne, int nf, int level)
  {
    std::vector<Twist> r;
    r.push_back(Twist());
    if(level <= 0 || D < 2) return r;
    { Twist t; t.edge_mode = 1; r.push_back(t); }
    int ncode = simplex ? 6 : 8;
    if(D >= 3) for(int c = 1; c < ncode; ++c) { Twist t; t.face_mode = 1; t.face_code = c; r.push_back(t); }
    if(D >= 3) { Twist t; t.edge_mode = 1; t.face_mode = 1; t.face_code = ncode - 1; r.push_back(t); }
    if(level >= 2)
    {
      for(int e = 0; e < ne; ++e) { Twist t; t.edge_mode = 2; t.edge_idx = e; r.push_back(t); }
      if(D >= 3) for(int f = 0; f < nf; ++f) for(int c = 1; c < ncode; ++c) { Twist t; t.face_mode = 2; t.face_idx = f; t.face_code = c; r.push_back(t); }
    }
    return r;
  }

  // ------------------------------------------------------------------------------------------------------------------
  // harness-side geometry of one cell
  // ------------------------------------------------------------------------------------------------------------------
  template<typename Shape_>
  struct CellGeom
  {
    typedef ShapeInfo<Shape_> SI;
    static constexpr int D = SI::D;
    std::array<std::array<LD, D>, SI::NV> xv;         // vertex coordinates in local order
    std::array<Poly<D>, D> F;                         // the map, component-wise, as polynomials in xi
    std::array<std::array<Poly<D>, D>, D> dF;         // dF[i][j] = d F_i / d xi_j
    Poly<D> det;                                      // Jacobian determinant polynomial
    bool affine = true;

    CellGeom() {}
    CellGeom(const MeshData<Shape_>& md, Index cell)
    {
      for(int i = 0; i < SI::NV; ++i) for(int j = 0; j < D; ++j) xv[(size_t)i][(size_t)j] = LD(md.vtx[md.cells[cell][(size_t)i]][(size_t)j]);
      init();
    }

    /// from explicit vertex coordinates in local order
    explicit CellGeom(const std::array<std::array<LD, D>, SI::NV>& x) : xv(x) { init(); }

    void init()
    {
      for(int c = 0; c < D; ++c)
      {
        Poly<D> p;
        if constexpr(SI::is_simplex)
        {
          p = Poly<D>(xv[0][(size_t)c]);
          for(int j = 0; j < D; ++j) p += Poly<D>::var(j) * (xv[(size_t)(j + 1)][(size_t)c] - xv[0][(size_t)c]);
        }
        else
        {
          for(int v = 0; v < SI::NV; ++v)
          {
            Poly<D> s(xv[(size_t)v][(size_t)c]);
            for(int j = 0; j < D; ++j)
            {
              Poly<D> f = Poly<D>(LD(0.5)) + Poly<D>::var(j) * (SI::ref_coord(v, j) * LD(0.5));
              s = s * f;
            }
            p += s;
          }
        }
        F[(size_t)c] = p;
      }
      affine = true;
      for(int i = 0; i < D; ++i)
      {
        if(F[(size_t)i].degree() > 1) affine = false;
        for(int j = 0; j < D; ++j) dF[(size_t)i][(size_t)j] = F[(size_t)i].diff(j);
      }
      if constexpr(D == 1) det = dF[0][0];
      if constexpr(D == 2) det = dF[0][0] * dF[1][1] - dF[0][1] * dF[1][0];
      if constexpr(D == 3)
        det = dF[0][0] * (dF[1][1] * dF[2][2] - dF[1][2] * dF[2][1])
            - dF[0][1] * (dF[1][0] * dF[2][2] - dF[1][2] * dF[2][0])
            + dF[0][2] * (dF[1][0] * dF[2][1] - dF[1][1] * dF[2][0]);
    }

    std::array<LD, D> map(const std::array<LD, D>& xi) const
    {
      std::array<LD, D> x;
      for(int i = 0; i < D; ++i) x[(size_t)i] = F[(size_t)i].eval(xi);
      return x;
    }

    void jac(const std::array<LD, D>& xi, LD J[D][D]) const
    {
      for(int i = 0; i < D; ++i) for(int j = 0; j < D; ++j) J[i][j] = dF[(size_t)i][(size_t)j].eval(xi);
    }

    static bool invert(const LD J[D][D], LD R[D][D])
    {
      std::vector<LD> A((size_t)(D * D)), b((size_t)(D * D), LD(0));
      for(int i = 0; i < D; ++i) for(int j = 0; j < D; ++j) { A[(size_t)(i * D + j)] = J[i][j]; b[(size_t)(i * D + j)] = (i == j ? LD(1) : LD(0)); }
      if(!solve_dense(A, b, D, D)) return false;
      for(int i = 0; i < D; ++i) for(int j = 0; j < D; ++j) R[i][j] = b[(size_t)(i * D + j)];
      return true;
    }

    /// harness inverse map by Newton from the cell centre; returns false if it did not converge
    bool unmap(const std::array<LD, D>& x, std::array<LD, D>& xi) const
    {
      for(int j = 0; j < D; ++j) xi[(size_t)j] = SI::is_simplex ? LD(1) / LD(D + 1) : LD(0);
      for(int it = 0; it < 60; ++it)
      {
        std::array<LD, D> fx = map(xi);
        LD J[D][D], R[D][D];
        jac(xi, J);
        if(!invert(J, R)) return false;
        LD n2 = 0, upd = 0;
        std::array<LD, D> d;
        for(int i = 0; i < D; ++i) { d[(size_t)i] = fx[(size_t)i] - x[(size_t)i]; n2 += d[(size_t)i] * d[(size_t)i]; }
        for(int i = 0; i < D; ++i)
        {
          LD s = 0;
          for(int j = 0; j < D; ++j) s += R[i][j] * d[(size_t)j];
          xi[(size_t)i] -= s; upd += s * s;
        }
        if(upd < LD(1e-34) && n2 < LD(1e-30)) return true;
      }
      return false;
    }

    bool on_ref(const std::array<LD, D>& xi, LD tol) const
    {
      if constexpr(SI::is_simplex)
      {
        LD s = 0;
        for(int j = 0; j < D; ++j) { if(xi[(size_t)j] < -tol) return false; s += xi[(size_t)j]; }
        return s <= LD(1) + tol;
      }
      else
      {
        for(int j = 0; j < D; ++j) if(std::fabs(xi[(size_t)j]) > LD(1) + tol) return false;
        return true;
      }
    }

    /// integral over the cell of a polynomial given in real coordinates (exact up to long double rounding)
    LD integrate(const Poly<D>& p_real) const
    {
      Poly<D> q = p_real.template compose<D>(F) * det;
      LD v = SI::is_simplex ? integrate_ref_simplex<D>(q) : integrate_ref_cube<D>(q);
      // |det| convention: for negatively oriented cells det is negative everywhere
      std::array<LD, D> ctr; for(int j = 0; j < D; ++j) ctr[(size_t)j] = SI::is_simplex ? LD(1) / LD(D + 1) : LD(0);
      return det.eval(ctr) < 0 ? -v : v;
    }

    /// volume by a formula that does not use the Jacobian polynomial: shoelace (2D), signed tetrahedra fan (3D)
    LD volume_independent() const
    {
      if constexpr(D == 1) return std::fabs(xv[1][0] - xv[0][0]);
      if constexpr(D == 2)
      {
        // polygon vertex cycle
        std::vector<int> cyc;
        if constexpr(SI::is_simplex) cyc = {0, 1, 2}; else cyc = {0, 1, 3, 2};
        LD a = 0;
        for(size_t k = 0; k < cyc.size(); ++k)
        {
          auto& p = xv[(size_t)cyc[k]]; auto& q = xv[(size_t)cyc[(k + 1) % cyc.size()]];
          a += p[0] * q[1] - q[0] * p[1];
        }
        return std::fabs(a) / 2;
      }
      if constexpr(D == 3)
      {
        auto det3 = [](const std::array<LD, 3>& a, const std::array<LD, 3>& b, const std::array<LD, 3>& c)
        { return a[0] * (b[1] * c[2] - b[2] * c[1]) - a[1] * (b[0] * c[2] - b[2] * c[0]) + a[2] * (b[0] * c[1] - b[1] * c[0]); };
        auto sub = [](const std::array<LD, 3>& a, const std::array<LD, 3>& b) { return std::array<LD, 3>{{a[0] - b[0], a[1] - b[1], a[2] - b[2]}}; };
        if constexpr(SI::is_simplex)
          return std::fabs(det3(sub(xv[1], xv[0]), sub(xv[2], xv[0]), sub(xv[3], xv[0]))) / 6;
        else
        {
          // divergence theorem with bilinear faces: V = 1/3 sum_faces int x . (x_u cross x_v); the integrand of a
          // bilinear patch integrates exactly to the average over the "corner" triple products, evaluated here with
          // the closed form V_face = 1/12 * sum over the 4 corner-pairs ... we use exact 2x2 Gauss instead (the
          // integrand x.(x_u x x_v) of a bilinear patch has degree <= 2 per variable... (degree 3 total) -> 2-point
          // Gauss per direction is exact).
          static const int fv[6][4] = {{0, 1, 2, 3}, {4, 5, 6, 7}, {0, 1, 4, 5}, {2, 3, 6, 7}, {0, 2, 4, 6}, {1, 3, 5, 7}};
          // outward orientation signs for the reference numbering (z-,z+,y-,y+,x-,x+)
          static const int sg[6] = {-1, +1, +1, -1, -1, +1};
          const LD g = std::sqrt(LD(1) / LD(3));
          LD vol = 0;
          for(int f = 0; f < 6; ++f)
          {
            for(int a = 0; a < 2; ++a) for(int b = 0; b < 2; ++b)
            {
              LD u = (a ? g : -g), v = (b ? g : -g);
              LD N[4] = {(1 - u) * (1 - v) / 4, (1 + u) * (1 - v) / 4, (1 - u) * (1 + v) / 4, (1 + u) * (1 + v) / 4};
              LD Nu[4] = {-(1 - v) / 4, (1 - v) / 4, -(1 + v) / 4, (1 + v) / 4};
              LD Nv[4] = {-(1 - u) / 4, -(1 + u) / 4, (1 - u) / 4, (1 + u) / 4};
              std::array<LD, 3> x{{0, 0, 0}}, xu{{0, 0, 0}}, xw{{0, 0, 0}};
              for(int k = 0; k < 4; ++k) for(int c = 0; c < 3; ++c)
              {
                x[(size_t)c] += N[k] * xv[(size_t)fv[f][k]][(size_t)c];
                xu[(size_t)c] += Nu[k] * xv[(size_t)fv[f][k]][(size_t)c];
                xw[(size_t)c] += Nv[k] * xv[(size_t)fv[f][k]][(size_t)c];
              }
              vol += LD(sg[f]) * det3(x, xu, xw);
            }
          }
          return std::fabs(vol) / 3;
        }
      }
      return 0;
    }
  };

  /// real-coordinate lattice/reference lattice points: n points per direction
  template<typename Shape_>
  std::vector<std::array<LD, Shape_::dimension>> ref_lattice(int n)
  {
    constexpr int D = Shape_::dimension;
    std::vector<std::array<LD, D>> r;
    int tot = 1; for(int i = 0; i < D; ++i) tot *= n;
    for(int idx = 0; idx < tot; ++idx)
    {
      int t = idx, sum = 0; int k[3] = {0, 0, 0};
      for(int j = 0; j < D; ++j) { k[j] = t % n; t /= n; sum += k[j]; }
      std::array<LD, D> p;
      if constexpr(ShapeInfo<Shape_>::is_simplex)
      {
        if(sum > n - 1) continue;
        for(int j = 0; j < D; ++j) p[(size_t)j] = LD(k[j]) / LD(n - 1);
      }
      else
      {
        for(int j = 0; j < D; ++j) p[(size_t)j] = LD(-1) + LD(2 * k[j]) / LD(n - 1);
      }
      r.push_back(p);
    }
    return r;
  }
} // namespace c15
