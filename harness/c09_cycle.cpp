// C09 (parts 1+2 of DESIGN.md 3/C09): the multigrid cycle automaton and the linear map of one application.
//
// Real code under test: Solver::MultiGridHierarchy / Solver::MultiGrid (kernel/solver/multigrid.hpp), instantiated with
// the real LAFEM::SparseMatrixCSR as system matrix and harness-owned *logging* filter / transfer / sub-solver types
// (the solver tree is duck-typed resp. virtual, so no source hooks are needed).
//
// Oracle: an independent *recursive* definition of the V/F/W cycles written from doxy_in/multigrid.dox and the cycle
// picture doxy_in/images/multigrid_cycles.svg (decoded below), evaluated in long double with exactness tracking.
//
// Model-checking style (E3): one case = one hierarchy configuration; inside the case a BFS over operation histories
// (op = "select cycle/top/coarse and apply") on fresh MultiGrid objects, states deduplicated by the implementation's
// W-cycle counter vector `_counters`; every executed operation is compared event-by-event with the reference.
#include <verif.hpp>
#include <kernel/runtime.hpp>
#include <kernel/lafem/dense_vector.hpp>
#include <kernel/lafem/sparse_matrix_csr.hpp>
#include <kernel/solver/multigrid.hpp>
#include <cmath>
#include <sstream>
#include <deque>
#include <memory>

using namespace FEAT;

namespace
{
  typedef long double LD;
  typedef LAFEM::DenseVector<double, Index> Vec;
  typedef LAFEM::SparseMatrixCSR<double, Index> Mat;
  typedef std::vector<LD> LV;

  // ------------------------------------------------------------------------------------------ dense helper matrix
  struct DMat
  {
    int m = 0, n = 0;
    std::vector<double> v;
    DMat() {}
    DMat(int m_, int n_) : m(m_), n(n_), v(size_t(m_) * size_t(n_), 0.0) {}
    double& operator()(int i, int j) { return v[size_t(i) * size_t(n) + size_t(j)]; }
    double operator()(int i, int j) const { return v[size_t(i) * size_t(n) + size_t(j)]; }
  };

  Mat make_csr(const DMat& d)
  {
    Index nnz = 0;
    for(double x : d.v) if(x != 0.0) ++nnz;
    LAFEM::DenseVector<Index, Index> col(nnz), rp(Index(d.m + 1));
    Vec val(nnz);
    Index k = 0;
    for(int i = 0; i < d.m; ++i)
    {
      rp(Index(i), k);
      for(int j = 0; j < d.n; ++j) if(d(i, j) != 0.0) { col(k, Index(j)); val(k, d(i, j)); ++k; }
    }
    rp(Index(d.m), k);
    return Mat(Index(d.m), Index(d.n), col, val, rp);
  }

  // ------------------------------------------------------------------------------------------ event log
  enum { OP_SOLVER = 0, OP_REST, OP_PROL, OP_SEND, OP_RECV };
  const char* op_name(int op) { static const char* n[] = {"solver", "rest", "prol", "rest_send", "prol_recv"}; return n[op]; }

  struct Ev { int lvl, op, obj; std::vector<int> ctr; };

  struct Recorder
  {
    std::vector<Ev> ev;
    const std::vector<int>* ctr = nullptr;
    std::vector<std::pair<int, int>> life; // (object id, phase 0=init_symbolic 1=init_numeric 2=done_numeric 3=done_symbolic)
    uint64_t fdef = 0, fcor = 0;
    std::vector<std::string> bad;
    void push(int lvl, int op, int obj)
    {
      Ev e; e.lvl = lvl; e.op = op; e.obj = obj;
      if(ctr) e.ctr = *ctr;
      ev.push_back(std::move(e));
    }
  };

  // ------------------------------------------------------------------------------------------ logging sub-solver
  class LogSolver : public Solver::SolverBase<Vec>
  {
  public:
    int lvl, obj;
    DMat S;
    Recorder* rec;
    LogSolver(int l, int o, const DMat& s, Recorder* r) : lvl(l), obj(o), S(s), rec(r) {}
    virtual String name() const override { return "LogSolver"; }
    virtual void init_symbolic() override { rec->life.push_back(std::make_pair(obj, 0)); }
    virtual void init_numeric() override { rec->life.push_back(std::make_pair(obj, 1)); }
    virtual void done_numeric() override { rec->life.push_back(std::make_pair(obj, 2)); }
    virtual void done_symbolic() override { rec->life.push_back(std::make_pair(obj, 3)); }
    virtual Solver::Status apply(Vec& cor, const Vec& def) override
    {
      rec->push(lvl, OP_SOLVER, obj);
      if(int(cor.size()) != S.m || int(def.size()) != S.n) { rec->bad.push_back("solver called with wrong vector sizes"); return Solver::Status::aborted; }
      if(cor.elements() == def.elements()) rec->bad.push_back("solver called with cor aliasing def");
      std::vector<double> r(size_t(S.m), 0.0);
      const double* x = def.elements();
      for(int i = 0; i < S.m; ++i) { double s = 0.0; for(int j = 0; j < S.n; ++j) if(S(i, j) != 0.0) s += S(i, j) * x[j]; r[size_t(i)] = s; }
      double* y = cor.elements();
      for(int i = 0; i < S.m; ++i) y[i] = r[size_t(i)];
      return Solver::Status::success;
    }
  };

  // ------------------------------------------------------------------------------------------ logging filter (diagonal 0/1 projections)
  class LogFilter
  {
  public:
    int lvl = 0;
    std::vector<double> fd, fc;
    Recorder* rec = nullptr;
    void filter_def(Vec& v) const
    {
      ++rec->fdef;
      if(v.size() != Index(fd.size())) { rec->bad.push_back("filter_def with wrong vector size"); return; }
      double* x = v.elements();
      for(size_t i = 0; i < fd.size(); ++i) if(fd[i] == 0.0) x[i] = 0.0;
    }
    void filter_cor(Vec& v) const
    {
      ++rec->fcor;
      if(v.size() != Index(fc.size())) { rec->bad.push_back("filter_cor with wrong vector size"); return; }
      double* x = v.elements();
      for(size_t i = 0; i < fc.size(); ++i) if(fc[i] == 0.0) x[i] = 0.0;
    }
  };

  // ------------------------------------------------------------------------------------------ logging transfer (real CSR matrices)
  class LogTransfer
  {
  public:
    int lvl = 0;
    bool ghost = false;
    Mat P, R;
    DMat G; // "remote" operator of a ghost transfer: what comes back is G * what was sent
    Recorder* rec = nullptr;
    mutable std::vector<double> sent;
    mutable bool have_sent = false;

    bool is_ghost() const { return ghost; }
    bool rest(const Vec& f, Vec& c) const
    {
      rec->push(lvl, OP_REST, -1);
      if(ghost) rec->bad.push_back("rest() called on a ghost transfer");
      R.apply(c, f);
      return true;
    }
    bool prol(Vec& f, const Vec& c) const
    {
      rec->push(lvl, OP_PROL, -1);
      if(ghost) rec->bad.push_back("prol() called on a ghost transfer");
      P.apply(f, c);
      return true;
    }
    bool rest_send(const Vec& f) const
    {
      rec->push(lvl, OP_SEND, -1);
      if(!ghost) rec->bad.push_back("rest_send() called on a non-ghost transfer");
      if(have_sent) rec->bad.push_back("rest_send() twice without prol_recv()");
      sent.assign(f.elements(), f.elements() + f.size());
      have_sent = true;
      return true;
    }
    bool prol_recv(Vec& f) const
    {
      rec->push(lvl, OP_RECV, -1);
      if(!ghost) rec->bad.push_back("prol_recv() called on a non-ghost transfer");
      if(!have_sent) { rec->bad.push_back("prol_recv() without rest_send()"); return true; }
      have_sent = false;
      double* y = f.elements();
      for(int i = 0; i < G.m; ++i) { double s = 0.0; for(int j = 0; j < G.n; ++j) if(G(i, j) != 0.0) s += G(i, j) * sent[size_t(j)]; y[i] = s; }
      return true;
    }
  };

  typedef Solver::MultiGridHierarchy<Mat, LogFilter, LogTransfer> Hierarchy;
  typedef Solver::MultiGrid<Mat, LogFilter, LogTransfer> MG;

  // ------------------------------------------------------------------------------------------ hierarchy specification
  struct Pat { int pre, post, peak; }; // slot of the object used in that role (-1: none); equal slots = one shared object
  const Pat PATS[13] = {
    {-1, -1, -1}, {0, -1, -1}, {-1, 1, -1}, {0, 1, -1}, {-1, -1, 2}, {0, -1, 2}, {-1, 1, 2}, {0, 1, 2}, // presence
    {0, 0, -1}, {0, 0, 2}, {0, 0, 0}, {0, 1, 0}, {0, 1, 1}                                              // aliasing
  };

  struct LvlSpec
  {
    int dim = 0;
    DMat A, P, R, G;
    bool has_transfer = false, ghost = false;
    int obj[4] = {-1, -1, -1, -1}; // object ids for roles pre, post, peak, coarse
    std::vector<double> fd, fc;
  };

  struct HSpec
  {
    int nphys = 0, nvirt = 0;
    std::vector<LvlSpec> L;
    std::map<int, DMat> S; // object id -> effective matrix (filters baked in, as real FEAT solvers carry their filter)
  };

  // value set 0: position-coded dyadic rationals, non mesh-based sizes (coarsest 3, +1 per level)
  // value set 1: 1D Poisson (tridiag(-1,2,-1)/h, linear interpolation, R=P^T, damped Jacobi / Gauss-Seidel, exact coarse inverse)
  DMat invert_ld(const DMat& a)
  {
    const int n = a.m;
    std::vector<LD> w(size_t(n) * size_t(2 * n), 0.0L);
    for(int i = 0; i < n; ++i) { for(int j = 0; j < n; ++j) w[size_t(i * 2 * n + j)] = a(i, j); w[size_t(i * 2 * n + n + i)] = 1.0L; }
    for(int c = 0; c < n; ++c)
    {
      int p = c;
      for(int i = c + 1; i < n; ++i) if(fabsl(w[size_t(i * 2 * n + c)]) > fabsl(w[size_t(p * 2 * n + c)])) p = i;
      if(p != c) for(int j = 0; j < 2 * n; ++j) std::swap(w[size_t(p * 2 * n + j)], w[size_t(c * 2 * n + j)]);
      LD d = w[size_t(c * 2 * n + c)];
      for(int j = 0; j < 2 * n; ++j) w[size_t(c * 2 * n + j)] /= d;
      for(int i = 0; i < n; ++i) if(i != c)
      {
        LD f = w[size_t(i * 2 * n + c)];
        if(f != 0.0L) for(int j = 0; j < 2 * n; ++j) w[size_t(i * 2 * n + j)] -= f * w[size_t(c * 2 * n + j)];
      }
    }
    DMat r(n, n);
    for(int i = 0; i < n; ++i) for(int j = 0; j < n; ++j) r(i, j) = double(w[size_t(i * 2 * n + n + j)]);
    return r;
  }

  int level_dim(int vs, int nphys, int l)
  {
    const int below = nphys - 1 - l; // number of coarser physical levels
    if(vs == 0) return 3 + below;        // 3, 4, 5, ... (not mesh based)
    return (1 << (below + 2)) - 1;       // 3, 7, 15, ... (nested 1D meshes)
  }

  DMat slot_matrix(int vs, int slot, int l, int d, const DMat& A)
  {
    DMat s(d, d);
    if(vs == 0)
    {
      switch(slot)
      {
      case 0: for(int i = 0; i < d; ++i) s(i, i) = ((i + l) % 2 == 0) ? 0.25 : 0.125; break;
      case 1: for(int i = 0; i < d; ++i) { s(i, i) = 0.25; if(i + 1 < d) s(i, i + 1) = -0.125; } break;
      case 2: for(int i = 0; i < d; ++i) { s(i, i) = 0.125; if(i > 0) s(i, i - 1) = 0.0625; } break;
      default: for(int i = 0; i < d; ++i) for(int j = 0; j < d; ++j) s(i, j) = (i == j) ? 0.25 : double(((i + 2 * j + l) % 3) - 1) / 16.0; break;
      }
    }
    else
    {
      switch(slot)
      {
      case 0: for(int i = 0; i < d; ++i) s(i, i) = 0.7 / A(i, i); break;
      case 1: { DMat lo(d, d); for(int i = 0; i < d; ++i) for(int j = 0; j <= i; ++j) lo(i, j) = A(i, j); s = invert_ld(lo); } break; // Gauss-Seidel
      case 2: for(int i = 0; i < d; ++i) s(i, i) = 0.6 / A(i, i); break;
      default: s = invert_ld(A); break;
      }
    }
    return s;
  }

  /// pat[l]: pattern index of refined level l; cs: 0 no coarse solvers, 1 own coarse solver object on every level,
  /// 2 coarse solver aliases the pre-smoother object where one exists; filt: 0 none, 1 same mask, 2 different masks
  HSpec make_spec(int vs, int nphys, int g, const std::vector<int>& pat, int cs, int filt)
  {
    HSpec H;
    H.nphys = nphys; H.nvirt = nphys + g;
    H.L.resize(size_t(nphys));
    for(int l = 0; l < nphys; ++l)
    {
      LvlSpec& L = H.L[size_t(l)];
      const int d = L.dim = level_dim(vs, nphys, l);
      L.A = DMat(d, d);
      if(vs == 0)
      {
        for(int i = 0; i < d; ++i)
        {
          L.A(i, i) = 4.0 + double((i + l) % 3);
          if(i + 1 < d) L.A(i, i + 1) = L.A(i + 1, i) = -1.0;
          if(i + 2 < d) L.A(i, i + 2) = L.A(i + 2, i) = 0.5;
        }
      }
      else
      {
        const double ih = double(d + 1);
        for(int i = 0; i < d; ++i) { L.A(i, i) = 2.0 * ih; if(i + 1 < d) L.A(i, i + 1) = L.A(i + 1, i) = -ih; }
      }
      L.fd.assign(size_t(d), 1.0); L.fc.assign(size_t(d), 1.0);
      if(filt == 1) { L.fd[0] = 0.0; L.fc[0] = 0.0; }
      if(filt == 2) { L.fd[0] = 0.0; L.fc[size_t(d - 1)] = 0.0; }
      L.has_transfer = (l + 1 < nphys) || (g > 0);
      L.ghost = (l + 1 == nphys) && (g > 0);
      if(L.has_transfer && !L.ghost)
      {
        const int dc = level_dim(vs, nphys, l + 1);
        L.P = DMat(d, dc); L.R = DMat(dc, d);
        if(vs == 0)
        {
          for(int j = 0; j < dc; ++j) { L.P(j, j) = 1.0; L.P(j + 1, j) = 0.5; L.R(j, j) = 0.5; L.R(j, j + 1) = 1.0; }
          L.P(0, dc - 1) += 0.25;
          L.R(dc - 1, 0) -= 0.25;
        }
        else
        {
          for(int j = 0; j < dc; ++j) { L.P(2 * j + 1, j) = 1.0; L.P(2 * j, j) = 0.5; L.P(2 * j + 2, j) = 0.5; }
          for(int j = 0; j < dc; ++j) for(int i = 0; i < d; ++i) L.R(j, i) = L.P(i, j);
        }
      }
      if(L.ghost)
      {
        L.G = DMat(d, d);
        for(int i = 0; i < d; ++i) for(int j = 0; j < d; ++j)
          L.G(i, j) = (vs == 0) ? ((i == j ? 0.25 : 0.0) + (((i + j) % 2) ? 0.0625 : 0.0)) : (i == j ? 0.3 / L.A(i, i) : 0.0);
      }
      // objects
      const bool refined = L.has_transfer;
      if(refined)
      {
        const Pat& p = PATS[pat[size_t(l)]];
        L.obj[0] = p.pre < 0 ? -1 : l * 4 + p.pre;
        L.obj[1] = p.post < 0 ? -1 : l * 4 + p.post;
        L.obj[2] = p.peak < 0 ? -1 : l * 4 + p.peak;
      }
      if(cs == 1) L.obj[3] = l * 4 + 3;
      if(cs == 2) L.obj[3] = (L.obj[0] >= 0) ? L.obj[0] : l * 4 + 3;
      for(int r = 0; r < 4; ++r)
      {
        const int o = L.obj[r];
        if(o < 0 || H.S.count(o)) continue;
        DMat s = slot_matrix(vs, o % 4, l, d, L.A);
        for(int i = 0; i < d; ++i) for(int j = 0; j < d; ++j) s(i, j) *= L.fc[size_t(i)] * L.fd[size_t(j)];
        H.S[o] = s;
      }
    }
    return H;
  }

  // ------------------------------------------------------------------------------------------ the real objects
  /// a user-defined level class (the hierarchy accepts any MultiGridLevelBase through push_level(shared_ptr))
  class CustomLevel : public Solver::MultiGridLevelBase<Mat, LogFilter, LogTransfer>
  {
  public:
    typedef Solver::MultiGridLevelBase<Mat, LogFilter, LogTransfer> Base;
    const Mat& a; const LogFilter& f; const LogTransfer* t;
    std::shared_ptr<Base::SolverType> s[4];
    CustomLevel(const Mat& a_, const LogFilter& f_, const LogTransfer* t_) : a(a_), f(f_), t(t_) {}
    virtual const Mat& get_system_matrix() const override { return a; }
    virtual const LogFilter& get_system_filter() const override { return f; }
    virtual const LogTransfer* get_transfer_operator() const override { return t; }
    virtual std::shared_ptr<Base::SolverType> get_coarse_solver() override { return s[3]; }
    virtual std::shared_ptr<Base::SolverType> get_smoother_pre() override { return s[0]; }
    virtual std::shared_ptr<Base::SolverType> get_smoother_post() override { return s[1]; }
    virtual std::shared_ptr<Base::SolverType> get_smoother_peak() override { return s[2]; }
  };

  /// a second set of numerical values on the same patterns (for "update the operators, re-initialise, apply again")
  HSpec make_variant(const HSpec& H)
  {
    HSpec V = H;
    for(auto& L : V.L)
    {
      for(int i = 0; i < L.dim; ++i) L.A(i, i) += 1.0;
      for(double& x : L.R.v) x *= 0.5;
      for(double& x : L.G.v) x *= 0.5;
    }
    for(auto& kv : V.S) for(double& x : kv.second.v) x *= 0.5;
    return V;
  }

  void set_csr_values(Mat& m, const DMat& d)
  {
    double* v = m.val(); Index k = 0;
    for(int i = 0; i < d.m; ++i) for(int j = 0; j < d.n; ++j) if(d(i, j) != 0.0) v[k++] = d(i, j);
    XASSERTM(k == m.used_elements(), "harness: value update changed the sparsity pattern");
  }

  struct Built
  {
    Recorder rec;
    std::deque<Mat> mats;
    std::deque<LogFilter> filters;
    std::deque<LogTransfer> transfers;
    std::map<int, std::shared_ptr<LogSolver>> solvers;
    std::shared_ptr<Hierarchy> hier;

    std::shared_ptr<Hierarchy::SolverType> sol(int lvl, int o)
    {
      if(o < 0) return nullptr;
      return solvers.at(o);
      (void)lvl;
    }

    /// overwrites all numerical values (level matrices, transfers, sub-solver matrices) by those of Hx (same patterns)
    void load_values(const HSpec& Hx)
    {
      for(auto& kv : Hx.S) solvers.at(kv.first)->S = kv.second;
      size_t it = 0;
      for(int l = 0; l < Hx.nphys; ++l)
      {
        const LvlSpec& L = Hx.L[size_t(l)];
        set_csr_values(mats[size_t(l)], L.A);
        if(L.has_transfer)
        {
          LogTransfer& t = transfers[it++];
          if(L.ghost) t.G = L.G; else { set_csr_values(t.P, L.P); set_csr_values(t.R, L.R); }
        }
      }
    }

    explicit Built(const HSpec& H, bool custom = false)
    {
      for(auto& kv : H.S) solvers[kv.first] = std::make_shared<LogSolver>(kv.first / 4, kv.first, kv.second, &rec);
      hier = std::make_shared<Hierarchy>(std::size_t(H.nvirt));
      for(int l = 0; l < H.nphys; ++l)
      {
        const LvlSpec& L = H.L[size_t(l)];
        mats.push_back(make_csr(L.A));
        filters.emplace_back();
        LogFilter& f = filters.back(); f.lvl = l; f.fd = L.fd; f.fc = L.fc; f.rec = &rec;
        if(L.has_transfer)
        {
          transfers.emplace_back();
          LogTransfer& t = transfers.back(); t.lvl = l; t.ghost = L.ghost; t.rec = &rec;
          if(L.ghost) t.G = L.G; else { t.P = make_csr(L.P); t.R = make_csr(L.R); }
          if(custom)
          {
            auto cl = std::make_shared<CustomLevel>(mats.back(), f, &t);
            for(int r = 0; r < 4; ++r) cl->s[r] = sol(l, L.obj[r]);
            hier->push_level(cl);
          }
          else
            hier->push_level(mats.back(), f, t, sol(l, L.obj[0]), sol(l, L.obj[1]), sol(l, L.obj[2]), sol(l, L.obj[3]));
        }
        else if(custom)
        {
          auto cl = std::make_shared<CustomLevel>(mats.back(), f, nullptr);
          cl->s[3] = sol(l, L.obj[3]);
          hier->push_level(cl);
        }
        else
          hier->push_level(mats.back(), f, sol(l, L.obj[3]));
      }
    }
  };

  // ------------------------------------------------------------------------------------------ exactness tracker
  struct Tracker
  {
    bool inexact = false;
    int kmax = -100000; // all values seen are multiples of 2^-kmax
    LD mmax = 0.0L;     // bound for the absolute value of every partial sum in any order
    void see(LD t)
    {
      if(t == 0.0L) return;
      if(!std::isfinite((double)t)) { inexact = true; return; }
      int e = 0;
      LD m = frexpl(fabsl(t), &e); // t = m * 2^e, 0.5 <= m < 1
      uint64_t M = (uint64_t)ldexpl(m, 64);
      int tz = M ? __builtin_ctzll(M) : 64;
      int k = -(e - 64 + tz);
      if(k > kmax) kmax = k;
    }
    void mag(LD a) { if(a > mmax) mmax = a; }
    bool dbl = false;   // emulate double precision arithmetic (used to estimate the rounding sensitivity of a configuration)
    LD mul(LD a, LD b) { LD p = a * b; if(fmal(a, b, -p) != 0.0L) inexact = true; if(dbl) p = (LD)(double)p; see(p); return p; }
    LD add(LD s, LD p)
    {
      LD r = s + p, bb = r - s;
      LD err = (s - (r - bb)) + (p - bb);
      if(err != 0.0L) inexact = true;
      if(dbl) r = (LD)(double)r;
      see(r);
      return r;
    }
    bool exact_in_double() const
    {
      if(inexact) return false;
      if(mmax == 0.0L) return true;
      int E = ilogbl(mmax) + 1;
      return kmax + E <= 52 && kmax <= 1020 && E <= 1020; // (and inside the normal range of double)
    }
  };

  // ------------------------------------------------------------------------------------------ reference: recursive definition
  enum Kind { KV, KW, KFI, KFT };
  struct RefEv { int lvl, op, obj, k; const char* role; };

  struct Ref
  {
    const HSpec& H;
    int cycle, top, crs, last, adapt;
    bool ghostmode;
    Tracker tr;
    std::vector<RefEv> ev;
    int ncoarse = 0;
    bool undefined = false; // adaptive step length 0/0
    LD bscale = 0.0L;
    std::vector<LD> omegas;

    Ref(const HSpec& h, int cyc, int t, int c, int a) : H(h), cycle(cyc), top(t), crs(c), last(std::min(c, h.nphys)), adapt(a), ghostmode(c >= h.nphys) {}

    void emit(int lvl, int op, int obj, const char* role) { RefEv e; e.lvl = lvl; e.op = op; e.obj = obj; e.k = ncoarse; e.role = role; ev.push_back(e); }

    LV matvec(const DMat& M, const LV& x)
    {
      LV r(size_t(M.m), 0.0L);
      for(int i = 0; i < M.m; ++i)
      {
        LD s = 0.0L, sa = 0.0L;
        for(int j = 0; j < M.n; ++j) if(M(i, j) != 0.0 && x[size_t(j)] != 0.0L)
        {
          LD p = tr.mul((LD)M(i, j), x[size_t(j)]);
          s = tr.add(s, p); sa += fabsl(p);
        }
        tr.mag(sa);
        r[size_t(i)] = s;
      }
      return r;
    }
    static LV mask(const std::vector<double>& f, LV v) { for(size_t i = 0; i < v.size(); ++i) if(f[i] == 0.0) v[i] = 0.0L; return v; }
    LV sub(const LV& a, const LV& b)
    {
      LV r(a.size());
      for(size_t i = 0; i < a.size(); ++i) { r[i] = tr.add(a[i], -b[i]); tr.mag(fabsl(a[i]) + fabsl(b[i])); }
      return r;
    }
    void axpy(LV& y, LD w, const LV& x)
    {
      for(size_t i = 0; i < y.size(); ++i) { LD p = tr.mul(w, x[i]); tr.mag(fabsl(y[i]) + fabsl(p)); y[i] = tr.add(y[i], p); }
    }
    LD dot(const LV& a, const LV& b) { LD s = 0.0L; for(size_t i = 0; i < a.size(); ++i) { s += a[i] * b[i]; if(tr.dbl) s = (LD)(double)s; } return s; }

    LV defect(const LvlSpec& L, const LV& b, const LV& x) { return mask(L.fd, sub(b, matvec(L.A, x))); }

    void smooth_step(int l, int o, const char* role, LV& x, const LV& b, LV& d)
    {
      const LvlSpec& L = H.L[size_t(l)];
      emit(l, OP_SOLVER, o, role);
      LV c = mask(L.fc, matvec(H.S.at(o), d));
      axpy(x, 1.0L, c);
      d = defect(L, b, x);
    }

    void correct(int l, LV& x, const LV& b, LV& d, Kind ck)
    {
      const LvlSpec& L = H.L[size_t(l)];
      LV c;
      if(ghostmode && l == last - 1)
      {
        emit(l, OP_SEND, -1, "rest_send");
        ++ncoarse;
        emit(l, OP_RECV, -1, "prol_recv");
        c = mask(L.fc, matvec(L.G, d));
      }
      else
      {
        emit(l, OP_REST, -1, "rest");
        LV bc = mask(H.L[size_t(l + 1)].fd, matvec(L.R, d));
        LV xc = solve(l + 1, bc, ck);
        emit(l, OP_PROL, -1, "prol");
        c = mask(L.fc, matvec(L.P, xc));
      }
      LD w = 1.0L;
      if(adapt != 0)
      {
        tr.inexact = true;
        LV t = mask(L.fd, matvec(L.A, c));
        LD num = (adapt == 1) ? dot(d, c) : dot(d, t);
        LD den = (adapt == 1) ? dot(t, c) : dot(t, t);
        // the minimiser is undefined if the correction vanishes; "vanishes" must be decided up to rounding, because the
        // implementation (double) and this reference (long double) reach an exact solution with different residues
        LD cn = 0.0L; for(LD v : c) cn = std::max(cn, fabsl(v));
        if(den == 0.0L || cn <= 1e-13L * bscale) { undefined = true; w = 0.0L; } else w = num / den;
        omegas.push_back(w);
      }
      axpy(x, w, c);
      d = defect(L, b, x);
    }

    /// the recursive definition of the cycles (level numbers grow towards the coarse level)
    LV solve(int l, const LV& b, Kind kind)
    {
      const LvlSpec& L = H.L[size_t(l)];
      if(l == last)
      {
        // coarse level: coarse solver, or identity if none is given
        LV x;
        if(L.obj[3] >= 0) { emit(l, OP_SOLVER, L.obj[3], "coarse"); x = matvec(H.S.at(L.obj[3]), b); }
        else x = mask(L.fc, mask(L.fd, b));
        ++ncoarse;
        return x;
      }
      LV x(size_t(L.dim), 0.0L), d = b;
      if(L.obj[0] >= 0) { emit(l, OP_SOLVER, L.obj[0], "pre"); x = matvec(H.S.at(L.obj[0]), b); d = sub(b, matvec(L.A, x)); }
      d = mask(L.fd, d);
      const Kind first = (kind == KV) ? KV : (kind == KW) ? KW : KFI;
      correct(l, x, b, d, first);
      if(kind == KW || kind == KFI)
      {
        // inner peak: peak-smoother, or pre- and post-smoother in its place
        d = defect(L, b, x);
        if(L.obj[2] >= 0) smooth_step(l, L.obj[2], "peak", x, b, d);
        else
        {
          if(L.obj[0] >= 0) smooth_step(l, L.obj[0], "peak(pre)", x, b, d);
          if(L.obj[1] >= 0) smooth_step(l, L.obj[1], "peak(post)", x, b, d);
        }
        correct(l, x, b, d, (kind == KW) ? KW : KV);
      }
      if(L.obj[1] >= 0)
      {
        d = defect(L, b, x);
        emit(l, OP_SOLVER, L.obj[1], "post");
        axpy(x, 1.0L, matvec(H.S.at(L.obj[1]), d));
      }
      return x;
    }

    LV run(const LV& b)
    {
      for(LD t : b) { tr.see(t); tr.mag(fabsl(t)); bscale = std::max(bscale, fabsl(t)); }
      const Kind k0 = (cycle == 0) ? KV : (cycle == 1) ? KFT : KW;
      return solve(top, b, k0);
    }
  };

  // ------------------------------------------------------------------------------------------ documented picture
  // doxy_in/images/multigrid_cycles.svg decoded (short horizontal strokes: red=pre, blue=post, green=peak,
  // black=coarse solve; y position = level, x position = time): V and F on five levels, W on four levels.
  const char* DOC_V = "pre0 pre1 pre2 pre3 C4 post3 post2 post1 post0";
  const char* DOC_F = "pre0 pre1 pre2 pre3 C4 peak3 C4 post3 peak2 pre3 C4 post3 post2 peak1 pre2 pre3 C4 post3 post2 post1 post0";
  const char* DOC_W = "pre0 pre1 pre2 C3 peak2 C3 post2 peak1 pre2 C3 peak2 C3 post2 post1 peak0 pre1 pre2 C3 peak2 C3 post2 peak1 pre2 C3 peak2 C3 post2 post1 post0";

  std::string ref_picture(int cycle, int nlev)
  {
    std::vector<int> pat(size_t(nlev), 7);
    HSpec H = make_spec(0, nlev, 0, pat, 1, 0);
    Ref r(H, cycle, 0, nlev - 1, 0);
    LV b(size_t(H.L[0].dim), 1.0L);
    r.run(b);
    std::string s;
    for(auto& e : r.ev)
    {
      if(e.op != OP_SOLVER) continue;
      if(!s.empty()) s += " ";
      const int slot = e.obj % 4;
      s += (slot == 0 ? "pre" : slot == 1 ? "post" : slot == 2 ? "peak" : "C") + std::to_string(e.lvl);
    }
    return s;
  }

  std::string ev_str(int lvl, int op, int obj)
  {
    std::string s = std::string(op_name(op)) + "@" + std::to_string(lvl);
    if(op == OP_SOLVER) s += "#obj" + std::to_string(obj);
    return s;
  }

  struct Cfg { int cycle, top, crs; };
  const char CYC[3] = {'V', 'F', 'W'};
  Solver::MultiGridCycle cyc_enum(int c) { return c == 0 ? Solver::MultiGridCycle::V : c == 1 ? Solver::MultiGridCycle::F : Solver::MultiGridCycle::W; }

  std::vector<double> make_defect(const LvlSpec& L, int which)
  {
    // which < dim: unit vector; dim: alternating dyadic; dim+1: ramp; dim+2: all negative;
    // dim+3 / dim+4: alternating * 2^+-400 (~1e+-120); dim+5 / dim+6: alternating * 2^-900 / 2^+900 (~1e-+271, fixed CGC only:
    // the adaptive step lengths square the magnitudes)
    const int d = L.dim;
    std::vector<double> v(size_t(d), 0.0);
    if(which < d) v[size_t(which)] = 1.0;
    else if(which == d + 1) for(int i = 0; i < d; ++i) v[size_t(i)] = double(i + 1) / 4.0;
    else if(which == d + 2) for(int i = 0; i < d; ++i) v[size_t(i)] = -double(1 + (i % 4)) / 4.0;
    else
    {
      const double sc = (which == d + 3) ? std::ldexp(1.0, 400) : (which == d + 4) ? std::ldexp(1.0, -400) : (which == d + 5) ? std::ldexp(1.0, -900) : (which == d + 6) ? std::ldexp(1.0, 900) : 1.0;
      for(int i = 0; i < d; ++i) v[size_t(i)] = sc * ((i % 2) ? -1.0 : 1.0) * double(1 + (i % 3)) / 2.0;
    }
    for(int i = 0; i < d; ++i) v[size_t(i)] *= L.fd[size_t(i)]; // FEAT convention: defects handed to a solver are filtered
    return v;
  }
} // namespace

int main(int argc, char** argv)
{
  Runtime::ScopeGuard guard(argc, argv);
  verif::Spec spec; spec.property = "C09"; spec.harness = "c09_cycle";
  spec.rule =
    "case = hierarchy configuration (value set, physical levels n, ghost levels g, smoother presence/alias pattern per level, coarse "
    "solver mode, filter variant, adaptive CGC mode); inside: BFS over histories of ops (cycle,top,coarse)+apply on fresh MultiGrid "
    "objects, states keyed by the implementation's _counters vector; every op validated against the recursive reference (event "
    "trace, W counters = binary counter, result vector). Non-trivial = validated apply with at least one level above the coarse "
    "level; hashed by (case parameters, cycle, top, coarse).";
  spec.bounds_quick = "n=1..6 levels, g in {0,1,2}; 13 uniform smoother patterns (8 presence + 5 alias) + all 64 per-level presence "
    "combinations for n=3; coarse solver none/own/alias; 3 filter variants; Fixed/MinEnergy/MinDefect; all (top,coarse) sub-ranges x {V,F,W}; "
    "BFS to closure for n<=4, histories up to 2 ops for n>=5 (with reduced configuration product for n>=5 and for the Poisson value set); dyadic value set for all, Poisson value set for a sub-family; all unit defects + dense, all-negative and 2^+-400 / 2^+-900 scaled defects at depth 0; per (cycle,top,coarse): bystander MultiGrid, value update + numeric re-init, full re-init; levels alternately via MultiGridLevelStd / a user-defined level class; coarse level in positive and negative form; configuration by constructor or by setters before init";
  spec.bounds_thorough = "full configuration product for n<=6 (Poisson value set at n=6: 5 patterns x coarse none/own x filter none/same), BFS to closure for n<=4, histories up to 4 ops for n=5 and up to 3 ops (2 for the non-core patterns and the Poisson value set) for n=6, all 512 per-level presence combinations for n=4";
  spec.assumptions = {
    "sub-solvers are linear maps that respect the level filter (S = Fc S' Fd), as real FEAT solvers which carry their filter",
    "the defect passed to apply() is filtered (FEAT convention)",
    "filters are diagonal 0/1 projections; the reference applies them to every defect/correction (idempotent), so only missing or swapped filters are visible, not redundant ones",
    "level vectors of the hierarchy keep stale contents between histories (don't-care state by contract)", "re-initialisation histories (values of all operators replaced by a second set, done/init numeric resp. symbolic+numeric of solver and hierarchy) and a bystander MultiGrid object on the same hierarchy are run for every (cycle,top,coarse) from the initial state, not inside the BFS",
    "adaptive CGC: (configuration, defect) pairs in which a coarse grid correction vanishes to rounding (|c| <= 1e-13 |defect|) are excluded from the result comparison (step length 0/0 not defined; trace and counters are still checked); the exactly-zero class is tested once by case 1",
    "bitwise comparison where the long double reference proves all intermediate terms exactly representable in double, else |diff| <= 1e-12*(largest sum of absolute terms of any inner product in the reference evaluation; relative, so that defects of magnitude 1e+-270 are judged like O(1) ones) + 64*|reference(long double) - reference(emulated double)| (the second term is evaluated only where the first alone fails: non-contractive configurations amplify rounding errors)",
    "LAFEM::SparseMatrixCSR::apply, DenseVector::axpy/dot/copy are trusted here (C01/C04)", "not covered: the Statistics/solver-expression side channel of MultiGrid (timing values themselves are only checked for sign, level and additivity), MPI-only ghost branches with a real Global::Muxer (C13)"};

  return verif::run(spec, argc, argv, [&](verif::Ctx& c) {
    // ---- case 0: the reference reproduces the documented picture
    if(c.want())
    {
      c.desc([&]{ return std::string("reference recursion vs doxy_in/images/multigrid_cycles.svg"); });
      c.check(ref_picture(0, 5) == DOC_V, "reference != documented V picture", [&]{ return ref_picture(0, 5); });
      c.check(ref_picture(1, 5) == DOC_F, "reference != documented F picture", [&]{ return ref_picture(1, 5); });
      c.check(ref_picture(2, 4) == DOC_W, "reference != documented W picture", [&]{ return ref_picture(2, 4); });
      c.count("doc_pictures_checked", 3);
    }

    // ---- case 1: adaptive coarse grid correction and a zero defect (the linear map of 0 is 0)
    if(c.want())
    {
      c.desc([&]{ return std::string("two levels (dyadic value set, all smoothers, coarse solver), V-cycle, MinEnergy and MinDefect, defect = 0"); });
      for(int adapt = 1; adapt <= 2; ++adapt)
      {
        HSpec H = make_spec(0, 2, 0, std::vector<int>(1, 7), 1, 0);
        Built B(H);
        B.hier->init();
        std::shared_ptr<MG> mg = Solver::new_multigrid(B.hier, Solver::MultiGridCycle::V);
        mg->set_adapt_cgc(adapt == 1 ? Solver::MultiGridAdaptCGC::MinEnergy : Solver::MultiGridAdaptCGC::MinDefect);
        mg->init();
        Vec def(Index(H.L[0].dim), 0.0), cor(Index(H.L[0].dim), 77.0);
        mg->apply(cor, def);
        bool zero = true; for(Index i = 0; i < cor.size(); ++i) if(!(cor(i) == 0.0)) zero = false;
        c.check(zero, "adaptive CGC: zero defect gives non-finite result (0/0)", [&]{ char b[120]; snprintf(b, sizeof b, "%s: correction[0] = %g for defect 0", adapt == 1 ? "MinEnergy" : "MinDefect", cor(0)); return std::string(b); });
        mg->done();
        B.hier->done();
      }
    }

    // ---- case 2: cycle names (stream operators used by the configuration parsers), solver name, per-level timing accessors
    if(c.want())
    {
      c.desc([&]{ return std::string("MultiGridCycle << / >>, MultiGrid::name(), hierarchy timing accessors"); });
      const char* good[6] = {"V", "v", "F", "f", "W", "w"};
      for(int i = 0; i < 6; ++i)
      {
        std::istringstream is(std::string("  ") + good[i] + "Z");
        Solver::MultiGridCycle cy = cyc_enum((i / 2 + 1) % 3); // something else
        is >> cy;
        char next = 0; is.get(next);
        c.check(!is.fail() && cy == cyc_enum(i / 2) && next == 'Z', std::string("operator>>(MultiGridCycle) for '") + good[i] + "'", "wrong cycle parsed, stream failed or too many characters consumed");
        std::ostringstream os; os << cyc_enum(i / 2);
        c.check(os.str() == std::string(1, CYC[i / 2]), std::string("operator<<(MultiGridCycle) for ") + CYC[i / 2], [&]{ return os.str(); });
      }
      const char* bad[4] = {"x", "1", "", "-"};
      for(int i = 0; i < 4; ++i)
      {
        std::istringstream is(bad[i]);
        Solver::MultiGridCycle cy = Solver::MultiGridCycle::F;
        is >> cy;
        bool ok = is.fail() && cy == Solver::MultiGridCycle::F;
        if(bad[i][0] != 0) { is.clear(); char next = 0; is.get(next); ok = ok && next == bad[i][0]; } // the offending character is put back
        c.check(ok, std::string("operator>>(MultiGridCycle) for invalid input '") + bad[i] + "'", "no failbit, cycle modified or character not put back");
      }
      { std::ostringstream os; os << Solver::MultiGridCycle(7); c.check(os.str() == "?", "operator<<(MultiGridCycle) for an invalid value", [&]{ return os.str(); }); }
      HSpec H = make_spec(0, 3, 0, std::vector<int>(2, 7), 1, 0);
      Built B(H);
      B.hier->init();
      std::shared_ptr<MG> mg = Solver::new_multigrid(B.hier, Solver::MultiGridCycle::W);
      mg->init();
      for(int cy = 0; cy < 3; ++cy) { mg->set_cycle(cyc_enum(cy)); c.check(mg->name() == String("MultiGrid-") + String(1, CYC[cy]), "MultiGrid::name()", [&]{ return std::string(mg->name()); }); }
      Vec def(Index(H.L[0].dim), 1.0), cor(Index(H.L[0].dim), 0.0);
      mg->apply(cor, def);
      bool t_ok = true;
      double sums[4] = {0, 0, 0, 0};
      for(int l = 0; l < 3; ++l)
      {
        const double t[4] = {B.hier->get_time_smooth(l), B.hier->get_time_coarse(l), B.hier->get_time_defect(l), B.hier->get_time_transfer(l)};
        for(int k = 0; k < 4; ++k) { if(!(t[k] >= 0.0) || !std::isfinite(t[k])) t_ok = false; sums[k] += t[k]; }
        if(l < 2 && t[1] != 0.0) t_ok = false; // coarse solver time only on the coarse level
        if(l == 2 && (t[0] != 0.0 || t[3] != 0.0)) t_ok = false; // no smoothing / transfer on the coarse level
      }
      const double tot[4] = {B.hier->get_time_smooth(), B.hier->get_time_coarse(), B.hier->get_time_defect(), B.hier->get_time_transfer(-1)};
      for(int k = 0; k < 4; ++k) if(!(std::fabs(tot[k] - sums[k]) <= 1e-12 * (1.0 + sums[k]))) t_ok = false;
      c.check(t_ok, "hierarchy timing accessors", "negative / non-finite level time, time booked on the wrong level, or total != sum over levels");
      B.hier->reset_timings();
      bool z = true; for(int l = -1; l < 3; ++l) if(B.hier->get_time_smooth(l) != 0.0 || B.hier->get_time_coarse(l) != 0.0 || B.hier->get_time_defect(l) != 0.0 || B.hier->get_time_transfer(l) != 0.0) z = false;
      c.check(z, "hierarchy reset_timings", "a timing is not zero after reset_timings()");
      int sg = c.run_forked([&]{ (void)B.hier->get_time_smooth(3); });
      c.check(sg == SIGABRT, "hierarchy timing accessor with an invalid level must abort", "get_time_smooth(size) returned");
      mg->done();
      B.hier->done();
    }

    for(int n = 1; n <= 6; ++n)
    for(int vs = 0; vs < 2; ++vs)
    for(int g = 0; g <= 2; ++g)
    {
      const int nref = (g > 0) ? n : n - 1; // refined levels (those with smoothers)
      // pattern enumeration: uniform 13, plus independent per-level presence for small hierarchies
      std::vector<std::vector<int>> pats;
      for(int p = 0; p < 13; ++p) pats.push_back(std::vector<int>(size_t(std::max(nref, 0)), p));
      const bool indep = (vs == 0) && (g == 0) && ((n == 3) || (n == 4 && c.thorough));
      if(indep)
      {
        int total = 1; for(int i = 0; i < nref; ++i) total *= 8;
        for(int code = 0; code < total; ++code)
        {
          std::vector<int> p((size_t(nref))); int x = code; bool uniform = true;
          for(int i = 0; i < nref; ++i) { p[size_t(i)] = x % 8; x /= 8; if(p[size_t(i)] != p[0]) uniform = false; }
          if(!uniform) pats.push_back(p);
        }
      }
      if(nref <= 0) pats.resize(1);
      for(size_t pi = 0; pi < pats.size(); ++pi)
      for(int cs = 0; cs <= 2; ++cs)
      for(int filt = 0; filt < 3; ++filt)
      for(int adapt = 0; adapt < 3; ++adapt)
      {
        const std::vector<int>& pat = pats[pi];
        if(cs == 2 && !(pi == 7 || pi == 1)) continue;             // alias coarse==pre only with patterns {pre} and {pre,post,peak}
        if(pi >= 13 && (cs == 2 || filt == 2 || adapt == 2)) continue; // per-level combos: reduced product
        if(c.thorough)
        {
          // thorough tier: the largest Poisson hierarchies (127 dofs on top) with a sub-family of the configuration product
          const bool core5 = (pi == 0 || pi == 3 || pi == 7 || pi == 10 || pi == 12);
          if(vs == 1 && n == 6 && !(core5 && cs != 2 && filt != 2)) continue;
        }
        if(!c.thorough)
        {
          // quick tier: reduced products for the expensive families (the small hierarchies carry the full product)
          const bool core5 = (pi == 0 || pi == 3 || pi == 7 || pi == 10 || pi == 12);
          if(vs == 1 && !((pi == 7 || pi == 3 || pi == 10 || pi == 0) && cs != 2 && filt != 2)) continue;
          if(vs == 1 && n >= 5 && !(pi == 7 && filt == 0 && cs == 1 && g <= 1)) continue;
          if(n == 4 && g == 2 && !core5) continue;
          if(n == 5 && !(core5 && cs != 2 && filt != 2)) continue;
          if(n == 6 && !((pi == 3 || pi == 7) && (cs == 1 || (cs == 0 && pi == 7)) && filt != 2)) continue;
        }
        if(!c.want()) continue;

        auto pat_str = [&]{ std::string s; for(int p : pat) s += std::to_string(p) + ","; return s; };
        c.desc([&]{ return "vs=" + std::to_string(vs) + " n=" + std::to_string(n) + " g=" + std::to_string(g) + " pat=[" + pat_str() + "] cs=" + std::to_string(cs)
          + " filt=" + std::to_string(filt) + " adapt=" + std::to_string(adapt); });
        const std::string ckey = "vs" + std::to_string(vs) + " n" + std::to_string(n) + " g" + std::to_string(g) + " pat[" + pat_str() + "] cs" + std::to_string(cs)
          + " filt" + std::to_string(filt) + " adapt" + std::to_string(adapt);
        const uint64_t chash = verif::Hash().str(ckey).get();

        HSpec H = make_spec(vs, n, g, pat, cs, filt);
        const HSpec H2 = make_variant(H);          // second value set on the same patterns
        const HSpec* Hcur = &H;                    // the values currently loaded into the real objects
        const bool custom = ((pi + size_t(cs) + size_t(filt) + size_t(g)) % 2 == 1); // user-defined level class instead of MultiGridLevelStd
        Built B(H, custom);
        Recorder& rec = B.rec;

        // ---- life-cycle: init
        B.hier->init_symbolic();
        B.hier->init_numeric();
        {
          std::map<int, int> nsym, nnum; int lastlvl = -1; bool order_ok = true;
          for(auto& p : rec.life) { if(p.second == 0) { ++nsym[p.first]; if(p.first / 4 < lastlvl) order_ok = false; lastlvl = p.first / 4; } if(p.second == 1) ++nnum[p.first]; }
          bool once = true;
          for(auto& kv : H.S) if(nsym[kv.first] != 1 || nnum[kv.first] != 1) once = false;
          c.check(once, "hierarchy init: every unique sub-solver initialised exactly once; " + ckey, "init_symbolic/init_numeric count != 1 for a unique solver object");
          c.check(order_ok, "hierarchy init: forward level order; " + ckey, "init_symbolic not in forward level order");
          bool vec_ok = true;
          for(int l = 0; l < n; ++l) { auto& li = B.hier->_get_level_info(Index(l)); if(int(li.vec_rhs.size()) != H.L[size_t(l)].dim || int(li.vec_sol.size()) != H.L[size_t(l)].dim || int(li.vec_def.size()) != H.L[size_t(l)].dim || int(li.vec_cor.size()) != H.L[size_t(l)].dim || int(li.vec_tmp.size()) != H.L[size_t(l)].dim) vec_ok = false; }
          c.check(vec_ok, "hierarchy init: level vectors allocated; " + ckey, "level vector size wrong after init_symbolic");
          c.check(B.hier->have_symbolic() && B.hier->have_numeric() && int(B.hier->size_physical()) == n && int(B.hier->size_virtual()) == n + g, "hierarchy flags; " + ckey, "have_symbolic/have_numeric/size wrong");
        }

        // ---- op alphabet
        std::vector<Cfg> cfgs;
        for(int top = 0; top < n; ++top) for(int crs = top; crs < n + g; ++crs) for(int cyc = 0; cyc < 3; ++cyc) { Cfg f; f.cycle = cyc; f.top = top; f.crs = crs; cfgs.push_back(f); }

        std::set<uint64_t> poskeys;
        uint64_t n_events = 0, n_valid = 0, n_exact = 0, n_tol = 0;
        size_t maxdepth_seen = 0;

        // the coarse level is passed in its negative form (size_virtual + crs < 0) for even top levels
        auto crs_arg = [&](const Cfg& f) { return (f.top % 2 == 0) ? f.crs - (n + g) : f.crs; };
        auto select = [&](MG& mg, const Cfg& f) {
          mg.set_cycle(cyc_enum(f.cycle));
          mg.set_levels(f.top, crs_arg(f));
        };
        auto new_mg = [&](const Cfg& f, bool late = false) {
          // late: default-constructed (V, finest..coarsest) and configured by the setters BEFORE init_symbolic
          std::shared_ptr<MG> mg = late ? Solver::new_multigrid(B.hier) : Solver::new_multigrid(B.hier, cyc_enum(f.cycle), f.top, crs_arg(f));
          if(late) select(*mg, f);
          mg->set_adapt_cgc(adapt == 0 ? Solver::MultiGridAdaptCGC::Fixed : adapt == 1 ? Solver::MultiGridAdaptCGC::MinEnergy : Solver::MultiGridAdaptCGC::MinDefect);
          mg->init_symbolic();
          mg->init_numeric();
          return mg;
        };
        // checks that one (re-)initialisation phase touched every unique sub-solver exactly once
        auto check_life = [&](int phase, const std::string& what) {
          std::map<int, int> cnt;
          for(auto& p : rec.life) if(p.second == phase) ++cnt[p.first];
          bool once = true;
          for(auto& kv : H.S) if(cnt[kv.first] != 1) once = false;
          c.check(once, "hierarchy re-initialisation: every unique sub-solver exactly once; " + ckey, [&]{ return what; });
        };
        auto plain_apply = [&](MG& mg, const Cfg& f, int which) {
          const LvlSpec& T = H.L[size_t(f.top)];
          std::vector<double> dv = make_defect(T, which % (T.dim + 2));
          Vec def(Index(T.dim)), cor(Index(T.dim), 77.0);
          for(int i = 0; i < T.dim; ++i) def(Index(i), dv[size_t(i)]);
          rec.ctr = nullptr;
          rec.ev.clear();
          mg.apply(cor, def);
        };

        // one validated application
        auto validate = [&](MG& mg, size_t ci, int which, const std::string& hist) {
          const Cfg& f = cfgs[ci];
          const HSpec& H = *Hcur; // (shadows the case's original specification: the values currently loaded)
          const LvlSpec& T = H.L[size_t(f.top)];
          const std::string key = std::string(1, CYC[f.cycle]) + " top=" + std::to_string(f.top) + " crs=" + std::to_string(f.crs) + "; " + ckey;
          std::vector<double> dv = make_defect(T, which);
          Vec def(Index(T.dim)), cor(Index(T.dim), 77.0);
          for(int i = 0; i < T.dim; ++i) def(Index(i), dv[size_t(i)]);
          const std::vector<int> entry = mg._counters;
          rec.ev.clear(); rec.bad.clear();
          rec.ctr = &mg._counters;
          Solver::Status st = mg.apply(cor, def);
          rec.ctr = nullptr;
          ++n_valid;
          n_events += rec.ev.size();
          auto where = [&]{ return " [history " + hist + " defect#" + std::to_string(which) + "]"; };
          c.check(st == Solver::Status::success, "status; " + key, [&]{ return "apply did not return success" + where(); });
          bool def_same = true; for(int i = 0; i < T.dim; ++i) if(def(Index(i)) != dv[size_t(i)]) def_same = false;
          c.check(def_same && int(def.size()) == T.dim, "defect vector modified; " + key, [&]{ return "input defect changed by apply" + where(); });
          c.check(rec.bad.empty(), "sub-object called illegally; " + key, [&]{ return rec.bad[0] + where(); });
          c.check(mg.get_top_level() == Index(f.top) && mg.get_crs_level() == Index(f.crs) && mg.get_cycle() == cyc_enum(f.cycle), "level/cycle selection; " + key, [&]{ return "getters disagree with the selected cycle/levels" + where(); });

          // reference
          Ref ref(H, f.cycle, f.top, f.crs, adapt);
          LV b(size_t(T.dim)); for(int i = 0; i < T.dim; ++i) b[size_t(i)] = dv[size_t(i)];
          LV x = ref.run(b);

          // (1) event trace
          bool trace_ok = (rec.ev.size() == ref.ev.size());
          size_t firstdiff = 0;
          for(size_t i = 0; i < std::min(rec.ev.size(), ref.ev.size()); ++i)
            if(rec.ev[i].lvl != ref.ev[i].lvl || rec.ev[i].op != ref.ev[i].op || rec.ev[i].obj != ref.ev[i].obj) { trace_ok = false; firstdiff = i; break; }
          if(trace_ok == false && firstdiff == 0 && rec.ev.size() != ref.ev.size()) { firstdiff = std::min(rec.ev.size(), ref.ev.size()); for(size_t i = 0; i < firstdiff; ++i) if(rec.ev[i].lvl != ref.ev[i].lvl || rec.ev[i].op != ref.ev[i].op || rec.ev[i].obj != ref.ev[i].obj) { firstdiff = i; break; } }
          c.check(trace_ok, "event trace; " + key, [&]{
            std::string s = "impl " + std::to_string(rec.ev.size()) + " events, reference " + std::to_string(ref.ev.size()) + "; first difference at #" + std::to_string(firstdiff) + ": impl=";
            s += firstdiff < rec.ev.size() ? ev_str(rec.ev[firstdiff].lvl, rec.ev[firstdiff].op, rec.ev[firstdiff].obj) : std::string("<end>");
            s += " ref=";
            s += firstdiff < ref.ev.size() ? ev_str(ref.ev[firstdiff].lvl, ref.ev[firstdiff].op, ref.ev[firstdiff].obj) + "(" + ref.ev[firstdiff].role + ")" : std::string("<end>");
            return s + where(); });

          // (1b) closed forms on the implementation trace alone: number of coarse visits, peak level sequence
          {
            const int last = std::min(f.crs, n), Lv = last - f.top;
            std::vector<std::pair<int, int>> tr; // transfer-only sub-trace: (+1 up / -1 down, level)
            for(auto& e : rec.ev) if(e.op != OP_SOLVER) tr.push_back(std::make_pair((e.op == OP_PROL || e.op == OP_RECV) ? 1 : -1, e.lvl));
            long visits = 0; std::vector<int> peaks;
            for(size_t i = 0; i < tr.size(); ++i)
            {
              if(tr[i].first < 0 && tr[i].second == last - 1) ++visits;
              if(i + 1 < tr.size() && tr[i].first > 0 && tr[i + 1].first < 0 && tr[i].second == tr[i + 1].second) peaks.push_back(tr[i].second);
            }
            long ev_visits = (Lv == 0) ? 0 : (f.cycle == 0 ? 1 : f.cycle == 1 ? Lv : (1L << Lv));
            std::vector<int> ev_peaks;
            if(f.cycle == 1) for(int p = last - 1; p > f.top; --p) ev_peaks.push_back(p);
            if(f.cycle == 2) for(long j = 1; j < (1L << Lv); ++j) ev_peaks.push_back(last - 1 - __builtin_ctzl((unsigned long)j));
            c.check(visits == ev_visits, "number of coarse visits; " + key, [&]{ return "coarse level visited " + std::to_string(visits) + " times, documented " + std::to_string(ev_visits) + where(); });
            c.check(peaks == ev_peaks, "peak level order; " + key, [&]{ std::string s = "peaks:"; for(int p : peaks) s += " " + std::to_string(p); s += " documented:"; for(int p : ev_peaks) s += " " + std::to_string(p); return s + where(); });
            if(H.L[size_t(last < n ? last : n - 1)].obj[3] >= 0 && last < n)
            {
              long cev = 0; for(auto& e : rec.ev) if(e.op == OP_SOLVER && e.lvl == last && e.obj == H.L[size_t(last)].obj[3] && (Lv == 0 || true)) ++cev;
              // with an aliased coarse==pre object on the coarse level the object is only used as coarse solver there
              c.check(cev == (Lv == 0 ? 1 : ev_visits), "number of coarse solves; " + key, [&]{ return "coarse solver applied " + std::to_string(cev) + " times" + where(); });
            }
            c.outcome(std::string(1, CYC[f.cycle]) + " L=" + std::to_string(Lv) + (f.crs >= n ? " ghost" : ""));
            if(Lv > 0) c.nontrivial(verif::Hash().pod(chash).pod(f.cycle).pod(f.top).pod(f.crs).get());
          }

          // (1c) position-in-cycle states and the W counters (binary counter of completed coarse visits)
          if(trace_ok)
          {
            const int last = std::min(f.crs, n), Lv = last - f.top;
            bool ctr_ok = true; size_t bad_i = 0;
            for(size_t i = 0; i < rec.ev.size(); ++i)
            {
              const std::vector<int>& ct = rec.ev[i].ctr;
              if(f.cycle == 2)
              {
                // the documented reset "at the beginning of each W-cycle" may happen anywhere before the first peak is chosen:
                // during the initial descent (no coarse visit completed) the counters are either still the entry values or zero
                const long k = std::min<long>(ref.ev[i].k, (1L << Lv) - 1);
                bool zero_or_bits = true, is_entry = (ct == entry);
                for(int l = f.top; l < last; ++l) if(ct[size_t(l)] != int((k >> (last - 1 - l)) & 1)) zero_or_bits = false;
                if(!(zero_or_bits || (k == 0 && is_entry))) { if(ctr_ok) bad_i = i; ctr_ok = false; }
              }
              else if(ct != entry) { if(ctr_ok) bad_i = i; ctr_ok = false; }
              verif::Hash h; h.pod(ci).pod(i);
              for(int l = f.top; l < last; ++l) h.pod(ct[size_t(l)]);
              poskeys.insert(h.get());
            }
            c.check(ctr_ok, "W-cycle peak counters; " + key, [&]{
              std::string s = "at event #" + std::to_string(bad_i) + " (" + ev_str(rec.ev[bad_i].lvl, rec.ev[bad_i].op, rec.ev[bad_i].obj) + ", " + std::to_string(ref.ev[bad_i].k) + " coarse visits done) counters =";
              for(int v : rec.ev[bad_i].ctr) s += " " + std::to_string(v);
              return s + where(); });
          }

          // (2) result vector
          if(ref.undefined)
          {
            // A coarse grid correction vanished (to rounding) although it entered a step length computation: the minimiser
            // is not unique, mathematically 0/0. The implementation then either divides rounding noise (arbitrary finite
            // step) or 0/0 = NaN if the correction vanished exactly. Not comparable; the exactly-zero class (zero defect)
            // is tested and reported once by the dedicated case 1.
            c.excluded("adaptive CGC with vanishing coarse grid correction: step length 0/0 undefined (see case 1)");
            return;
          }
          const bool exact = ref.tr.exact_in_double();
          // scale of the rounding errors: the largest sum of absolute values of the terms of any inner product of the
          // reference evaluation (configurations without a coarse solver on the Poisson levels are far from contractive:
          // large intermediate values cancel in the result)
          LD scale = ref.tr.mmax; for(LD t : x) scale = std::max(scale, fabsl(t));
          bool num_ok = true; int bad = -1;
          for(int i = 0; i < T.dim; ++i)
          {
            const LD v = (LD)cor(Index(i));
            const bool ok = exact ? (v == x[size_t(i)]) : (fabsl(v - x[size_t(i)]) <= 1e-12L * scale);
            if(!ok) { num_ok = false; if(bad < 0) bad = i; }
          }
          LD sens = 0.0L;
          if(!exact && !num_ok)
          {
            // rounding sensitivity of this (configuration, defect): distance between the long double reference and the same
            // reference evaluated in emulated double precision; a correct double implementation may differ by a comparable amount
            Ref refd(H, f.cycle, f.top, f.crs, adapt);
            refd.tr.dbl = true;
            LV xd = refd.run(b);
            for(int i = 0; i < T.dim; ++i) sens = std::max(sens, fabsl(xd[size_t(i)] - x[size_t(i)]));
            num_ok = std::isfinite((double)sens) && !refd.undefined; bad = -1;
            for(int i = 0; i < T.dim && num_ok; ++i) if(!(fabsl((LD)cor(Index(i)) - x[size_t(i)]) <= 1e-12L * scale + 64.0L * sens)) { num_ok = false; bad = i; }
            if(bad < 0 && !num_ok) bad = 0;
            c.count("results_compared_with_sensitivity_bound");
          }
          if(exact) ++n_exact; else ++n_tol;
          c.check(num_ok, std::string("result vector (") + (exact ? "bitwise" : "1e-12") + "); " + key, [&]{
            char buf[300]; snprintf(buf, sizeof buf, "component %d: impl %.17g reference %.17Lg (rounding sensitivity %.3Lg)", bad, cor(Index(bad)), x[size_t(bad)], sens);
            return std::string(buf) + where(); });

          // (2b) adaptive CGC on a bare two-level configuration: the step length is a minimiser by definition
          if(adapt != 0 && num_ok && which <= T.dim + 2 && f.cycle == 0 && std::min(f.crs, n) - f.top == 1 && H.L[size_t(f.top)].obj[0] < 0 && H.L[size_t(f.top)].obj[1] < 0 && ref.omegas.size() == 1)
          {
            // x = omega * c  with c the filtered prolongated coarse solution: recompute c with omega := 1
            Ref r1(H, f.cycle, f.top, f.crs, 0);
            LV cc = r1.run(b);
            int im = 0; for(int i = 0; i < T.dim; ++i) if(fabsl(cc[size_t(i)]) > fabsl(cc[size_t(im)])) im = i;
            if(cc[size_t(im)] != 0.0L)
            {
              const LD w = (LD)cor(Index(im)) / cc[size_t(im)];
              Ref rr(H, 0, f.top, f.crs, 0);
              LV Ac = Ref::mask(T.fd, rr.matvec(T.A, cc));
              auto J = [&](LD om) {
                if(adapt == 1) { LD q = 0, l = 0; for(int i = 0; i < T.dim; ++i) { q += Ac[size_t(i)] * cc[size_t(i)]; l += b[size_t(i)] * cc[size_t(i)]; } return 0.5L * om * om * q - om * l; }
                LD s = 0; for(int i = 0; i < T.dim; ++i) { LD r = b[size_t(i)] - om * Ac[size_t(i)]; s += r * r; } return s; };
              const LD j0 = J(w), jp = J(w * 1.001L + 1e-6L), jm = J(w * 0.999L - 1e-6L);
              // (energy functional is convex only if <Ac,c> > 0, which holds for the SPD level matrices used)
              c.check(j0 <= jp + 1e-15L && j0 <= jm + 1e-15L, "adaptive CGC step is not the minimiser; " + key, [&]{ char buf[200]; snprintf(buf, sizeof buf, "omega=%.15Lg J(omega)=%.15Lg J(omega+)=%.15Lg J(omega-)=%.15Lg", w, j0, jp, jm); return std::string(buf) + where(); });
              c.count("adaptive_minimiser_checks");
            }
          }
        };

        // ---- BFS over histories, states keyed by the counter vector
        const bool core5_ = (pi == 0 || pi == 3 || pi == 7 || pi == 10 || pi == 12);
        const size_t maxdepth = c.thorough ? (n <= 4 ? 99 : n == 5 ? 3 : ((core5_ && vs == 0) ? 2 : 1)) : (n <= 4 ? 99 : 1); // histories longer than this are not expanded
        std::map<std::vector<int>, std::vector<size_t>> seen; // counters -> history reaching it
        std::deque<std::vector<size_t>> queue;
        seen[std::vector<int>(size_t(n + g), 0)] = std::vector<size_t>();
        queue.push_back(std::vector<size_t>());
        uint64_t n_states = 0, n_ops = 0;
        while(!queue.empty() && !c.cut())
        {
          std::vector<size_t> hist = queue.front(); queue.pop_front();
          ++n_states;
          maxdepth_seen = std::max(maxdepth_seen, hist.size());
          for(size_t ci = 0; ci < cfgs.size(); ++ci)
          {
            c.heartbeat();
            std::shared_ptr<MG> mg = new_mg(hist.empty() ? cfgs[ci] : cfgs[hist[0]], (ci + hist.size()) % 2 == 1);
            std::string hs;
            for(size_t h = 0; h < hist.size(); ++h)
            {
              if(h > 0) select(*mg, cfgs[hist[h]]);
              plain_apply(*mg, cfgs[hist[h]], int(h + ci));
              hs += std::string(1, CYC[cfgs[hist[h]].cycle]) + "(" + std::to_string(cfgs[hist[h]].top) + "," + std::to_string(cfgs[hist[h]].crs) + ") ";
            }
            if(!hist.empty()) select(*mg, cfgs[ci]);
            const int dim = H.L[size_t(cfgs[ci].top)].dim;
            if(hist.empty())
            {
              // all unit defects (a sub-family for the larger Poisson levels) + two dense ones, then one more time (repeated application)
              // (plus an all-negative one and defects of extreme magnitude)
              for(int w = 0; w < dim + (adapt == 0 ? 7 : 5); ++w)
              {
                if(dim > 8 && w < dim && !(w == 0 || w == 1 || w == dim / 2 || w == dim - 1)) continue;
                validate(*mg, ci, w, hs);
              }
              validate(*mg, ci, dim, hs + "(repeat) ");
              // a second MultiGrid object on the same hierarchy works in between (shared level vectors are don't-care state)
              {
                const Cfg& fb = cfgs[(ci + 5) % cfgs.size()];
                std::shared_ptr<MG> by = new_mg(fb);
                plain_apply(*by, fb, dim + 1); // (the same defect as the next validated application if the top levels coincide)
                validate(*mg, ci, dim + 1, hs + "[bystander MultiGrid applied] ");
                plain_apply(*by, fb, int(ci + 1));
                by->done_numeric(); by->done_symbolic();
                c.count("bystander_histories");
              }
              // the operators change, hierarchy and solver are re-initialised numerically: same defect, new linear map
              {
                mg->done_numeric();
                B.hier->done_numeric();
                B.load_values(H2); Hcur = &H2;
                rec.life.clear();
                B.hier->init_numeric();
                mg->init_numeric();
                check_life(1, "init_numeric after done_numeric");
                validate(*mg, ci, dim, hs + "apply; values updated + numeric re-init; ");
                validate(*mg, ci, dim + 1, hs + "apply; values updated + numeric re-init; apply; ");
                // full symbolic + numeric re-initialisation of solver and hierarchy, original values restored
                mg->done_numeric(); mg->done_symbolic();
                rec.life.clear();
                B.hier->done_numeric(); B.hier->done_symbolic();
                check_life(2, "done_numeric"); check_life(3, "done_symbolic");
                B.load_values(H); Hcur = &H;
                rec.life.clear();
                B.hier->init_symbolic(); B.hier->init_numeric();
                check_life(0, "init_symbolic after done_symbolic"); check_life(1, "init_numeric after done_symbolic");
                mg->init_symbolic(); mg->init_numeric();
                validate(*mg, ci, dim, hs + "apply; update; re-init; apply; values restored + full re-init; ");
                c.count("reinit_histories");
              }
            }
            else
            {
              validate(*mg, ci, dim + int((ci + hist.size()) % 2), hs);
              validate(*mg, ci, int((ci * 7 + hist[0]) % size_t(dim)), hs + "(repeat) ");
            }
            ++n_ops;
            std::vector<int> keyv = mg->_counters;
            mg->done_numeric();
            mg->done_symbolic();
            if(!seen.count(keyv))
            {
              std::vector<size_t> h2 = hist; h2.push_back(ci);
              seen[keyv] = h2;
              if(h2.size() <= maxdepth) queue.push_back(h2);
            }
          }
        }
        c.count("bfs_states", n_states);
        c.count("bfs_distinct_counter_vectors", seen.size());
        c.count("bfs_ops", n_ops);
        c.count("states", poskeys.size());
        c.count("transitions", n_events);
        c.count("traces_validated_against_impl", n_valid);
        c.count("results_compared_bitwise", n_exact);
        c.count("results_compared_1e-12", n_tol);
        c.count("filter_calls", rec.fdef + rec.fcor);
        c.maxi("depth", maxdepth_seen + 1);

        // ---- life-cycle: done
        rec.life.clear();
        B.hier->done_numeric();
        B.hier->done_symbolic();
        {
          std::map<int, int> nsym, nnum; int lastlvl = 1 << 20; bool order_ok = true;
          for(auto& p : rec.life) { if(p.second == 3) { ++nsym[p.first]; if(p.first / 4 > lastlvl) order_ok = false; lastlvl = p.first / 4; } if(p.second == 2) ++nnum[p.first]; }
          bool once = true;
          for(auto& kv : H.S) if(nsym[kv.first] != 1 || nnum[kv.first] != 1) once = false;
          c.check(once, "hierarchy done: every unique sub-solver released exactly once; " + ckey, "done_symbolic/done_numeric count != 1 for a unique solver object");
          c.check(order_ok, "hierarchy done: reverse level order; " + ckey, "done_symbolic not in reverse level order");
          bool vec_ok = true;
          for(int l = 0; l < n; ++l) { auto& li = B.hier->_get_level_info(Index(l)); if(li.vec_rhs.size() || li.vec_sol.size() || li.vec_def.size() || li.vec_cor.size() || li.vec_tmp.size()) vec_ok = false; }
          c.check(vec_ok, "hierarchy done: level vectors released; " + ckey, "level vectors still allocated after done_symbolic");
          c.check(!B.hier->have_symbolic() && !B.hier->have_numeric(), "hierarchy flags after done; " + ckey, "have_symbolic/have_numeric still set");
        }
      }
    }
  });
}
