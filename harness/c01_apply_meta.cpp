// C01 (part 3): mat-vec products of the composed (meta) matrices
//   TupleMatrix, TupleDiagMatrix, PowerDiag/Full/Row/ColMatrix, SaddlePointMatrix (flat and nested)
// with SparseMatrixCSR leaves, through the native (Tuple/Power vector) and the DenseVector interface,
// for ALL sparsity patterns of the whole (small) matrix, against a dense long-double oracle.
#include <c01_common.hpp>
#include <kernel/lafem/tuple_matrix.hpp>
#include <kernel/lafem/tuple_diag_matrix.hpp>
#include <kernel/lafem/power_diag_matrix.hpp>
#include <kernel/lafem/power_full_matrix.hpp>
#include <kernel/lafem/power_row_matrix.hpp>
#include <kernel/lafem/power_col_matrix.hpp>
#include <kernel/lafem/saddle_point_matrix.hpp>

using namespace c01;

namespace
{
  template<typename DT, typename IT> std::string tp() { return std::string(dtname<DT>()) + "," + itname<IT>(); }

  /// block (i0..i1) x (j0..j1) of D (values keep their global coding)
  DenseRef sub(const DenseRef& D, int i0, int i1, int j0, int j1)
  {
    DenseRef s(i1 - i0, j1 - j0);
    for(int i = i0; i < i1; ++i) for(int j = j0; j < j1; ++j) if(D.has(i, j)) s.set(i - i0, j - j0, D.at(i, j));
    return s;
  }

  /// description of one composed matrix kind: size of the whole matrix and the positions that may carry entries
  struct Layout
  {
    std::string name; int m, n;
    std::vector<std::pair<int, int>> free; // positions enumerated (all others are structurally zero)
    void all() { for(int i = 0; i < m; ++i) for(int j = 0; j < n; ++j) free.push_back({i, j}); }
    void block(int i0, int i1, int j0, int j1) { for(int i = i0; i < i1; ++i) for(int j = j0; j < j1; ++j) free.push_back({i, j}); }
  };

  /**
   * Generic enumeration for one composed matrix type.
   *  build(D, rep)      -> the FEAT matrix (leaves cut out of D; blocks without entries use representation rep)
   *  leaves(A, h)       -> hashes all leaf containers
   *  iface 0: native vector types (create_vector_l/r), iface 1: DenseVector
   */
  template<typename DT, typename IT, typename M, bool has_dense_iface, typename Build, typename Leaves>
  void enum_meta(verif::Ctx& c, const Layout& L, Build&& build, Leaves&& leaves)
  {
    typedef DenseVector<DT, IT> DV;
    typedef typename M::VectorTypeL VL; typedef typename M::VectorTypeR VR;
    const auto ops = apply_cases(true);
    const int nb = int(L.free.size());
    // size classes: <= 8 pattern bits: all 9 variants; 9-10 bits: alphabets + history + views + weak clone;
    // > 10 bits (the layouts with pairwise different block dimensions): quick = exact + rounding alphabet on fresh objects with entry-free empty blocks,
    // thorough = alphabets + history + weak clone, both empty-block representations
    const bool mid = (nb >= 9 && nb <= 10), big = (nb > 10), isd = std::is_same<DT, double>::value;
    std::vector<Variant> mvars = {{0, S_BASE}, {1, S_BASE}, {2, S_BASE}, {3, S_BASE}, {0, S_HIST}, {0, S_VIEW}, {0, S_CLONE_DEEP}, {0, S_CLONE_WEAK}, {0, S_MOVE}};
    if(mid) mvars = {{0, S_BASE}, {1, S_BASE}, {2, S_BASE}, {3, S_BASE}, {0, S_HIST}, {0, S_VIEW}, {0, S_CLONE_WEAK}};
    if(big && !c.thorough && !isd) return; // quick: the large layouts with (double,u64) only
    if(big) { if(c.thorough) mvars = {{0, S_BASE}, {1, S_BASE}, {2, S_BASE}, {3, S_BASE}, {0, S_HIST}, {0, S_CLONE_WEAK}}; else mvars = {{0, S_BASE}, {1, S_BASE}}; }
    for(uint64_t bits = 0; bits < (uint64_t(1) << nb); ++bits)
      for(int rep = 0; rep < 2; ++rep)
        for(int iface = 0; iface < (has_dense_iface ? 2 : 1); ++iface)
          for(const Variant& var : mvars)
            for(const ApplyCase& op0 : ops)
            {
              if(var.scenario == S_VIEW && iface == 0) continue; // sub-range views exist for DenseVector operands only
              if(var.scenario != S_BASE && rep == 1) continue;    // scenarios with one representation of empty blocks
              if(var.scenario != S_BASE && !isd) continue; // scenarios with (double,u64) only
              if(big && !c.thorough && rep == 1) continue;
              if(!isd && ((big && var.alphabet != 0) || (mid && var.alphabet > 1))) continue;
              if(!c.want()) continue;
              set_extreme_exp<DT>();
              const int alphabet = var.alphabet;
              ApplyCase op = op0; op.alphabet = alphabet; op.scenario = var.scenario;
              DenseRef D(L.m, L.n);
              for(int q = 0; q < nb; ++q) if((bits >> q) & 1u) D.set(L.free[size_t(q)].first, L.free[size_t(q)].second, aval(alphabet, L.free[size_t(q)].first, L.free[size_t(q)].second));
              const std::string kind = L.name + (iface ? " dense-iface" : " native-iface");
              c.desc([&]{ return L.name + "<" + tp<DT, IT>() + "> " + D.str() + " empty-block-rep=" + (rep ? "allocated" : "entry-free") + (iface ? " DenseVector interface " : " native vectors ") + op.str(); });
              M A0 = build(D, rep);
              // derived object of the composed matrix (lesson 3); A0 stays alive and must be unchanged
              M A = (var.scenario == S_CLONE_DEEP) ? A0.clone(CloneMode::Deep) : (var.scenario == S_CLONE_WEAK) ? A0.clone(CloneMode::Weak) : A0.clone(CloneMode::Shallow);
              if(var.scenario == S_MOVE) { M tmp = A0.clone(CloneMode::Deep); M moved(std::move(tmp)); A = std::move(moved); }
              if(var.scenario >= S_CLONE_DEEP) c.count("derived_object_cases");
              auto mh = [&]{ verif::Hash h; leaves(A0, h); leaves(A, h); return h.get(); };
              if(var.scenario == S_HIST)
              {
                // the counterpart operation (other transposedness, native vectors) on the same object first
                VL hl = A.create_vector_l(); VR hr = A.create_vector_r();
                if(op.transposed) { hr.format(DT(3)); A.apply(hl, hr); } else { hl.format(DT(5)); A.apply_transposed(hr, hl); }
              }
              if(iface == 1)
              {
                if constexpr(has_dense_iface)
                {
                DV r(Index(op.transposed ? L.n : L.m)), y(Index(op.transposed ? L.n : L.m)), x(Index(op.transposed ? L.m : L.n));
                check_apply(c, kind, D, op, r, y, x,
                  [&](int mode, DV& rr, const DV& xx, const DV& yy, DT al) {
                    if(op.transposed) { if(mode == 0) A.apply_transposed(rr, xx); else A.apply_transposed(rr, xx, yy, al); }
                    else { if(mode == 0) A.apply(rr, xx); else A.apply(rr, xx, yy, al); } },
                  mh);
                }
              }
              else if(op.transposed)
              {
                VR r = A.create_vector_r(), y = A.create_vector_r(); VL x = A.create_vector_l();
                check_apply(c, kind, D, op, r, y, x,
                  [&](int mode, VR& rr, const VL& xx, const VR& yy, DT al) { if(mode == 0) A.apply_transposed(rr, xx); else A.apply_transposed(rr, xx, yy, al); },
                  mh);
              }
              else
              {
                VL r = A.create_vector_l(), y = A.create_vector_l(); VR x = A.create_vector_r();
                check_apply(c, kind, D, op, r, y, x,
                  [&](int mode, VL& rr, const VR& xx, const VL& yy, DT al) { if(mode == 0) A.apply(rr, xx); else A.apply(rr, xx, yy, al); },
                  mh);
              }
              const bool early = (bits == 0) || (op.mode && fabsl(scalars[op.alpha].v) < 1e-10L);
              if(!early) c.nontrivial(verif::Hash().str(L.name).str(tp<DT, IT>()).pod(bits).pod(rep).pod(iface).pod(op.transposed).pod(op.mode).pod(op.alpha).pod(var).get());
              c.outcome(L.name.substr(0, L.name.find('<')) + "/" + op.name() + (iface ? " dense" : " native") + (early ? " early-out" : ""));
              c.count("applies");
            }
  }

  template<typename DT, typename IT>
  void enum_all(verif::Ctx& c)
  {
    typedef SparseMatrixCSR<DT, IT> CSR;
    auto hl = [](const CSR& a, verif::Hash& h) { hash_container(a, h); };

    // ---- TupleMatrix 2x2 of CSR, unequal block dimensions rows (1,2) x cols (2,1)  (native interface only)
    {
      typedef TupleMatrix<TupleMatrixRow<CSR, CSR>, TupleMatrixRow<CSR, CSR>> M;
      Layout L; L.name = "TupleMatrix<rows(1,2) cols(2,1)>"; L.m = 3; L.n = 3; L.all();
      enum_meta<DT, IT, M, false>(c, L,
        [&](const DenseRef& D, int rep) { M A;
          A.template at<0, 0>() = build_csr<DT, IT>(sub(D, 0, 1, 0, 2), rep); A.template at<0, 1>() = build_csr<DT, IT>(sub(D, 0, 1, 2, 3), rep);
          A.template at<1, 0>() = build_csr<DT, IT>(sub(D, 1, 3, 0, 2), rep); A.template at<1, 1>() = build_csr<DT, IT>(sub(D, 1, 3, 2, 3), rep); return A; },
        [&](const M& A, verif::Hash& h) { hl(A.template at<0, 0>(), h); hl(A.template at<0, 1>(), h); hl(A.template at<1, 0>(), h); hl(A.template at<1, 1>(), h); });
    }
    // ---- TupleMatrix 3 rows x 2 cols with 1x1.. blocks rows (1,1,1) cols (1,2) (recursion depth 3)
    {
      typedef TupleMatrix<TupleMatrixRow<CSR, CSR>, TupleMatrixRow<CSR, CSR>, TupleMatrixRow<CSR, CSR>> M;
      Layout L; L.name = "TupleMatrix<rows(1,1,1) cols(1,2)>"; L.m = 3; L.n = 3; L.all();
      enum_meta<DT, IT, M, false>(c, L,
        [&](const DenseRef& D, int rep) { M A;
          A.template at<0, 0>() = build_csr<DT, IT>(sub(D, 0, 1, 0, 1), rep); A.template at<0, 1>() = build_csr<DT, IT>(sub(D, 0, 1, 1, 3), rep);
          A.template at<1, 0>() = build_csr<DT, IT>(sub(D, 1, 2, 0, 1), rep); A.template at<1, 1>() = build_csr<DT, IT>(sub(D, 1, 2, 1, 3), rep);
          A.template at<2, 0>() = build_csr<DT, IT>(sub(D, 2, 3, 0, 1), rep); A.template at<2, 1>() = build_csr<DT, IT>(sub(D, 2, 3, 1, 3), rep); return A; },
        [&](const M& A, verif::Hash& h) { hl(A.template at<0, 0>(), h); hl(A.template at<0, 1>(), h); hl(A.template at<1, 0>(), h); hl(A.template at<1, 1>(), h); hl(A.template at<2, 0>(), h); hl(A.template at<2, 1>(), h); });
    }
    // ---- TupleDiagMatrix<CSR,CSR>: diagonal blocks 1x2 and 2x2 (rectangular first block)
    {
      typedef TupleDiagMatrix<CSR, CSR> M;
      Layout L; L.name = "TupleDiagMatrix<1x2,2x2>"; L.m = 3; L.n = 4; L.block(0, 1, 0, 2); L.block(1, 3, 2, 4);
      enum_meta<DT, IT, M, true>(c, L,
        [&](const DenseRef& D, int rep) { M A; A.template at<0, 0>() = build_csr<DT, IT>(sub(D, 0, 1, 0, 2), rep); A.template at<1, 1>() = build_csr<DT, IT>(sub(D, 1, 3, 2, 4), rep); return A; },
        [&](const M& A, verif::Hash& h) { hl(A.template at<0, 0>(), h); hl(A.template at<1, 1>(), h); });
    }
    // ---- PowerDiagMatrix<CSR,2>: blocks 2x1 / 1x2 / 2x2
    for(int v = 0; v < 3; ++v)
    {
      typedef PowerDiagMatrix<CSR, 2> M;
      const int bm = (v == 1) ? 1 : 2, bn = (v == 0) ? 1 : 2;
      Layout L; L.name = "PowerDiagMatrix<2 blocks " + std::to_string(bm) + "x" + std::to_string(bn) + ">"; L.m = 2 * bm; L.n = 2 * bn;
      L.block(0, bm, 0, bn); L.block(bm, 2 * bm, bn, 2 * bn);
      enum_meta<DT, IT, M, true>(c, L,
        [&](const DenseRef& D, int rep) { M A; A.template at<0, 0>() = build_csr<DT, IT>(sub(D, 0, bm, 0, bn), rep); A.template at<1, 1>() = build_csr<DT, IT>(sub(D, bm, 2 * bm, bn, 2 * bn), rep); return A; },
        [&](const M& A, verif::Hash& h) { hl(A.template at<0, 0>(), h); hl(A.template at<1, 1>(), h); });
    }
    // ---- PowerFullMatrix<CSR,2,2>: blocks 1x2 and 2x1
    for(int v = 0; v < 2; ++v)
    {
      typedef PowerFullMatrix<CSR, 2, 2> M;
      const int bm = v ? 2 : 1, bn = v ? 1 : 2;
      Layout L; L.name = "PowerFullMatrix<2x2 blocks " + std::to_string(bm) + "x" + std::to_string(bn) + ">"; L.m = 2 * bm; L.n = 2 * bn; L.all();
      enum_meta<DT, IT, M, true>(c, L,
        [&](const DenseRef& D, int rep) { M A;
          A.template at<0, 0>() = build_csr<DT, IT>(sub(D, 0, bm, 0, bn), rep); A.template at<0, 1>() = build_csr<DT, IT>(sub(D, 0, bm, bn, 2 * bn), rep);
          A.template at<1, 0>() = build_csr<DT, IT>(sub(D, bm, 2 * bm, 0, bn), rep); A.template at<1, 1>() = build_csr<DT, IT>(sub(D, bm, 2 * bm, bn, 2 * bn), rep); return A; },
        [&](const M& A, verif::Hash& h) { hl(A.template at<0, 0>(), h); hl(A.template at<0, 1>(), h); hl(A.template at<1, 0>(), h); hl(A.template at<1, 1>(), h); });
    }
    // ---- PowerRowMatrix<CSR,2> blocks 2x2 ; PowerRowMatrix<CSR,3> blocks 2x1 and 1x2
    {
      typedef PowerRowMatrix<CSR, 2> M;
      Layout L; L.name = "PowerRowMatrix<2 blocks 2x2>"; L.m = 2; L.n = 4; L.all();
      enum_meta<DT, IT, M, true>(c, L,
        [&](const DenseRef& D, int rep) { M A; A.template at<0, 0>() = build_csr<DT, IT>(sub(D, 0, 2, 0, 2), rep); A.template at<0, 1>() = build_csr<DT, IT>(sub(D, 0, 2, 2, 4), rep); return A; },
        [&](const M& A, verif::Hash& h) { hl(A.template at<0, 0>(), h); hl(A.template at<0, 1>(), h); });
    }
    for(int v = 0; v < 2; ++v)
    {
      typedef PowerRowMatrix<CSR, 3> M;
      const int bm = v ? 1 : 2, bn = v ? 2 : 1;
      Layout L; L.name = "PowerRowMatrix<3 blocks " + std::to_string(bm) + "x" + std::to_string(bn) + ">"; L.m = bm; L.n = 3 * bn; L.all();
      enum_meta<DT, IT, M, true>(c, L,
        [&](const DenseRef& D, int rep) { M A; A.template at<0, 0>() = build_csr<DT, IT>(sub(D, 0, bm, 0, bn), rep); A.template at<0, 1>() = build_csr<DT, IT>(sub(D, 0, bm, bn, 2 * bn), rep);
          A.template at<0, 2>() = build_csr<DT, IT>(sub(D, 0, bm, 2 * bn, 3 * bn), rep); return A; },
        [&](const M& A, verif::Hash& h) { hl(A.template at<0, 0>(), h); hl(A.template at<0, 1>(), h); hl(A.template at<0, 2>(), h); });
    }
    // ---- PowerColMatrix<CSR,2> blocks 2x2 ; PowerColMatrix<CSR,3> blocks 2x1 and 1x2
    {
      typedef PowerColMatrix<CSR, 2> M;
      Layout L; L.name = "PowerColMatrix<2 blocks 2x2>"; L.m = 4; L.n = 2; L.all();
      enum_meta<DT, IT, M, true>(c, L,
        [&](const DenseRef& D, int rep) { M A; A.template at<0, 0>() = build_csr<DT, IT>(sub(D, 0, 2, 0, 2), rep); A.template at<1, 0>() = build_csr<DT, IT>(sub(D, 2, 4, 0, 2), rep); return A; },
        [&](const M& A, verif::Hash& h) { hl(A.template at<0, 0>(), h); hl(A.template at<1, 0>(), h); });
    }
    for(int v = 0; v < 2; ++v)
    {
      typedef PowerColMatrix<CSR, 3> M;
      const int bm = v ? 1 : 2, bn = v ? 2 : 1;
      Layout L; L.name = "PowerColMatrix<3 blocks " + std::to_string(bm) + "x" + std::to_string(bn) + ">"; L.m = 3 * bm; L.n = bn; L.all();
      enum_meta<DT, IT, M, true>(c, L,
        [&](const DenseRef& D, int rep) { M A; A.template at<0, 0>() = build_csr<DT, IT>(sub(D, 0, bm, 0, bn), rep); A.template at<1, 0>() = build_csr<DT, IT>(sub(D, bm, 2 * bm, 0, bn), rep);
          A.template at<2, 0>() = build_csr<DT, IT>(sub(D, 2 * bm, 3 * bm, 0, bn), rep); return A; },
        [&](const M& A, verif::Hash& h) { hl(A.template at<0, 0>(), h); hl(A.template at<1, 0>(), h); hl(A.template at<2, 0>(), h); });
    }
    // ---- SaddlePointMatrix<CSR,CSR,CSR>: A 2x2, B 2x1, D 1x2
    {
      typedef SaddlePointMatrix<CSR, CSR, CSR> M;
      Layout L; L.name = "SaddlePointMatrix<A2x2,B2x1,D1x2>"; L.m = 3; L.n = 3; L.block(0, 2, 0, 2); L.block(0, 2, 2, 3); L.block(2, 3, 0, 2);
      enum_meta<DT, IT, M, true>(c, L,
        [&](const DenseRef& D, int rep) { M A; A.block_a() = build_csr<DT, IT>(sub(D, 0, 2, 0, 2), rep); A.block_b() = build_csr<DT, IT>(sub(D, 0, 2, 2, 3), rep); A.block_d() = build_csr<DT, IT>(sub(D, 2, 3, 0, 2), rep); return A; },
        [&](const M& A, verif::Hash& h) { hl(A.block_a(), h); hl(A.block_b(), h); hl(A.block_d(), h); });
    }
    // ================= layouts with unequal / non-square sub-blocks: every slice offset of the flat interface is distinguishable =================
    // ---- SaddlePointMatrix with a NON-SQUARE A block and pairwise different block dimensions (ra, ca, cb, rd)
    for(int v = 0; v < 2; ++v)
    {
      typedef SaddlePointMatrix<CSR, CSR, CSR> M;
      const int ra = v ? 1 : 2, ca = v ? 2 : 1, cb = v ? 4 : 3, rd = v ? 3 : 4; // rows(A) > columns(A) first: offset mix-ups give wrong values, not aborts
      Layout L; L.name = "SaddlePointMatrix<A" + std::to_string(ra) + "x" + std::to_string(ca) + ",B" + std::to_string(ra) + "x" + std::to_string(cb) + ",D" + std::to_string(rd) + "x" + std::to_string(ca) + ">";
      L.m = ra + rd; L.n = ca + cb; L.block(0, ra, 0, ca); L.block(0, ra, ca, ca + cb); L.block(ra, ra + rd, 0, ca);
      enum_meta<DT, IT, M, true>(c, L,
        [&](const DenseRef& D, int rep) { M A; A.block_a() = build_csr<DT, IT>(sub(D, 0, ra, 0, ca), rep); A.block_b() = build_csr<DT, IT>(sub(D, 0, ra, ca, ca + cb), rep); A.block_d() = build_csr<DT, IT>(sub(D, ra, ra + rd, 0, ca), rep); return A; },
        [&](const M& A, verif::Hash& h) { hl(A.block_a(), h); hl(A.block_b(), h); hl(A.block_d(), h); });
    }
    // ---- small SaddlePointMatrix with non-square A: A 1x2, B 1x1, D 2x2 (7 bits) / A 2x1, B 2x2, D 1x1 (7 bits): all variants
    for(int v = 0; v < 2; ++v)
    {
      typedef SaddlePointMatrix<CSR, CSR, CSR> M;
      const int ra = v ? 1 : 2, ca = v ? 2 : 1, cb = v ? 1 : 2, rd = v ? 2 : 1;
      Layout L; L.name = "SaddlePointMatrix<A" + std::to_string(ra) + "x" + std::to_string(ca) + ",B" + std::to_string(ra) + "x" + std::to_string(cb) + ",D" + std::to_string(rd) + "x" + std::to_string(ca) + ">";
      L.m = ra + rd; L.n = ca + cb; L.block(0, ra, 0, ca); L.block(0, ra, ca, ca + cb); L.block(ra, ra + rd, 0, ca);
      enum_meta<DT, IT, M, true>(c, L,
        [&](const DenseRef& D, int rep) { M A; A.block_a() = build_csr<DT, IT>(sub(D, 0, ra, 0, ca), rep); A.block_b() = build_csr<DT, IT>(sub(D, 0, ra, ca, ca + cb), rep); A.block_d() = build_csr<DT, IT>(sub(D, ra, ra + rd, 0, ca), rep); return A; },
        [&](const M& A, verif::Hash& h) { hl(A.block_a(), h); hl(A.block_b(), h); hl(A.block_d(), h); });
    }
    // ---- TupleDiagMatrix and PowerDiagMatrix with two different rectangular blocks 1x3 and 2x4 (dimensions 1,3,2,4 pairwise different)
    {
      typedef TupleDiagMatrix<CSR, CSR> M;
      Layout L; L.name = "TupleDiagMatrix<1x3,2x4>"; L.m = 3; L.n = 7; L.block(0, 1, 0, 3); L.block(1, 3, 3, 7);
      enum_meta<DT, IT, M, true>(c, L,
        [&](const DenseRef& D, int rep) { M A; A.template at<0, 0>() = build_csr<DT, IT>(sub(D, 0, 1, 0, 3), rep); A.template at<1, 1>() = build_csr<DT, IT>(sub(D, 1, 3, 3, 7), rep); return A; },
        [&](const M& A, verif::Hash& h) { hl(A.template at<0, 0>(), h); hl(A.template at<1, 1>(), h); });
    }
    {
      typedef PowerDiagMatrix<CSR, 2> M;
      Layout L; L.name = "PowerDiagMatrix<blocks 1x3,2x4>"; L.m = 3; L.n = 7; L.block(0, 1, 0, 3); L.block(1, 3, 3, 7);
      enum_meta<DT, IT, M, true>(c, L,
        [&](const DenseRef& D, int rep) { M A; A.template at<0, 0>() = build_csr<DT, IT>(sub(D, 0, 1, 0, 3), rep); A.template at<1, 1>() = build_csr<DT, IT>(sub(D, 1, 3, 3, 7), rep); return A; },
        [&](const M& A, verif::Hash& h) { hl(A.template at<0, 0>(), h); hl(A.template at<1, 1>(), h); });
    }
    {
      typedef PowerDiagMatrix<CSR, 2> M;   // small: blocks 1x2 and 2x1 (all variants)
      Layout L; L.name = "PowerDiagMatrix<blocks 1x2,2x1>"; L.m = 3; L.n = 3; L.block(0, 1, 0, 2); L.block(1, 3, 2, 3);
      enum_meta<DT, IT, M, true>(c, L,
        [&](const DenseRef& D, int rep) { M A; A.template at<0, 0>() = build_csr<DT, IT>(sub(D, 0, 1, 0, 2), rep); A.template at<1, 1>() = build_csr<DT, IT>(sub(D, 1, 3, 2, 3), rep); return A; },
        [&](const M& A, verif::Hash& h) { hl(A.template at<0, 0>(), h); hl(A.template at<1, 1>(), h); });
    }
    // ---- PowerFullMatrix<CSR,2,2> with row heights (1,2) and column widths (2,1)
    {
      typedef PowerFullMatrix<CSR, 2, 2> M;
      Layout L; L.name = "PowerFullMatrix<heights(1,2) widths(2,1)>"; L.m = 3; L.n = 3; L.all();
      enum_meta<DT, IT, M, true>(c, L,
        [&](const DenseRef& D, int rep) { M A;
          A.template at<0, 0>() = build_csr<DT, IT>(sub(D, 0, 1, 0, 2), rep); A.template at<0, 1>() = build_csr<DT, IT>(sub(D, 0, 1, 2, 3), rep);
          A.template at<1, 0>() = build_csr<DT, IT>(sub(D, 1, 3, 0, 2), rep); A.template at<1, 1>() = build_csr<DT, IT>(sub(D, 1, 3, 2, 3), rep); return A; },
        [&](const M& A, verif::Hash& h) { hl(A.template at<0, 0>(), h); hl(A.template at<0, 1>(), h); hl(A.template at<1, 0>(), h); hl(A.template at<1, 1>(), h); });
    }
    // ---- PowerRowMatrix with different block widths: <2> 3 rows, widths (1,2); <3> 1 row, widths (2,3,4)
    {
      typedef PowerRowMatrix<CSR, 2> M;
      Layout L; L.name = "PowerRowMatrix<3 rows, widths(1,2)>"; L.m = 3; L.n = 3; L.all();
      enum_meta<DT, IT, M, true>(c, L,
        [&](const DenseRef& D, int rep) { M A; A.template at<0, 0>() = build_csr<DT, IT>(sub(D, 0, 3, 0, 1), rep); A.template at<0, 1>() = build_csr<DT, IT>(sub(D, 0, 3, 1, 3), rep); return A; },
        [&](const M& A, verif::Hash& h) { hl(A.template at<0, 0>(), h); hl(A.template at<0, 1>(), h); });
    }
    {
      typedef PowerRowMatrix<CSR, 3> M;
      Layout L; L.name = "PowerRowMatrix<1 row, widths(2,3,4)>"; L.m = 1; L.n = 9; L.all();
      enum_meta<DT, IT, M, true>(c, L,
        [&](const DenseRef& D, int rep) { M A; A.template at<0, 0>() = build_csr<DT, IT>(sub(D, 0, 1, 0, 2), rep); A.template at<0, 1>() = build_csr<DT, IT>(sub(D, 0, 1, 2, 5), rep);
          A.template at<0, 2>() = build_csr<DT, IT>(sub(D, 0, 1, 5, 9), rep); return A; },
        [&](const M& A, verif::Hash& h) { hl(A.template at<0, 0>(), h); hl(A.template at<0, 1>(), h); hl(A.template at<0, 2>(), h); });
    }
    // ---- PowerColMatrix with different block heights: <2> 3 columns, heights (1,2); <3> 1 column, heights (2,3,4)
    {
      typedef PowerColMatrix<CSR, 2> M;
      Layout L; L.name = "PowerColMatrix<3 columns, heights(1,2)>"; L.m = 3; L.n = 3; L.all();
      enum_meta<DT, IT, M, true>(c, L,
        [&](const DenseRef& D, int rep) { M A; A.template at<0, 0>() = build_csr<DT, IT>(sub(D, 0, 1, 0, 3), rep); A.template at<1, 0>() = build_csr<DT, IT>(sub(D, 1, 3, 0, 3), rep); return A; },
        [&](const M& A, verif::Hash& h) { hl(A.template at<0, 0>(), h); hl(A.template at<1, 0>(), h); });
    }
    {
      typedef PowerColMatrix<CSR, 3> M;
      Layout L; L.name = "PowerColMatrix<1 column, heights(2,3,4)>"; L.m = 9; L.n = 1; L.all();
      enum_meta<DT, IT, M, true>(c, L,
        [&](const DenseRef& D, int rep) { M A; A.template at<0, 0>() = build_csr<DT, IT>(sub(D, 0, 2, 0, 1), rep); A.template at<1, 0>() = build_csr<DT, IT>(sub(D, 2, 5, 0, 1), rep);
          A.template at<2, 0>() = build_csr<DT, IT>(sub(D, 5, 9, 0, 1), rep); return A; },
        [&](const M& A, verif::Hash& h) { hl(A.template at<0, 0>(), h); hl(A.template at<1, 0>(), h); hl(A.template at<2, 0>(), h); });
    }
    // ---- TupleMatrix 2x2 with block rows (2,1) and block columns (1,3): dimensions 2,1,1,3 (native interface only: no slice offsets)
    {
      typedef TupleMatrix<TupleMatrixRow<CSR, CSR>, TupleMatrixRow<CSR, CSR>> M;
      Layout L; L.name = "TupleMatrix<rows(2,1) cols(1,3)>"; L.m = 3; L.n = 4; L.all();
      enum_meta<DT, IT, M, false>(c, L,
        [&](const DenseRef& D, int rep) { M A;
          A.template at<0, 0>() = build_csr<DT, IT>(sub(D, 0, 2, 0, 1), rep); A.template at<0, 1>() = build_csr<DT, IT>(sub(D, 0, 2, 1, 4), rep);
          A.template at<1, 0>() = build_csr<DT, IT>(sub(D, 2, 3, 0, 1), rep); A.template at<1, 1>() = build_csr<DT, IT>(sub(D, 2, 3, 1, 4), rep); return A; },
        [&](const M& A, verif::Hash& h) { hl(A.template at<0, 0>(), h); hl(A.template at<0, 1>(), h); hl(A.template at<1, 0>(), h); hl(A.template at<1, 1>(), h); });
    }
    // ---- nested: SaddlePointMatrix<PowerDiag<CSR,2>, PowerCol<CSR,2>, PowerRow<CSR,2>> (the Stokes structure), blocks: A 1x1, B 1x2, D 2x1
    {
      typedef SaddlePointMatrix<PowerDiagMatrix<CSR, 2>, PowerColMatrix<CSR, 2>, PowerRowMatrix<CSR, 2>> M;
      Layout L; L.name = "SaddlePointMatrix<PowerDiag2,PowerCol2,PowerRow2>"; L.m = 4; L.n = 4;
      L.block(0, 1, 0, 1); L.block(1, 2, 1, 2); L.block(0, 2, 2, 4); L.block(2, 4, 0, 2);
      enum_meta<DT, IT, M, true>(c, L,
        [&](const DenseRef& D, int rep) { M A;
          A.block_a().template at<0, 0>() = build_csr<DT, IT>(sub(D, 0, 1, 0, 1), rep); A.block_a().template at<1, 1>() = build_csr<DT, IT>(sub(D, 1, 2, 1, 2), rep);
          A.block_b().template at<0, 0>() = build_csr<DT, IT>(sub(D, 0, 1, 2, 4), rep); A.block_b().template at<1, 0>() = build_csr<DT, IT>(sub(D, 1, 2, 2, 4), rep);
          A.block_d().template at<0, 0>() = build_csr<DT, IT>(sub(D, 2, 4, 0, 1), rep); A.block_d().template at<0, 1>() = build_csr<DT, IT>(sub(D, 2, 4, 1, 2), rep); return A; },
        [&](const M& A, verif::Hash& h) { hl(A.block_a().template at<0, 0>(), h); hl(A.block_a().template at<1, 1>(), h); hl(A.block_b().template at<0, 0>(), h); hl(A.block_b().template at<1, 0>(), h);
          hl(A.block_d().template at<0, 0>(), h); hl(A.block_d().template at<0, 1>(), h); });
    }
  }
}

int main(int argc, char** argv)
{
  FEAT::Runtime::ScopeGuard guard(argc, argv);
  verif::Spec spec; spec.property = "C01"; spec.harness = "c01_apply_meta"; spec.case_timeout_s = 120;
  spec.rule = "case = (composed matrix kind with fixed small block dimensions, type pair, one of ALL sparsity patterns of the whole matrix (structurally zero blocks excluded), "
    "representation of blocks without entries {entry-free, allocated}, interface {native meta vectors, DenseVector}, variant = alphabet {exact, rounding, all-negative, extreme-magnitude} on a fresh object or scenario {other calls first, sub-range views (DenseVector interface), deep clone, weak clone, moved object}, operation {apply, apply_transposed} x {r:=Ax, r:=y+aAx r!=y, r==y}, alpha); every operation is repeated on the filled objects; "
    "non-trivial = matrix has entries and |alpha|>=eps; hash over all of these";
  spec.bounds_quick = "plus layouts with non-square / unequal blocks so that every slice offset of the flat interface is distinguishable: SaddlePoint A2x1,B2x3,D4x1 and A1x2,B1x4,D3x2 (4096 patterns each, pairwise different dimensions; quick: exact+rounding alphabet, thorough: 6 variants), A2x1,B2x2,D1x1 / A1x2,B1x1,D2x2, TupleDiag and PowerDiag blocks 1x3,2x4, PowerDiag 1x2,2x1, PowerFull heights(1,2) widths(2,1), PowerRow widths(1,2)/(2,3,4), PowerCol heights(1,2)/(2,3,4), TupleMatrix rows(2,1) cols(1,3); TupleMatrix 2x2 blocks rows(1,2) cols(2,1) and 3x2 blocks (512 patterns each), TupleDiagMatrix<1x2,2x2> (64), PowerDiag<2> blocks 2x1,1x2,2x2 (16,16,256), PowerFull<2,2> blocks 1x2,2x1 (256 each), "
    "PowerRow<2> 2x2 (256), PowerRow<3> 2x1,1x2 (64 each), PowerCol likewise, SaddlePoint<CSR,CSR,CSR> (256), SaddlePoint<PowerDiag,PowerCol,PowerRow> (1024); (double,u64): 9 variants, (float,u32): the 4 alphabets; 9 scalars";
  spec.bounds_thorough = "same as quick (the space is completed in the quick tier)";
  spec.assumptions = {
    "coverage audit: out of scope of C01: two-argument clone/convert of composed matrices, get_length_of_line/set_line (scalar conversion, C02), bytes()/name(), file I/O and checkpoints (C05)", 
    "leaves are SparseMatrixCSR (the leaf kernels of all formats are covered by c01_apply_csr / c01_apply_blk)",
    "oracle: dense long double product of the whole matrix; exact alphabet compared with ==; rounding alphabet: 8(len+2) eps (|A||x| max(1,|alpha|)+|y|)",
    "vectors come from create_vector_l/r of the composed matrix (their flat length is checked against the oracle dimensions)",
    "excluded: r aliasing x; blocks with a zero dimension (the DenseVector interface XASSERTs size>0 of sub-vectors); TupleMatrix has no DenseVector interface"};
  return verif::run(spec, argc, argv, [&](verif::Ctx& c) {
    enum_all<double, std::uint64_t>(c);
    enum_all<float, std::uint32_t>(c);
  });
}
