// c16_blocked_impl.hpp -- C16 (blocked part): vector valued operators assembled into BCSR matrices / blocked vectors:
// blocked Laplace / identity / DuDv operators (classic + DomainAssembler job), gradient/divergence (GradPresDivVelo
// assembler, GradOperatorAssembler, Gradient{Trial,Test}OperatorBlocked), Burgers (classic BurgersAssembler matrix /
// scalar matrix / vector, and the Burgers assembly jobs) against the harness polynomial integrator.
#pragma once
#include <c16_core.hpp>

#include <kernel/assembly/asm_traits.hpp>
#include <kernel/assembly/bilinear_operator_assembler.hpp>
#include <kernel/assembly/basic_assembly_jobs.hpp>
#include <kernel/assembly/burgers_assembler.hpp>
#include <kernel/assembly/burgers_assembly_job.hpp>
#include <kernel/assembly/common_operators.hpp>
#include <kernel/assembly/domain_assembler.hpp>
#include <kernel/assembly/domain_assembler_helpers.hpp>
#include <kernel/assembly/gpdv_assembler.hpp>
#include <kernel/assembly/grad_operator_assembler.hpp>
#include <kernel/assembly/symbolic_assembler.hpp>
#include <kernel/cubature/dynamic_factory.hpp>
#include <kernel/runtime.hpp>
#include <kernel/space/cro_rav_ran_tur/element.hpp>
#include <kernel/space/discontinuous/element.hpp>
#include <kernel/space/lagrange1/element.hpp>
#include <kernel/space/lagrange2/element.hpp>

using namespace FEAT;
using namespace c16;

namespace c16b
{
  /// polynomial vector field as FEAT analytic function
  template<int D, int N>
  class PolyVectorFunction : public Analytic::Function
  {
  public:
    static constexpr int domain_dim = D;
    typedef Analytic::Image::Vector<N> ImageType;
    static constexpr bool can_value = true;
    static constexpr bool can_grad = true;
    static constexpr bool can_hess = true;
    std::array<Poly<D>, N> p;
    explicit PolyVectorFunction(const std::array<Poly<D>, N>& p_) : p(p_) {}
    template<typename Traits_>
    class Evaluator : public Analytic::Function::Evaluator<Traits_>
    {
    public:
      typedef typename Traits_::PointType PointType;
      typedef typename Traits_::ValueType ValueType;
      typedef typename Traits_::GradientType GradientType;
      typedef typename Traits_::HessianType HessianType;
      const PolyVectorFunction& f;
      explicit Evaluator(const PolyVectorFunction& f_) : f(f_) {}
      ValueType value(const PointType& x)
      {
        ValueType r;
        for(int i = 0; i < N; ++i) r[i] = double(f.p[(size_t)i].eval(x.v));
        return r;
      }
      GradientType gradient(const PointType& x)
      {
        GradientType r;
        for(int i = 0; i < N; ++i) for(int j = 0; j < D; ++j) r[i][j] = double(f.p[(size_t)i].diff(j).eval(x.v));
        return r;
      }
      HessianType hessian(const PointType& x)
      {
        HessianType r;
        for(int i = 0; i < N; ++i) for(int j = 0; j < D; ++j) for(int k = 0; k < D; ++k) r[i][j][k] = double(f.p[(size_t)i].diff(j).diff(k).eval(x.v));
        return r;
      }
    };
  };

  template<int D> using Field = std::array<Poly<D>, D>;

  template<int BH, int BW> using BCSR = LAFEM::SparseMatrixBCSR<double, Index, BH, BW>;
  template<int N> using BVec = LAFEM::DenseVectorBlocked<double, Index, N>;

  inline LD vcomp(const Vec& v, Index i, int) { return LD(v(i)); }
  template<int N> LD vcomp(const BVec<N>& v, Index i, int a) { return LD(v(i)[a]); }

  /// y^T A x for a BCSR<BH,BW> matrix with blocked (BH>1) or scalar (BH==1) y and x
  template<int BH, int BW, typename Y_, typename X_>
  LD bilinear_b(const BCSR<BH, BW>& A, const Y_& y, const X_& x, LD* scale)
  {
    const Index* rp = A.row_ptr(); const Index* ci = A.col_ind(); const auto* va = A.val();
    LD s = 0, sc = 0;
    for(Index i = 0; i < A.rows(); ++i)
      for(Index k = rp[i]; k < rp[i + 1]; ++k)
        for(int a = 0; a < BH; ++a) for(int b = 0; b < BW; ++b)
        {
          LD yv = vcomp(y, i, a), xv = vcomp(x, ci[k], b);
          LD t = yv * LD(va[k][a][b]) * xv;
          s += t; sc += std::fabs(t);
        }
    if(scale) *scale = sc;
    return s;
  }

  template<int BH, int BW>
  double max_rel_diff_b(const BCSR<BH, BW>& A, const BCSR<BH, BW>& B, bool* same_layout)
  {
    *same_layout = (A.rows() == B.rows() && A.columns() == B.columns() && A.used_elements() == B.used_elements());
    if(!*same_layout) return 1e300;
    for(Index i = 0; i <= A.rows(); ++i) if(A.row_ptr()[i] != B.row_ptr()[i]) { *same_layout = false; return 1e300; }
    double nrm = 1e-300, d = 0;
    for(Index k = 0; k < A.used_elements(); ++k) for(int a = 0; a < BH; ++a) for(int b = 0; b < BW; ++b) nrm = std::max(nrm, std::fabs(A.val()[k][a][b]));
    for(Index k = 0; k < A.used_elements(); ++k)
    {
      if(A.col_ind()[k] != B.col_ind()[k]) { *same_layout = false; return 1e300; }
      for(int a = 0; a < BH; ++a) for(int b = 0; b < BW; ++b) d = std::max(d, std::fabs(A.val()[k][a][b] - B.val()[k][a][b]) / nrm);
    }
    return d;
  }

  template<int D> Poly<D> div_of(const Field<D>& u) { Poly<D> r; for(int i = 0; i < D; ++i) r += u[(size_t)i].diff(i); return r; }
  template<int D> Poly<D> dot_of(const Field<D>& u, const Field<D>& w) { Poly<D> r; for(int i = 0; i < D; ++i) r += u[(size_t)i] * w[(size_t)i]; return r; }
  template<int D> Poly<D> grad_grad(const Field<D>& u, const Field<D>& w) { Poly<D> r; for(int i = 0; i < D; ++i) for(int j = 0; j < D; ++j) r += u[(size_t)i].diff(j) * w[(size_t)i].diff(j); return r; }
  template<int D> Poly<D> gradT_grad(const Field<D>& u, const Field<D>& w) { Poly<D> r; for(int i = 0; i < D; ++i) for(int j = 0; j < D; ++j) r += u[(size_t)j].diff(i) * w[(size_t)i].diff(j); return r; }

  struct VL2 { static const char* name() { return "lagrange2"; } template<typename T_> using Space = FEAT::Space::Lagrange2::Element<T_>; static constexpr int pk = 2; static constexpr int deg = 2; };
  struct VL1 { static const char* name() { return "lagrange1"; } template<typename T_> using Space = FEAT::Space::Lagrange1::Element<T_>; static constexpr int pk = 1; static constexpr int deg = 1; };
  struct VCR { static const char* name() { return "cro_rav_ran_tur"; } template<typename T_> using Space = FEAT::Space::CroRavRanTur::Element<T_>; static constexpr int pk = 1; static constexpr int deg = 2; };
  struct PP0 { static const char* name() { return "discontinuous-p0"; } template<typename T_> using Space = FEAT::Space::Discontinuous::Element<T_, FEAT::Space::Discontinuous::Variant::StdPolyP<0>>; static constexpr int pk = 0; static constexpr int deg = 0; };
  struct PP1 { static const char* name() { return "discontinuous-p1"; } template<typename T_> using Space = FEAT::Space::Discontinuous::Element<T_, FEAT::Space::Discontinuous::Variant::StdPolyP<1>>; static constexpr int pk = 1; static constexpr int deg = 1; };

  template<typename Shape_>
  std::vector<String> cub_names(int deg)
  {
    std::vector<String> r;
    if(ShapeInfo<Shape_>::is_simplex) { r.push_back("auto-degree:" + stringify(std::max(deg, 1))); }
    else { r.push_back("gauss-legendre:" + stringify(deg / 2 + 1)); }
    return r;
  }

  template<typename Shape_, typename Velo_, typename Pres_>
  struct BlockChecker
  {
    static constexpr int D = Shape_::dimension;
    typedef typename MeshCtx<Shape_>::MeshType MeshType;
    typedef Trafo::Standard::Mapping<MeshType> TrafoType;
    typedef typename Velo_::template Space<TrafoType> VeloSpace;
    typedef typename Pres_::template Space<TrafoType> PresSpace;

    verif::Ctx& c;
    MeshCtx<Shape_>& mc;
    std::string kp;
    TrafoType trafo;
    VeloSpace velo;
    PresSpace pres;
    std::vector<Field<D>> fu;       // velocity test fields: e_c * monomial
    std::vector<BVec<D>> vu;
    std::vector<Poly<D>> fp;        // pressure monomials
    std::vector<Vec> vp;
    std::unique_ptr<Assembly::DomainAssembler<TrafoType>> dom_asm;

    BlockChecker(verif::Ctx& c_, MeshCtx<Shape_>& mc_) : c(c_), mc(mc_), trafo(*mc_.mesh), velo(trafo), pres(trafo)
    {
      kp = std::string(ShapeInfo<Shape_>::name()) + " " + Velo_::name() + "/" + Pres_::name();
      for(auto& m : monomials<D>(exps_total_degree<D>(Velo_::pk)))
        for(int cc = 0; cc < D; ++cc)
        {
          Field<D> f; f[(size_t)cc] = m;
          fu.push_back(f);
        }
      // one fully coupled field as well
      {
        Field<D> f;
        for(int cc = 0; cc < D; ++cc)
        {
          f[(size_t)cc] = Poly<D>(LD(cc + 1) / 2);
          for(int j = 0; j < D; ++j) f[(size_t)cc] += Poly<D>::var(j) * (LD((cc + 2 * j) % 3 + 1) / 4) * ((cc + j) & 1 ? LD(-1) : LD(1));
          if(Velo_::pk >= 2) f[(size_t)cc] += Poly<D>::var(cc) * Poly<D>::var((cc + 1) % D) * LD(0.5);
        }
        fu.push_back(f);
      }
      for(auto& f : fu)
      {
        PolyVectorFunction<D, D> pf(f);
        BVec<D> v;
        Assembly::Interpolator::project(v, pf, velo);
        vu.push_back(std::move(v));
      }
      fp = monomials<D>(exps_total_degree<D>(Pres_::pk));
      vp = interpolate_all(pres, fp);
      dom_asm.reset(new Assembly::DomainAssembler<TrafoType>(trafo));
      dom_asm->set_max_worker_threads(0);
      dom_asm->compile_all_elements();
    }

    bool compare(const std::string& key, LD got, LD exact, LD sc, LD sc2, const std::string& what)
    {
      c.count("oracle_integrals");
      if(std::fabs(got - exact) <= LD(1e-10) * (sc + sc2 + LD(1e-30))) return true;
      char buf[160]; snprintf(buf, sizeof buf, ": assembled %.12Lg, exact integral %.12Lg (scale %.3Lg)", got, exact, sc + sc2);
      c.fail(key, what + buf);
      return false;
    }

    static std::string fstr(const Field<D>& f)
    {
      std::string s = "(";
      for(int i = 0; i < D; ++i) s += (i ? "; " : "") + f[(size_t)i].str();
      return s + ")";
    }

    // ------------------------------------------------------------------ blocked operators of common_operators.hpp
    template<typename Operator_, typename Form_>
    void check_velo_operator(const std::string& name, Operator_& op, const Form_& form, int int_deg)
    {
      const std::string k = kp + " " + name;
      for(auto& cn : cub_names<Shape_>(int_deg))
      {
        Cubature::DynamicFactory cf(cn);
        BCSR<D, D> A;
        Assembly::SymbolicAssembler::assemble_matrix_std1(A, velo);
        A.format();
        Assembly::BilinearOperatorAssembler::assemble_matrix1(A, op, velo, cf);
        c.count("matrices_assembled");
        for(size_t a = 0; a < fu.size(); ++a) for(size_t b = 0; b < fu.size(); ++b)
        {
          Poly<D> in = form(fu[a], fu[b]);
          LD sc = 0, got = bilinear_b<D, D>(A, vu[b], vu[a], &sc);
          if(!compare(k + " oracle", got, mc.integrate(in), sc, mc.integrate_abs(in), "cubature " + std::string(cn) + " u=" + fstr(fu[a]) + " w=" + fstr(fu[b]))) return;
        }
        BCSR<D, D> B;
        Assembly::SymbolicAssembler::assemble_matrix_std1(B, velo);
        B.format();
        Assembly::assemble_bilinear_operator_matrix_1(*dom_asm, B, op, velo, cn);
        bool lay = false;
        double d = max_rel_diff_b<D, D>(A, B, &lay);
        c.check(lay && d <= 1e-12, k + " route.job", [&]{ return "DomainAssembler job differs from the classic assembler by " + std::to_string(d); });
      }
    }

    // ------------------------------------------------------------------ gradient / divergence
    void check_grad_div()
    {
      const std::string k = kp + " graddiv";
      const int extra = mc.affine ? 0 : D - 1;
      auto cn = cub_names<Shape_>(Velo_::deg + Pres_::deg + extra + (ShapeInfo<Shape_>::is_simplex ? -1 : 0)).front();
      // GradPresDivVeloAssembler: w^T B p = -int p div w, p^T D w = -int p div w, D = B^T
      BCSR<D, 1> B; BCSR<1, D> Dm;
      Assembly::GradPresDivVeloAssembler::assemble(B, Dm, velo, pres, cn);
      c.count("matrices_assembled", 2);
      for(size_t a = 0; a < fu.size(); ++a) for(size_t b = 0; b < fp.size(); ++b)
      {
        Poly<D> in = div_of<D>(fu[a]) * fp[b] * LD(-1);
        LD ex = mc.integrate(in), sa = mc.integrate_abs(in), sc = 0;
        LD g1 = bilinear_b<D, 1>(B, vu[a], vp[b], &sc);
        if(!compare(k + " gpdv.B", g1, ex, sc, sa, "w=" + fstr(fu[a]) + " p=[" + fp[b].str() + "]")) return;
        LD g2 = bilinear_b<1, D>(Dm, vp[b], vu[a], &sc);
        if(!compare(k + " gpdv.D", g2, ex, sc, sa, "w=" + fstr(fu[a]) + " p=[" + fp[b].str() + "]")) return;
      }
      {
        // D == B^T entry-wise
        bool ok = (B.rows() == Dm.columns() && B.columns() == Dm.rows() && B.used_elements() == Dm.used_elements());
        for(Index i = 0; ok && i < B.rows(); ++i)
          for(Index kk = B.row_ptr()[i]; ok && kk < B.row_ptr()[i + 1]; ++kk)
          {
            Index j = B.col_ind()[kk];
            bool found = false;
            for(Index l = Dm.row_ptr()[j]; l < Dm.row_ptr()[j + 1]; ++l)
              if(Dm.col_ind()[l] == i) { found = true; for(int m = 0; m < D; ++m) ok = ok && (Dm.val()[l][0][m] == B.val()[kk][m][0]); }
            ok = ok && found;
          }
        c.check(ok, k + " gpdv.transpose", "D is not the (bitwise) transpose of B");
      }
      // non-default scaling factors
      {
        BCSR<D, 1> B2; BCSR<1, D> D2;
        Assembly::GradPresDivVeloAssembler::assemble(B2, D2, velo, pres, cn, 0.5, -2.0);
        LD sc = 0;
        size_t a = fu.size() - 1, b = fp.size() - 1;
        Poly<D> in = div_of<D>(fu[a]) * fp[b];
        LD ex = mc.integrate(in), sa = mc.integrate_abs(in);
        { LD g_ = bilinear_b<D, 1>(B2, vu[a], vp[b], &sc); if(!compare(k + " gpdv.scale_b", g_, LD(0.5) * ex, sc, sa, "scale_b=0.5")) return; }
        { LD g_ = bilinear_b<1, D>(D2, vp[b], vu[a], &sc); if(!compare(k + " gpdv.scale_d", g_, LD(-2) * ex, sc, 2 * sa, "scale_d=-2")) return; }
      }
      // GradOperatorAssembler (test = velocity space, trial = pressure space): w^T G p = alpha int grad p . w
      if constexpr(Pres_::pk >= 1)
      {
        Cubature::DynamicFactory cf(cn);
        BCSR<D, 1> G;
        Assembly::SymbolicAssembler::assemble_matrix_std2(G, velo, pres);
        G.format();
        Assembly::GradOperatorAssembler::assemble(G, velo, pres, cf, 1.5);
        Assembly::Common::GradientTrialOperatorBlocked<D> gto;
        BCSR<D, 1> G2;
        Assembly::SymbolicAssembler::assemble_matrix_std2(G2, velo, pres);
        G2.format();
        Assembly::BilinearOperatorAssembler::assemble_matrix2(G2, gto, velo, pres, cf, 1.5);
        c.count("matrices_assembled", 2);
        for(size_t a = 0; a < fu.size(); ++a) for(size_t b = 0; b < fp.size(); ++b)
        {
          Poly<D> in;
          for(int m = 0; m < D; ++m) in += fp[b].diff(m) * fu[a][(size_t)m];
          in *= LD(1.5);
          LD ex = mc.integrate(in), sa = mc.integrate_abs(in), sc = 0;
          { LD g_ = bilinear_b<D, 1>(G, vu[a], vp[b], &sc); if(!compare(k + " gradop.matrix", g_, ex, sc, sa, "w=" + fstr(fu[a]) + " p=[" + fp[b].str() + "]")) return; }
          { LD g_ = bilinear_b<D, 1>(G2, vu[a], vp[b], &sc); if(!compare(k + " gradient-trial-blocked", g_, ex, sc, sa, "w=" + fstr(fu[a]) + " p=[" + fp[b].str() + "]")) return; }
        }
        // vector version: vec_asm += scale * G * vec_in
        {
          BVec<D> r(velo.get_num_dofs()); r.format();
          const Vec& pin = vp.back();
          Assembly::GradOperatorAssembler::assemble(r, pin, velo, pres, cf, 1.5);
          BVec<D> r2(velo.get_num_dofs()); r2.format();
          G.apply(r2, pin);
          double d = 0, big = 1e-300;
          for(Index i = 0; i < r.size(); ++i) for(int m = 0; m < D; ++m) { d = std::max(d, std::fabs(r(i)[m] - r2(i)[m])); big = std::max(big, std::fabs(r2(i)[m])); }
          c.check(d <= 1e-11 * big, k + " gradop.vector", [&]{ return "vector version differs from G*p by " + std::to_string(d); });
        }
      }
      // GradientTestOperatorBlocked (test = velocity): w^T A p = int p div w
      {
        Cubature::DynamicFactory cf(cn);
        Assembly::Common::GradientTestOperatorBlocked<D> op;
        BCSR<D, 1> A;
        Assembly::SymbolicAssembler::assemble_matrix_std2(A, velo, pres);
        A.format();
        Assembly::BilinearOperatorAssembler::assemble_matrix2(A, op, velo, pres, cf);
        for(size_t a = 0; a < fu.size(); ++a) for(size_t b = 0; b < fp.size(); ++b)
        {
          Poly<D> in = div_of<D>(fu[a]) * fp[b];
          LD sc = 0;
          { LD g_ = bilinear_b<D, 1>(A, vu[a], vp[b], &sc); if(!compare(k + " gradient-test-blocked", g_, mc.integrate(in), sc, mc.integrate_abs(in), "w=" + fstr(fu[a]) + " p=[" + fp[b].str() + "]")) return; }
        }
      }
    }

    // ------------------------------------------------------------------ Burgers
    void check_burgers()
    {
      const std::string k = kp + " burgers";
      const int extra = mc.affine ? 0 : D - 1;
      // convection field: the coupled polynomial field (last test field), it is in the velocity space
      const Field<D>& v = fu.back();
      const BVec<D>& vv = vu.back();
      // the highest degree integrand is (v.grad u) w
      auto cn = cub_names<Shape_>(3 * Velo_::deg + extra + (ShapeInfo<Shape_>::is_simplex ? -1 : 0)).front();
      Cubature::DynamicFactory cf(cn);
      struct Cfg { bool defo; double nu, theta, beta, fbeta; const char* name; };
      static const Cfg cfgs[] = {
        {false, 1.0, 0.0, 0.0, 0.0, "nu"}, {true, 1.0, 0.0, 0.0, 0.0, "nu-defo"}, {false, 0.0, 1.0, 0.0, 0.0, "theta"},
        {false, 0.0, 0.0, 1.0, 0.0, "beta"}, {false, 0.0, 0.0, 0.0, 1.0, "frechet"}, {true, 0.5, 2.0, 1.5, 0.25, "all"}};
      // a subset of the test fields keeps the cost down: every component/monomial field is used as u, few as w
      for(const Cfg& cg : cfgs)
      {
        Assembly::BurgersAssembler<double, Index, D> ba;
        ba.deformation = cg.defo; ba.nu = cg.nu; ba.theta = cg.theta; ba.beta = cg.beta; ba.frechet_beta = cg.fbeta;
        BCSR<D, D> A;
        Assembly::SymbolicAssembler::assemble_matrix_std1(A, velo);
        A.format();
        ba.assemble_matrix(A, vv, velo, cf);
        c.count("matrices_assembled");
        auto form = [&](const Field<D>& u, const Field<D>& w)
        {
          Poly<D> r;
          if(cg.nu != 0.0) { Poly<D> t = grad_grad<D>(u, w); if(cg.defo) t += gradT_grad<D>(u, w); r += t * LD(cg.nu); }
          if(cg.theta != 0.0) r += dot_of<D>(u, w) * LD(cg.theta);
          if(cg.beta != 0.0)
          {
            Poly<D> t;
            for(int a = 0; a < D; ++a) for(int j = 0; j < D; ++j) t += v[(size_t)j] * u[(size_t)a].diff(j) * w[(size_t)a];
            r += t * LD(cg.beta);
          }
          if(cg.fbeta != 0.0)
          {
            Poly<D> t;
            for(int a = 0; a < D; ++a) for(int b = 0; b < D; ++b) t += v[(size_t)a].diff(b) * u[(size_t)b] * w[(size_t)a];
            r += t * LD(cg.fbeta);
          }
          return r;
        };
        for(size_t a = 0; a < fu.size(); ++a) for(size_t b = 0; b < fu.size(); ++b)
        {
          if((a * 7 + b * 3) % 4 != 0 && a != b && b + 1 != fu.size() && a + 1 != fu.size()) continue;
          Poly<D> in = form(fu[a], fu[b]);
          LD sc = 0, got = bilinear_b<D, D>(A, vu[b], vu[a], &sc);
          if(!compare(k + " matrix." + cg.name, got, mc.integrate(in), sc, mc.integrate_abs(in), "u=" + fstr(fu[a]) + " w=" + fstr(fu[b]))) return;
        }
        // route: assembly job
        {
          BCSR<D, D> B;
          Assembly::SymbolicAssembler::assemble_matrix_std1(B, velo);
          B.format();
          Assembly::BurgersBlockedMatrixAssemblyJob<BCSR<D, D>, VeloSpace, BVec<D>> job(B, vv, velo, cn);
          job.deformation = cg.defo; job.nu = cg.nu; job.theta = cg.theta; job.beta = cg.beta; job.frechet_beta = cg.fbeta;
          dom_asm->assemble(job);
          bool lay = false;
          double d = max_rel_diff_b<D, D>(A, B, &lay);
          c.check(lay && d <= 1e-12, k + " route.job-matrix." + cg.name, [&]{ return "Burgers matrix job differs from BurgersAssembler by " + std::to_string(d); });
        }
        // vector assembly: r += N(v; primal, .) == A * primal, classic and job
        {
          const BVec<D>& primal = vu[vu.size() / 2];
          BVec<D> r1(velo.get_num_dofs()), r2(velo.get_num_dofs()), r3(velo.get_num_dofs());
          r1.format(); r2.format(); r3.format();
          ba.assemble_vector(r1, vv, primal, velo, cf);
          A.apply(r2, primal);
          Assembly::BurgersBlockedVectorAssemblyJob<BVec<D>, VeloSpace> vjob(r3, primal, vv, velo, cn);
          vjob.deformation = cg.defo; vjob.nu = cg.nu; vjob.theta = cg.theta; vjob.beta = cg.beta; vjob.frechet_beta = cg.fbeta;
          dom_asm->assemble(vjob);
          double d1 = 0, d3 = 0, big = 1e-300;
          for(Index i = 0; i < r1.size(); ++i) for(int m = 0; m < D; ++m)
          { d1 = std::max(d1, std::fabs(r1(i)[m] - r2(i)[m])); d3 = std::max(d3, std::fabs(r3(i)[m] - r2(i)[m])); big = std::max(big, std::fabs(r2(i)[m])); }
          for(Index kk = 0; kk < A.used_elements(); ++kk) for(int a = 0; a < D; ++a) for(int b = 0; b < D; ++b) big = std::max(big, std::fabs(A.val()[kk][a][b]));
          // BurgersAssembler::assemble_vector is the nonlinear defect route: by design it has no Frechet term (that
          // term only belongs to the Jacobian matrix), so it is compared with A*primal only for frechet_beta == 0
          if(cg.fbeta != 0.0)
            c.excluded("classic Burgers vector assembly with frechet_beta != 0 (defect route has no Frechet term by design)");
          else
            c.check(d1 <= 1e-11 * big, k + " vector." + cg.name, [&]{ return "BurgersAssembler::assemble_vector differs from A*primal by " + std::to_string(d1); });
          c.check(d3 <= 1e-11 * big, k + " route.job-vector." + cg.name, [&]{ return "Burgers vector job differs from A*primal by " + std::to_string(d3); });
        }
        // scalar matrix: the same operator for one scalar unknown (no deformation, no Frechet term in the scalar case)
        if(!cg.defo && cg.fbeta == 0.0)
        {
          CSR S;
          Assembly::SymbolicAssembler::assemble_matrix_std1(S, velo);
          S.format();
          ba.assemble_scalar_matrix(S, vv, velo, cf);
          auto ms = monomials<D>(exps_total_degree<D>(Velo_::pk));
          auto vs = interpolate_all(velo, ms);
          for(size_t a = 0; a < ms.size(); ++a) for(size_t b = 0; b < ms.size(); ++b)
          {
            Poly<D> in;
            if(cg.nu != 0.0) for(int j = 0; j < D; ++j) in += ms[a].diff(j) * ms[b].diff(j) * LD(cg.nu);
            if(cg.theta != 0.0) in += ms[a] * ms[b] * LD(cg.theta);
            if(cg.beta != 0.0) for(int j = 0; j < D; ++j) in += v[(size_t)j] * ms[a].diff(j) * ms[b] * LD(cg.beta);
            LD sc = 0, got = bilinear(S, vs[b], vs[a], &sc);
            if(!compare(k + " scalar-matrix." + cg.name, got, mc.integrate(in), sc, mc.integrate_abs(in), "u=[" + ms[a].str() + "] w=[" + ms[b].str() + "]")) return;
          }
          CSR S2;
          Assembly::SymbolicAssembler::assemble_matrix_std1(S2, velo);
          S2.format();
          Assembly::BurgersScalarMatrixAssemblyJob<CSR, VeloSpace, BVec<D>> sjob(S2, vv, velo, cn);
          sjob.nu = cg.nu; sjob.theta = cg.theta; sjob.beta = cg.beta;
          dom_asm->assemble(sjob);
          bool lay = false, bit = false;
          double d = max_rel_diff(S, S2, &lay, &bit);
          c.check(lay && d <= 1e-12, k + " route.job-scalar-matrix." + cg.name, [&]{ return "Burgers scalar matrix job differs from assemble_scalar_matrix by " + std::to_string(d); });
        }
      }
    }

    void run(bool with_burgers)
    {
      const int extra = mc.affine ? 0 : D - 1;
      const bool simplex_affine = ShapeInfo<Shape_>::is_simplex;
      {
        Assembly::Common::IdentityOperatorBlocked<D> op;
        check_velo_operator("identity-blocked", op, [](const Field<D>& u, const Field<D>& w) { return dot_of<D>(u, w); }, 2 * Velo_::deg + extra);
      }
      const int gd = simplex_affine ? 2 * (Velo_::deg - 1) : 2 * Velo_::deg + extra;
      {
        Assembly::Common::LaplaceOperatorBlocked<D> op;
        check_velo_operator("laplace-blocked", op, [](const Field<D>& u, const Field<D>& w) { return grad_grad<D>(u, w); }, gd);
      }
      {
        Assembly::Common::DuDvOperatorBlocked<D> op;
        check_velo_operator("dudv-blocked", op, [](const Field<D>& u, const Field<D>& w) { return grad_grad<D>(u, w) + gradT_grad<D>(u, w); }, gd);
      }
      check_grad_div();
      if(with_burgers) check_burgers();
    }
  };

  template<typename Shape_>
  void enumerate_shape(verif::Ctx& c)
  {
    const std::string sn = ShapeInfo<Shape_>::name();
    auto fam = mesh_family<Shape_>(c.thorough);
    for(size_t im = 0; im < fam.size(); ++im)
    {
      const MeshSpec& ms = fam[im];
      auto one = [&](const char* pair, auto fn)
      {
        if(!c.want()) return;
        c.desc([&]{ return sn + " " + pair + " mesh " + ms.str(); });
        MeshCtx<Shape_> mc = make_mesh<Shape_>(ms);
        fn(mc);
        c.nontrivial(verif::Hash().str(sn).str(pair).str(ms.str()).get());
        c.outcome(sn + " " + pair);
        c.count("cases");
        c.count("cells", mc.geoms.size());
      };
      one("L2/L1", [&](MeshCtx<Shape_>& mc) { BlockChecker<Shape_, VL2, VL1>(c, mc).run(true); });
      one("L2/P1dc", [&](MeshCtx<Shape_>& mc) { BlockChecker<Shape_, VL2, PP1>(c, mc).run(false); });
      one("CR/P0", [&](MeshCtx<Shape_>& mc) { BlockChecker<Shape_, VCR, PP0>(c, mc).run(true); });
    }
  }

  template<bool three_d>
  int blocked_main(int argc, char** argv, const char* harness_name)
  {
    Runtime::ScopeGuard guard(argc, argv);
    verif::Spec spec;
    spec.property = "C16";
    spec.harness = harness_name;
    spec.rule = "cases = (shape, mesh of the c16 family, velocity/pressure element pair); per case: blocked identity / Laplace / DuDv operators "
      "(classic assembler vs exact integrals for all pairs of component-wise monomial fields + one coupled field; DomainAssembler job route), "
      "GradPresDivVeloAssembler (B, D = B^T bitwise, scaling factors), GradOperatorAssembler matrix and vector version, Gradient{Trial,Test}OperatorBlocked, "
      "BurgersAssembler matrix in 6 parameter configurations (nu, nu with deformation tensor, theta, beta, Frechet beta, all together) with a polynomial "
      "convection field, BurgersAssembler vector == A*primal, scalar matrix, and the three Burgers assembly jobs. Non-trivial: every case.";
    spec.bounds_quick = "this binary: tria/quad (c16_blocked) resp. tetra/hexa (c16_blocked3d); pairs L2/L1, L2/P1dc, CR/P0; mesh family of c16_core.hpp";
    spec.bounds_thorough = "3D: larger mesh family (more numberings, finer unit cubes); 2D uses the full family in both tiers";
    spec.assumptions = {
      "deformation tensor diffusion is checked against nu*int (grad u + grad u^T):grad w, the convention implemented consistently by BurgersAssembler, the Burgers jobs, "
      "DuDvOperator(Blocked) and the voxel assemblers; the class documentation of BurgersAssembler states 1/4*int (grad+grad^T)u:(grad+grad^T)w, which is half of it (documentation finding)",
      "streamline diffusion (sd_delta != 0) is not covered: its local parameter is not polynomial",
      "BurgersAssembler::assemble_vector (defect route) deliberately has no Frechet term: it is compared with A*primal only for frechet_beta == 0 (excluded combinations are counted); the Burgers vector JOB multiplies its local matrix and is checked for all configurations",
      "oracle integrates polynomials only (see c16_assembly)"};
    spec.max_fail_per_worker = 100000;
    return verif::run(spec, argc, argv, [&](verif::Ctx& c) {
      if constexpr(!three_d) { enumerate_shape<Shape::Simplex<2>>(c); enumerate_shape<Shape::Hypercube<2>>(c); }
      else { enumerate_shape<Shape::Simplex<3>>(c); enumerate_shape<Shape::Hypercube<3>>(c); }
    });
  }
} // namespace c16b
