// C07 (a): the stopping-criterion automaton of Solver::IterativeSolver, explored exhaustively.
//
// A scripted subclass of IterativeSolver<DenseVector<double>> feeds the REAL
//   _set_initial_defect / _set_new_defect / _update_defect / _analyse_defect / is_converged / is_diverged
// with defects of prescribed norm. One case = one configuration (limits, tolerances, defect-computation
// mode) x one initial defect; inside the case a breadth-first search over all operation histories
// (defect steps through both entry points, and "start a new solve" on the same object) is run on the real
// object (state = history, replayed on a fresh object), deduplicated by the canonical *implementation*
// state and compared after every operation against
//   (R1) a reference automaton transcribed from the class documentation of kernel/solver/iterative.hpp
//        (criterion formula at _tol_rel, member docs of min/max iter, stagnation, divergence, skip_defect_calc),
//   (R2) order-independent truthfulness predicates evaluated on the *trace of defects* (no counters):
//        success => criterion holds for the reported defect, max_iter => limit reached and criterion not met,
//        stagnated => the last min_stag_iter iterations all stagnated, diverged/aborted <=> the defect says so.
#include <verif.hpp>
#include <kernel/runtime.hpp>
#include <kernel/lafem/dense_vector.hpp>
#include <kernel/solver/iterative.hpp>

#include <cmath>
#include <cstring>
#include <limits>
#include <unordered_set>

using namespace FEAT;
using Solver::Status;

typedef LAFEM::DenseVector<double, Index> Vec;

namespace
{
  const double EPS = std::numeric_limits<double>::epsilon();

  struct Cfg
  {
    Index min_iter, max_iter, min_stag;
    double tol_rel, tol_abs, tol_abs_low, div_rel, div_abs;
    int defmode; // 0: default (skipping allowed), 1: skip_defect_calc(false), 2: skipping allowed + iteration plot every 2nd it.
    bool tol_abs_default, div_rel_default, div_abs_default;
  };

  // ------------------------------------------------------------------------------------------ the scripted solver
  class Scripted : public Solver::IterativeSolver<Vec>
  {
  public:
    Vec v, sol;
    Index plotted = 0;
    Scripted() : Solver::IterativeSolver<Vec>("scripted"), v(1), sol(1, 0.0) {}
    virtual String name() const override { return "scripted"; }
    virtual Status apply(Vec&, const Vec&) override { return Status::undefined; }
    virtual Status correct(Vec&, const Vec&) override { return Status::undefined; }
    // count the plot lines instead of printing them (the default implementation only prints)
    virtual void _plot_iter_line(Index, double, double) override { ++plotted; }

    void configure(const Cfg& c)
    {
      set_min_iter(c.min_iter); set_max_iter(c.max_iter); set_min_stag_iter(c.min_stag);
      set_tol_rel(c.tol_rel);
      if(!c.tol_abs_default) set_tol_abs(c.tol_abs);
      set_tol_abs_low(c.tol_abs_low);
      if(!c.div_rel_default) set_div_rel(c.div_rel);
      if(!c.div_abs_default) set_div_abs(c.div_abs);
      if(c.defmode == 1) skip_defect_calc(false);
      if(c.defmode == 2) { set_plot_mode(Solver::PlotMode::iter); set_plot_interval(2); }
    }
    // as every real solver does: the returned status becomes the object's status
    void start(double d) { v(0, d); this->_status = this->_set_initial_defect(v, sol); }
    void step_vec(double d) { v(0, d); this->_status = this->_set_new_defect(v, sol); }
    void step_norm(double d) { this->_status = this->_update_defect(d); }
  };

  // ------------------------------------------------------------------------------------------ operations
  enum OpKind { OP_START = 0, OP_VEC = 1, OP_NORM = 2 };
  struct Op { int kind; int sym; }; // sym: index into the multiplier / initial alphabet

  // multipliers applied to the previously *fed* defect; 100/101 = NaN / Inf
  const double MULT[] = {0.0, 1e-9, 0.5, 0.95, 0.96, 1.0, 2.0, 1e20};
  const int NMULT = 8, SYM_NAN = 8, SYM_INF = 9, NSYM = 10;
  const double INIT[] = {0.0, 1e-40, 1e-20, 1e-4, 1e-3, 1.0, 1e-310 /* denormal */, 1e150 /* x*x overflows in norm2 */};
  const int NINIT = 8;

  inline double next_fed(double prev, int sym)
  {
    if(sym == SYM_NAN) return std::numeric_limits<double>::quiet_NaN();
    if(sym == SYM_INF) return std::numeric_limits<double>::infinity();
    return prev * MULT[sym];
  }
  // the norm the real code computes from a 1-vector (x): sqrt(x*x)
  inline double norm1(double x) { return std::sqrt(x * x); }

  // ------------------------------------------------------------------------------------------ reference R1
  struct Ref
  {
    Status st = Status::undefined;
    Index k = 0, stag = 0;
    double d0 = 0, dc = 0, dp = 0;
    Index plotted = 0;
  };

  inline bool ref_converged(const Cfg& c, double d, double d0)
  {
    // class doc: (|r_k| <= tol_abs) and ((|r_k| <= tol_rel*|r_0|) or (|r_k| <= tol_abs_low))
    return (d <= c.tol_abs) && ((d <= c.tol_rel * d0) || (d <= c.tol_abs_low));
  }
  inline bool ref_diverged(const Cfg& c, double d, double d0)
  {
    return (d > c.div_abs) || (d > c.div_rel * d0);
  }
  void ref_start(Ref& r, const Cfg& c, double d)
  {
    r.d0 = r.dc = r.dp = d; r.k = 0; r.stag = 0;
    if(c.defmode == 2) ++r.plotted;          // iteration 0 is a multiple of every interval
    if(!std::isfinite(d)) r.st = Status::aborted;
    else if(d < c.tol_abs_low) r.st = Status::success;     // "check against low absolute tolerance"
    else if(d <= EPS * EPS) r.st = Status::success;        // "initial defect is zero; we test against eps^2"
    else r.st = Status::progress;
  }
  void ref_step(Ref& r, const Cfg& c, double d, bool via_vec)
  {
    ++r.k;
    r.dp = r.dc;
    // skip_defect_calc doc: the defect may be skipped "if possible", i.e. if nothing can depend on it
    bool observe = !via_vec || c.defmode == 1 || (c.min_iter < c.max_iter) || (c.min_stag > 0)
      || (c.defmode == 2 && (r.k % 2 == 0));
    if(observe) r.dc = d;
    Status s;
    if(!std::isfinite(r.dc)) s = Status::aborted;
    else if(ref_diverged(c, r.dc, r.d0)) s = Status::diverged;
    else if(r.k < c.min_iter) s = Status::progress;
    else if(ref_converged(c, r.dc, r.d0)) s = Status::success;
    else if(r.k >= c.max_iter) s = Status::max_iter;
    else
    {
      s = Status::progress;
      if(c.min_stag > 0)
      {
        if(r.dc >= 0.95 * r.dp) { if(++r.stag >= c.min_stag) s = Status::stagnated; }
        else r.stag = 0;
      }
    }
    if(c.defmode == 2 && ((r.k % 2 == 0) || s != Status::progress)) ++r.plotted;
    r.st = s;
  }

  inline bool same(double a, double b) { return (a == b) || (std::isnan(a) && std::isnan(b)); }

  const char* stname(Status s)
  {
    switch(s)
    {
    case Status::undefined: return "undefined"; case Status::progress: return "progress"; case Status::success: return "success";
    case Status::aborted: return "aborted"; case Status::diverged: return "diverged"; case Status::max_iter: return "max_iter";
    case Status::stagnated: return "stagnated";
    }
    return "?";
  }

  std::string cfg_str(const Cfg& c, int init)
  {
    char b[400];
    snprintf(b, sizeof b, "min_iter=%u max_iter=%u min_stag_iter=%u tol_rel=%g tol_abs=%s tol_abs_low=%g div_rel=%s div_abs=%s defmode=%d(%s) d0=%g",
      unsigned(c.min_iter), unsigned(c.max_iter), unsigned(c.min_stag), c.tol_rel, c.tol_abs_default ? "default" : "0.1", c.tol_abs_low,
      c.div_rel_default ? "default" : "10", c.div_abs_default ? "default" : "100", c.defmode,
      c.defmode == 0 ? "skip-allowed" : c.defmode == 1 ? "no-skip" : "skip-allowed+plot/2", INIT[init]);
    return b;
  }
  std::string hist_str(const std::vector<Op>& h)
  {
    std::string s;
    for(auto& o : h)
    {
      if(!s.empty()) s += " ";
      if(o.kind == OP_START) { char b[40]; snprintf(b, sizeof b, "start(%g)", INIT[o.sym]); s += b; }
      else
      {
        char b[40];
        if(o.sym == SYM_NAN) snprintf(b, sizeof b, "%s(NaN)", o.kind == OP_VEC ? "vec" : "norm");
        else if(o.sym == SYM_INF) snprintf(b, sizeof b, "%s(Inf)", o.kind == OP_VEC ? "vec" : "norm");
        else snprintf(b, sizeof b, "%s(x%g)", o.kind == OP_VEC ? "vec" : "norm", MULT[o.sym]);
        s += b;
      }
    }
    return s;
  }
} // namespace

int main(int argc, char** argv)
{
  Runtime::ScopeGuard guard(argc, argv);
  verif::Spec spec; spec.property = "C07"; spec.harness = "c07_stopping";
  spec.rule = "case = (min_iter,max_iter,min_stag_iter,tol_rel,tol_abs,tol_abs_low,div_rel,div_abs,defect-computation mode,initial defect), "
    "simplest first; inside a case BFS over all histories of {defect step via _set_new_defect(vector), via _update_defect(norm), start a new solve} "
    "replayed on a fresh scripted IterativeSolver, deduplicated by (status,num_iter,num_stag_iter,def_init,def_cur,def_prev,last fed defect). "
    "Every case is non-trivial (hash = configuration); a state is terminal (only 'new solve' follows) when status != progress";
  spec.bounds_quick = "min_iter 0..2, max_iter 0..3, min_stag_iter 0..2, tol_rel {1e-8,0.5,0,1}, tol_abs {default,0.1}, tol_abs_low {0,1e-3}, div_rel {default,10}, "
    "div_abs {default,100}, defmode {skip allowed, no skip, skip+plot interval 2}, d0 {0,1e-40,1e-20 (between eps^2 and eps),1e-4,1e-3 (= tol_abs_low),1,1e-310 (denormal),1e150 (norm2 overflows)}; steps x{0,1e-9,.5,.95,.96,1,2,1e20},NaN,Inf; depth 6 (every case reaches its fixpoint: the whole reachable state space is explored)";
  spec.bounds_thorough = "additionally max_iter 5 and min_stag_iter 3; depth 8 (every case reaches its fixpoint)";
  spec.assumptions = {
    "reference automaton R1 transcribed by hand from the documentation/comments of kernel/solver/iterative.hpp (criterion formula at _tol_rel, "
    "priority order aborted > diverged > min_iter > converged > max_iter > stagnation as documented step by step in _analyse_defect)",
    "the initial-defect shortcut 'defect <= eps^2 counts as zero => success' and the strict '<' against tol_abs_low are taken from the comments of _set_initial_defect",
    "stag_rate fixed at the documented default 0.95; defects are fed through 1-vectors (norm2 = sqrt(x*x))",
    "plot lines are counted through the virtual _plot_iter_line instead of printed"};
  spec.deadline_quick_s = 400; spec.deadline_thorough_s = 1500;

  return verif::run(spec, argc, argv, [&](verif::Ctx& c)
  {
    const int depth = c.thorough ? 8 : 6;
    const Index MAXIT[] = {0, 1, 2, 3, 5};
    const int n_maxit = c.thorough ? 5 : 4;
    const Index n_stag = c.thorough ? 4 : 3;
    const double DEF_TOL_ABS = 1.0 / (EPS * EPS), DEF_DIV_REL = 1.0 / EPS, DEF_DIV_ABS = 1.0 / (EPS * EPS);

    for(int defmode = 0; defmode < 3; ++defmode)
    for(int i_da = 0; i_da < 2; ++i_da)
    for(int i_dr = 0; i_dr < 2; ++i_dr)
    for(int i_tal = 0; i_tal < 2; ++i_tal)
    for(int i_ta = 0; i_ta < 2; ++i_ta)
    for(int i_tr = 0; i_tr < 4; ++i_tr)
    for(Index min_stag = 0; min_stag < n_stag; ++min_stag)
    for(int i_mx = 0; i_mx < n_maxit; ++i_mx)
    for(Index min_iter = 0; min_iter < 3; ++min_iter)
    for(int init = 0; init < NINIT; ++init)
    {
      if(!c.want()) continue;
      const Index max_iter = MAXIT[i_mx];
      Cfg cfg;
      cfg.min_iter = min_iter; cfg.max_iter = max_iter; cfg.min_stag = min_stag;
      cfg.tol_rel = (i_tr == 0) ? 1e-8 : (i_tr == 1) ? 0.5 : (i_tr == 2) ? 0.0 : 1.0;   // including exactly 0 and exactly 1
      cfg.tol_abs_default = !i_ta; cfg.tol_abs = i_ta ? 0.1 : DEF_TOL_ABS;
      cfg.tol_abs_low = i_tal ? 1e-3 : 0.0;
      cfg.div_rel_default = !i_dr; cfg.div_rel = i_dr ? 10.0 : DEF_DIV_REL;
      cfg.div_abs_default = !i_da; cfg.div_abs = i_da ? 100.0 : DEF_DIV_ABS;
      cfg.defmode = defmode;
      c.desc([&]{ return cfg_str(cfg, init); });
      c.nontrivial(verif::Hash().pod(defmode).pod(i_da).pod(i_dr).pod(i_tal).pod(i_ta).pod(i_tr).pod(min_stag).pod(max_iter).pod(min_iter).pod(init).get());

      // the constructor defaults are part of the documented interface
      {
        Scripted s0;
        c.check(s0.get_tol_rel() == std::sqrt(EPS) && s0.get_tol_abs() == DEF_TOL_ABS && s0.get_tol_abs_low() == 0.0
          && s0.get_div_rel() == DEF_DIV_REL && s0.get_div_abs() == DEF_DIV_ABS && s0.get_stag_rate() == 0.95
          && s0.get_min_iter() == 0 && s0.get_max_iter() == 100 && s0.get_min_stag_iter() == 0 && s0.get_status() == Status::undefined,
          "stopping.defaults", "constructor defaults differ from the documented ones");
      }

      // replays hist on a fresh object, validating every step against R1 and R2; returns the canonical key
      struct Key { uint64_t a, b; bool operator==(const Key& o) const { return a == o.a && b == o.b; } };
      struct KeyHash { size_t operator()(const Key& k) const { return size_t(k.a ^ (k.b * 0x9e3779b97f4a7c15ull)); } };

      auto replay = [&](const std::vector<Op>& hist, bool& terminal, double& fed_out) -> Key
      {
        Scripted s; s.configure(cfg);
        Ref r;
        double fed = 0.0;
        std::vector<double> trace; // observed defects of the current solve (index = iteration), for R2
        bool ok = true;
        for(size_t i = 0; i < hist.size() && ok; ++i)
        {
          const Op& o = hist[i];
          const bool last = (i + 1 == hist.size());
          if(o.kind == OP_START)
          {
            fed = INIT[o.sym];
            s.start(fed);
            ref_start(r, cfg, norm1(fed));
            trace.clear(); trace.push_back(s.get_def_final());
          }
          else
          {
            fed = next_fed(fed, o.sym);
            if(o.kind == OP_VEC) { s.step_vec(fed); ref_step(r, cfg, norm1(fed), true); }
            else { s.step_norm(fed); ref_step(r, cfg, fed, false); }
            trace.push_back(s.get_def_final());
          }
          c.count("transitions");
          if(!last) continue; // the prefix was validated when it was the frontier
          // ---- R1: exact agreement of every observable
          auto why = [&]{ return cfg_str(cfg, init) + " | history: " + hist_str(hist) + " | impl status=" + stname(s.get_status()) + " iter=" + std::to_string(s.get_num_iter())
            + " stag=" + std::to_string(s._num_stag_iter) + " def=" + std::to_string(s.get_def_final()) + " | ref status=" + stname(r.st) + " iter=" + std::to_string(r.k)
            + " stag=" + std::to_string(r.stag) + " def=" + std::to_string(r.dc); };
          ok &= c.check(s.get_status() == r.st, std::string("stopping.status ref=") + stname(r.st) + " impl=" + stname(s.get_status()), why);
          ok &= c.check(s.get_num_iter() == r.k, "stopping.num_iter", why);
          ok &= c.check(same(s.get_def_initial(), r.d0), "stopping.def_initial", why);
          ok &= c.check(same(s.get_def_final(), r.dc), "stopping.def_final", why);
          ok &= c.check(same(s._def_prev, r.dp), "stopping.def_prev", why);
          ok &= c.check(s._num_stag_iter == r.stag, "stopping.num_stag_iter", why);
          ok &= c.check(s.plotted == r.plotted, "stopping.plot_lines", why);
          ok &= c.check(s.is_converged() == ref_converged(cfg, r.dc, r.d0), "stopping.is_converged", why);
          ok &= c.check(s.is_diverged() == ref_diverged(cfg, r.dc, r.d0), "stopping.is_diverged", why);
          {
            // documented: def_final/def_initial, 0 instead of a division by (relative) zero
            double exp_red = (r.d0 > std::fabs(r.dc * EPS)) ? r.dc / r.d0 : 0.0;
            if(std::isnan(r.dc)) exp_red = r.dc;
            ok &= c.check(same(s.calc_defect_reduction(), exp_red), "stopping.defect_reduction", why);
            double exp_rate = (r.k == 0 || r.d0 < EPS) ? 0.0 : std::pow(r.dc / r.d0, 1.0 / double(r.k));
            double got = s.calc_convergence_rate();
            ok &= c.check(same(got, exp_rate) || std::fabs(got - exp_rate) <= 4 * EPS * std::fabs(exp_rate), "stopping.convergence_rate", why);
          }
          // ---- R2: truthfulness on the trace of observed defects (no counters of the reference used)
          {
            const Status st = s.get_status();
            const size_t k = trace.size() - 1;           // iterations of this solve
            const double d = trace.back(), d0 = trace.front();
            const bool fin = std::isfinite(d);
            const bool conv = ref_converged(cfg, d, d0), divg = ref_diverged(cfg, d, d0);
            // trailing run of stagnated iterations among the iterations that were eligible (>= min_iter)
            size_t run = 0;
            for(size_t j = k; j >= 1 && j >= cfg.min_iter; --j) { if(trace[j] >= 0.95 * trace[j - 1]) ++run; else break; }
            bool t = true;
            if(k == 0)
              t = (st == Status::aborted) ? !fin : (st == Status::success) ? (fin && (d < cfg.tol_abs_low || d <= EPS * EPS))
                : (st == Status::progress && fin && !(d < cfg.tol_abs_low) && d > EPS * EPS);
            else switch(st)
            {
            case Status::aborted: t = !fin; break;
            case Status::diverged: t = fin && divg; break;
            case Status::success: t = fin && !divg && conv && k >= cfg.min_iter; break;
            case Status::max_iter: t = fin && !divg && !conv && k >= cfg.max_iter && k >= cfg.min_iter; break;
            case Status::stagnated: t = fin && !divg && !conv && k >= cfg.min_iter && k < cfg.max_iter && cfg.min_stag > 0 && run >= cfg.min_stag; break;
            case Status::progress: t = fin && !divg && (k < cfg.min_iter || (!conv && k < cfg.max_iter && (cfg.min_stag == 0 || run < cfg.min_stag))); break;
            default: t = false;
            }
            ok &= c.check(t, std::string("stopping.truthful status=") + stname(st), why);
            // a status other than progress must stop at the first such iteration: guaranteed by construction (terminal states get no steps)
          }
          c.outcome(std::string(stname(s.get_status())) + (s.get_num_iter() == 0 ? "@0" : s.get_num_iter() < cfg.min_iter ? "@<min" : s.get_num_iter() >= cfg.max_iter ? "@>=max" : "@mid"));
        }
        terminal = (s.get_status() != Status::progress) || !ok;
        fed_out = fed;
        // canonical key of the IMPLEMENTATION state (+ the last fed value, which determines the meaning of the next multiplier)
        verif::Hash h1, h2;
        auto put = [&](double x) { if(std::isnan(x)) x = std::numeric_limits<double>::quiet_NaN(); uint64_t u; memcpy(&u, &x, 8); if(std::isnan(x)) u = 0x7ff8000000000000ull; h1.pod(u); h2.pod(u ^ 0x5555ull); };
        int st = int(s.get_status()); h1.pod(st); h2.pod(st);
        Index ni = s.get_num_iter(), ns = s._num_stag_iter; h1.pod(ni).pod(ns); h2.pod(ns).pod(ni);
        put(s._def_init); put(s._def_cur); put(s._def_prev); put(fed);
        return Key{h1.get(), h2.get()};
      };

      std::unordered_set<Key, KeyHash> seen;
      std::vector<std::vector<Op>> frontier, next;
      std::vector<char> fterm, nterm;
      {
        std::vector<Op> h0{Op{OP_START, init}};
        bool term; double fed;
        Key k = replay(h0, term, fed);
        seen.insert(k); c.count("states"); c.count("traces_validated_against_impl");
        frontier.push_back(h0); fterm.push_back(term ? 1 : 0);
      }
      for(int d = 1; d < depth && !frontier.empty(); ++d)
      {
        next.clear(); nterm.clear();
        for(size_t fi = 0; fi < frontier.size(); ++fi)
        {
          const auto& h = frontier[fi];
          std::vector<Op> h2(h); h2.push_back(Op{0, 0});
          auto expand = [&](Op o)
          {
            h2.back() = o;
            bool term; double fed;
            Key k = replay(h2, term, fed);
            c.count("traces_validated_against_impl");
            if(seen.insert(k).second)
            {
              c.count("states");
              next.push_back(h2); nterm.push_back(term ? 1 : 0);
            }
          };
          if(!fterm[fi])
          {
            for(int sym = 0; sym < NSYM; ++sym) { expand(Op{OP_VEC, sym}); expand(Op{OP_NORM, sym}); }
          }
          // a new solve on the same object (every real solver does this on the next apply/correct); from a running
          // state it models a solver object that is re-used after an aborted run
          for(int j = 0; j < NINIT; ++j) expand(Op{OP_START, j});
        }
        frontier.swap(next); fterm.swap(nterm);
        c.maxi("depth", uint64_t(d + 1));
      }
      // an empty frontier means that the whole reachable state space of this configuration was explored
      if(frontier.empty()) c.count("cases_explored_to_fixpoint"); else c.count("cases_cut_at_depth_bound");
    }
  });
}
