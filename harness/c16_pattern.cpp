// C16 symbolic patterns and the numeric assemblers scattering into them on permuted meshes, tria/quad; see c16_pattern_impl.hpp.
#include <c16_pattern_impl.hpp>
int main(int argc, char** argv) { return c16p::pattern_main<false>(argc, argv, "c16_pattern"); }
