// C11 (round-trip part) -- write o parse is the identity on mesh nodes, property maps, graphs and permutations.
//
// A: every shipped mesh file under <repo>/data/meshes: parse -> write -> parse -> write; second output byte-identical,
//    independent structural dump (c11::canon) identical before/after.
// B: generated mesh nodes (refined unit cubes of every shape, test_aux meshes in all orientations, with boundary
//    parts without/with topology, attributes, charts, partitions, an internal part): write -> parse gives the
//    identical structure as the *original* node, second write byte-identical.
// C: all property-map trees over a small alphabet (built through the API): dump -> parse gives the same tree for
//    every tree the format can express; dump byte-identical.
// D: all small graphs: Graph::serialize -> Graph(buffer) identical arrays, second serialisation byte-identical.
// E: all permutations of <= 5 elements: permutation array <-> swap array representations reproduce each other.
#include "c11_common.hpp"
#include "c11_faultgen.hpp"

#include <kernel/geometry/common_factories.hpp>
#include <kernel/geometry/boundary_factory.hpp>
#include <kernel/geometry/test_aux/standard_quad.hpp>
#include <kernel/geometry/test_aux/standard_hexa.hpp>
#include <kernel/geometry/test_aux/standard_tria.hpp>
#include <kernel/geometry/test_aux/standard_tetra.hpp>
#include <kernel/geometry/test_aux/tetris_quad.hpp>
#include <kernel/geometry/test_aux/tetris_hexa.hpp>
#include <kernel/adjacency/graph.hpp>
#include <kernel/adjacency/permutation.hpp>

#include <algorithm>
#include <array>
#include <set>
#include <cmath>
#include <dirent.h>
#include <sys/stat.h>
#include <unistd.h>

using namespace c11;

namespace
{
  std::string itos(long long v) { return std::to_string(v); }

  // ---------------------------------------------------------------------------------------------- B: generated nodes
  template<int d_> const char* shape_word(const Shape::Simplex<d_>&) { return "simplex"; }
  template<int d_> const char* shape_word(const Shape::Hypercube<d_>&) { return "hypercube"; }
  template<typename Mesh_, int wd_ = Mesh_::world_dim> struct Charts;
  template<typename Mesh_> struct Charts<Mesh_, 1> { static std::vector<std::string> add(MeshAtlas<Mesh_>&, int) { return {}; } };
  template<typename Mesh_> struct Charts<Mesh_, 2>
  {
    static std::vector<std::string> add(MeshAtlas<Mesh_>& atlas, int variant)
    {
      std::vector<std::string> names;
      atlas.add_mesh_chart("circle", std::unique_ptr<Atlas::ChartBase<Mesh_>>(new Atlas::Circle<Mesh_>(0.5, 0.5, 0.25)));
      names.push_back("circle");
      if(variant > 0)
      {
        atlas.add_mesh_chart("arc dom", std::unique_ptr<Atlas::ChartBase<Mesh_>>(new Atlas::Circle<Mesh_>(0.25, -1.5, 2.0, 0.0, 4.0)));
        names.push_back("arc dom");
        std::unique_ptr<Atlas::Bezier<Mesh_>> bz(new Atlas::Bezier<Mesh_>(variant > 1, variant > 1 ? -1.0 : 1.0));
        typename Atlas::Bezier<Mesh_>::WorldPoint p;
        typename Atlas::Bezier<Mesh_>::ParamPoint q;
        p[0] = 0.0; p[1] = 0.0; bz->push_vertex(p); q[0] = 0.0; bz->push_param(q);
        p[0] = 0.5; p[1] = -0.125; bz->push_control(p); p[0] = 1.0; p[1] = 0.0; bz->push_vertex(p); q[0] = 1.0; bz->push_param(q);
        p[0] = 1.25; p[1] = 0.25; bz->push_control(p); p[0] = 1.25; p[1] = 0.75; bz->push_control(p); p[0] = 1.0; p[1] = 1.0; bz->push_vertex(p); q[0] = 2.5; bz->push_param(q);
        if(variant > 1) { p[0] = 0.0; p[1] = 0.0; bz->push_vertex(p); q[0] = 3.0; bz->push_param(q); }
        atlas.add_mesh_chart("bezier", std::move(bz));
        names.push_back("bezier");
      }
      return names;
    }
  };
  template<typename Mesh_> struct Charts<Mesh_, 3>
  {
    static std::vector<std::string> add(MeshAtlas<Mesh_>& atlas, int variant)
    {
      std::vector<std::string> names;
      atlas.add_mesh_chart("sphere", std::unique_ptr<Atlas::ChartBase<Mesh_>>(new Atlas::Sphere<Mesh_>(0.5, 0.5, 0.5, 0.25)));
      names.push_back("sphere");
      (void)variant;
      return names;
    }
  };

  template<typename Shape_, int d_ = Shape_::dimension>
  struct CopyTargets
  {
    static void go(TargetSetHolder<Shape_>& dst, const TargetSetHolder<Shape_>& src)
    {
      CopyTargets<Shape_, d_ - 1>::go(dst, src);
      auto& a = dst.template get_target_set<d_>(); const auto& b = src.template get_target_set<d_>();
      for(Index i = 0; i < b.get_num_entities(); ++i) a[i] = b[i];
    }
  };
  template<typename Shape_> struct CopyTargets<Shape_, -1> { static void go(TargetSetHolder<Shape_>&, const TargetSetHolder<Shape_>&) {} };

  // ---- mesh parts that hold cells: the chosen cells plus all their sub-entities
  template<typename Mesh_, int f_> struct FaceCollect
  {
    static void go(const Mesh_& mesh, const std::vector<Index>& cells, std::vector<std::vector<Index>>& ents)
    {
      FaceCollect<Mesh_, f_ - 1>::go(mesh, cells, ents);
      const auto& is = mesh.template get_index_set<Mesh_::shape_dim, f_>();
      std::set<Index> st;
      for(Index cl : cells) for(int j = 0; j < is.num_indices; ++j) st.insert(is[cl][j]);
      ents[size_t(f_)].assign(st.begin(), st.end());
    }
  };
  template<typename Mesh_> struct FaceCollect<Mesh_, -1> { static void go(const Mesh_&, const std::vector<Index>&, std::vector<std::vector<Index>>&) {} };

  template<typename Shape_, int d_ = Shape_::dimension>
  struct SetTargets
  {
    static void go(TargetSetHolder<Shape_>& dst, const std::vector<std::vector<Index>>& ents)
    {
      SetTargets<Shape_, d_ - 1>::go(dst, ents);
      auto& a = dst.template get_target_set<d_>();
      for(Index i = 0; i < a.get_num_entities(); ++i) a[i] = ents[size_t(d_)][i];
    }
  };
  template<typename Shape_> struct SetTargets<Shape_, -1> { static void go(TargetSetHolder<Shape_>&, const std::vector<std::vector<Index>>&) {} };

  template<typename Mesh_>
  std::unique_ptr<MeshPart<Mesh_>> cell_part(const Mesh_& mesh, const std::vector<Index>& cells, bool with_topology, bool reversed)
  {
    constexpr int D = Mesh_::shape_dim;
    std::vector<std::vector<Index>> ents(size_t(D + 1));
    FaceCollect<Mesh_, D - 1>::go(mesh, cells, ents);
    ents[size_t(D)] = cells;
    if(reversed) for(auto& e : ents) std::reverse(e.begin(), e.end());   // non-monotone numbering
    Index sz[4] = {0, 0, 0, 0};
    for(int d = 0; d <= D; ++d) sz[d] = Index(ents[size_t(d)].size());
    std::unique_ptr<MeshPart<Mesh_>> part(new MeshPart<Mesh_>(sz, with_topology));
    SetTargets<typename Mesh_::ShapeType>::go(part->get_target_set_holder(), ents);
    if(with_topology) part->deduct_topology(*mesh.get_topology());
    return part;
  }

  /// builds a node around 'mesh' and checks write -> parse -> write
  template<typename Mesh_>
  void node_case(verif::Ctx& c, std::unique_ptr<Mesh_> mesh, const std::string& tag, int variant)
  {
    typedef typename Mesh_::ShapeType ShapeType;
    const std::string key = "generated " + tag;
    const std::string type = "conformal:" + std::string(shape_word(ShapeType())) + ":" + itos(Mesh_::shape_dim) + ":" + itos(Mesh_::world_dim);
    // variant >= 1: non-dyadic coordinates
    if(variant >= 1 && variant <= 2)
    {
      auto& vs = mesh->get_vertex_set();
      for(Index i = 0; i < vs.get_num_vertices(); ++i)
        for(int j = 0; j < Mesh_::world_dim; ++j)
          vs[i][j] = vs[i][j] * 1.1 + (double(i % 7) + 1.0) / 3000.0 + 1e-3 * double(j) - (variant >= 2 ? 123.456 : 0.0);
    }
    if(variant >= 3)
    {
      // value alphabet: zeros of both signs, +-1, %g notation switch points, rounding carries, 2-/3-digit exponent
      // boundaries, extreme magnitudes of both signs; variant 4: denormals
      static const double alpha3[] = {0.0, -0.0, 1.0, -1.0, 1e-5, 9.99995e-5, 1e-4, 99999.5, 999999.5, 1e5, 1e6, 123456.7, 1e99, 1e100, -1e100, 1e-99, 1e-100,
        1e300, -1e300, 1e-300, -1e-300, 1.7976931348623157e308, -1.7976931348623157e308, 2.2250738585072014e-308, 0.1, 1.0 / 3.0, -2.0 / 3.0, 9.999995, 0.9999995};
      static const double alpha4[] = {4.9406564584124654e-324, -4.9406564584124654e-324, 1e-310, -1e-310, 2.2250738585072009e-308, 0.0, 1.0};
      const double* al = (variant == 3 ? alpha3 : alpha4);
      const size_t na = (variant == 3 ? sizeof(alpha3) : sizeof(alpha4)) / sizeof(double);
      auto& vs = mesh->get_vertex_set();
      size_t k = 0;
      for(Index i = 0; i < vs.get_num_vertices(); ++i) for(int j = 0; j < Mesh_::world_dim; ++j) vs[i][j] = al[(k++) % na];
    }
    MeshAtlas<Mesh_> atlas;
    std::vector<std::string> chart_names = Charts<Mesh_>::add(atlas, variant >= 3 ? 1 : variant);
    const Index ncells = mesh->get_num_elements();
    BoundaryFactory<Mesh_> bf(*mesh);
    std::unique_ptr<MeshPart<Mesh_>> bnd = bf.make_unique();
    std::unique_ptr<MeshPart<Mesh_>> bnd_t;
    {
      // deduct_topology needs a part that was created with a topology: same target sets as the boundary part
      Index sz[4] = {0, 0, 0, 0};
      for(int d = 0; d <= Mesh_::shape_dim; ++d) sz[d] = bnd->get_num_entities(d);
      bnd_t.reset(new MeshPart<Mesh_>(sz, true));
      CopyTargets<ShapeType>::go(bnd_t->get_target_set_holder(), bnd->get_target_set_holder());
      bnd_t->deduct_topology(*mesh->get_topology());
    }
    {
      std::unique_ptr<AttributeSet<double>> at(new AttributeSet<double>(bnd_t->get_num_entities(0), 2));
      for(Index i = 0; i < bnd_t->get_num_entities(0); ++i) { (*at)(i, 0) = double(i) / 3.0; (*at)(i, 1) = -double(i) * 0.25; }
      if(variant >= 3) for(Index i = 0; i < bnd_t->get_num_entities(0); ++i) { (*at)(i, 0) = mesh->get_vertex_set()[i % mesh->get_num_entities(0)][0] * -1.0; (*at)(i, 1) = (i % 2 ? 1e-100 : -1e300); }
      bnd_t->add_attribute(std::move(at), "uv");
      std::unique_ptr<AttributeSet<double>> a2(new AttributeSet<double>(bnd_t->get_num_entities(0), 1));
      for(Index i = 0; i < bnd_t->get_num_entities(0); ++i) (*a2)(i, 0) = double(i);
      bnd_t->add_attribute(std::move(a2), "param");
    }
    // a part consisting of two vertices only
    std::unique_ptr<MeshPart<Mesh_>> pts;
    {
      Index sz[4] = {Index(2), 0, 0, 0};
      pts.reset(new MeshPart<Mesh_>(sz, false));
      pts->template get_target_set<0>()[0] = 0;
      pts->template get_target_set<0>()[1] = mesh->get_num_entities(0) - 1;
    }
    std::unique_ptr<MeshPart<Mesh_>> internal = bf.make_unique();
    // parts that hold cells: a region with full topology, a region without topology in non-monotone numbering, a patch-like part of all cells
    std::unique_ptr<MeshPart<Mesh_>> reg_full, reg_none, patch_all;
    {
      std::vector<Index> first, last, all;
      for(Index i = 0; i < ncells; ++i) { all.push_back(i); if(i < (ncells + 1) / 2) first.push_back(i); if(i >= ncells / 2) last.push_back(i); }
      reg_full = cell_part<Mesh_>(*mesh, first, true, false);
      reg_none = cell_part<Mesh_>(*mesh, last, false, true);
      patch_all = cell_part<Mesh_>(*mesh, all, true, false);
    }

    RootMeshNode<Mesh_> node(std::move(mesh), &atlas);
    const std::string c0 = chart_names.empty() ? std::string() : chart_names.front();
    node.add_mesh_part("bnd", std::move(bnd), c0, c0.empty() ? nullptr : atlas.find_mesh_chart(c0));
    node.add_mesh_part("bnd:topo", std::move(bnd_t));
    node.add_mesh_part("two points", std::move(pts), chart_names.size() > 1 ? chart_names.back() : std::string(), chart_names.size() > 1 ? atlas.find_mesh_chart(chart_names.back()) : nullptr);
    node.add_mesh_part("_internal", std::move(internal));
    node.add_mesh_part("region:full", std::move(reg_full));
    node.add_mesh_part("region:none", std::move(reg_none));
    node.add_mesh_part("patch:0", std::move(patch_all));

    PartitionSet ps;
    {
      Adjacency::DynamicGraph g1(1, ncells);
      for(Index i = 0; i < ncells; ++i) g1.insert(0, i);
      ps.add_partition(Partition(g1, "all", 7, 0));
      const Index nr = std::min<Index>(3, ncells);
      Adjacency::DynamicGraph g2(nr, ncells);
      for(Index i = 0; i < ncells; ++i) g2.insert((i * 2 + 1) % nr, i);
      ps.add_partition(Partition(g2, "", -2, 3));
    }

    const std::string can0 = canon(node, atlas, ps);
    std::ostringstream os;
    { MeshFileWriter w(os); w.write(&node, &atlas, &ps); }
    const std::string w1 = os.str();
    // derived object: the clone of the node is written identically, and the original is unchanged by cloning
    {
      std::unique_ptr<RootMeshNode<Mesh_>> cl = node.clone_unique();
      std::ostringstream oc; { MeshFileWriter w(oc); w.write(cl.get(), &atlas, &ps); }
      c.check(oc.str() == w1, key + " :: clone", "the clone of the mesh node is written differently");
      std::ostringstream o2; { MeshFileWriter w(o2); w.write(&node, &atlas, &ps); }
      c.check(o2.str() == w1, key + " :: write-twice", "writing the same node a second time gives a different text");
    }
    // unusual overloads: no indentation; internal mesh parts exported on request
    {
      std::ostringstream on; { MeshFileWriter w(on, false); w.write(&node, &atlas, &ps); }
      Parsed pn = parse_mesh(on.str(), type, true, true);
      c.check(pn.kind == K_OK && pn.canon == can0 && pn.written == w1, key + " :: no-indent", [&]{ return std::string("the unindented output does not parse back to the same node: ") + kind_name(pn.kind) + " " + pn.what; });
      std::ostringstream oi; { MeshFileWriter w(oi); w.write(&node, &atlas, &ps, false); }
      SeqResult sr; parse_sequence(type, {oi.str()}, false, true, sr);
      const bool has_int = sr.written.find("name=\"_internal\"") == std::string::npos && oi.str().find("name=\"_internal\"") != std::string::npos;
      c.check(sr.kinds[0] == K_OK && has_int && sr.canons[0] == can0, key + " :: export-internal", [&]{ return std::string("write(..., skip_internal_meshparts=false) must export '_internal' and parse back: ") + kind_name(sr.kinds[0]) + " " + sr.whats[0]; });
    }
    Parsed p = parse_mesh(w1, type, true, true);
    if(!c.check(p.kind == K_OK, key + " :: rejected", [&]{ return std::string("the writer's output is rejected: ") + kind_name(p.kind) + " " + p.what; })) return;
    c.check(p.type == type, key + " :: root-type", [&]{ return "root markup declares '" + p.type + "' for a " + type + " mesh"; });
    c.check(p.canon == can0, key + " :: structure", [&]
    {
      // first differing line
      std::istringstream a(can0), b(p.canon); std::string la, lb; int ln = 0;
      while(true) { bool ha = bool(std::getline(a, la)), hb = bool(std::getline(b, lb)); ++ln; if(!ha && !hb) break; if(!ha || !hb || la != lb) break; }
      return "parsed node differs from the written one at dump line " + itos(ln) + ": original '" + printable(la, 300) + "' parsed '" + printable(lb, 300) + "'";
    });
    c.check(p.written == w1, key + " :: roundtrip", [&]{ return std::string("second write is not byte-identical to the first (sizes ") + itos((long long)w1.size()) + " / " + itos((long long)p.written.size()) + ")"; });
    c.count("bytes_written", w1.size());
    c.outcome("generated node: identical");
    c.nontrivial(verif::Hash().str("gen").str(tag).pod(variant).get());
  }

  template<typename Mesh_>
  void cube_cases(verif::Ctx& c, const char* tag, int max_level)
  {
    for(int lvl = 0; lvl <= max_level; ++lvl)
      for(int variant = 0; variant < 5; ++variant)
      {
        if(!c.want()) continue;
        c.desc([&]{ return std::string("generated node: refined unit cube ") + tag + " level " + itos(lvl) + " variant " + itos(variant) + " (0 dyadic coords, 1/2 non-dyadic coords + more charts, 3 extreme-magnitude value alphabet, 4 denormals)"; });
        RefinedUnitCubeFactory<Mesh_> f{Index(lvl)};
        std::unique_ptr<Mesh_> m(new Mesh_(f));
        node_case<Mesh_>(c, std::move(m), std::string(tag) + " L" + itos(lvl) + " v" + itos(variant), variant);
      }
  }

  template<typename MeshFrom_, typename MeshTo_>
  std::unique_ptr<MeshTo_> adopt(MeshFrom_* raw)
  {
    // test_aux meshes are ConformalMesh<Shape> with default coordinates (Real == double): same type
    static_assert(std::is_same<MeshFrom_, MeshTo_>::value, "type mismatch");
    return std::unique_ptr<MeshTo_>(raw);
  }


  // ---------------------------------------------------------------------------------------------- F: chart parameter families
  template<typename Mesh_>
  struct ChartHolder
  {
    MeshAtlas<Mesh_> atlas;
    RootMeshNode<Mesh_> node;
    PartitionSet ps;
    Atlas::ChartBase<Mesh_>* chart = nullptr;
    std::string written, chart_text, what;
    bool ok = false;
    ChartHolder() : atlas(), node(nullptr, &atlas) {}
    void parse(const std::string& text)
    {
      try
      {
        std::istringstream iss(text);
        MeshFileReader reader(iss);
        reader.parse(node, atlas, &ps);
        chart = atlas.find_mesh_chart("c");
        if(chart == nullptr) { what = "chart 'c' not in atlas"; return; }
        std::ostringstream os; { MeshFileWriter w(os); w.write(&node, &atlas, &ps); }
        written = os.str();
        std::ostringstream cs; chart->write(cs, ""); chart_text = cs.str();
        ok = true;
      }
      catch(const std::exception& e) { what = e.what(); }
    }
  };

  double g_near_tol = 1e-12;
  inline bool near(double a, double b)
  {
    if(!std::isfinite(a) || !std::isfinite(b)) return !std::isfinite(a) && !std::isfinite(b);
    return std::fabs(a - b) <= g_near_tol * (1.0 + std::fabs(a));
  }

  /// one chart given as XML text: write -> parse -> write byte-identical, same geometric object, expected parameter strings present
  template<typename Mesh_>
  void chart_case(verif::Ctx& c, const std::string& label, const std::string& chart_xml, const std::vector<std::string>& expect_substrings)
  {
    constexpr int wd = Mesh_::world_dim;
    const std::string type = std::string("conformal:") + shape_word(typename Mesh_::ShapeType()) + ":" + itos(wd) + ":" + itos(wd);
    const std::string text = "<FeatMeshFile version=\"1\" mesh=\"" + type + "\">\n  <Chart name=\"c\">\n" + chart_xml + "  </Chart>\n</FeatMeshFile>\n";
    c.desc([&]{ return "chart family " + label + " | " + printable(chart_xml, 700); });
    const std::string key = "chart " + label;
    ChartHolder<Mesh_> h0; h0.parse(text);
    if(!c.check(h0.ok, key + " :: rejected", [&]{ return "chart text is not accepted: " + h0.what; })) return;
    for(auto& e : expect_substrings)
      c.check(h0.written.find(e) != std::string::npos, key + " :: parameter", [&]{ return "written chart does not contain '" + e + "': " + printable(h0.chart_text, 500); });
    ChartHolder<Mesh_> h1; h1.parse(h0.written);
    if(!c.check(h1.ok, key + " :: rewrite-rejected", [&]{ return "written chart is rejected: " + h1.what + " | " + printable(h0.written, 600); })) return;
    c.check(h1.written == h0.written, key + " :: roundtrip", [&]{ return "second write differs: '" + printable(h0.chart_text, 400) + "' vs '" + printable(h1.chart_text, 400) + "'"; });
    // same geometric object
    const auto& a = *h0.chart; const auto& b = *h1.chart;
    c.check(std::string(a.get_type()) == std::string(b.get_type()) && a.can_explicit() == b.can_explicit() && a.can_implicit() == b.can_implicit(), key + " :: kind",
      [&]{ return "type / capabilities differ: " + std::string(a.get_type()) + " vs " + std::string(b.get_type()); });
    typedef typename Atlas::ChartBase<Mesh_>::WorldPoint WP;
    // generic (non-symmetric) probe points: dyadic ones hit exact ties of the nearest-point search (circle centre, points
    // equidistant from two curve segments) where rounding noise of 1e-17 in the rotation matrix legitimately flips the answer
    const double pts[6][3] = {{0.2371, 0.5113, 0.1297}, {1.5231, -0.7409, 0.4877}, {-0.5127, 0.1319, -1.0433}, {0.7591, 0.8647, 2.0179}, {2.0353, 1.0117, -0.2579}, {-1.2713, -1.4923, 0.3701}};
    auto geom = [&](const Atlas::ChartBase<Mesh_>& a, const Atlas::ChartBase<Mesh_>& b) -> std::string
    {
      std::string diff;
      const auto* sma = dynamic_cast<const Atlas::SurfaceMesh<Mesh_>*>(&a);
      const auto* smb = dynamic_cast<const Atlas::SurfaceMesh<Mesh_>*>(&b);
      std::vector<std::array<double, 3>> probes;
      if(sma != nullptr || smb != nullptr)
      {
        if(sma == nullptr || smb == nullptr) return "one chart is a SurfaceMesh, the other is not";
        const auto& ma = *sma->_surface_mesh; const auto& mb = *smb->_surface_mesh;
        if(ma.get_num_entities(0) != mb.get_num_entities(0) || ma.get_num_entities(2) != mb.get_num_entities(2)) return "surface mesh sizes differ";
        for(Index i = 0; i < ma.get_num_entities(0); ++i) for(int j = 0; j < 3; ++j) if(!near(ma.get_vertex_set()[i][j], mb.get_vertex_set()[i][j])) return "surface vertex " + itos((long long)i) + " differs";
        const auto& ia = ma.template get_index_set<2, 0>(); const auto& ib = mb.template get_index_set<2, 0>();
        for(Index i = 0; i < ia.get_num_entities(); ++i) for(int j = 0; j < 3; ++j) if(ia[i][j] != ib[i][j]) return "surface triangle " + itos((long long)i) + " differs";
        // SurfaceMesh::project / dist abort (XASSERT in find_cell) even for points next to a triangle centroid: the point search of
        // this chart is not a file-format matter; the triangulation itself was compared above (listed in spec.assumptions)
      }
      else for(int i = 0; i < 6; ++i) probes.push_back({pts[i][0], pts[i][1], pts[i][2]});
      for(auto& pr : probes)
      {
        if(!diff.empty()) break;
        WP p; for(int j = 0; j < wd; ++j) p[j] = pr[size_t(j)];
        const std::string ps = "(" + g6(pr[0]) + "," + g6(pr[1]) + (wd > 2 ? "," + g6(pr[2]) : "") + ")";
        if(a.can_implicit())
        {
          WP qa = a.project(p), qb = b.project(p);
          for(int j = 0; j < wd; ++j) if(!near(qa[j], qb[j])) diff = "project" + ps + " component " + itos(j) + ": " + std::to_string(qa[j]) + " vs " + std::to_string(qb[j]);
          double da = a.dist(p), db = b.dist(p);
          if(diff.empty() && !near(da, db)) diff = "dist" + ps + ": " + std::to_string(da) + " vs " + std::to_string(db);
          double sa = a.signed_dist(p), sb = b.signed_dist(p);
          if(diff.empty() && !near(sa, sb)) diff = "signed_dist" + ps + ": " + std::to_string(sa) + " vs " + std::to_string(sb);
          // the overloads that also return the gradient of the distance function
          WP ga, gb, ha, hb;
          double da2 = a.dist(p, ga), db2 = b.dist(p, gb);
          double sa2 = a.signed_dist(p, ha), sb2 = b.signed_dist(p, hb);
          if(diff.empty() && (!near(da2, db2) || !near(sa2, sb2))) diff = "dist/signed_dist with gradient at " + ps + " differ";
          // (the two signed_dist overloads of Sphere disagree in sign on /repo - a geometry matter outside C11, reported separately -
          //  so only the unsigned distance is cross-checked between the overloads)
          if(diff.empty() && sma == nullptr && !near(da2, da)) diff = "dist(p, grad) disagrees with dist(p) of the same chart at " + ps;
          for(int j = 0; j < wd && diff.empty(); ++j) if(!near(ga[j], gb[j]) || !near(ha[j], hb[j])) diff = "gradient of the distance at " + ps + " component " + itos(j) + " differs";
          c.count("chart_probe_evaluations", 5);
        }
      }
      if(a.can_explicit() && b.can_explicit())
      {
        for(double t : {0.0, 0.5, 1.0, 1.75, 2.5})
        {
          if(!diff.empty()) break;
          WP prm; for(int j = 0; j < wd; ++j) prm[j] = 0.0; prm[0] = t; if(wd > 2) prm[1] = 0.375;
          WP qa = a.map(prm), qb = b.map(prm);
          for(int j = 0; j < wd; ++j) if(!near(qa[j], qb[j])) diff = "map(" + g6(t) + ") component " + itos(j) + ": " + std::to_string(qa[j]) + " vs " + std::to_string(qb[j]);
          c.count("chart_probe_evaluations");
        }
      }
      if(diff.empty() && a.bytes() != b.bytes()) diff = "bytes() differ: " + itos((long long)a.bytes()) + " vs " + itos((long long)b.bytes());
      return diff;
    };
    std::string diff = geom(a, b);
    c.check(diff.empty(), key + " :: geometry", [&]{ return "the re-parsed chart is a different geometric object: " + diff + " | first write '" + printable(h0.chart_text, 300) + "'"; });
    // derived object: the transformed chart (rotation about an origin + offset) of the original and of the re-parsed chart
    // are again the same object, and the transformed chart round-trips through the file format
    {
      WP org, ang, off;
      const double o3[3] = {0.25, 0.5, 0.125}, a3[3] = {0.3, 0.2, 0.1}, f3[3] = {1.0, -2.0, 0.5};
      for(int j = 0; j < wd; ++j) { org[j] = o3[j]; ang[j] = a3[j]; off[j] = f3[j]; }
      ChartHolder<Mesh_> hu; hu.parse(text);      // an untransformed copy for the independent oracle below
      h0.chart->transform(org, ang, off);
      h1.chart->transform(org, ang, off);
      // independent oracle: T(x) = R (x - origin) + offset with R = Rz(yaw) Ry(pitch) Rx(roll) (2D: rotation by angles[0]) is a rigid
      // motion, so projection and distance commute with it: project_T(T p) = T project(p), dist_T(T p) = dist(p)
      if(hu.ok && !dynamic_cast<const Atlas::SurfaceMesh<Mesh_>*>(hu.chart) && hu.chart->can_implicit())
      {
        double Rm[3][3] = {{1, 0, 0}, {0, 1, 0}, {0, 0, 1}};
        if(wd == 2) { Rm[0][0] = std::cos(a3[0]); Rm[0][1] = -std::sin(a3[0]); Rm[1][0] = std::sin(a3[0]); Rm[1][1] = std::cos(a3[0]); }
        else
        {
          const double cy = std::cos(a3[0]), sy = std::sin(a3[0]), cp = std::cos(a3[1]), sp = std::sin(a3[1]), cr = std::cos(a3[2]), sr = std::sin(a3[2]);
          const double Rz[3][3] = {{cy, -sy, 0}, {sy, cy, 0}, {0, 0, 1}}, Ry[3][3] = {{cp, 0, sp}, {0, 1, 0}, {-sp, 0, cp}}, Rx[3][3] = {{1, 0, 0}, {0, cr, -sr}, {0, sr, cr}};
          double Tm[3][3];
          for(int i = 0; i < 3; ++i) for(int j = 0; j < 3; ++j) { Tm[i][j] = 0; for(int k = 0; k < 3; ++k) Tm[i][j] += Rz[i][k] * Ry[k][j]; }
          for(int i = 0; i < 3; ++i) for(int j = 0; j < 3; ++j) { Rm[i][j] = 0; for(int k = 0; k < 3; ++k) Rm[i][j] += Tm[i][k] * Rx[k][j]; }
        }
        auto Tf = [&](const WP& x) { WP y; for(int i = 0; i < wd; ++i) { y[i] = f3[i]; for(int j = 0; j < wd; ++j) y[i] += Rm[i][j] * (x[j] - o3[j]); } return y; };
        std::string dt;
        const double keep = g_near_tol; g_near_tol = 1e-9;
        for(int i = 0; i < 6 && dt.empty(); ++i)
        {
          WP p; for(int j = 0; j < wd; ++j) p[j] = pts[i][j];
          WP tq = Tf(hu.chart->project(p)), qt = h0.chart->project(Tf(p));
          for(int j = 0; j < wd; ++j) if(!near(tq[j], qt[j])) dt = "project does not commute with the rigid motion at probe " + itos(i) + " component " + itos(j) + ": " + std::to_string(tq[j]) + " vs " + std::to_string(qt[j]);
          if(dt.empty() && !near(hu.chart->dist(p), h0.chart->dist(Tf(p)))) dt = "dist changes under the rigid motion at probe " + itos(i);
          c.count("chart_probe_evaluations", 2);
        }
        // (not for circles with a parameter domain: Circle::transform adds the rotation angle to the parameter offset without dividing by
        //  the domain scaling, so the parametrisation only moves correctly for domains of length 2*pi - geometry observation, reported
        //  with spec/proposed_fixes/circle_transform_domain.patch)
        if(hu.chart->can_explicit() && h0.chart->can_explicit() && label.find("circle") == std::string::npos)
          for(double t : {0.0, 0.5, 1.0, 1.75, 2.5})
          {
            if(!dt.empty()) break;
            // the parametrisation moves with the chart: map_T(t) = T map(t) (an extruded parameter has the height as second component)
            WP prm; for(int j = 0; j < wd; ++j) prm[j] = 0.0; prm[0] = t; if(wd > 2) prm[1] = 0.375;
            WP tq = Tf(hu.chart->map(prm)), qt = h0.chart->map(prm);
            for(int j = 0; j < wd; ++j) if(!near(tq[j], qt[j])) dt = "map(" + g6(t) + ") does not move with the rigid motion, component " + itos(j) + ": " + std::to_string(tq[j]) + " vs " + std::to_string(qt[j]);
            c.count("chart_probe_evaluations");
          }
        g_near_tol = keep;
        c.check(dt.empty(), key + " :: transform", [&]{ return "transform(origin, angles, offset) is not the rigid motion R(x-origin)+offset: " + dt; });
      }
      std::string d2 = geom(*h0.chart, *h1.chart);
      c.check(d2.empty(), key + " :: transformed-geometry", [&]{ return "after transform() the original and the re-parsed chart differ: " + d2; });
      std::ostringstream t0; { MeshFileWriter w(t0); w.write(&h0.node, &h0.atlas, &h0.ps); }
      ChartHolder<Mesh_> h2; h2.parse(t0.str());
      if(c.check(h2.ok, key + " :: transformed-rejected", [&]{ return "the transformed chart is written in a form the reader rejects: " + h2.what + " | " + printable(t0.str(), 500); }))
      {
        c.check(h2.written == t0.str(), key + " :: transformed-roundtrip", [&]{ return "transformed chart: second write differs: '" + printable(t0.str(), 400) + "' vs '" + printable(h2.written, 400) + "'"; });
        // the transformed parameters are no longer 6-digit numbers: equality to the printed precision only
        g_near_tol = 1e-4;
        std::string d3 = geom(*h0.chart, *h2.chart);
        g_near_tol = 1e-12;
        c.check(d3.empty(), key + " :: transformed-reparsed-geometry", [&]{ return "transformed chart differs from its re-parsed copy: " + d3; });
      }
      c.count("charts_transformed");
    }
    c.outcome("chart family: " + std::string(a.get_type()));
    c.nontrivial(verif::Hash().str("chart").str(label).str(chart_xml).get());
  }


  std::string lower_(std::string t) { for(auto& ch : t) ch = char(std::tolower((unsigned char)ch)); return t; }
  std::string scratch_dir()
  {
    const char* sc = std::getenv("VERIF_SCRATCH"); const char* rt = std::getenv("VERIF_ROOT");
    std::string dir = sc ? std::string(sc) : (std::string(rt ? rt : "/verif") + "/build/scratch");
    dir += "/c11_roundtrip";
    mkdir(dir.c_str(), 0777);
    return dir;
  }
  template<typename Mesh_> std::string file_canon_typed(const std::string& path)
  {
    MeshFileReader reader;
    reader.add_mesh_file(String(path));
    MeshAtlas<Mesh_> atlas; PartitionSet ps;
    std::unique_ptr<RootMeshNode<Mesh_>> node = reader.parse<Mesh_>(atlas, &ps);   // the overload that creates the node
    return canon(*node, atlas, ps);
  }
  std::string file_canon(const std::string& path, const std::string& type)
  {
    if(type == "conformal:hypercube:1:1") return file_canon_typed<MeshH1>(path);
    if(type == "conformal:hypercube:2:2") return file_canon_typed<MeshH2>(path);
    if(type == "conformal:hypercube:3:3") return file_canon_typed<MeshH3>(path);
    if(type == "conformal:simplex:2:2") return file_canon_typed<MeshS2>(path);
    return file_canon_typed<MeshS3>(path);
  }

  // ---------------------------------------------------------------------------------------------- C: property maps
  bool pm_key_ok(const std::string& k) { return !k.empty() && k == trim_ws(k) && k.find('#') == std::string::npos && k.find('=') == std::string::npos && k.find('\n') == std::string::npos; }
  bool pm_val_ok(const std::string& v) { return v == trim_ws(v) && v.find('#') == std::string::npos && v.find('\n') == std::string::npos && (v.empty() || v.back() != '&'); }
  bool pm_sec_ok(const std::string& s) { return !s.empty() && s == trim_ws(s) && s.find('#') == std::string::npos && s.find('\n') == std::string::npos; }
  /// "key = value" must not read as a section marker or a brace
  bool pm_line_ok(const std::string& k, const std::string& v)
  {
    if(!pm_key_ok(k) || !pm_val_ok(v)) return false;
    const std::string line = k + " = " + v;
    std::string t = trim_ws(line);
    if(t.front() == '[' && t.back() == ']') return false;
    return true;
  }
}

namespace c11 { }

int main(int argc, char** argv)
{
  FEAT::Runtime::ScopeGuard guard(argc, argv);
  verif::Spec spec;
  spec.property = "C11";
  spec.harness = "c11_roundtrip";
  spec.rule = "cases: A one per shipped mesh file (data/meshes/*.xml, files that only make sense together with a chart file are parsed together with it); "
    "B one per generated node (refined unit cube of H1/H2/H3/S2/S3 x level x coordinate variant; test_aux meshes in all orientations) carrying boundary parts without/with "
    "topology, attributes, charts, two partitions, an internal part; C one per property-map tree (entries from keys x values, sections x nested section); D one per graph "
    "(domain x image size <= 3x3, every adjacency relation, plus duplicates and the empty graphs); E one per permutation of <= 5 elements; F one per chart of a parameter family "
    "(Circle radius x midpoint x domain, Sphere radius x midpoint, Bezier open/closed x orientation x params x degree pattern, SurfaceMesh variants, Extrude angles {0,+-0.1,+-0.25,0.375,0.5}^3 incl. both "
    "gimbal-lock pitches x origin/offset variants x 4 inner charts); G per mesh seed: every permutation of its top-level blocks (one file / one stream per block), every split into two files parsed into the same "
    "node/atlas/partition set, the same text parsed twice, other reader/writer overloads (nullptr partition set, add_mesh_file, unindented, internal parts); H property-map tree B read into filled tree A "
    "(9x9 trees x replace x read/merge/read-twice) against a model; value alphabet variants 3/4 of the generated nodes (extreme magnitudes, denormals: write -> parse -> write byte-identical, re-parsed chart equal on project/dist/signed_dist/map at dyadic probe points within 1e-12. Non-trivial: the object was "
    "written and parsed back (hash = object identity).";
  spec.bounds_quick = "A all shipped files; B levels 0..2 (3D: 0..1); C trees with <= 2 root entries, <= 2 sections, <= 2 entries per section, <= 1 nested section; D <= 3x3; E n <= 5";
  spec.bounds_thorough = "B levels 0..3 (3D: 0..2); otherwise as quick";
  spec.assumptions = {
    "structural equality is decided on c11::canon, a dump written in the harness that reads index sets, target sets, attributes, names and partitions through the container API (reals with %.6g = the writer's printed precision); charts are compared through their type and their own write() text",
    "B compares the parsed node with the ORIGINAL node, A compares parse(file) with parse(write(parse(file)))",
    "mesh parts whose name starts with '_' are documented as not exported and are excluded from the comparison",
    "property-map trees that the documented format cannot express (value containing '#', ending in '&', key containing '=' or '#', leading/trailing blanks, '[..]' look-alikes) are counted as excluded",
    "not exercised (outside the file-format property): SurfaceMesh::project/dist/find_cell (abort for generic points; the triangulation is compared instead), Xml::DumpParser (debug printer), "
    "String::pad_front/pad_back/replace_all/is_one_of/parse(bool)/stringify (general utilities), PartitionSet::find_partition (partition selection, C12), Graph::permute_indices (C19), Bezier construction setters, "
    "TopoParseHelper<Shape,0> (unreachable 'thou shall not arrive here'), ChartCRTP::adapt(MeshPart&, MeshPart&) (XABORTM stub); the adaption oracle (vertices of a chart-linked part lie on the chart) is not applied to an "
    "Extrude chart with non-zero origin: Extrude::transform_3d_to_2d subtracts the origin instead of adding it, so its projection is 2*R*origin off the chart (geometry observation, reported with patch spec/proposed_fixes/extrude_origin_sign.patch); the 'map moves with transform()' oracle is not applied to circles with a parameter domain "
    "(Circle::transform shifts the parameter offset by the angle without the domain scaling; spec/proposed_fixes/circle_transform_domain.patch)",
    "there is no permutation serialisation API in the tree; E covers the two array representations (perm/swap) as the serialised forms"
  };
  spec.deadline_quick_s = 400; spec.deadline_thorough_s = 1500;

  const char* repo_env = std::getenv("VERIF_REPO");
  const std::string repo = repo_env ? repo_env : "/repo";
  // ---- shipped files, sorted
  std::vector<std::string> files;
  {
    DIR* d = opendir((repo + "/data/meshes").c_str());
    if(d) { while(dirent* e = readdir(d)) { std::string n = e->d_name; if(n.size() > 4 && n.substr(n.size() - 4) == ".xml") files.push_back(n); } closedir(d); }
    std::sort(files.begin(), files.end());
  }
  if(files.empty()) { fprintf(stdout, "MACHINERY: no mesh files under %s/data/meshes\n", repo.c_str()); return 2; }

  // ---- mesh seeds (for the merge / order / overload families)
  std::vector<SeedModel> seeds;
  {
    const char* root_env = std::getenv("VERIF_ROOT");
    std::string root = root_env ? root_env : "/verif";
    { struct stat sb; if(stat((root + "/spec/mesh_seeds").c_str(), &sb) != 0) root = "/verif"; }
    struct SD { const char* name; const char* type; };
    const SD sds[] = {{"bezier_closed", "conformal:hypercube:2:2"}, {"partitions", "conformal:hypercube:2:2"}, {"edge1d", "conformal:hypercube:1:1"}, {"extrude3d", "conformal:hypercube:3:3"},
      {"tria2d", "conformal:simplex:2:2"}, {"quad2d", "conformal:hypercube:2:2"}, {"hexa3d", "conformal:hypercube:3:3"}, {"tetra3d", "conformal:simplex:3:3"},
      {"edge1d_cells", "conformal:hypercube:1:1"}, {"tria2d_cells", "conformal:simplex:2:2"}, {"quad2d_cells", "conformal:hypercube:2:2"},
      {"tetra3d_cells", "conformal:simplex:3:3"}, {"hexa3d_cells", "conformal:hypercube:3:3"}};
    for(auto& sd : sds)
    {
      SeedModel sm; sm.name = sd.name; sm.default_type = sd.type;
      if(!read_file(root + "/spec/mesh_seeds/" + sd.name + ".xml", sm.text)) { fprintf(stdout, "MACHINERY: cannot read seed %s\n", sd.name); return 2; }
      sm.analyse();
      seeds.push_back(sm);
    }
  }
  spec.case_timeout_s = 120;

  return verif::run(spec, argc, argv, [&](verif::Ctx& c) {
    // ------------------------------------------------------------------ A: shipped files
    for(const std::string& fn : files)
    {
      if(!c.want()) continue;
      c.desc([&]{ return "shipped mesh file data/meshes/" + fn; });
      std::string text;
      if(!c.check(read_file(repo + "/data/meshes/" + fn, text), "shipped " + fn + " :: unreadable", "cannot read file")) continue;
      const std::string key = "shipped " + fn;
      // files without 'mesh' attribute: type from a companion or default
      Parsed p = parse_mesh(text, "conformal:hypercube:2:2", true, true);
      if(p.kind == K_LINKER)
      {
        // the mesh refers to charts kept in a separate file: try the shipped chart-only files one at a time
        bool found = false;
        for(const std::string& o : files)
        {
          if(o == fn) continue;
          std::string t; if(!read_file(repo + "/data/meshes/" + o, t)) continue;
          if(t.find("<Mesh ") != std::string::npos || t.find("<Chart ") == std::string::npos) continue;
          std::vector<const std::string*> comp; comp.push_back(&t);
          Parsed q = parse_mesh(text, "conformal:hypercube:2:2", true, true, comp);
          if(q.kind == K_OK) { p = q; found = true; c.count("shipped_files_parsed_with_chart_file"); break; }
        }
        if(!found) { c.excluded("shipped mesh file whose charts are not among the shipped files: " + fn); c.outcome("shipped: needs external chart"); continue; }
      }
      if(p.kind == K_BADTYPE) { c.excluded("shipped file of a mesh type the harness does not instantiate: " + p.what); continue; }
      if(p.kind == K_OK && p.type.empty()) { }
      // chart-only files of 3D charts carry no mesh attribute: retry as 3D
      if(p.kind != K_OK && text.find("<Mesh ") == std::string::npos)
      {
        Parsed p3 = parse_mesh(text, "conformal:hypercube:3:3", true, true);
        if(p3.kind == K_OK) p = p3;
      }
      if(!c.check(p.kind == K_OK, key + " :: rejected", [&]{ return std::string("shipped file is not accepted: ") + kind_name(p.kind) + " " + p.what; })) continue;
      Parsed p2 = parse_mesh(p.written, p.type, true, true);
      if(!c.check(p2.kind == K_OK, key + " :: rewrite-rejected", [&]{ return std::string("the writer's output is rejected: ") + kind_name(p2.kind) + " " + p2.what; })) continue;
      c.check(p2.canon == p.canon, key + " :: structure", [&]
      {
        std::istringstream a(p.canon), b(p2.canon); std::string la, lb; int ln = 0;
        while(true) { bool ha = bool(std::getline(a, la)), hb = bool(std::getline(b, lb)); ++ln; if(!ha && !hb) break; if(!ha || !hb || la != lb) break; }
        return "structure after write/parse differs at dump line " + itos(ln) + ": '" + printable(la, 300) + "' vs '" + printable(lb, 300) + "'";
      });
      c.check(p2.written == p.written, key + " :: roundtrip", [&]
      {
        size_t i = 0; while(i < p.written.size() && i < p2.written.size() && p.written[i] == p2.written[i]) ++i;
        return "second write differs from the first at byte " + itos((long long)i) + ": '" + printable(p.written.substr(i > 40 ? i - 40 : 0, 120)) + "' vs '" + printable(p2.written.substr(i > 40 ? i - 40 : 0, 120)) + "'";
      });
      c.count("bytes_written", p.written.size());
      c.outcome("shipped " + p.type);
      c.nontrivial(verif::Hash().str("file").str(fn).get());
    }

    // ------------------------------------------------------------------ B: generated nodes
    const int l2 = c.thorough ? 3 : 2, l3 = c.thorough ? 2 : 1;
    cube_cases<MeshH1>(c, "H1", l2 + 1);
    cube_cases<MeshH2>(c, "H2", l2);
    cube_cases<MeshS2>(c, "S2", l2);
    cube_cases<MeshH3>(c, "H3", l3);
    cube_cases<MeshS3>(c, "S3", l3);
    for(int variant = 0; variant < 2; ++variant)
    {
      for(int o = 0; o < 4; ++o) { if(!c.want()) continue; c.desc([&]{ return "generated node: test_aux quad mesh orientation " + itos(o) + " variant " + itos(variant); });
        node_case<MeshH2>(c, adopt<TestAux::QuadMesh, MeshH2>(TestAux::create_quad_mesh_2d(o)), "test_aux quad o" + itos(o) + " v" + itos(variant), variant); }
      for(int o = 0; o < 4; ++o) { if(!c.want()) continue; c.desc([&]{ return "generated node: test_aux tria mesh orientation " + itos(o) + " variant " + itos(variant); });
        node_case<MeshS2>(c, adopt<TestAux::TriaMesh, MeshS2>(TestAux::create_tria_mesh_2d(o)), "test_aux tria o" + itos(o) + " v" + itos(variant), variant); }
      for(int o = 0; o < 3; ++o) { if(!c.want()) continue; c.desc([&]{ return "generated node: test_aux hexa mesh orientation " + itos(o) + " variant " + itos(variant); });
        node_case<MeshH3>(c, adopt<TestAux::HexaMesh, MeshH3>(TestAux::create_hexa_mesh_3d(o)), "test_aux hexa o" + itos(o) + " v" + itos(variant), variant); }
      for(int o = 0; o < 3; ++o) { if(!c.want()) continue; c.desc([&]{ return "generated node: test_aux tetra mesh orientation " + itos(o) + " variant " + itos(variant); });
        node_case<MeshS3>(c, adopt<TestAux::TetraMesh, MeshS3>(TestAux::create_tetra_mesh_3d(o)), "test_aux tetra o" + itos(o) + " v" + itos(variant), variant); }
      if(c.want()) { c.desc([&]{ return "generated node: tetris quad mesh variant " + itos(variant); }); node_case<MeshH2>(c, adopt<TestAux::QuadMesh, MeshH2>(TestAux::create_tetris_mesh_2d()), "tetris quad v" + itos(variant), variant); }
      if(c.want()) { c.desc([&]{ return "generated node: tetris hexa mesh variant " + itos(variant); }); node_case<MeshH3>(c, adopt<TestAux::HexaMesh, MeshH3>(TestAux::create_tetris_mesh_3d()), "tetris hexa v" + itos(variant), variant); }
      if(c.want()) { c.desc([&]{ return "generated node: big tetris hexa mesh variant " + itos(variant); }); node_case<MeshH3>(c, adopt<TestAux::HexaMesh, MeshH3>(TestAux::create_big_tetris_mesh_3d()), "big tetris hexa v" + itos(variant), variant); }
      if(c.want()) { c.desc([&]{ return "generated node: big tetra mesh variant " + itos(variant); }); node_case<MeshS3>(c, adopt<TestAux::TetraMesh, MeshS3>(TestAux::create_big_tetra_mesh_3d()), "big tetra v" + itos(variant), variant); }
      if(c.want()) { c.desc([&]{ return "generated node: patch tria mesh variant " + itos(variant); }); node_case<MeshS2>(c, adopt<TestAux::TriaMesh, MeshS2>(TestAux::create_patch_tria_mesh_2d()), "patch tria v" + itos(variant), variant); }
    }


    // ------------------------------------------------------------------ F: chart parameter families (every chart kind x every legal mesh type)
    auto chart_families = [&](auto tag2, auto tag3, const std::string& sfx)
    {
      typedef typename std::remove_pointer<decltype(tag2)>::type M2;
      typedef typename std::remove_pointer<decltype(tag3)>::type M3;
      auto attr_num = [](const char* n, std::initializer_list<double> v) { std::string s = std::string(n) + "=\""; bool f = true; for(double x : v) { s += (f ? "" : " ") + g6(x); f = false; } return s + "\""; };
      // ---- Circle
      const double radii[3] = {0.25, 1.0, 2.5};
      const double mids[2][3] = {{0.0, 0.0, 0.0}, {0.5, -0.25, 0.125}};
      const char* domains[5] = {"", "0 1", "0 4", "0.625 -0.375", "-1 1"};
      for(double r : radii) for(auto& m : mids) for(const char* d : domains)
      {
        if(!c.want()) continue;
        std::string xml = "    <Circle " + attr_num("radius", {r}) + " " + attr_num("midpoint", {m[0], m[1]}) + (d[0] ? std::string(" domain=\"") + d + "\"" : std::string()) + " />\n";
        chart_case<M2>(c, sfx + "circle r=" + g6(r) + " mid=" + g6(m[0]) + "," + g6(m[1]) + " dom=" + d, xml, {attr_num("radius", {r}), attr_num("midpoint", {m[0], m[1]})});
      }
      // ---- Sphere
      for(double r : radii) for(auto& m : mids)
      {
        if(!c.want()) continue;
        std::string xml = "    <Sphere " + attr_num("radius", {r}) + " " + attr_num("midpoint", {m[0], m[1], m[2]}) + " />\n";
        chart_case<M3>(c, sfx + "sphere r=" + g6(r) + " mid=" + g6(m[0]) + "," + g6(m[1]) + "," + g6(m[2]), xml, {attr_num("radius", {r}), attr_num("midpoint", {m[0], m[1], m[2]})});
      }
      // ---- Bezier: 3 segments with the given numbers of control points; closed curves end in their first point
      auto bezier_xml = [&](bool closed, int ori, bool params, const int ctrl[3], const std::string& ind)
      {
        const double vx[4][2] = {{0.0, 0.0}, {1.0, 0.0}, {1.0, 1.0}, {0.0, 1.0}};
        std::string x = ind + "<Bezier dim=\"2\" size=\"" + itos(closed ? 5 : 4) + "\" type=\"" + (closed ? "closed" : "open") + "\"" + (ori != 0 ? " orientation=\"" + itos(ori) + "\"" : std::string()) + ">\n";
        x += ind + "  <Points>\n" + ind + "    0 " + g6(vx[0][0]) + " " + g6(vx[0][1]) + "\n";
        const int np = closed ? 4 : 3;
        for(int sgm = 0; sgm < np; ++sgm)
        {
          const double* a = vx[sgm]; const double* b = vx[(sgm + 1) % 4];
          const int nc = ctrl[sgm % 3];
          x += ind + "    " + itos(nc);
          for(int k = 1; k <= nc; ++k)
          {
            // control points off the chord (dyadic offsets)
            double t = double(k) / double(nc + 1);
            double px = a[0] + t * (b[0] - a[0]) + 0.125 * double(k) * (b[1] - a[1]);
            double py = a[1] + t * (b[1] - a[1]) - 0.125 * double(k) * (b[0] - a[0]);
            x += " " + g6(px) + " " + g6(py);
          }
          x += " " + g6(b[0]) + " " + g6(b[1]) + "\n";
        }
        x += ind + "  </Points>\n";
        if(params) { x += ind + "  <Params>\n"; for(int i = 0; i <= np; ++i) x += ind + "    " + g6(double(i) * 0.75) + "\n"; x += ind + "  </Params>\n"; }
        x += ind + "</Bezier>\n";
        return x;
      };
      const int ctrls[4][3] = {{0, 0, 0}, {1, 0, 2}, {2, 2, 2}, {2, 1, 0}};
      for(int closed = 0; closed < 2; ++closed) for(int ori : {0, 1, -1}) for(int params = 0; params < 2; ++params) for(auto& ct : ctrls)
      {
        if(!c.want()) continue;
        chart_case<M2>(c, sfx + std::string("bezier ") + (closed ? "closed" : "open") + " ori=" + itos(ori) + (params ? " params" : " noparams") + " ctrl=" + itos(ct[0]) + itos(ct[1]) + itos(ct[2]),
          bezier_xml(closed != 0, ori, params != 0, ct, "    "), {});
      }
      // ---- SurfaceMesh
      {
        const char* sms[4] = {
          "    <SurfaceMesh verts=\"3\" trias=\"1\">\n      <Vertices>\n        0 0 0\n        1 0 0\n        0 1 0.5\n      </Vertices>\n      <Triangles>\n        0 1 2\n      </Triangles>\n    </SurfaceMesh>\n",
          "    <SurfaceMesh verts=\"4\" trias=\"2\">\n      <Vertices>\n        0 0 0\n        1 0 0\n        0 1 0\n        1 1 0.5\n      </Vertices>\n      <Triangles>\n        0 1 2\n        1 3 2\n      </Triangles>\n    </SurfaceMesh>\n",
          "    <SurfaceMesh verts=\"4\" trias=\"4\">\n      <Vertices>\n        0 0 0\n        1 0 0\n        0 1 0\n        0 0 1\n      </Vertices>\n      <Triangles>\n        0 2 1\n        0 1 3\n        1 2 3\n        0 3 2\n      </Triangles>\n    </SurfaceMesh>\n",
          "    <SurfaceMesh verts=\"4\" trias=\"2\">\n      <Vertices>\n        0.1 0.2 0.3\n        1.7 -0.3 0.1\n        -0.4 1.3 0\n        1.1 1.2 0.7\n      </Vertices>\n      <Triangles>\n        2 0 1\n        2 1 3\n      </Triangles>\n    </SurfaceMesh>\n"};
        for(int i = 0; i < 4; ++i) { if(!c.want()) continue; chart_case<M3>(c, sfx + "surfacemesh variant " + itos(i), sms[i], {}); }
      }
      // ---- Extrude: angles (yaw, pitch, roll) in revolutions over a grid that contains both gimbal-lock pitches
      {
        const double ang[7] = {0.0, 0.1, -0.1, 0.25, -0.25, 0.5, 0.375};
        const int ct1[3] = {2, 1, 0};
        const std::string inner[4] = {
          "      <Circle radius=\"0.25\" midpoint=\"0.5 0.5\" domain=\"0.625 -0.375\" />\n",
          "      <Circle radius=\"1\" midpoint=\"0 0\" />\n",
          bezier_xml(false, 0, true, ct1, "      "),
          bezier_xml(true, -1, false, ct1, "      ")};
        const char* inner_name[4] = {"circle+domain", "circle", "bezier open", "bezier closed"};
        struct OO { const char* name; const char* attrs; std::vector<std::string> expect; };
        const OO oos[4] = {{"plain", "", {}}, {"origin", " origin=\"0.5 0.25\"", {"origin=\"0.5 0.25\""}}, {"offset", " offset=\"0 0.125 0.25\"", {"offset=\"0 0.125 0.25\""}},
          {"origin+offset", " origin=\"-0.25 1\" offset=\"1 -2 0.5\"", {"origin=\"-0.25 1\"", "offset=\"1 -2 0.5\""}}};
        for(int in = 0; in < 4; ++in) for(auto& oo : oos)
          for(double ay : ang) for(double ap : ang) for(double ar : ang)
          {
            if(!c.want()) continue;
            const bool any = (ay != 0.0 || ap != 0.0 || ar != 0.0);
            std::string xml = std::string("    <Extrude") + oo.attrs + (any ? " " + attr_num("angles", {ay, ap, ar}) : std::string()) + ">\n" + inner[in] + "    </Extrude>\n";
            chart_case<M3>(c, sfx + std::string("extrude/") + inner_name[in] + " " + oo.name + " angles=" + g6(ay) + "," + g6(ap) + "," + g6(ar), xml, oo.expect);
          }
      }
    };
    chart_families((MeshH2*)nullptr, (MeshH3*)nullptr, std::string());
    chart_families((MeshS2*)nullptr, (MeshS3*)nullptr, std::string("simplex "));
    // chart kinds that do not exist for the dimension of the mesh must be refused
    {
      struct Ill { const char* type; const char* kind; const char* xml; };
      const char* circle = "    <Circle radius=\"1\" midpoint=\"0 0\" />\n";
      const char* bezier = "    <Bezier dim=\"2\" size=\"2\" type=\"open\">\n      <Points>\n        0 0 0\n        0 1 0\n      </Points>\n    </Bezier>\n";
      const char* sphere = "    <Sphere radius=\"1\" midpoint=\"0 0 0\" />\n";
      const char* surf = "    <SurfaceMesh verts=\"3\" trias=\"1\">\n      <Vertices>\n        0 0 0\n        1 0 0\n        0 1 0\n      </Vertices>\n      <Triangles>\n        0 1 2\n      </Triangles>\n    </SurfaceMesh>\n";
      const std::string extr = std::string("    <Extrude>\n  ") + circle + "    </Extrude>\n";
      const std::vector<Ill> ills = {
        {"conformal:hypercube:1:1", "Circle", circle}, {"conformal:hypercube:1:1", "Bezier", bezier}, {"conformal:hypercube:1:1", "Sphere", sphere}, {"conformal:hypercube:1:1", "SurfaceMesh", surf}, {"conformal:hypercube:1:1", "Extrude", extr.c_str()},
        {"conformal:hypercube:2:2", "Sphere", sphere}, {"conformal:hypercube:2:2", "SurfaceMesh", surf}, {"conformal:hypercube:2:2", "Extrude", extr.c_str()},
        {"conformal:simplex:2:2", "Sphere", sphere}, {"conformal:simplex:2:2", "SurfaceMesh", surf}, {"conformal:simplex:2:2", "Extrude", extr.c_str()},
        {"conformal:hypercube:3:3", "Circle", circle}, {"conformal:hypercube:3:3", "Bezier", bezier}, {"conformal:simplex:3:3", "Circle", circle}, {"conformal:simplex:3:3", "Bezier", bezier}};
      for(auto& il : ills)
      {
        if(!c.want()) continue;
        const std::string text = std::string("<FeatMeshFile version=\"1\" mesh=\"") + il.type + "\">\n  <Chart name=\"c\">\n" + il.xml + "  </Chart>\n</FeatMeshFile>\n";
        c.desc([&]{ return std::string("chart kind ") + il.kind + " in a file of mesh type " + il.type; });
        Parsed p = parse_mesh(text, il.type, true, false);
        c.check(p.kind == K_GRAMMAR, std::string("chart ") + il.kind + " in " + il.type + " :: accepted", [&]{ return std::string("a chart kind that does not exist for this dimension must be refused with Xml::GrammarError, got ") + kind_name(p.kind) + " " + p.what; });
        c.outcome("chart kind refused for dimension");
        c.nontrivial(verif::Hash().str("ill").str(il.type).str(il.kind).get());
      }
    }

    // ------------------------------------------------------------------ G: several files into one node / atlas, block orders, re-parsing
    for(const SeedModel& sm : seeds)
    {
      const std::string& T = sm.text;
      // top-level blocks of the seed
      struct Blk { std::string tag, text, name, chart; bool parent_topo = false; };
      std::vector<Blk> blks;
      for(size_t li = 0; li < sm.lines.size(); ++li)
      {
        const Line& L = sm.lines[li];
        if(L.path.size() != 1 || !(L.kind == Line::closed || (L.kind == Line::open && L.match > int(li)))) continue;
        const size_t b = L.beg, e = (L.kind == Line::closed) ? L.next : sm.lines[size_t(L.match)].next;
        Blk k; k.tag = L.tag; k.text = T.substr(b, e - b);
        if(auto* a = sm.attr(L, "name")) k.name = a->value;
        if(auto* a = sm.attr(L, "chart")) k.chart = a->value;
        if(auto* a = sm.attr(L, "topology")) k.parent_topo = (a->value == "parent");
        if(L.tag == "Info") continue;
        blks.push_back(k);
      }
      const std::string rootline = T.substr(sm.lines[0].beg, sm.lines[0].next - sm.lines[0].beg);
      auto file_of = [&](const std::vector<size_t>& ids) { std::string f = rootline; for(size_t i : ids) f += blks[i].text; return f + "</FeatMeshFile>\n"; };
      Parsed ref = parse_mesh(T, sm.default_type, true, true);   // cheap, deterministic; outside the cases on purpose (reference for all of them)
      const std::string ref_canon = sorted_lines(ref.canon);
      const size_t nb = blks.size();

      // G1: every permutation of the blocks, (a) as one file, (b) each block as its own stream of one reader
      {
        std::vector<size_t> perm(nb); for(size_t i = 0; i < nb; ++i) perm[i] = i;
        do
        {
          for(int mode = 0; mode < 2; ++mode)
          {
            if(!c.want()) continue;
            std::string pd; for(size_t i : perm) pd += blks[i].tag + (blks[i].name.empty() ? "" : ":" + blks[i].name) + " ";
            c.desc([&]{ return "seed " + sm.name + " blocks in order [" + pd + "] " + (mode == 0 ? "in one file" : "as separate streams of one reader"); });
            const std::string key = "merge " + sm.name + (mode == 0 ? " block-order" : " multi-stream");
            std::vector<std::string> texts;
            if(mode == 0) texts.push_back(file_of(perm)); else for(size_t i : perm) texts.push_back(file_of({i}));
            SeqResult sr;
            parse_sequence(sm.default_type, texts, true, true, sr);
            if(c.check(sr.kinds[0] == K_OK, key + " :: rejected", [&]{ return std::string("a permutation of the blocks is rejected: ") + kind_name(sr.kinds[0]) + " " + sr.whats[0]; }))
              c.check(sorted_lines(sr.canons[0]) == ref_canon, key + " :: structure", [&]{ return "the parsed objects depend on the order of the blocks: " + printable(sr.canons[0], 800); });
            c.outcome("merge: block order");
            c.nontrivial(verif::Hash().str("G1").str(sm.name).str(pd).pod(mode).get());
          }
        } while(std::next_permutation(perm.begin(), perm.end()));
      }
      // G2: two files parsed one after the other (separate readers) into the same node / atlas / partition set
      for(size_t mask = 1; mask + 1 < (size_t(1) << nb); ++mask)
      {
        if(!c.want()) continue;
        std::vector<size_t> f1, f2; for(size_t i = 0; i < nb; ++i) ((mask >> i) & 1 ? f1 : f2).push_back(i);
        std::string pd = "{"; for(size_t i : f1) pd += blks[i].tag + " "; pd += "} then {"; for(size_t i : f2) pd += blks[i].tag + " "; pd += "}";
        c.desc([&]{ return "seed " + sm.name + " split into two files " + pd + " parsed into the same node/atlas"; });
        const std::string key = "merge " + sm.name + " two-files";
        // the first file must be self-contained: charts of its mesh parts and the mesh for deducted topologies
        bool first_ok = true;
        for(size_t i : f1)
        {
          if(blks[i].tag != "MeshPart") continue;
          if(!blks[i].chart.empty()) { bool have = false; for(size_t j : f1) if(blks[j].tag == "Chart" && blks[j].name == blks[i].chart) have = true; first_ok = first_ok && have; }
          if(blks[i].parent_topo) { bool have = false; for(size_t j : f1) if(blks[j].tag == "Mesh") have = true; first_ok = first_ok && have; }
        }
        SeqResult sr;
        parse_sequence(sm.default_type, {file_of(f1), file_of(f2)}, false, true, sr);
        if(first_ok)
        {
          if(c.check(sr.kinds[0] == K_OK && sr.kinds[1] == K_OK, key + " :: rejected", [&]{ return std::string("self-contained first file / completing second file rejected: ") + kind_name(sr.kinds[0]) + " " + sr.whats[0] + " / " + kind_name(sr.kinds[1]) + " " + sr.whats[1]; }))
            c.check(sorted_lines(sr.canons[1]) == ref_canon, key + " :: structure", [&]{ return "two files give a different node than the single file: " + printable(sr.canons[1], 800); });
        }
        else
          c.check(sr.kinds[0] == K_LINKER, key + " :: dangling-reference", [&]{ return std::string("a first file whose mesh part refers to a chart / mesh of the second file must end in MeshNodeLinkerError, got ") + kind_name(sr.kinds[0]) + " " + sr.whats[0]; });
        c.outcome(first_ok ? "merge: two files" : "merge: dangling reference");
        c.nontrivial(verif::Hash().str("G2").str(sm.name).pod(mask).get());
      }
      // G3: the same text a second time into the filled node (separate reader / second stream)
      for(int mode = 0; mode < 2; ++mode)
      {
        if(!c.want()) continue;
        c.desc([&]{ return "seed " + sm.name + " parsed twice into the same node/atlas " + (mode == 0 ? "(two readers)" : "(two streams of one reader)"); });
        const std::string key = "merge " + sm.name + " parsed-twice";
        bool dup = false; for(auto& b : blks) if(b.tag == "Chart" || b.tag == "Mesh" || b.tag == "MeshPart") dup = true;
        SeqResult sr;
        parse_sequence(sm.default_type, {T, T}, mode == 1, true, sr);
        if(mode == 0)
        {
          c.check(sr.kinds[0] == K_OK, key + " :: first", "first parse failed");
          if(dup)
          {
            c.check(documented(sr.kinds[1]), key + " :: second-accepted", [&]{ return std::string("second parse of a file with chart/mesh/mesh part into the filled node must be rejected, got ") + kind_name(sr.kinds[1]); });
            // all seeds with such blocks start with one: the failed parse must leave the filled objects as they were
            c.check(sr.canons[1] == sr.canons[0], key + " :: changed", [&]{ return "a rejected second parse modified the node/atlas: " + printable(sr.canons[1], 600); });
            c.check(sr.written == ref.written, key + " :: rewrite", "node written after the rejected second parse differs");
          }
          else
            c.check(sr.kinds[1] == K_OK, key + " :: second-rejected", [&]{ return std::string("partitions may be added to a filled partition set: ") + kind_name(sr.kinds[1]) + " " + sr.whats[1]; });
        }
        else
          c.check(dup ? documented(sr.kinds[0]) : sr.kinds[0] == K_OK, key + " :: two-streams", [&]{ return std::string("unexpected outcome ") + kind_name(sr.kinds[0]) + " " + sr.whats[0]; });
        c.outcome("merge: parsed twice");
        c.nontrivial(verif::Hash().str("G3").str(sm.name).pod(mode).get());
      }
      // adaption: every mesh part that is linked to a chart is projected onto it; the node parsed from the seed and the node
      // parsed from the written seed must adapt identically, and the adapted node must round-trip
      // (adapt needs a mesh; SurfaceMesh adaption aborts on /repo - inverted assertion in SurfaceMesh::find_cell, reported separately)
      bool adaptable = false, has_surface = T.find("<SurfaceMesh") != std::string::npos;
      for(auto& b : blks) if(b.tag == "Mesh") adaptable = true;
      if(c.want())
      {
       if(!adaptable || has_surface) { c.desc([&]{ return "seed " + sm.name + " adaption"; }); c.excluded(has_surface ? "adaption by a SurfaceMesh chart (aborts in SurfaceMesh::find_cell)" : "adaption of a node without mesh"); }
       else
       {
        c.desc([&]{ return "seed " + sm.name + " adapted by its charts (RootMeshNode::adapt) before and after a write/parse cycle"; });
        const std::string key = "adapt " + sm.name;
        AdaptResult r0 = parse_adapt(T, sm.default_type);
        if(c.check(r0.kind == K_OK, key + " :: failed", [&]{ return std::string(kind_name(r0.kind)) + " " + r0.what; }))
        {
          AdaptResult r1 = parse_adapt(ref.written, sm.default_type);
          c.check(r1.kind == K_OK && r1.canon_after == r0.canon_after, key + " :: differs", [&]{ return "the re-parsed node adapts differently: " + printable(r1.canon_after, 600) + " vs " + printable(r0.canon_after, 600); });
          Parsed pa = parse_mesh(r0.written_after, sm.default_type, true, true);
          c.check(pa.kind == K_OK && pa.written == r0.written_after && pa.canon == r0.canon_after, key + " :: roundtrip", "the adapted node does not round-trip");
          if(r0.canon_after != r0.canon_before) c.count("seeds_moved_by_adaption");
          c.check(r0.max_dist_on_chart <= 1e-9 && r0.bystanders_moved == 0, key + " :: not-on-chart", [&]{ return "after adapt() a vertex of a chart-linked mesh part is " + std::to_string(r0.max_dist_on_chart) + " away from its chart, or " + itos(r0.bystanders_moved) + " other vertices moved"; });
          c.count("adapted_vertices_on_chart", uint64_t(r0.linked_vertices));
          // what read_root_markup reports about the file
          const bool has_attr = T.find("mesh=\"") != std::string::npos && T.find("mesh=\"") < T.find('\n');
          if(has_attr)
          {
            const bool simplex = sm.default_type.find("simplex") != std::string::npos;
            const int sd = std::atoi(sm.default_type.substr(sm.default_type.size() - 3, 1).c_str());
            c.check(r0.mesh_type == int(MeshFileReader::MeshType::conformal) && r0.shape_type == int(simplex ? MeshFileReader::ShapeType::simplex : MeshFileReader::ShapeType::hypercube) && r0.shape_dim == sd && r0.world_dim == sd,
              key + " :: root-getters", [&]{ return "get_mesh_type/get_shape_type/get_shape_dim/get_world_dim = " + itos(r0.mesh_type) + "/" + itos(r0.shape_type) + "/" + itos(r0.shape_dim) + "/" + itos(r0.world_dim) + " for " + sm.default_type; });
          }
          else
            c.check(r0.mesh_type == int(MeshFileReader::MeshType::unknown) && r0.shape_type == int(MeshFileReader::ShapeType::unknown) && r0.shape_dim == 0 && r0.world_dim == 0, key + " :: root-getters", "getters of a file without mesh attribute must report 'unknown'");
        }
        c.outcome("adapt");
        c.nontrivial(verif::Hash().str("adapt").str(sm.name).get());
       }
      }
      // I: unusual overloads on the seed: partitions ignored (nullptr), unique_ptr-returning parse, file based reading
      if(c.want())
      {
        c.desc([&]{ return "seed " + sm.name + " through the other reader overloads (part_set = nullptr, add_mesh_file)"; });
        const std::string key = "overload " + sm.name;
        SeqResult sn; parse_sequence(sm.default_type, {T}, false, false, sn);
        std::string nopart; { std::istringstream is(ref.canon); std::string l; while(std::getline(is, l)) if(l.compare(0, 11, "partition '") != 0) nopart += l + "\n"; }
        c.check(sn.kinds[0] == K_OK && sn.canons[0] == nopart, key + " :: no-partition-set", [&]{ return std::string("parse(node, atlas, nullptr) differs from the parse with partitions ignored: ") + kind_name(sn.kinds[0]) + " " + sn.whats[0]; });
        // file based
        const std::string dir = scratch_dir();
        const std::string path = dir + "/" + sm.name + "." + itos((long long)getpid()) + ".xml";
        { std::ofstream f(path, std::ios::binary); f << T; }
        std::string what, fcanon;
        Kind k = classify([&]{ fcanon = file_canon(path, sm.default_type); }, what);
        unlink(path.c_str());
        c.check(k == K_OK && fcanon == ref.canon, key + " :: add_mesh_file", [&]{ return std::string("reading through add_mesh_file differs from the stream: ") + kind_name(k) + " " + what; });
        // a missing file is a FileError
        std::string w2; Kind k2 = classify([&]{ file_canon(dir + "/does-not-exist.xml", sm.default_type); }, w2);
        c.check(k2 == K_FILE, key + " :: missing-file", [&]{ return std::string("missing mesh file must raise FileError, got ") + kind_name(k2) + " " + w2; });
        c.outcome("overloads");
        c.nontrivial(verif::Hash().str("I").str(sm.name).get());
      }
    }

    // adaption variants that no seed has as such: a Bezier chart without parameters (implicit projection of the mesh part) and an
    // Extrude chart linked to a mesh part of a 3D mesh
    {
      std::vector<std::pair<std::string, std::pair<std::string, std::string>>> variants;   // label -> (type, text)
      for(const SeedModel& sm : seeds)
      {
        if(sm.name == "tria2d")
        {
          std::string t = sm.text; size_t a = t.find("      <Params>"), b = t.find("</Params>\n");
          if(a != std::string::npos && b != std::string::npos) { t.erase(a, b + 10 - a); variants.push_back({"tria2d without <Params> (implicit Bezier projection)", {sm.default_type, t}}); }
        }
        if(sm.name == "hexa3d")
        {
          std::string t = sm.text; const std::string sp = "    <Sphere radius=\"0.25\" midpoint=\"0.5 0.5 0.5\"/>\n"; size_t a = t.find(sp);
          if(a != std::string::npos)
          {
            std::string t1 = t; t1.replace(a, sp.size(), "    <Extrude offset=\"0.25 0.5 0\" angles=\"0.125 0 0\">\n      <Circle radius=\"0.75\" midpoint=\"0.125 0.25\" />\n    </Extrude>\n");
            variants.push_back({"hexa3d with an Extrude(Circle) chart", {sm.default_type, t1}});
            std::string t2 = t; t2.replace(a, sp.size(), "    <Extrude angles=\"0.125 0 0\">\n      <Bezier dim=\"2\" size=\"3\" type=\"open\">\n        <Points>\n          0 -1 0.25\n          1 0.5 0.5 1 0.25\n          0 2 0.75\n        </Points>\n      </Bezier>\n    </Extrude>\n");
            variants.push_back({"hexa3d with an Extrude(Bezier) chart", {sm.default_type, t2}});
          }
        }
      }
      for(auto& v : variants)
      {
        if(!c.want()) continue;
        c.desc([&]{ return "adaption variant: " + v.first; });
        const std::string key = "adapt " + v.first;
        Parsed ref = parse_mesh(v.second.second, v.second.first, true, true);
        if(!c.check(ref.kind == K_OK, key + " :: rejected", [&]{ return std::string(kind_name(ref.kind)) + " " + ref.what; })) continue;
        AdaptResult r0 = parse_adapt(v.second.second, v.second.first), r1 = parse_adapt(ref.written, v.second.first);
        c.check(r0.kind == K_OK && r1.kind == K_OK && r0.canon_after == r1.canon_after, key + " :: differs", [&]{ return std::string("the re-parsed node adapts differently or adaption failed: ") + kind_name(r0.kind) + " " + r0.what + " / " + kind_name(r1.kind) + " " + r1.what; });
        if(r0.canon_after != r0.canon_before) c.count("adapt_variants_moving_vertices");
        c.check(r0.max_dist_on_chart <= 1e-9 && r0.bystanders_moved == 0, key + " :: not-on-chart", [&]{ return "after adapt() a vertex of a chart-linked mesh part is " + std::to_string(r0.max_dist_on_chart) + " away from its chart, or " + itos(r0.bystanders_moved) + " other vertices moved"; });
        c.count("adapted_vertices_on_chart", uint64_t(r0.linked_vertices));
        Parsed pa = parse_mesh(r0.written_after, v.second.first, true, true);
        c.check(pa.kind == K_OK && pa.written == r0.written_after && pa.canon == r0.canon_after, key + " :: roundtrip", "the adapted node does not round-trip");
        c.outcome("adapt variant");
        c.nontrivial(verif::Hash().str("adaptv").str(v.first).get());
      }
    }

    // ------------------------------------------------------------------ H: property maps read INTO a filled map
    {
      struct Ent { std::string path, key, val; };   // path "" = root, "s" , "s/t"
      const std::vector<std::vector<Ent>> trees = {
        {},
        {{"", "a", "1"}},
        {{"", "a", "2"}, {"", "b", "x y"}},
        {{"s", "a", "3"}},
        {{"s", "c", "4"}, {"s/t", "a", "5"}},
        {{"", "A", "6"}, {"S", "C", "7"}},
        {{"u", "", ""}},                         // empty section u
        {{"", "a", ""}, {"s", "a", ""}},
        {{"s/t", "z", "9"}, {"", "b", "0"}, {"u", "k", "1"}}};
      // reference model: nested maps keyed case-insensitively, first spelling kept
      struct Model { std::map<std::string, std::pair<std::string, std::string>> ent; std::map<std::string, std::pair<std::string, std::shared_ptr<Model>>> sec; };
      std::function<void(Model&, const std::string&, const std::string&, const std::string&, bool)> put = [&](Model& m, const std::string& path, const std::string& k, const std::string& v, bool replace)
      {
        if(!path.empty())
        {
          size_t p = path.find('/'); std::string h = path.substr(0, p), r = (p == std::string::npos ? std::string() : path.substr(p + 1));
          auto& sl = m.sec[lower_(h)]; if(!sl.second) { sl.first = h; sl.second = std::make_shared<Model>(); }
          put(*sl.second, r, k, v, replace); return;
        }
        if(k.empty()) return;
        auto it = m.ent.find(lower_(k));
        if(it == m.ent.end()) m.ent[lower_(k)] = std::make_pair(k, v); else if(replace) it->second.second = v;
      };
      std::function<std::string(const Model&, int)> mcanon = [&](const Model& m, int d)
      {
        std::string o;
        for(auto& e : m.ent) o += std::string(size_t(d), ' ') + "E<" + e.second.first + ">=<" + e.second.second + ">\n";
        for(auto& x : m.sec) o += std::string(size_t(d), ' ') + "S<" + x.second.first + ">\n" + mcanon(*x.second.second, d + 1);
        return o;
      };
      auto build = [&](PropertyMap& pm, const std::vector<Ent>& t)
      {
        for(auto& e : t)
        {
          PropertyMap* cur = &pm; std::string path = e.path;
          while(!path.empty()) { size_t p = path.find('/'); cur = cur->add_section(path.substr(0, p)); path = (p == std::string::npos ? std::string() : path.substr(p + 1)); }
          if(!e.key.empty()) cur->add_entry(e.key, e.val, true);
        }
      };
      for(size_t ia = 0; ia < trees.size(); ++ia) for(size_t ib = 0; ib < trees.size(); ++ib) for(int replace = 0; replace < 2; ++replace) for(int route = 0; route < 3; ++route)
      {
        if(!c.want()) continue;
        c.desc([&]{ return "property map tree #" + itos((long long)ib) + " read into filled tree #" + itos((long long)ia) + " replace=" + itos(replace) + " route=" + (route == 0 ? "read(stream)" : route == 1 ? "merge()" : "read(stream) twice"); });
        const std::string key = "property-map merge #" + itos((long long)ia) + "<-#" + itos((long long)ib) + " replace=" + itos(replace) + (route == 0 ? " read" : route == 1 ? " merge" : " read-twice");
        Model m; for(auto& e : trees[ia]) put(m, e.path, e.key, e.val, true);
        Model mb; for(auto& e : trees[ib]) put(mb, e.path, e.key, e.val, true);
        for(auto& e : trees[ib]) put(m, e.path, e.key, e.val, replace != 0);
        PropertyMap pa, pb; build(pa, trees[ia]); build(pb, trees[ib]);
        const std::string b_before = pm_canon(pb);
        std::ostringstream ob; pb.write(ob);
        std::string what;
        Kind k = classify([&]{
          if(route == 1) pa.merge(pb, replace != 0);
          else { std::istringstream is(ob.str()); pa.read(is, replace != 0); if(route == 2) { std::istringstream is2(ob.str()); pa.read(is2, replace != 0); } }
        }, what);
        if(!c.check(k == K_OK, key + " :: rejected", [&]{ return std::string(kind_name(k)) + " " + what; })) continue;
        c.check(pm_canon(pa) == mcanon(m, 0), key + " :: structure", [&]{ return "merged map differs from the model: " + printable(pm_canon(pa)) + " expected " + printable(mcanon(m, 0)); });
        c.check(pm_canon(pb) == b_before && pm_canon(pb) == mcanon(mb, 0), key + " :: source-changed", "the source map was modified");
        c.outcome("ini: merge");
        c.nontrivial(verif::Hash().str("H").pod(ia).pod(ib).pod(replace).pod(route).get());
      }
      // accessors of a parsed map against the model: query (paths, '!' root, '~' parent, case-insensitive), get_entry, get_sub_section,
      // query_section, erase_entry, erase_section
      for(size_t it = 0; it < trees.size(); ++it)
      {
        if(!c.want()) continue;
        c.desc([&]{ return "property map tree #" + itos((long long)it) + ": queries and erasure after dump/parse"; });
        const std::string key = "property-map query #" + itos((long long)it);
        PropertyMap src; build(src, trees[it]);
        std::ostringstream o0; src.write(o0);
        PropertyMap pm; { std::istringstream is(o0.str()); pm.read(is, true); }
        Model m; for(auto& e : trees[it]) put(m, e.path, e.key, e.val, true);
        // every entry through its full path, in upper case, from the root marker, and relative to its section
        for(auto& e : trees[it])
        {
          if(e.key.empty()) continue;
          const std::string full = (e.path.empty() ? "" : e.path + "/") + e.key;
          // the value the model holds (a later entry of the same key in the tree overrides)
          const Model* mm = &m; std::string pth = e.path;
          while(!pth.empty()) { size_t p = pth.find('/'); mm = mm->sec.at(lower_(pth.substr(0, p))).second.get(); pth = (p == std::string::npos ? std::string() : pth.substr(p + 1)); }
          const std::string want = mm->ent.at(lower_(e.key)).second;
          auto q1 = pm.query(String(full));
          c.check(q1.second && std::string(q1.first) == want, key + " :: query " + full, [&]{ return "query('" + full + "') = '" + std::string(q1.first) + "' found=" + itos(q1.second) + ", expected '" + want + "'"; });
          std::string up = full; for(auto& ch : up) ch = char(std::toupper((unsigned char)ch));
          auto q2 = pm.query(String(up));
          c.check(q2.second && std::string(q2.first) == want, key + " :: query-uppercase " + full, "keys and section names are case-insensitive");
          auto q3 = pm.query(String("!/" + full));
          c.check(q3.second && std::string(q3.first) == want, key + " :: query-root " + full, "'!' denotes the root section");
          c.check(std::string(pm.query(String(full), String("dflt"))) == want && std::string(pm.query(String(full + "x"), String("dflt"))) == "dflt", key + " :: query-default " + full, "query with default value");
          if(!e.path.empty())
          {
            const PropertyMap* sec = pm.query_section(String(e.path));
            if(c.check(sec != nullptr, key + " :: query_section " + e.path, "section not found"))
            {
              auto g = sec->get_entry(String(e.key));
              c.check(g.second && std::string(g.first) == want, key + " :: get_entry " + full, "get_entry of the section differs");
              auto q4 = sec->query(String("~/" + e.path.substr(e.path.rfind('/') == std::string::npos ? 0 : e.path.rfind('/') + 1) + "/" + e.key));
              c.check(q4.second && std::string(q4.first) == want, key + " :: query-parent " + full, "'~' denotes the parent section");
              c.check(sec->get_root() == &pm, key + " :: get_root " + e.path, "get_root of a sub-section is not the map");
            }
          }
          c.count("property_map_queries", 6);
        }
        c.check(!pm.query(String("no/such/key")).second && pm.query_section(String("nosuch")) == nullptr && pm.get_sub_section(String("nosuch")) == nullptr && !pm.get_entry(String("nosuch")).second, key + " :: absent", "absent keys / sections must not be found");
        // erasure: remove every entry / section of the model one at a time, compare with the model, dump/parse again
        for(auto& e : trees[it])
        {
          PropertyMap q; { std::istringstream is(o0.str()); q.read(is, true); }
          Model mq; for(auto& x : trees[it]) put(mq, x.path, x.key, x.val, true);
          PropertyMap* sec = e.path.empty() ? &q : q.query_section(String(e.path));
          Model* ms = &mq; std::string pth = e.path; Model* parent = nullptr; std::string last;
          while(!pth.empty()) { size_t p = pth.find('/'); parent = ms; last = lower_(pth.substr(0, p)); ms = ms->sec.at(last).second.get(); pth = (p == std::string::npos ? std::string() : pth.substr(p + 1)); }
          bool ok = true;
          if(!e.key.empty()) { ok = sec && sec->erase_entry(String(e.key)) && !sec->erase_entry(String(e.key)); ms->ent.erase(lower_(e.key)); }
          else if(parent) { PropertyMap* ps = (e.path.find('/') == std::string::npos) ? &q : q.query_section(String(e.path.substr(0, e.path.rfind('/')))); ok = ps && ps->erase_section(String(last)) && !ps->erase_section(String(last)); parent->sec.erase(last); }
          c.check(ok && pm_canon(q) == mcanon(mq, 0), key + " :: erase " + e.path + "/" + e.key, [&]{ return "after erasure: " + printable(pm_canon(q)) + " expected " + printable(mcanon(mq, 0)); });
          std::ostringstream o1; q.write(o1); ParsedIni pi = parse_ini(o1.str());
          c.check(pi.kind == K_OK && pi.canon == mcanon(mq, 0), key + " :: erase-roundtrip " + e.path + "/" + e.key, "map after erasure does not round-trip");
        }
        c.outcome("ini: queries");
        c.nontrivial(verif::Hash().str("Hq").pod(it).get());
      }
      // file based overloads
      if(c.want())
      {
        c.desc([&]{ return std::string("property map write(filename) / read(filename)"); });
        PropertyMap pm; build(pm, trees[8]); build(pm, trees[5]);
        const std::string path = scratch_dir() + "/pm." + itos((long long)getpid()) + ".ini";
        std::string what; PropertyMap q;
        Kind k = classify([&]{ pm.write(String(path)); q.read(String(path), true); }, what);
        unlink(path.c_str());
        c.check(k == K_OK && pm_canon(q) == pm_canon(pm), "property-map file :: roundtrip", [&]{ return std::string(kind_name(k)) + " " + what; });
        std::string w2; PropertyMap q2; Kind k2 = classify([&]{ q2.read(String(scratch_dir() + "/does-not-exist.ini"), true); }, w2);
        c.check(k2 == K_FILE, "property-map file :: missing-file", [&]{ return std::string("missing file must raise FileError, got ") + kind_name(k2) + " " + w2; });
        c.nontrivial(verif::Hash().str("Hfile").get());
      }
    }

    // ------------------------------------------------------------------ C: property-map trees
    {
      const std::vector<std::string> keys = {"a", "B", "a b", "[k", "k]", "{", "x=y", "h#"};
      const std::vector<std::string> vals = {"", "v", "x y", "a=b", "v]", "[v]", "{", "}", "1&", "a#b", " p"};
      const std::vector<std::string> secs = {"s", "T u", "a=b", "[n]", "}", "q#"};
      // an entry set = subset of size <= 2 of keys x vals (ordered pairs of distinct keys)
      struct E { std::string k, v; };
      std::vector<std::vector<E>> esets;
      esets.push_back({});
      for(auto& k : keys) for(auto& v : vals) esets.push_back({E{k, v}});
      for(size_t i = 0; i < keys.size(); ++i) for(size_t j = i + 1; j < keys.size(); ++j) for(const char* v1 : {"", "v]"}) for(const char* v2 : {"x y", "a=b"}) esets.push_back({E{keys[i], v1}, E{keys[j], v2}});
      // small family of entry sets used inside sections
      std::vector<std::vector<E>> inner = {{}, {E{"a", "v"}}, {E{"[k", "v"}, E{"B", ""}}, {E{"k]", "[v]"}}, {E{"a", "a#b"}}};
      auto representable = [&](const std::vector<E>& es) { for(auto& e : es) if(!pm_line_ok(e.k, e.v)) return false; return true; };
      auto fill = [&](PropertyMap& pm, const std::vector<E>& es) { for(auto& e : es) pm.add_entry(e.k, e.v, true); };

      auto tree_case = [&](const std::vector<E>& rootes, int s1, int i1, int s2, int i2, int nested, int in)
      {
        // s1/s2: section name index or -1; i1/i2: inner entry set; nested: name index of a sub-section of s1 (or -1) with entry set 'in'
        PropertyMap pm;
        fill(pm, rootes);
        bool rep = representable(rootes);
        std::string d = "root{";
        for(auto& e : rootes) d += "<" + e.k + ">=<" + e.v + "> ";
        d += "}";
        if(s1 >= 0)
        {
          PropertyMap* a = pm.add_section(secs[size_t(s1)]);
          fill(*a, inner[size_t(i1)]);
          rep = rep && pm_sec_ok(secs[size_t(s1)]) && representable(inner[size_t(i1)]);
          d += " [" + secs[size_t(s1)] + "]#" + itos(i1);
          if(nested >= 0)
          {
            PropertyMap* n = a->add_section(secs[size_t(nested)]);
            fill(*n, inner[size_t(in)]);
            rep = rep && pm_sec_ok(secs[size_t(nested)]) && representable(inner[size_t(in)]);
            d += "/[" + secs[size_t(nested)] + "]#" + itos(in);
          }
        }
        if(s2 >= 0)
        {
          PropertyMap* b = pm.add_section(secs[size_t(s2)]);
          fill(*b, inner[size_t(i2)]);
          rep = rep && pm_sec_ok(secs[size_t(s2)]) && representable(inner[size_t(i2)]);
          d += " [" + secs[size_t(s2)] + "]#" + itos(i2);
        }
        c.desc([&]{ return "property-map tree " + d; });
        if(!rep) { c.excluded("property-map tree the INI format cannot express"); c.outcome("ini: not expressible"); return; }
        const std::string can0 = pm_canon(pm);
        std::ostringstream os; pm.write(os);
        const std::string w1 = os.str();
        ParsedIni p = parse_ini(w1);
        const std::string key = "property-map " + d;
        if(!c.check(p.kind == K_OK, key + " :: rejected", [&]{ return "dump is rejected: " + p.what + " dump=" + printable(w1); })) return;
        c.check(p.canon == can0, key + " :: structure", [&]{ return "parsed tree differs: " + printable(can0) + " vs " + printable(p.canon) + " dump=" + printable(w1); });
        c.check(p.written == w1, key + " :: roundtrip", [&]{ return "second dump differs: " + printable(w1) + " vs " + printable(p.written); });
        c.outcome("ini: identical");
        c.nontrivial(verif::Hash().str("pm").str(d).get());
      };
      // flat trees
      for(auto& es : esets) { if(!c.want()) continue; tree_case(es, -1, 0, -1, 0, -1, 0); }
      // one / two sections, nested section
      const std::vector<std::vector<E>> roots = {{}, {E{"a", "v"}}, {E{"k]", "x y"}, E{"B", "a=b"}}};
      for(auto& r : roots)
        for(int s1 = 0; s1 < int(secs.size()); ++s1)
          for(int i1 = 0; i1 < int(inner.size()); ++i1)
          {
            if(c.want()) tree_case(r, s1, i1, -1, 0, -1, 0);
            for(int s2 = 0; s2 < int(secs.size()); ++s2)
            {
              if(s2 == s1) continue;
              for(int i2 = 0; i2 < 3; ++i2) { if(!c.want()) continue; tree_case(r, s1, i1, s2, i2, -1, 0); }
            }
            for(int n = 0; n < 3; ++n) for(int in = 0; in < 3; ++in)
            {
              if(c.want()) tree_case(r, s1, i1, -1, 0, n, in);
              if(c.want()) tree_case(r, s1, i1, (s1 + 1) % int(secs.size()), 1, n, in);
            }
          }
    }

    // ------------------------------------------------------------------ D: graphs
    {
      using Adjacency::Graph;
      auto graph_case = [&](const Graph& g, const std::string& d)
      {
        c.desc([&]{ return "graph " + d; });
        const std::string key = "graph " + d;
        std::vector<char> buf = g.serialize();
        Graph h(buf);
        bool same = (h.get_num_nodes_domain() == g.get_num_nodes_domain()) && (h.get_num_nodes_image() == g.get_num_nodes_image()) && (h.get_num_indices() == g.get_num_indices());
        if(same)
        {
          for(Index i = 0; i <= g.get_num_nodes_domain() && same; ++i) if(g.get_domain_ptr() != nullptr && h.get_domain_ptr() != nullptr) same = same && (g.get_domain_ptr()[i] == h.get_domain_ptr()[i]);
          for(Index i = 0; i < g.get_num_indices() && same; ++i) same = same && (g.get_image_idx()[i] == h.get_image_idx()[i]);
        }
        c.check(same, key + " :: structure", [&]{ return "deserialised graph differs: domain " + itos((long long)g.get_num_nodes_domain()) + "/" + itos((long long)h.get_num_nodes_domain()) + " image " + itos((long long)g.get_num_nodes_image()) + "/" + itos((long long)h.get_num_nodes_image()) + " indices " + itos((long long)g.get_num_indices()) + "/" + itos((long long)h.get_num_indices()); });
        std::vector<char> buf2 = h.serialize();
        c.check(buf2 == buf, key + " :: roundtrip", "second serialisation is not byte-identical");
        // derived objects: clone, move construction, move assignment serialise identically; the source of the clone is unchanged
        {
          Graph cl = g.clone();
          c.check(cl.serialize() == buf && g.serialize() == buf, key + " :: clone", "clone (or the source after cloning) serialises differently");
          Graph mv(std::move(cl));
          c.check(mv.serialize() == buf, key + " :: move-ctor", "move-constructed graph serialises differently");
          Graph ma; ma = std::move(mv);
          c.check(ma.serialize() == buf, key + " :: move-assign", "move-assigned graph serialises differently");
          {
            Graph cg = g.clone(); cg.clear();
            Graph dflt;
            c.check(cg.serialize() == dflt.serialize() && cg.get_num_nodes_domain() == 0 && cg.get_num_nodes_image() == 0, key + " :: clear", "a cleared graph does not serialise like an empty graph");
          }
          if(g.get_num_nodes_domain() > 0 && g.get_num_nodes_image() > 0)
          {
            // derived object: the permuted graph (reversal permutations) serialises / deserialises identically and has the permuted adjacency
            std::vector<Index> pd(g.get_num_nodes_domain()), pi(g.get_num_nodes_image());
            for(Index i = 0; i < pd.size(); ++i) pd[i] = Index(pd.size()) - 1 - i;
            for(Index i = 0; i < pi.size(); ++i) pi[i] = Index(pi.size()) - 1 - i;
            Adjacency::Permutation permd(Index(pd.size()), Adjacency::Permutation::ConstrType::perm, pd.data()), permi(Index(pi.size()), Adjacency::Permutation::ConstrType::perm, pi.data());
            Graph gp(g, permd, permi);
            std::vector<char> bp = gp.serialize(); Graph hp(bp);
            bool okp = (hp.serialize() == bp) && gp.get_num_indices() == g.get_num_indices();
            std::multiset<std::pair<Index, Index>> ea, eb;
            for(Index i = 0; i < g.get_num_nodes_domain(); ++i) for(Index k = g.get_domain_ptr()[i]; k < g.get_domain_ptr()[i + 1]; ++k) ea.insert({pd[i], pi[g.get_image_idx()[k]]});
            for(Index i = 0; i < gp.get_num_nodes_domain(); ++i) for(Index k = gp.get_domain_ptr()[i]; k < gp.get_domain_ptr()[i + 1]; ++k) eb.insert({i, gp.get_image_idx()[k]});
            c.check(okp && ea == eb, key + " :: permuted", "permuted graph does not serialise identically or is not the permuted adjacency");
          }
          Graph into(h.serialize());            // deserialise a second time, then overwrite an existing non-empty graph
          Graph other(Index(2), Index(2), Index(0)); other = std::move(into);
          c.check(other.serialize() == buf, key + " :: assign-into-filled", "graph assigned into an existing graph serialises differently");
        }
        // header consistency: declared size == actual size
        c.check(buf.size() >= 40 && reinterpret_cast<const std::uint64_t*>(buf.data())[1] == buf.size(), key + " :: header-size", "declared buffer size differs from the buffer size");
        c.outcome("graph: identical");
        c.nontrivial(verif::Hash().str("graph").str(d).get());
      };
      if(c.want())
      {
        // serialising / deserialising the empty graph used to crash: run it in a child to get a stable key
        c.desc([&]{ return std::string("graph default-constructed"); });
        int sig = c.run_forked([&]{ Graph g; std::vector<char> b = g.serialize(); Graph h(b); std::vector<char> b2 = h.serialize(); if(b2 != b) _exit(9); });
        c.check(sig == 0, "graph default-constructed :: " + std::string(sig == 1009 ? "roundtrip" : "crash"), [&]{ return "Graph g; Graph h(g.serialize()); died / differed (" + itos(sig) + ")"; });
        if(sig == 0) { Graph g; graph_case(g, "default-constructed"); }
      }
      for(Index n = 0; n <= 3; ++n) for(Index m = 0; m <= 3; ++m)
      {
        const Index bits = n * m;
        for(Index mask = 0; mask < (Index(1) << bits); ++mask)
        {
          if(!c.want()) continue;
          std::vector<Index> ptr(n + 1, 0), idx;
          for(Index i = 0; i < n; ++i) { for(Index j = 0; j < m; ++j) if((mask >> (i * m + j)) & 1u) idx.push_back(m - 1 - j); ptr[i + 1] = Index(idx.size()); } // descending order: unsorted rows
          Graph g(n, m, Index(idx.size()), ptr.data(), idx.empty() ? nullptr : idx.data());
          graph_case(g, itos((long long)n) + "x" + itos((long long)m) + " mask " + itos((long long)mask));
        }
        // duplicates in a row
        if(n > 0 && m > 0 && c.want())
        {
          std::vector<Index> ptr(n + 1, 0), idx;
          for(Index i = 0; i < n; ++i) { idx.push_back(0); idx.push_back(0); ptr[i + 1] = Index(idx.size()); }
          Graph g(n, m, Index(idx.size()), ptr.data(), idx.data());
          graph_case(g, itos((long long)n) + "x" + itos((long long)m) + " duplicate entries");
        }
      }
    }

    // ------------------------------------------------------------------ E: permutations
    {
      using Adjacency::Permutation;
      for(Index n = 1; n <= 5; ++n)
      {
        std::vector<Index> pv(n);
        for(Index i = 0; i < n; ++i) pv[i] = i;
        do
        {
          if(!c.want()) continue;
          c.desc([&]{ std::string s = "permutation"; for(Index v : pv) s += " " + itos((long long)v); return s; });
          std::string key = "permutation n=" + itos((long long)n);
          Permutation p(n, Permutation::ConstrType::perm, pv.data());
          bool ok = (p.size() == n);
          for(Index i = 0; i < n && ok; ++i) ok = (p.get_perm_pos()[i] == pv[i]);
          c.check(ok, key + " :: perm-array", "permutation array is not reproduced");
          // swap array -> same permutation
          Permutation q(n, Permutation::ConstrType::swap, p.get_swap_pos());
          bool ok2 = (q.size() == n);
          for(Index i = 0; i < n && ok2; ++i) ok2 = (q.get_perm_pos()[i] == pv[i]) && (q.get_swap_pos()[i] == p.get_swap_pos()[i]);
          c.check(ok2, key + " :: swap-array", [&]{ std::string s = "swap array does not reproduce the permutation:"; for(Index i = 0; i < n; ++i) s += " " + itos((long long)q.get_perm_pos()[i]); return s; });
          // inverse of inverse
          Permutation r(n, Permutation::ConstrType::inv_perm, pv.data());
          Permutation r2 = r.inverse();
          bool ok3 = true;
          for(Index i = 0; i < n && ok3; ++i) ok3 = (r2.get_perm_pos()[i] == pv[i]);
          c.check(ok3, key + " :: inverse", "inverse of the inverse-constructed permutation is not the permutation");
          c.outcome("permutation: identical");
          c.nontrivial(verif::Hash().str("perm").bytes(pv.data(), pv.size() * sizeof(Index)).get());
        } while(std::next_permutation(pv.begin(), pv.end()));
      }
    }
  });
}
