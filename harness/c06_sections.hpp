// further sections of c06_filter.cpp (included once, inside that TU)
#pragma once
namespace
{
  // ------------------------------------------------------------------------------------------------ C: UnitFilterBlocked, vectors
  /// builds the blocked unit filter; NaN mask nm: component j of the k-th constrained entry is NaN iff bit ((j+k)%BS) of nm
  template<typename DT, int BS>
  UnitFilterBlocked<DT, Index, BS> make_unitb(int n, unsigned S, int order, bool ignore_nans, unsigned nm, RUnitB& ref, int fno = 0)
  {
    typedef Tiny::Vector<DT, BS> VT;
    ref.bs = BS; ref.ignore_nans = ignore_nans; ref.m.clear(); ref.nan.clear();
    int k = 0;
    for(int i = 0; i < n; ++i) if((S >> i) & 1u)
    {
      std::vector<LD> v((size_t)BS); std::vector<char> isn((size_t)BS);
      for(int j = 0; j < BS; ++j) { v[size_t(j)] = pval(Index(i * BS + j), fno); isn[size_t(j)] = char((nm >> ((j + k) % BS)) & 1u); }
      ref.m[Index(i)] = v; ref.nan[Index(i)] = isn; ++k;
    }
    auto tv = [&](Index i) { VT t; for(int j = 0; j < BS; ++j) t[j] = ref.nan[i][size_t(j)] ? std::numeric_limits<DT>::quiet_NaN() : DT(ref.m[i][size_t(j)]); return t; };
    if(order == ORD_DEFAULT) { UnitFilterBlocked<DT, Index, BS> f; f.set_ignore_nans(ignore_nans); return f; }
    if(order == ORD_ARRAY)
    {
      DenseVectorBlocked<DT, Index, BS> vals{Index(ref.m.size())};
      DenseVector<Index, Index> idx{Index(ref.m.size())};
      size_t q = 0;
      for(auto& e : ref.m) { VT t = tv(e.first); for(int j = 0; j < BS; ++j) vals.template elements<Perspective::pod>()[q * size_t(BS) + size_t(j)] = t[j]; idx.elements()[q] = e.first; ++q; }
      UnitFilterBlocked<DT, Index, BS> f(Index(n), vals, idx);
      f.set_ignore_nans(ignore_nans);
      return f;
    }
    UnitFilterBlocked<DT, Index, BS> f(Index(n), ignore_nans);
    std::vector<Index> asc; for(auto& e : ref.m) asc.push_back(e.first);
    if(order == ORD_DUP)
    {
      for(auto& e : ref.m) f.add(e.first, VT(DT(-77)));
      for(auto it = ref.m.rbegin(); it != ref.m.rend(); ++it) f.add(it->first, tv(it->first));
    }
    else if(order == ORD_INCR)
    {
      const size_t half = asc.size() / 2;
      for(size_t q = asc.size(); q-- > half;) f.add(asc[q], tv(asc[q]));
      DenseVectorBlocked<DT, Index, BS> scratch(Index(n), DT(1));
      f.filter_rhs(scratch); f.filter_def(scratch);
      for(size_t q = 0; q < half; ++q) f.add(asc[q], tv(asc[q]));
    }
    else
      for(Index i : add_order(asc, order)) f.add(i, tv(i));
    return f;
  }

  template<typename DT, int BS>
  void unitb_vectors(verif::Ctx& c, const std::string& kname)
  {
    const int N = c.thorough ? 5 : 4;
    for(int n = 0; n <= N; ++n) for(unsigned S = 0; S < (1u << n); ++S) for(int order = 0; order < NUM_ORD; ++order) for(int fd = 0; fd < NUM_FD; ++fd)
    for(int ign = 0; ign < 2; ++ign) for(unsigned nm = 0; nm < (1u << BS); ++nm) for(int op = 0; op < 4; ++op)
    {
      if(order == ORD_ARRAY && S == 0) continue;
      if(order == ORD_DEFAULT && S != 0) continue;
      if((order == ORD_DUP || order == ORD_SCRAMBLED || order == ORD_INCR) && S == 0) continue;
      if(fd != FD_NONE && !(order == ORD_DESC && n <= 3)) continue;
      if(ign == 0 && nm != 0) continue;   // NaN prescribed values without ignore_nans would be written into the vector: not a meaningful constraint
      if(S == 0 && nm != 0) continue;
      if(!c.want()) continue;
      c.desc([&]{ return kname + " blocks=" + std::to_string(n) + " constrained=" + set_name(S, n) + " built by: " + ord_name[order] + " filter=" + fd_name[fd] + " ignore_nans=" + std::to_string(ign) + " nan-mask=" + std::to_string(nm) + " op=" + fop_name[op]; });
      RUnitB ref, rtwin, rother;
      std::vector<std::shared_ptr<void>> keep;
      typedef typename std::conditional<std::is_same<DT, double>::value, float, double>::type DT2;
      UnitFilterBlocked<DT, Index, BS> f;
      if(fd == FD_CONVERT)
      {
        auto src = std::make_shared<UnitFilterBlocked<DT2, Index, BS>>(make_unitb<DT2, BS>(n, S, order, ign != 0, nm, ref)); keep.push_back(src);
        f = make_unitb<DT, BS>(n, ~S & ((1u << n) - 1u), ORD_ASC, false, 0, rother, 2);
        f.convert(*src);
      }
      else
        f = derive_filter(make_unitb<DT, BS>(n, S, order, ign != 0, nm, ref), fd, keep, [&]{ return make_unitb<DT, BS>(n, ~S & ((1u << n) - 1u), ORD_ASC, false, 0, rother, 2); });
      DenseVectorBlocked<DT, Index, BS> v{Index(n)};
      for(int i = 0; i < n * BS; ++i) v.template elements<Perspective::pod>()[i] = DT(xval(Index(i), 1));
      // the filter operation is the first access to the freshly built (unsorted) filter
      check_vec(c, kname, f, v, op, [&](Ref& r) { ref.apply(r, op); }, no_cons);
      auto twin = make_unitb<DT, BS>(n, S, order == ORD_DEFAULT ? ORD_DEFAULT : ORD_ASC, ign != 0, nm, rtwin);
      c.check(order == ORD_DEFAULT || sv_state(f.get_filter_vector()) == sv_state(twin.get_filter_vector()), kname + ": filter modified by application", "index/value arrays of the filter differ from those of an identically specified filter");
      if(fd != FD_NONE) c.count("cases_on_derived_filters");
      if(S != 0) c.nontrivial(verif::Hash().str(kname).pod(n).pod(S).pod(order).pod(fd).pod(ign).pod(nm).pod(op).get());
      c.outcome(std::string("unit-blocked vector") + (nm ? " nan-skip" : ""));
    }
  }

  // ------------------------------------------------------------------------------------------------ D: UnitFilterBlocked, BCSR matrices
  template<typename DT, int BS, int BW>
  void unitb_bcsr(verif::Ctx& c, const std::string& kname)
  {
    typedef SparseMatrixBCSR<DT, Index, BS, BW> Mat;
    const int NM = 3; (void)c.thorough;
    for(int n = 1; n <= NM; ++n) for(int m = 1; m <= NM; ++m)
    for(unsigned pat = 0; pat < (1u << (n * m)); ++pat) for(unsigned S = 0; S < (1u << n); ++S)
    for(int ign = 0; ign < 2; ++ign) for(unsigned nm = 0; nm < (1u << BS); ++nm) for(int mop = 0; mop < 3; ++mop)
    {
      if(ign == 0 && nm != 0) continue;
      if(S == 0 && nm != 0) continue;
      if(mop == M_WEAK && (pat == 0 || nm != 0)) continue;
      if(!c.want()) continue;
      c.desc([&]{ return kname + " " + mop_name[mop] + " BCSR<" + std::to_string(BS) + "," + std::to_string(BW) + "> " + std::to_string(n) + "x" + std::to_string(m) + " block pattern=" + std::to_string(pat)
        + " constrained block rows=" + set_name(S, n) + " ignore_nans=" + std::to_string(ign) + " nan-mask=" + std::to_string(nm); });
      RUnitB ref;
      auto f = make_unitb<DT, BS>(n, S, (pat + S) % 2 ? ORD_DESC : ORD_ASC, ign != 0, nm, ref);
      Mat a = make_bcsr<DT, BS, BW>(n, m, pat);
      MatSnap<Mat> s0(a);
      std::vector<DT> exp = s0.val;
      const std::string key = kname + "." + mop_name[mop] + " BCSR<" + std::to_string(BS) + "," + std::to_string(BW) + ">";
      auto at = [&](Index k, int p, int q) -> size_t { return (size_t(k) * size_t(BS) + size_t(p)) * size_t(BW) + size_t(q); };
      if(mop == M_WEAK)
      {
        Mat mm = a.clone(CloneMode::Weak);
        for(Index k = 0; k < mm.template used_elements<Perspective::pod>(); ++k) mm.template val<Perspective::pod>()[k] = DT(LD(3 + (k % 5)) / 4);
        MatSnap<Mat> sm0(mm);
        f.filter_weak_matrix_rows(a, mm);
        for(auto& e : ref.m) for(Index k = s0.rp[e.first]; k < s0.rp[e.first + 1]; ++k) for(int p = 0; p < BS; ++p) for(int q = 0; q < BW; ++q)
          exp[at(k, p, q)] = DT(e.second[size_t(p)]) * sm0.val[at(k, p, q)];
        MatSnap<Mat> sm1(mm);
        c.check(sm1.val == sm0.val, key + ": donor matrix modified", "values of the donor matrix changed");
      }
      else
      {
        if(mop == M_MAT) f.filter_mat(a); else f.filter_offdiag_row_mat(a);
        for(auto& e : ref.m) for(Index k = s0.rp[e.first]; k < s0.rp[e.first + 1]; ++k) for(int p = 0; p < BS; ++p)
        {
          if(ref.ignore_nans && ref.nan[e.first][size_t(p)]) continue;    // this scalar row is not constrained
          for(int q = 0; q < BW; ++q) exp[at(k, p, q)] = (mop == M_MAT && s0.ci[k] == e.first && p == q) ? DT(1) : DT(0);
        }
      }
      MatSnap<Mat> s1(a);
      c.check(s1.rp == s0.rp && s1.ci == s0.ci && s1.used == s0.used, key + ": layout changed", "row pointer / column indices changed");
      bool ok = s1.val.size() == exp.size();
      for(size_t k = 0; ok && k < exp.size(); ++k) if(!bits_equal(s1.val[k], exp[k])) ok = false;
      c.check(ok, key + ": wrong matrix entries", [&]{ return "values " + fmtv(s1.val) + " expected " + fmtv(exp); });
      if(mop != M_WEAK)
      {
        if(mop == M_MAT) f.filter_mat(a); else f.filter_offdiag_row_mat(a);
        MatSnap<Mat> s2(a);
        c.check(s2.val == s1.val, key + ": not idempotent", "second application changed the matrix");
      }
      c.count("matrix_filter_applications");
      if(S != 0 && pat != 0) c.nontrivial(verif::Hash().str(kname).pod(BW).pod(n).pod(m).pod(pat).pod(S).pod(ign).pod(nm).pod(mop).get());
      c.outcome(std::string("unit-blocked bcsr ") + mop_name[mop]);
    }
  }

  /// scalar UnitFilter on BCSR<1,bw> (rows are zeroed) and BCSR<bh,1> (documented no-op), and the entry-free CSR matrix
  template<typename DT>
  void unit_special_matrices(verif::Ctx& c, const std::string& kname)
  {
    for(int n = 1; n <= 3; ++n) for(unsigned pat = 0; pat < (1u << (n * n)); ++pat) for(unsigned S = 0; S < (1u << n); ++S) for(int variant = 0; variant < 2; ++variant)
    {
      if(!c.want()) continue;
      c.desc([&]{ return kname + " filter_offdiag_row_mat BCSR<" + (variant ? "2,1" : "1,2") + "> " + std::to_string(n) + "x" + std::to_string(n) + " pattern=" + std::to_string(pat) + " rows=" + set_name(S, n); });
      RUnit ref;
      auto f = make_unit<DT>(n, S, ORD_ASC, ref);
      if(variant == 0)
      {
        typedef SparseMatrixBCSR<DT, Index, 1, 2> Mat;
        Mat a = make_bcsr<DT, 1, 2>(n, n, pat);
        MatSnap<Mat> s0(a); std::vector<DT> exp = s0.val;
        f.filter_offdiag_row_mat(a);
        for(auto& e : ref.m) for(Index k = s0.rp[e.first]; k < s0.rp[e.first + 1]; ++k) { exp[2 * k] = DT(0); exp[2 * k + 1] = DT(0); }
        MatSnap<Mat> s1(a);
        bool ok = s1.val.size() == exp.size();
        for(size_t k = 0; ok && k < exp.size(); ++k) if(!bits_equal(s1.val[k], exp[k])) ok = false;
        c.check(ok && s1.rp == s0.rp && s1.ci == s0.ci, kname + ".filter_offdiag_row_mat BCSR<1,2>: wrong matrix entries", [&]{ return "values " + fmtv(s1.val) + " expected " + fmtv(exp); });
      }
      else
      {
        typedef SparseMatrixBCSR<DT, Index, 2, 1> Mat;
        Mat a = make_bcsr<DT, 2, 1>(n, n, pat);
        MatSnap<Mat> s0(a);
        f.filter_offdiag_row_mat(a);
        MatSnap<Mat> s1(a);
        c.check(s1.val == s0.val && s1.rp == s0.rp && s1.ci == s0.ci, kname + ".filter_offdiag_row_mat BCSR<2,1>: matrix modified", "documented as 'nothing to do'");
      }
      c.count("matrix_filter_applications");
      if(S != 0 && pat != 0) c.nontrivial(verif::Hash().str(kname).str("special").pod(n).pod(pat).pod(S).pod(variant).get());
    }
    // entry-free matrices (rows, cols ctor: no arrays at all): filtering has nothing to change. Each (filter, operation,
    // format) combination runs in a forked child and has its own key (known-finding class "entry-free operand").
    static const char* ef_name[7] = {
      "UnitFilter.filter_mat entry-free CSR(rows,cols) matrix",
      "UnitFilter.filter_offdiag_row_mat entry-free CSR(rows,cols) matrix",
      "UnitFilter.filter_weak_matrix_rows entry-free CSR(rows,cols) matrix",
      "UnitFilter.filter_offdiag_row_mat entry-free BCSR<1,2>(rows,cols) matrix",
      "UnitFilterBlocked.filter_mat entry-free BCSR(rows,cols) matrix",
      "UnitFilterBlocked.filter_offdiag_row_mat entry-free BCSR(rows,cols) matrix",
      "UnitFilterBlocked.filter_weak_matrix_rows entry-free BCSR(rows,cols) matrix"};
    for(int n = 1; n <= 2; ++n) for(unsigned S = 0; S < (1u << n); ++S) for(int ef = 0; ef < 7; ++ef)
    {
      if(!c.want()) continue;
      c.desc([&]{ return std::string(ef_name[ef]) + " (" + std::to_string(n) + "," + std::to_string(n) + ") constrained rows=" + set_name(S, n); });
      int sig = c.run_forked([&]{
        RUnit ref; RUnitB refb;
        auto f = make_unit<DT>(n, S, ORD_ASC, ref);
        auto fb = make_unitb<DT, 2>(n, S, ORD_ASC, false, 0, refb);
        bool ok = true;
        if(ef <= 2)
        {
          SparseMatrixCSR<DT, Index> a{Index(n), Index(n)}, m{Index(n), Index(n)};
          if(ef == 0) f.filter_mat(a); else if(ef == 1) f.filter_offdiag_row_mat(a); else f.filter_weak_matrix_rows(a, m);
          ok = (a.used_elements() == 0 && a.rows() == Index(n));
        }
        else if(ef == 3)
        {
          SparseMatrixBCSR<DT, Index, 1, 2> a{Index(n), Index(n)};
          f.filter_offdiag_row_mat(a);
          ok = (a.used_elements() == 0);
        }
        else
        {
          SparseMatrixBCSR<DT, Index, 2, 2> a{Index(n), Index(n)}, m{Index(n), Index(n)};
          if(ef == 4) fb.filter_mat(a); else if(ef == 5) fb.filter_offdiag_row_mat(a); else fb.filter_weak_matrix_rows(a, m);
          ok = (a.used_elements() == 0);
        }
        if(!ok) _exit(9);
      });
      c.check(sig == 0, std::string(ef_name[ef]) + ": null row pointer dereferenced", [&]{ return "filtering a matrix without arrays died with signal/exit " + std::to_string(sig); });
      c.outcome(sig == 0 ? "entry-free matrix ok" : "entry-free matrix crash");
    }
  }

  void more_sections(verif::Ctx& c)
  {
    unitb_vectors<double, 2>(c, "UnitFilterBlocked<double,2>");
    unitb_vectors<double, 3>(c, "UnitFilterBlocked<double,3>");
    unitb_vectors<float, 2>(c, "UnitFilterBlocked<float,2>");
    unitb_bcsr<double, 2, 2>(c, "UnitFilterBlocked<double,2>");
    unitb_bcsr<double, 2, 3>(c, "UnitFilterBlocked<double,2>");
    unitb_bcsr<double, 3, 2>(c, "UnitFilterBlocked<double,3>");
    unitb_bcsr<float, 2, 2>(c, "UnitFilterBlocked<float,2>");
    unit_special_matrices<double>(c, "UnitFilter<double>");
    more_sections2(c);
  }
}
