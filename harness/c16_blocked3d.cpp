// C16 blocked operators, gradient/divergence, Burgers on the 3D shapes (tetra, hexa); see c16_blocked_impl.hpp.
#include <c16_blocked_impl.hpp>
int main(int argc, char** argv) { return c16b::blocked_main<true>(argc, argv, "c16_blocked3d"); }
