// C08, scalar matrices (SparseMatrixCSR): every stationary preconditioner against its textbook operator
// and all legal life-cycle histories with in-place value updates. Body in c08_precond.hpp.
#include <c08_precond.hpp>
int main(int argc, char** argv)
{
  FEAT::Runtime::ScopeGuard guard(argc, argv);
  verif::Spec spec; c08::fill_spec(spec, "c08_precond", "CSR matrix");
  spec.bounds_quick = "n 1..4 with ALL off-diagonal patterns (1,4,64,4096); diag {1,2,4,-2} rotated (2 variants) + all-negative (n<=3; thorough: all n); "
    "Jacobi/SOR/SSOR omega {1,1/2,3/2}, ILU p {0,1,2,n}, Polynomial m {1,2,3} omega {1,1/2}, Scale omega {1,1/2,3/2,0,-2}, Diagonal, MatrixPrecond; filters None, Unit{0},{n-1},{1},{0,n-1}; "
    "life-cycle depth 14 with set_omega (all patterns n<=3, every 8th pattern of n=4; fixpoint reached)";
  spec.bounds_thorough = "additionally n=5 with the empty/full/tridiagonal/lower/upper patterns and every 251st of the 2^20; life-cycle depth 16 for all patterns";
  return verif::run(spec, argc, argv, [&](verif::Ctx& c) { c08::enumerate<1>(c, 4, 5, [](int n, bool) -> unsigned { return n >= 5 ? 251u : 1u; }); });
}
