// C01 (part 2): mat-vec products of SparseMatrixBCSR (every DenseVector / DenseVectorBlocked overload, all block shapes
// {1,2,3}x{1,2,3}), SparseMatrixBanded (baseline configuration = generic, non-unrolled kernel) and DenseMatrix
// against a dense long-double oracle.
#include <c01_common.hpp>
#include <c01_banded.hpp>
#include <kernel/lafem/dense_matrix.hpp>

using namespace c01;

namespace
{
  template<typename DT, typename IT> std::string tp() { return std::string(dtname<DT>()) + "," + itname<IT>(); }

  // ------------------------------------------------------------------------------------------ BCSR
  // one overload family: T transposed, RB r blocked, XB x blocked, YD y is a DenseVector although r is blocked
  template<typename DT, typename IT, int BH, int BW, bool T, bool RB, bool XB, bool YD>
  void bcsr_one(verif::Ctx& c, const SparseMatrixBCSR<DT, IT, BH, BW>& A, const DenseRef& D, int mb, int nb, const ApplyCase& op, const std::string& kind)
  {
    constexpr int BOUT = T ? BW : BH, BIN = T ? BH : BW;
    typedef typename std::conditional<RB, DenseVectorBlocked<DT, IT, BOUT>, DenseVector<DT, IT>>::type VOut;
    typedef typename std::conditional<XB, DenseVectorBlocked<DT, IT, BIN>, DenseVector<DT, IT>>::type VIn;
    typedef typename std::conditional<YD, DenseVector<DT, IT>, VOut>::type VY;
    const int nout_b = T ? nb : mb, nin_b = T ? mb : nb;
    VOut r{Index(RB ? nout_b : nout_b * BOUT)};
    VY y{Index((RB && !YD) ? nout_b : nout_b * BOUT)};
    VIn x{Index(XB ? nin_b : nin_b * BIN)};
    check_apply(c, kind, D, op, r, y, x,
      [&](int mode, VOut& rr, const VIn& xx, const VY& yy, DT al) {
        if constexpr(T) { if(mode == 0) A.apply_transposed(rr, xx); else A.apply_transposed(rr, xx, yy, al); }
        else { if(mode == 0) A.apply(rr, xx); else A.apply(rr, xx, yy, al); } },
      [&]{ return hash_of(A); });
  }

  template<typename DT, typename IT, int BH, int BW>
  void enum_bcsr(verif::Ctx& c)
  {
    typedef SparseMatrixBCSR<DT, IT, BH, BW> M;
    const int maxb = 3;
    const std::string bs = std::to_string(BH) + "x" + std::to_string(BW);
    for(int s = 2; s <= 2 * maxb; ++s) for(int mb = 1; mb <= maxb; ++mb)
    {
      const int nb = s - mb; if(nb < 1 || nb > maxb) continue;
      if(!c.thorough && mb * nb > 6) continue;
      for(uint64_t bbits = 0; bbits < (uint64_t(1) << (mb * nb)); ++bbits)
       for(int rep = 0; rep < (bbits == 0 ? 2 : 1); ++rep)   // empty pattern: entry-free BCSR(m,n) and allocated BCSR(m,n,0)
        for(const Variant& var : variants(mb * nb <= 6))
          for(int t = 0; t < 2; ++t)
            for(int combo = 0; combo < 5; ++combo)       // (r,x[,y]) types: 0 D,D[,D]  1 B,D[,B]  2 D,B[,D]  3 B,B[,B]  4 B,B,D (y-variant only)
              for(int mode = 0; mode <= 2; ++mode)
                for(int al = 0; al < (mode ? NSCAL : 1); ++al)
                {
                  if(combo == 4 && mode != 1) continue;
                  if(!c.want()) continue;
                  set_extreme_exp<DT>();
                  const int alphabet = var.alphabet;
                  ApplyCase op; op.transposed = (t == 1); op.mode = mode; op.alpha = al; op.alphabet = alphabet; op.scenario = var.scenario;
                  const DenseRef D = dense_from_blocks(mb, nb, BH, BW, bbits, alphabet);
                  static const char* cn[5] = {"r:dense x:dense", "r:blocked x:dense", "r:dense x:blocked", "r:blocked x:blocked", "r:blocked x:blocked y:dense"};
                  const std::string kind = "bcsr<" + bs + ">" + (bbits == 0 ? (rep ? "[allocated-empty]" : "[entry-free]") : "") + " " + cn[combo];
                  c.desc([&]{ return "bcsr<" + tp<DT, IT>() + "," + bs + "> blocks " + std::to_string(mb) + "x" + std::to_string(nb) + " blockpattern=" + std::to_string(bbits) + (bbits == 0 ? (rep ? " rep=allocated-empty" : " rep=entry-free") : "") + " scalar " + D.str() + " " + cn[combo] + " " + op.str(); });
                  M A0 = build_bcsr<DT, IT, BH, BW>(D, mb, nb, bbits, rep);
                  const int dk = derive_kind(var.scenario);
                  M A = dk ? derive_matrix<M, SparseMatrixBCSR<DT, typename OtherIndex<IT>::type, BH, BW>>(A0, dk) : A0.clone(CloneMode::Shallow);
                  if(dk) c.count("derived_object_cases");
                  // tie the container to the oracle (base scenario: only after the operation, the apply is the first access)
                  auto tie = [&]{
                  bool same = (A.rows() == Index(mb) && A.columns() == Index(nb) && A.template rows<Perspective::pod>() == Index(D.m) && A.template columns<Perspective::pod>() == Index(D.n));
                  if(bbits != 0)
                    for(int I = 0; I < mb && same; ++I) for(int J = 0; J < nb && same; ++J)
                    {
                      const auto blk = A(Index(I), Index(J));
                      for(int bi = 0; bi < BH; ++bi) for(int bj = 0; bj < BW; ++bj) if(!(blk[bi][bj] == DT(D.at(I * BH + bi, J * BW + bj)))) same = false;
                    }
                  c.check(same, "bcsr.operator() != generator", "container does not represent the generated matrix"); };
                  if(var.scenario != S_BASE) tie();
                  const uint64_t h0 = hash_of(A0);
#define C01_BCSR_ONE(TT) \
                  switch(combo) { \
                  case 0: bcsr_one<DT, IT, BH, BW, TT, false, false, false>(c, A, D, mb, nb, op, kind); break; \
                  case 1: bcsr_one<DT, IT, BH, BW, TT, true, false, false>(c, A, D, mb, nb, op, kind); break; \
                  case 2: bcsr_one<DT, IT, BH, BW, TT, false, true, false>(c, A, D, mb, nb, op, kind); break; \
                  case 3: bcsr_one<DT, IT, BH, BW, TT, true, true, false>(c, A, D, mb, nb, op, kind); break; \
                  default: bcsr_one<DT, IT, BH, BW, TT, true, true, true>(c, A, D, mb, nb, op, kind); break; }
                  if(t) { C01_BCSR_ONE(true) } else { C01_BCSR_ONE(false) }
#undef C01_BCSR_ONE
                  c.check(hash_of(A0) == h0, "bcsr source-of-derived-object modified", "the object the matrix was cloned/converted from changed");
                  tie();
                  const bool early = (bbits == 0) || (mode && fabsl(scalars[al].v) < 1e-10L);
                  if(!early) c.nontrivial(verif::Hash().str("bcsr").str(tp<DT, IT>()).pod(BH).pod(BW).pod(mb).pod(nb).pod(bbits).pod(rep).pod(t).pod(combo).pod(mode).pod(al).pod(var).get());
                  c.outcome("bcsr/" + op.name() + " " + cn[combo] + (early ? " early-out" : ""));
                  c.count("applies");
                }
    }
  }

  // ------------------------------------------------------------------------------------------ DenseMatrix
  template<typename DT, typename IT>
  void enum_dense(verif::Ctx& c)
  {
    typedef DenseMatrix<DT, IT> M; typedef DenseVector<DT, IT> V;
    const auto ops = apply_cases(true);
    const int maxd = c.thorough ? 5 : 4;
    for(int m = 1; m <= maxd; ++m) for(int n = 1; n <= maxd; ++n)
      for(int zeros = 0; zeros < 3; ++zeros)       // 0: full values, 1: checkerboard of exact zeros, 2: all zero
        for(const Variant& var : variants(true))
          for(const ApplyCase& op0 : ops)
          {
            if(!c.want()) continue;
            set_extreme_exp<DT>();
            const int alphabet = var.alphabet;
            ApplyCase op = op0; op.alphabet = alphabet; op.scenario = var.scenario;
            DenseRef D(m, n);
            for(int i = 0; i < m; ++i) for(int j = 0; j < n; ++j)
              D.set(i, j, (zeros == 2 || (zeros == 1 && ((i + j) & 1))) ? LD(0) : aval(alphabet, i, j));
            c.desc([&]{ return "dense<" + tp<DT, IT>() + "> " + std::to_string(m) + "x" + std::to_string(n) + " zeros=" + std::to_string(zeros) + " " + op.str(); });
            M A0{Index(m), Index(n)};
            for(int i = 0; i < m; ++i) for(int j = 0; j < n; ++j) A0.elements()[i * n + j] = DT(D.at(i, j));
            const int dk = derive_kind(var.scenario);
            M A = dk ? derive_matrix<M, DenseMatrix<DT, typename OtherIndex<IT>::type>>(A0, dk) : A0.clone(CloneMode::Shallow);
            if(dk) c.count("derived_object_cases");
            auto tie = [&]{
              bool same = (A.rows() == Index(m) && A.columns() == Index(n));
              for(int i = 0; i < m && same; ++i) for(int j = 0; j < n; ++j) if(!(A(Index(i), Index(j)) == DT(D.at(i, j)))) same = false;
              c.check(same, "dense.operator() != generator", "container does not represent the generated matrix"); };
            if(var.scenario != S_BASE) tie();
            if(var.scenario == S_HIST || var.scenario == S_COMBO)
            {
              V t1{Index(op.transposed ? m : n), DT(3)}, t2{Index(op.transposed ? n : m), DT(5)};
              if(op.transposed) A.apply(t1, t2); else A.apply_transposed(t1, t2);
            }
            V r(Index(op.transposed ? n : m)), y(Index(op.transposed ? n : m)), x(Index(op.transposed ? m : n));
            check_apply(c, "dense", D, op, r, y, x,
              [&](int mode, V& rr, const V& xx, const V& yy, DT al) {
                if(op.transposed) { if(mode == 0) A.apply_transposed(rr, xx); else A.apply_transposed(rr, xx, yy, al); }
                else { if(mode == 0) A.apply(rr, xx); else A.apply(rr, xx, yy, al); } },
              [&]{ verif::Hash h; hash_container(A0, h); hash_container(A, h); return h.get(); });
            tie();
            const bool early = (op.mode && fabsl(scalars[op.alpha].v) < 1e-10L);
            if(!early && zeros != 2) c.nontrivial(verif::Hash().str("dense").str(tp<DT, IT>()).pod(m).pod(n).pod(zeros).pod(op.transposed).pod(op.mode).pod(op.alpha).pod(var).get());
            c.outcome(std::string("dense/") + op.name() + (early ? " early-out" : ""));
            c.count("applies");
          }
  }

  std::vector<std::pair<int, int>> banded_shapes(bool thorough)
  {
    std::vector<std::pair<int, int>> v;
    const int maxd = thorough ? 5 : 4;
    for(int s = 2; s <= 2 * maxd; ++s) for(int m = 1; m <= maxd; ++m) { int n = s - m; if(n >= 1 && n <= maxd) v.push_back({m, n}); }
    return v;
  }
}

int main(int argc, char** argv)
{
  FEAT::Runtime::ScopeGuard guard(argc, argv);
  verif::Spec spec; spec.property = "C01"; spec.harness = "c01_apply_blk"; spec.case_timeout_s = 120;
  spec.rule = "case = (container kind, type pair, block shape / shape, one of ALL block patterns resp. ALL subsets of the m+n-1 diagonals, "
    "operand vector types (every DenseVector/DenseVectorBlocked overload), variant = alphabet {exact, rounding, all-negative, extreme-magnitude} on a fresh object or scenario {other calls first, sub-range views, deep/shallow/weak clone, moved, index-type round trip, combination}, "
    "operation {apply, apply_transposed} x {r:=Ax, r:=y+aAx r!=y, r==y}, alpha); every operation is repeated on the filled objects; "
    "non-trivial = matrix has entries and |alpha|>=eps; hash over all of these";
  spec.bounds_quick = "BCSR block shapes {1,2,3}x{1,2,3} for (double,u64), 2x3,3x2,2x2 for (float,u32), 3x3,1x2 for (double,u32); block grids up to 2x3/3x2, all 170 block patterns; "
    "Banded (generic kernel): shapes {1..4}^2, all offset subsets, padding 0 / NaN; DenseMatrix shapes {1..4}^2; alpha in {0,1,-1,1/2,2,0.3,1e-20,-1e-20,1e-300}; 12 variants per pattern";
  spec.bounds_thorough = "BCSR block grids {1..3}x{1..3} (all 682 block patterns); Banded shapes {1..5}^2 (up to 512 offset subsets); DenseMatrix {1..5}^2";
  spec.assumptions = {
    "coverage audit: SparseMatrixBanded::apply_transposed is checked to abort (not implemented in the generic back end) or to take the early-out; out of scope of C01: conversions/constructors from layouts or graphs, transpose, permute, set_line (C02), algebra (C03), I/O (C05), MKL/CUDA back ends", 
    "oracle: dense long double product written in the harness; operator()(i,j) of every generated container is compared with the generator",
    "exact / all-negative / extreme (denormal matrix entries, 2^1000 vector entries) alphabets compared with ==; rounding alphabet / non-dyadic alpha: |err| <= 8(len+2) eps (|A||x| max(1,|alpha|) + |y|)",
    "r pre-filled with NaN in the r!=y cases; banded padding entries (outside of the matrix) filled with 0 or NaN: they must never be read",
    "excluded: r aliasing x (XASSERT); SparseMatrixBanded::apply_transposed (generic kernel is XABORTM(\"not implemented\")); zero dimensions",
    "observation only: BCSR apply(blocked r, blocked x, dense y) early-out re-binds r to y's memory (r.convert(y))"};
  return verif::run(spec, argc, argv, [&](verif::Ctx& c) {
    enum_bcsr<double, std::uint64_t, 1, 1>(c); enum_bcsr<double, std::uint64_t, 1, 2>(c); enum_bcsr<double, std::uint64_t, 1, 3>(c);
    enum_bcsr<double, std::uint64_t, 2, 1>(c); enum_bcsr<double, std::uint64_t, 2, 2>(c); enum_bcsr<double, std::uint64_t, 2, 3>(c);
    enum_bcsr<double, std::uint64_t, 3, 1>(c); enum_bcsr<double, std::uint64_t, 3, 2>(c); enum_bcsr<double, std::uint64_t, 3, 3>(c);
    enum_bcsr<float, std::uint32_t, 2, 3>(c); enum_bcsr<float, std::uint32_t, 3, 2>(c); enum_bcsr<float, std::uint32_t, 2, 2>(c);
    enum_bcsr<double, std::uint32_t, 3, 3>(c); enum_bcsr<double, std::uint32_t, 1, 2>(c);
    const auto bsh = banded_shapes(c.thorough);
    enum_banded<double, std::uint64_t>(c, bsh, "", [](int){ return true; });
    enum_banded<float, std::uint32_t>(c, bsh, "", [](int){ return true; });
    enum_banded<double, std::uint32_t>(c, bsh, "", [](int){ return true; });
    enum_dense<double, std::uint64_t>(c);
    enum_dense<float, std::uint32_t>(c);
    enum_dense<double, std::uint32_t>(c);
  });
}
