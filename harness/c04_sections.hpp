// further sections of c04_vector.cpp (included once, inside that TU, before main): scatter/gather-axpy, permute,
// sparse vectors that have grown past their first allocation of 1000 entries
#pragma once
#include <kernel/adjacency/permutation.hpp>

namespace
{
  /// duck-typed dof mapping for ScatterAxpy / GatherAxpy
  struct MiniMapping
  {
    std::vector<Index> idx;
    int get_num_local_dofs() const { return int(idx.size()); }
    Index get_index(int i) const { return idx[size_t(i)]; }
  };

  // ------------------------------------------------------------------------------------------------ scatter / gather
  // r[map(i)] += alpha * loc[i] (a global index may occur several times: contributions accumulate);  loc[i] += alpha * r[map(i)]
  template<typename DT, typename IT>
  void scatter_gather_dv(verif::Ctx& c, const std::string& kname)
  {
    typedef DenseVector<DT, IT> V;
    const int N = c.thorough ? 4 : 3;
    for(int n = 1; n <= N; ++n) for(int m = 0; m <= 3; ++m)
    {
      long total = 1; for(int k = 0; k < m; ++k) total *= n;
      for(long code = 0; code < total; ++code) for(int ai = 0; ai < 4; ++ai) for(int dir = 0; dir < 2; ++dir)
      {
        if(!c.want()) continue;
        MiniMapping mp; { long t = code; for(int k = 0; k < m; ++k) { mp.idx.push_back(Index(t % n)); t /= n; } }
        const DT alpha = DT(alphas[ai == 3 ? 5 : ai].v);
        c.desc([&]{ std::string d = kname + (dir ? " GatherAxpy" : " ScatterAxpy") + " n=" + std::to_string(n) + " local dofs ->"; for(Index i : mp.idx) d += " " + std::to_string(i); return d + " alpha=" + fmt(alpha); });
        V v{Index(n)};
        std::vector<DT> x0((size_t)n), loc0((size_t)m);
        for(int i = 0; i < n; ++i) { x0[size_t(i)] = DT(value(VS_DYADIC, 0, Index(i))); v.elements()[i] = x0[size_t(i)]; }
        Tiny::Vector<DT, 3> loc(DT(0));
        for(int k = 0; k < m; ++k) { loc0[size_t(k)] = DT(value(VS_ROT, 1, Index(k))); loc[k] = loc0[size_t(k)]; }
        if(dir == 0)
        {
          typename V::ScatterAxpy sc(v);
          if(ai == 0) sc(loc, mp); else sc(loc, mp, alpha);      // default alpha = 1
          std::vector<LD> ex(x0.begin(), x0.end());
          for(int k = 0; k < m; ++k) ex[mp.idx[size_t(k)]] += LD(alpha) * LD(loc0[size_t(k)]);
          bool ok = true; for(int i = 0; i < n; ++i) if(!(LD(v.elements()[i]) == ex[size_t(i)])) ok = false;
          c.check(ok, kname + ".ScatterAxpy: wrong element", [&]{ std::vector<DT> g(v.elements(), v.elements() + n); return "got " + fmtv(g) + " from " + fmtv(x0) + " local " + fmtv(loc0); });
          for(int k = 0; k < m; ++k) c.check(loc[k] == loc0[size_t(k)], kname + ".ScatterAxpy: local vector modified", "input changed");
        }
        else
        {
          typename V::GatherAxpy ga(v);
          if(ai == 0) ga(loc, mp); else ga(loc, mp, alpha);
          bool ok = true;
          for(int k = 0; k < m; ++k) if(!(LD(loc[k]) == LD(loc0[size_t(k)]) + LD(alpha) * LD(x0[mp.idx[size_t(k)]]))) ok = false;
          c.check(ok, kname + ".GatherAxpy: wrong element", "loc[i] += alpha * v[map(i)] violated");
          for(int i = 0; i < n; ++i) c.check(v.elements()[i] == x0[size_t(i)], kname + ".GatherAxpy: vector modified", "input changed");
        }
        c.count("scatter_gather_cases");
        if(m > 0) c.nontrivial(verif::Hash().str(kname).pod(n).pod(m).pod(code).pod(ai).pod(dir).get());
        c.outcome("scatter/gather");
      }
    }
  }

  template<typename DT, typename IT, int BS>
  void scatter_gather_dvb(verif::Ctx& c, const std::string& kname)
  {
    typedef DenseVectorBlocked<DT, IT, BS> V;
    typedef Tiny::Vector<DT, BS> VT;
    const int N = c.thorough ? 4 : 3;
    for(int n = 1; n <= N; ++n) for(int m = 0; m <= 3; ++m)
    {
      long total = 1; for(int k = 0; k < m; ++k) total *= n;
      for(long code = 0; code < total; ++code) for(int ai = 0; ai < 4; ++ai) for(int dir = 0; dir < 2; ++dir)
      {
        if(!c.want()) continue;
        MiniMapping mp; { long t = code; for(int k = 0; k < m; ++k) { mp.idx.push_back(Index(t % n)); t /= n; } }
        const DT alpha = DT(alphas[ai == 3 ? 5 : ai].v);
        c.desc([&]{ std::string d = kname + (dir ? " GatherAxpy" : " ScatterAxpy") + " blocks=" + std::to_string(n) + " local dofs ->"; for(Index i : mp.idx) d += " " + std::to_string(i); return d + " alpha=" + fmt(alpha); });
        V v{Index(n)};
        std::vector<DT> x0(size_t(n * BS)), loc0(size_t(3 * BS), DT(0));
        for(int i = 0; i < n * BS; ++i) { x0[size_t(i)] = DT(value(VS_DYADIC, 0, Index(i))); v.template elements<Perspective::pod>()[i] = x0[size_t(i)]; }
        Tiny::Vector<VT, 3> loc;
        for(int k = 0; k < 3; ++k) for(int j = 0; j < BS; ++j) { loc0[size_t(k * BS + j)] = (k < m) ? DT(value(VS_ROT, 1, Index(k * BS + j))) : DT(0); loc[k][j] = loc0[size_t(k * BS + j)]; }
        if(dir == 0)
        {
          typename V::ScatterAxpy sc(v);
          if(ai == 0) sc(loc, mp); else sc(loc, mp, alpha);
          std::vector<LD> ex(x0.begin(), x0.end());
          for(int k = 0; k < m; ++k) for(int j = 0; j < BS; ++j) ex[size_t(mp.idx[size_t(k)]) * size_t(BS) + size_t(j)] += LD(alpha) * LD(loc0[size_t(k * BS + j)]);
          bool ok = true; for(int i = 0; i < n * BS; ++i) if(!(LD(v.template elements<Perspective::pod>()[i]) == ex[size_t(i)])) ok = false;
          c.check(ok, kname + ".ScatterAxpy: wrong element", "r[map(i)] += alpha * loc[i] violated");
        }
        else
        {
          typename V::GatherAxpy ga(v);
          if(ai == 0) ga(loc, mp); else ga(loc, mp, alpha);
          bool ok = true;
          for(int k = 0; k < m; ++k) for(int j = 0; j < BS; ++j)
            if(!(LD(loc[k][j]) == LD(loc0[size_t(k * BS + j)]) + LD(alpha) * LD(x0[size_t(mp.idx[size_t(k)]) * size_t(BS) + size_t(j)]))) ok = false;
          c.check(ok, kname + ".GatherAxpy: wrong element", "loc[i] += alpha * v[map(i)] violated");
          for(int i = 0; i < n * BS; ++i) c.check(v.template elements<Perspective::pod>()[i] == x0[size_t(i)], kname + ".GatherAxpy: vector modified", "input changed");
        }
        c.count("scatter_gather_cases");
        if(m > 0) c.nontrivial(verif::Hash().str(kname).pod(n).pod(m).pod(code).pod(ai).pod(dir).get());
        c.outcome("scatter/gather");
      }
    }
  }

  // ------------------------------------------------------------------------------------------------ permute
  // documented by Permutation::apply(y, x): y[i] = x[perm[i]]; a sparse vector must behave like the dense vector holding
  // the same scalars (stored set moves with the entries), the empty permutation is a no-op
  template<typename DT, int BS>
  void permute_all(verif::Ctx& c, const std::string& kname)
  {
    typedef SparseSel<DT, BS> S;
    const int N = c.thorough ? 5 : 4;
    for(int n = 1; n <= N; ++n) for(int pk = -1; pk < factorial(n); ++pk) for(unsigned stored = 0; stored < (1u << n); ++stored) for(int kind = 0; kind < 2; ++kind)
    {
      if(kind == 0 && stored != 0) continue;     // dense: one case per permutation
      if(!c.want()) continue;
      std::vector<int> pm = pk < 0 ? std::vector<int>() : nth_perm(n, pk);
      c.desc([&]{ std::string d = kname + (kind ? " sparse" : " dense") + " permute n=" + std::to_string(n) + " perm=" + (pk < 0 ? std::string("(empty permutation)") : std::string()); for(int x : pm) d += std::to_string(x) + " "; return d + " stored-mask=" + std::to_string(stored); });
      std::vector<Index> pv(pm.begin(), pm.end());
      Adjacency::Permutation perm = pk < 0 ? Adjacency::Permutation() : Adjacency::Permutation(Index(n), Adjacency::Permutation::ConstrType::perm, pv.data());
      auto src_of = [&](int i) { return pk < 0 ? i : pm[size_t(i)]; };
      if(kind == 0)
      {
        typename std::conditional<BS == 1, DenseVector<DT, Index>, DenseVectorBlocked<DT, Index, (BS > 1 ? BS : 2)>>::type v{Index(n)};
        std::vector<DT*> p; collect(v, p);
        const size_t bs = p.size() / size_t(n);
        std::vector<DT> x0(p.size());
        for(size_t i = 0; i < p.size(); ++i) { x0[i] = DT(value(VS_DYADIC, 0, Index(i))); *p[i] = x0[i]; }
        v.permute(perm);
        std::vector<DT*> q; collect(v, q);
        bool ok = q.size() == p.size();
        for(int i = 0; ok && i < n; ++i) for(size_t j = 0; j < bs; ++j) if(!(*q[size_t(i) * bs + j] == x0[size_t(src_of(i)) * bs + j])) ok = false;
        c.check(ok, kname + " dense permute: wrong element", [&]{ std::vector<DT> g(q.size()); for(size_t i = 0; i < q.size(); ++i) g[i] = *q[i]; return "got " + fmtv(g) + " from " + fmtv(x0); });
      }
      else
      {
        typename S::SV sv{Index(n)};
        std::map<Index, std::vector<DT>> before, after;
        // insert in descending order (unsorted state), duplicates for the first stored index
        for(int i = n - 1; i >= 0; --i) if((stored >> i) & 1u)
        {
          DT t[BS > 0 ? BS : 1]; for(int j = 0; j < BS; ++j) t[j] = DT(value(VS_DYADIC, 0, Index(i * BS + j)));
          sv(Index(i), S::mk(t));
          before[Index(i)] = std::vector<DT>(t, t + BS);
        }
        for(int i = 0; i < n; ++i) { auto it = before.find(Index(src_of(i))); if(it != before.end()) after[Index(i)] = it->second; }
        sv.permute(perm);     // first access after the insertions
        check_sparse_state<DT, BS>(c, kname, "sparse permute", sv, Index(n), after);
      }
      c.count("permute_cases");
      c.nontrivial(verif::Hash().str(kname).pod(n).pod(pk).pod(stored).pod(kind).get());
      c.outcome("permute");
    }
  }

  // ------------------------------------------------------------------------------------------------ grown sparse vectors
  // The allocation grows in steps of min(size,1000): a vector of size > 1000 re-allocates at the 1001st, 2001st ... write.
  // Every observation is again the FIRST access after the writes; afterwards the copy / clone / serialise alphabet.
  template<typename DT, int BS, typename IT>
  void sparse_grown(verif::Ctx& c, const std::string& kname)
  {
    typedef SparseSel<DT, BS, IT> S;
    typedef typename S::SV SV;
    typedef std::map<Index, std::vector<DT>> Model;
    const Index size = 2600;
    static const int counts[6] = {1000, 1001, 2001, 999, 1002, 2000};   // quick: the first four (one and two re-allocations)
    const int ncounts = c.thorough ? 6 : 4;
    for(int ci = 0; ci < ncounts; ++ci) for(int order = 0; order < 4; ++order) for(int ob = 0; ob < O_GET0 + 3; ++ob)
    {
      if(!c.want()) continue;
      const int cnt = counts[ci];
      c.desc([&]{ return kname + " size=2600 writes=" + std::to_string(cnt) + " order=" + (order == 0 ? "ascending" : order == 1 ? "descending" : order == 2 ? "stride 7 (scrambled)" : "every index twice, second half first")
        + " first observation=" + (ob < O_GET0 ? std::string(sobs_name[ob]) : "operator()(i)"); });
      const size_t pool0 = MemoryPool::_pool.size();
      {
        SV sv{size};
        Model model;
        for(int k = 0; k < cnt; ++k)
        {
          Index i;
          switch(order)
          {
          case 0: i = Index(k); break;
          case 1: i = Index(cnt - 1 - k); break;
          case 2: i = Index((Index(k) * 7u) % size); break;       // 7 is coprime to 2600: distinct indices
          default: i = Index(k < cnt / 2 ? cnt / 2 - 1 - k : k - cnt / 2); break;   // indices 0..cnt/2-1 written twice
          }
          DT t[BS > 0 ? BS : 1];
          for(int j = 0; j < BS; ++j) t[j] = DT(((k + j) % 2 ? -1 : 1) * (LD(1 + (k * 37) % 1024) / 8 + LD(200 * j)));
          sv(i, S::mk(t));
          model[i] = std::vector<DT>(t, t + BS);
        }
        c.check(sv.allocated_elements() == Index(((cnt + 999) / 1000) * 1000), kname + " grown: allocated_elements", [&]{ return "allocated " + std::to_string(sv.allocated_elements()) + " after " + std::to_string(cnt) + " writes"; });
        if(cnt > 1000) c.count("sparse_grown_past_first_allocation");
        const SV& csv = sv;
        const std::string on = ob < O_GET0 ? std::string(sobs_name[ob]) : std::string("operator()(i)");
        const std::string key = kname + " grown: first observation " + on;
        bool post = true;
        DT mx, mn, mxa, mna; model_extrema(model, mx, mn, mxa, mna);
        switch(ob < O_GET0 ? ob : int(O_GET0))
        {
        case O_MAX: c.check(csv.max_element() == mx, key, "wrong extremum"); break;
        case O_MIN: c.check(csv.min_element() == mn, key, "wrong extremum"); break;
        case O_MAXABS: c.check(csv.max_abs_element() == mxa, key, "wrong extremum"); break;
        case O_MINABS: c.check(csv.min_abs_element() == mna, key, "wrong extremum"); break;
        case O_USED: c.check(csv.used_elements() == Index(model.size()), key, "wrong number of entries"); break;
        case O_INDICES: { const IT* ix = csv.indices(); bool ok = true; size_t k = 0; for(auto& m : model) { if(Index(ix[k]) != m.first) ok = false; ++k; } c.check(ok, key, "index array is not the sorted distinct index list"); break; }
        case O_ELEMENTS: { const DT* ev = csv.template elements<Perspective::pod>(); bool ok = true; size_t k = 0; for(auto& m : model) { for(int j = 0; j < BS; ++j) if(!(ev[k * size_t(BS) + size_t(j)] == m.second[size_t(j)])) ok = false; ++k; } c.check(ok, key, "value array is not the last-write-wins list"); break; }
        case O_SORT: sv.sort(); c.check(sv._scalar_index.at(1) == Index(model.size()), key, "raw used count after sort()"); break;
        case O_CLONE: { SV cl = csv.clone(CloneMode::Deep); check_sparse_state<DT, BS, IT>(c, kname, "grown: clone(Deep) [the clone]", cl, size, model); break; }
        case O_EQ: { SV other{size}; for(auto& m : model) other(m.first, S::mk(m.second.data())); c.check(csv == other, key, "does not compare equal to a vector holding the final entries"); break; }
        case O_WRITE: { std::stringstream ss; csv.write_out(FileMode::fm_binary, ss); SV rd(FileMode::fm_binary, ss); check_sparse_state<DT, BS, IT>(c, kname, "grown: write_out/read_from [read back]", rd, size, model); break; }
        case O_STREAM: { std::ostringstream os; os << csv; c.check(os.str().size() > size, key, "printed vector too short"); break; }
        case O_FORMAT: { sv.format(DT(2.5)); Model m2; for(auto& m : model) m2[m.first] = std::vector<DT>(size_t(BS), DT(2.5)); check_sparse_state<DT, BS, IT>(c, kname, "grown: format", sv, size, m2); post = false; break; }
        case O_MOVE: { SV mv(std::move(sv)); check_sparse_state<DT, BS, IT>(c, kname, "grown: move [the target]", mv, size, model); post = false; break; }
        default:
        {
          static const Index probe[3] = {0, 998, 1001};
          const Index i = probe[ob - O_GET0];
          auto v = csv(i); auto it = model.find(i);
          bool ok = true; for(int j = 0; j < BS; ++j) if(!(S::comp(v, j) == (it == model.end() ? DT(0) : it->second[size_t(j)]))) ok = false;
          c.check(ok, key, "wrong entry read");
        }
        }
        if(post) check_sparse_state<DT, BS, IT>(c, kname, "grown: after first observation " + on, sv, size, model);
      }
      c.check(MemoryPool::_pool.size() == pool0, kname + " grown: memory pool entries leaked", "leak");
      c.count("sparse_grown_cases");
      c.nontrivial(verif::Hash().str(kname).str("grown").pod(ci).pod(order).pod(ob).get());
      c.outcome("sparse grown");
    }
  }

  void extra_sections(verif::Ctx& c)
  {
    scatter_gather_dv<double, Index>(c, "DV<double>");
    scatter_gather_dv<float, unsigned int>(c, "DV<float,u32>");
    scatter_gather_dvb<double, Index, 2>(c, "DVB<double,2>");
    scatter_gather_dvb<float, Index, 3>(c, "DVB<float,3>");
    permute_all<double, 1>(c, "permute<double> (DV / SparseVector)");
    permute_all<float, 2>(c, "permute<float> (DVB2 / SparseVectorBlocked2)");
    sparse_grown<double, 1, Index>(c, "SparseVector<double>");
    sparse_grown<float, 2, Index>(c, "SparseVectorBlocked<float,2>");
    sparse_grown<double, 1, unsigned int>(c, "SparseVector<double,u32>");
  }
}
