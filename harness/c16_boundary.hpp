// C16: harness description of the facets of a mesh (boundary facets and inner facets with their adjacent cells),
// exact integration of polynomials over straight / planar facets. Shared by c16_misc and c16_jobs.
#pragma once
#include <c16_core.hpp>

namespace c16
{
  /// harness description of the facets: boundary facets (exactly one adjacent cell) and inner facets (two adjacent cells),
  /// vertex coordinates in the local facet order of one adjacent cell
  template<typename Shape_>
  struct Boundary
  {
    static constexpr int D = Shape_::dimension;
    typedef typename FEAT::Shape::FaceTraits<Shape_, D - 1>::ShapeType FacetShape;
    typedef ShapeInfo<FacetShape> FI;
    struct Facet { std::vector<std::array<LD, D>> x; std::vector<Index> cells; };
    std::vector<Facet> facets; // boundary facets
    std::vector<Facet> inner;  // inner facets
    bool planar = true;       // all boundary faces are planar parallelograms / triangles
    bool inner_planar = true; // same for the inner faces

    explicit Boundary(const typename MeshCtx<Shape_>::MeshType& mesh)
    {
      const auto& vs = mesh.get_vertex_set();
      const auto& vc = mesh.template get_index_set<D, 0>();
      std::map<std::set<Index>, std::pair<std::vector<Index>, std::vector<Index>>> cnt; // cells, ordered vertices
      for(Index k = 0; k < mesh.get_num_entities(D); ++k)
        for(int f = 0; f < num_local_faces<Shape_>(D - 1); ++f)
        {
          std::vector<Index> ov; std::set<Index> key;
          for(int l : local_face_vertices<Shape_>(D - 1, f)) { ov.push_back(vc(k, l)); key.insert(vc(k, l)); }
          auto& e = cnt[key];
          e.first.push_back(k); e.second = ov;
        }
      for(auto& kv : cnt)
      {
        Facet fc; fc.cells = kv.second.first;
        for(Index v : kv.second.second) { std::array<LD, D> x; for(int j = 0; j < D; ++j) x[(size_t)j] = LD(vs[v][j]); fc.x.push_back(x); }
        if(D == 3 && !FI::is_simplex)
        {
          // parallelogram test: x0 + x3 == x1 + x2
          for(int j = 0; j < D; ++j) if(std::fabs(fc.x[0][(size_t)j] + fc.x[3][(size_t)j] - fc.x[1][(size_t)j] - fc.x[2][(size_t)j]) > LD(1e-14)) (fc.cells.size() == 1u ? planar : inner_planar) = false;
        }
        if(fc.cells.size() == 1u) facets.push_back(fc); else inner.push_back(fc);
      }
    }

    /// point of facet f at facet reference coordinates t and the surface element there
    void eval(const Facet& f, const std::array<LD, D - 1>& t, std::array<LD, D>& x, LD& ds) const
    {
      constexpr int d = D - 1;
      LD J[D][d > 0 ? d : 1];
      for(int i = 0; i < D; ++i) { x[(size_t)i] = 0; for(int a = 0; a < d; ++a) J[i][a] = 0; }
      if constexpr(FI::is_simplex)
      {
        for(int i = 0; i < D; ++i)
        {
          x[(size_t)i] = f.x[0][(size_t)i];
          for(int a = 0; a < d; ++a) { LD e = f.x[(size_t)(a + 1)][(size_t)i] - f.x[0][(size_t)i]; x[(size_t)i] += t[(size_t)a] * e; J[i][a] = e; }
        }
      }
      else
      {
        for(int v = 0; v < FI::NV; ++v)
        {
          LD N = 1, dN[2] = {1, 1};
          for(int a = 0; a < d; ++a)
          {
            LD s = FI::ref_coord(v, a);
            N *= (1 + s * t[(size_t)a]) / 2;
            for(int b = 0; b < d; ++b) dN[b] *= (a == b) ? s / 2 : (1 + s * t[(size_t)a]) / 2;
          }
          for(int i = 0; i < D; ++i) { x[(size_t)i] += N * f.x[(size_t)v][(size_t)i]; for(int a = 0; a < d; ++a) J[i][a] += dN[a] * f.x[(size_t)v][(size_t)i]; }
        }
      }
      if constexpr(d == 1) { LD s = 0; for(int i = 0; i < D; ++i) s += J[i][0] * J[i][0]; ds = std::sqrt(s); }
      else
      {
        LD g00 = 0, g01 = 0, g11 = 0;
        for(int i = 0; i < D; ++i) { g00 += J[i][0] * J[i][0]; g01 += J[i][0] * J[i][1]; g11 += J[i][1] * J[i][1]; }
        ds = std::sqrt(g00 * g11 - g01 * g01);
      }
    }

    /// integral of a polynomial over the boundary (exact for straight edges / planar parallelogram or triangle faces)
    LD integrate(const Poly<D>& p, LD* abs_scale = nullptr) const
    {
      auto q = ref_quadrature<FacetShape>(p.degree() + 2);
      LD s = 0, sa = 0;
      for(auto& f : facets)
        for(size_t iq = 0; iq < q.pts.size(); ++iq)
        {
          std::array<LD, D> x; LD ds;
          eval(f, q.pts[iq], x, ds);
          s += q.wts[iq] * ds * p.eval(x);
          sa += q.wts[iq] * ds * p.eval_abs(x);
        }
      if(abs_scale) *abs_scale = sa;
      return s;
    }

    /// is x on the boundary? (straight / planar facets)
    bool contains(const std::array<LD, D>& x) const
    {
      for(auto& f : facets)
      {
        // least squares parameters w.r.t. the edge vectors from vertex 0
        constexpr int d = D - 1;
        LD e[2][D], r[D];
        for(int i = 0; i < D; ++i) { r[i] = x[(size_t)i] - f.x[0][(size_t)i]; for(int a = 0; a < d; ++a) e[a][i] = f.x[(size_t)(a == 0 ? 1 : 2)][(size_t)i] - f.x[0][(size_t)i]; }
        LD s = 0, t = 0;
        if constexpr(d == 1)
        {
          LD ee = 0, er = 0; for(int i = 0; i < D; ++i) { ee += e[0][i] * e[0][i]; er += e[0][i] * r[i]; }
          s = er / ee;
        }
        else
        {
          LD a00 = 0, a01 = 0, a11 = 0, b0 = 0, b1 = 0;
          for(int i = 0; i < D; ++i) { a00 += e[0][i] * e[0][i]; a01 += e[0][i] * e[1][i]; a11 += e[1][i] * e[1][i]; b0 += e[0][i] * r[i]; b1 += e[1][i] * r[i]; }
          LD det = a00 * a11 - a01 * a01;
          s = (b0 * a11 - b1 * a01) / det; t = (a00 * b1 - a01 * b0) / det;
        }
        LD res = 0;
        for(int i = 0; i < D; ++i) { LD v = r[i] - s * e[0][i] - (d == 2 ? t * e[1][i] : LD(0)); res += v * v; }
        if(res > LD(1e-20)) continue;
        const LD tol = LD(1e-10);
        bool in = (s >= -tol && t >= -tol);
        if(FI::is_simplex) in = in && (s + t <= 1 + tol); else in = in && (s <= 1 + tol) && (t <= 1 + tol);
        if(in) return true;
      }
      return false;
    }
  };
}
