// C08 helpers: block-dense long double reference algebra and the textbook preconditioner operators.
// Nothing in here calls a FEAT kernel.
#pragma once
#include <cmath>
#include <cstdint>
#include <string>
#include <vector>

namespace c08
{
  typedef long double LD;

  /// dense N x N matrix (N = n*bs) with an n x n block sparsity pattern
  struct BlockDense
  {
    int n = 0, bs = 1, N = 0;
    std::vector<LD> a;          // row-major N x N (zero outside the pattern)
    std::vector<char> pat;      // n x n block pattern (stored blocks)
    void init(int n_, int bs_) { n = n_; bs = bs_; N = n * bs; a.assign(size_t(N) * N, 0.0L); pat.assign(size_t(n) * n, 0); }
    LD& at(int i, int j) { return a[size_t(i) * N + j]; }
    LD at(int i, int j) const { return a[size_t(i) * N + j]; }
    bool p(int bi, int bj) const { return pat[size_t(bi) * n + bj] != 0; }
  };

  typedef std::vector<LD> LVec;

  inline LVec matvec(const BlockDense& A, const LVec& x)
  {
    LVec y(A.N, 0.0L);
    for(int i = 0; i < A.N; ++i) { LD s = 0; for(int j = 0; j < A.N; ++j) s += A.at(i, j) * x[j]; y[i] = s; }
    return y;
  }

  /// inverse of a dense m x m matrix (row-major) by Gauss-Jordan with partial pivoting; returns false if singular
  inline bool dense_inverse(int m, const std::vector<LD>& in, std::vector<LD>& out)
  {
    std::vector<LD> w(in);
    out.assign(size_t(m) * m, 0.0L);
    for(int i = 0; i < m; ++i) out[size_t(i) * m + i] = 1.0L;
    for(int k = 0; k < m; ++k)
    {
      int piv = k; LD best = fabsl(w[size_t(k) * m + k]);
      for(int i = k + 1; i < m; ++i) if(fabsl(w[size_t(i) * m + k]) > best) { best = fabsl(w[size_t(i) * m + k]); piv = i; }
      if(best == 0.0L) return false;
      if(piv != k) for(int j = 0; j < m; ++j) { std::swap(w[size_t(k) * m + j], w[size_t(piv) * m + j]); std::swap(out[size_t(k) * m + j], out[size_t(piv) * m + j]); }
      LD d = w[size_t(k) * m + k];
      for(int j = 0; j < m; ++j) { w[size_t(k) * m + j] /= d; out[size_t(k) * m + j] /= d; }
      for(int i = 0; i < m; ++i)
      {
        if(i == k) continue;
        LD f = w[size_t(i) * m + k];
        if(f == 0.0L) continue;
        for(int j = 0; j < m; ++j) { w[size_t(i) * m + j] -= f * w[size_t(k) * m + j]; out[size_t(i) * m + j] -= f * out[size_t(k) * m + j]; }
      }
    }
    return true;
  }

  /// a dense bs x bs block (row-major)
  typedef std::vector<LD> Blk;
  inline Blk get_block(const BlockDense& A, int bi, int bj)
  {
    Blk b(size_t(A.bs) * A.bs);
    for(int r = 0; r < A.bs; ++r) for(int c = 0; c < A.bs; ++c) b[size_t(r) * A.bs + c] = A.at(bi * A.bs + r, bj * A.bs + c);
    return b;
  }
  inline Blk blk_mul(int bs, const Blk& x, const Blk& y)
  {
    Blk z(size_t(bs) * bs, 0.0L);
    for(int r = 0; r < bs; ++r) for(int c = 0; c < bs; ++c) { LD s = 0; for(int k = 0; k < bs; ++k) s += x[size_t(r) * bs + k] * y[size_t(k) * bs + c]; z[size_t(r) * bs + c] = s; }
    return z;
  }
  inline void blk_vec_acc(int bs, const Blk& m, const LD* x, LD* y, LD alpha) // y += alpha * m * x
  {
    for(int r = 0; r < bs; ++r) { LD s = 0; for(int c = 0; c < bs; ++c) s += m[size_t(r) * bs + c] * x[c]; y[r] += alpha * s; }
  }

  // ------------------------------------------------------------------ textbook operators (block versions; bs=1 is the scalar case)

  /// Jacobi: omega * diag(A)^-1 * d   (point diagonal, also for blocked matrices: that is what extract_diag defines)
  inline LVec ref_jacobi(const BlockDense& A, const LVec& d, LD omega)
  {
    LVec y(A.N);
    for(int i = 0; i < A.N; ++i) y[i] = omega * d[i] / A.at(i, i);
    return y;
  }

  /// SOR: (D/omega + L)^-1 d with the block diagonal D and the strictly lower block triangle L
  inline bool ref_sor(const BlockDense& A, const LVec& d, LD omega, LVec& y)
  {
    const int bs = A.bs;
    y.assign(A.N, 0.0L);
    for(int i = 0; i < A.n; ++i)
    {
      std::vector<LD> r(bs);
      for(int k = 0; k < bs; ++k) r[k] = d[i * bs + k];
      for(int j = 0; j < i; ++j) blk_vec_acc(bs, get_block(A, i, j), &y[j * bs], r.data(), -1.0L);
      Blk inv; if(!dense_inverse(bs, get_block(A, i, i), inv)) return false;
      std::vector<LD> t(bs, 0.0L);
      blk_vec_acc(bs, inv, r.data(), t.data(), omega);
      for(int k = 0; k < bs; ++k) y[i * bs + k] = t[k];
    }
    return true;
  }

  /// SSOR: omega(2-omega) (D + omega U)^-1 D (D + omega L)^-1 d
  inline bool ref_ssor(const BlockDense& A, const LVec& d, LD omega, LVec& z)
  {
    const int bs = A.bs;
    LVec y(A.N, 0.0L);
    std::vector<Blk> dinv(A.n);
    for(int i = 0; i < A.n; ++i) if(!dense_inverse(bs, get_block(A, i, i), dinv[i])) return false;
    // (D + omega L) y = d
    for(int i = 0; i < A.n; ++i)
    {
      std::vector<LD> r(bs);
      for(int k = 0; k < bs; ++k) r[k] = d[i * bs + k];
      for(int j = 0; j < i; ++j) blk_vec_acc(bs, get_block(A, i, j), &y[j * bs], r.data(), -omega);
      std::vector<LD> t(bs, 0.0L);
      blk_vec_acc(bs, dinv[i], r.data(), t.data(), 1.0L);
      for(int k = 0; k < bs; ++k) y[i * bs + k] = t[k];
    }
    // w = D y
    LVec w(A.N, 0.0L);
    for(int i = 0; i < A.n; ++i) blk_vec_acc(bs, get_block(A, i, i), &y[i * bs], &w[i * bs], 1.0L);
    // (D + omega U) z = w
    z.assign(A.N, 0.0L);
    for(int i = A.n - 1; i >= 0; --i)
    {
      std::vector<LD> r(bs);
      for(int k = 0; k < bs; ++k) r[k] = w[i * bs + k];
      for(int j = i + 1; j < A.n; ++j) blk_vec_acc(bs, get_block(A, i, j), &z[j * bs], r.data(), -omega);
      std::vector<LD> t(bs, 0.0L);
      blk_vec_acc(bs, dinv[i], r.data(), t.data(), 1.0L);
      for(int k = 0; k < bs; ++k) z[i * bs + k] = t[k];
    }
    for(auto& v : z) v *= omega * (2.0L - omega);
    return true;
  }

  /// Neumann polynomial: sum_{k=0}^m (I - M A)^k M d with M = omega*diag(A)^-1, on the sub-system of the free (non-filtered) dofs.
  /// 'fixed' marks the scalar dofs of the unit filter; d must vanish there; the result vanishes there.
  inline LVec ref_poly(const BlockDense& A, const LVec& d, int m, LD omega, const std::vector<char>& fixed)
  {
    const int N = A.N;
    // T = I - M A restricted to the free dofs, explicit powers (no Horner scheme: independent of the implementation's recurrence)
    std::vector<LD> T(size_t(N) * N, 0.0L);
    for(int i = 0; i < N; ++i) for(int j = 0; j < N; ++j)
    {
      if(fixed[i] || fixed[j]) continue;
      T[size_t(i) * N + j] = (i == j ? 1.0L : 0.0L) - omega / A.at(i, i) * A.at(i, j);
    }
    LVec v(N, 0.0L), sum(N, 0.0L);
    for(int i = 0; i < N; ++i) if(!fixed[i]) v[i] = omega * d[i] / A.at(i, i);
    sum = v;
    for(int k = 1; k <= m; ++k)
    {
      LVec w(N, 0.0L);
      for(int i = 0; i < N; ++i) { LD s = 0; for(int j = 0; j < N; ++j) s += T[size_t(i) * N + j] * v[j]; w[i] = s; }
      v = w;
      for(int i = 0; i < N; ++i) sum[i] += v[i];
    }
    return sum;
  }

  /// ILU(p) reference: level-of-fill symbolic factorisation + block IKJ numeric factorisation A ~ (I+L)(D+U)
  struct RefILU
  {
    int n = 0, bs = 1;
    std::vector<int> lev;             // n x n, large = not in pattern
    std::vector<Blk> f;               // n x n blocks: strictly lower = L, diagonal = D (not inverted), upper = U
    std::vector<Blk> dinv;
    bool ok = true;
    bool in(int i, int j) const { return lev[size_t(i) * n + j] < 1000000; }
    bool complete = false;            // true iff unlimited fill would add no entry (then (I+L)(D+U) = A exactly)
    static std::vector<int> levels(const BlockDense& A, int p)
    {
      const int n = A.n;
      std::vector<int> lev(size_t(n) * n, 1000000);
      for(int i = 0; i < n; ++i) for(int j = 0; j < n; ++j) if(A.p(i, j)) lev[size_t(i) * n + j] = 0;
      for(int i = 0; i < n; ++i)
      {
        for(int k = 0; k < i; ++k)
        {
          const int lik = lev[size_t(i) * n + k];
          if(lik > p) continue;
          for(int j = k + 1; j < n; ++j)
          {
            const int lkj = lev[size_t(k) * n + j];
            if(lkj > p) continue;
            const int l = lik + lkj + 1;
            if(l < lev[size_t(i) * n + j]) lev[size_t(i) * n + j] = l;
          }
        }
        // drop the entries of row i above the level bound before the row is used by later rows
        for(int j = 0; j < n; ++j) if(lev[size_t(i) * n + j] > p) lev[size_t(i) * n + j] = 1000000;
      }
      return lev;
    }
    void factorize(const BlockDense& A, int p)
    {
      n = A.n; bs = A.bs;
      lev = levels(A, p);
      {
        std::vector<int> full = levels(A, 999999);
        complete = true;
        for(size_t q = 0; q < full.size(); ++q) if((full[q] < 1000000) != (lev[q] < 1000000)) complete = false;
      }
      f.assign(size_t(n) * n, Blk());
      dinv.assign(n, Blk());
      for(int i = 0; i < n; ++i) for(int j = 0; j < n; ++j) if(in(i, j)) f[size_t(i) * n + j] = get_block(A, i, j);
      for(int i = 0; i < n; ++i)
      {
        for(int k = 0; k < i; ++k)
        {
          if(!in(i, k)) continue;
          // L_ik = A_ik * U_kk^-1   (right multiplication: A_ik = sum_{j<k} L_ij U_jk + L_ik U_kk)
          f[size_t(i) * n + k] = blk_mul(bs, f[size_t(i) * n + k], dinv[k]);
          for(int j = k + 1; j < n; ++j)
          {
            if(!in(i, j) || !in(k, j)) continue;
            Blk pr = blk_mul(bs, f[size_t(i) * n + k], f[size_t(k) * n + j]);
            for(size_t q = 0; q < pr.size(); ++q) f[size_t(i) * n + j][q] -= pr[q];
          }
        }
        if(!dense_inverse(bs, f[size_t(i) * n + i], dinv[i])) { ok = false; return; }
        // reject nearly singular pivots: the comparison tolerance would be meaningless
        LD mx = 0; for(auto v : dinv[i]) mx = std::max(mx, fabsl(v));
        if(mx > 64.0L) { ok = false; return; }
      }
    }
    LVec apply(const LVec& d) const
    {
      LVec y(d);
      for(int i = 0; i < n; ++i) for(int k = 0; k < i; ++k) if(in(i, k)) blk_vec_acc(bs, f[size_t(i) * n + k], &y[k * bs], &y[i * bs], -1.0L);
      LVec x(y.size(), 0.0L);
      for(int i = n - 1; i >= 0; --i)
      {
        std::vector<LD> r(bs);
        for(int q = 0; q < bs; ++q) r[q] = y[i * bs + q];
        for(int j = i + 1; j < n; ++j) if(in(i, j)) blk_vec_acc(bs, f[size_t(i) * n + j], &x[j * bs], r.data(), -1.0L);
        blk_vec_acc(bs, dinv[i], r.data(), &x[i * bs], 1.0L);
      }
      return x;
    }
  };

  inline bool ref_solve(const BlockDense& A, const LVec& d, LVec& x)
  {
    std::vector<LD> inv;
    if(!dense_inverse(A.N, A.a, inv)) return false;
    x.assign(A.N, 0.0L);
    for(int i = 0; i < A.N; ++i) { LD s = 0; for(int j = 0; j < A.N; ++j) s += inv[size_t(i) * A.N + j] * d[j]; x[i] = s; }
    return true;
  }
} // namespace c08
