// C16 scalar operators/functionals/patterns on the 3D shapes (tetra, hexa); see c16_assembly_impl.hpp.
#include <c16_assembly_impl.hpp>
int main(int argc, char** argv) { return c16_assembly_main<true>(argc, argv, "c16_assembly3d"); }
