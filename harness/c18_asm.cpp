// C18, control level: the transfer assembly entry points of control/asm/transfer_asm.hpp (a C18 anchor),
// Control::Asm::asm_transfer_scalar and asm_transfer_blocked, and the Global::Transfer object they fill
// (single process: default muxer and gates), driven through hand-built minimal domain levels (mesh, trafo, space) wrapped
// in Control::Domain::VirtualLevel - no domain control, no files.
//
// Judged by the oracles of c18_transfer (c18_common.hpp): prolongation exact on the coarse space (geometric lattice oracle),
// T*P = I, R = P^T bitwise, matrix-free = assembled, Global::Transfer::prol/rest/trunc = the matrices for a value alphabet,
// plus: the control route equals the kernel route (GridTransfer + weights + scale_rows [+ shrink]) bitwise, and the
// RE-INVOCATION pattern: the same transfer object is assembled again after the mesh vertices moved (other values, same
// pattern) and a third time unchanged; it must equal a freshly assembled object bitwise and satisfy all identities again.
#include <c18_common.hpp>
#include <kernel/lafem/sparse_matrix_bwrappedcsr.hpp>
#include <kernel/lafem/dense_vector_blocked.hpp>
#include <control/asm/transfer_asm.hpp>

namespace
{
  typedef LAFEM::VectorMirror<DataType, Index> MirrorType;

  /// affine map of all vertices (keeps every nested pair nested, changes all cell shapes)
  template<typename Mesh_> void affine_move(Mesh_& mesh)
  {
    auto& vtx = mesh.get_vertex_set();
    const int d = Mesh_::world_dim;
    for(Index i = 0; i < vtx.get_num_vertices(); ++i)
    {
      double x[3] = {0, 0, 0};
      for(int k = 0; k < d; ++k) x[k] = vtx[i][k];
      double y[3];
      y[0] = 1.25 * x[0] + 0.25 * x[1] + 0.125 * x[2] + 0.5;
      y[1] = 0.125 * x[0] + 0.75 * x[1] - 0.25 * x[2] - 0.25;
      y[2] = 0.25 * x[1] + 1.5 * x[2] + 1.0;
      for(int k = 0; k < d; ++k) vtx[i][k] = y[k];
    }
  }

  template<typename Mesh_, template<typename> class Element_>
  struct AsmChecker
  {
    typedef typename Mesh_::ShapeType ShapeType;
    static constexpr int dim = ShapeType::dimension;
    typedef Trafo::Standard::Mapping<Mesh_> TrafoType;
    typedef Element_<TrafoType> SpaceType;

    /// the minimal "domain level": exactly what the space lambda of the control layer needs
    struct Level
    {
      Mesh_ mesh;
      TrafoType trafo;
      SpaceType space;
      explicit Level(Mesh_&& m) : mesh(std::move(m)), trafo(mesh), space(trafo) {}
    };
    typedef Control::Domain::VirtualLevel<Level> VirtLevel;

    /// "the mesh has been updated": nonaffine move of the coarse vertices + refinement, or an affine map of both meshes
    static void move_meshes(Level& lc, Level& lf, bool nonaffine)
    {
      if(nonaffine)
      {
        distort(lc.mesh);
        Geometry::StandardRefinery<Mesh_> r(lc.mesh);
        Mesh_ tmp(r);
        auto& vf = lf.mesh.get_vertex_set();
        const auto& vt = tmp.get_vertex_set();
        XASSERTM(vf.get_num_vertices() == vt.get_num_vertices(), "harness: refinement changed the number of vertices");
        for(Index i = 0; i < vf.get_num_vertices(); ++i) vf[i] = vt[i];
      }
      else { affine_move(lc.mesh); affine_move(lf.mesh); }
    }

    /// kernel route: GridTransfer + weight vector + scale_rows (+ shrink), as documented for serial use
    static void kernel_route(const SpaceType& sf, const SpaceType& sc, const String& cub, bool shrink, MatrixType& prol, MatrixType& prol_unshrunk, MatrixType& trunc)
    {
      Assembly::SymbolicAssembler::assemble_matrix_2lvl(prol, sf, sc);
      VectorType w = prol.create_vector_l();
      prol.format(); w.format();
      Assembly::GridTransfer::assemble_prolongation(prol, w, sf, sc, cub);
      w.component_invert(w);
      prol.scale_rows(prol, w);
      prol_unshrunk = prol.clone(LAFEM::CloneMode::Deep);
      trunc = prol.transpose();
      trunc.format();
      VectorType wt = trunc.create_vector_l();
      wt.format();
      Assembly::GridTransfer::assemble_truncation(trunc, wt, sf, sc, cub);
      wt.component_invert(wt);
      trunc.scale_rows(trunc, wt);
      if(shrink) { prol.shrink(1E-3 * prol.max_abs_element()); trunc.shrink(1E-3 * trunc.max_abs_element()); }
    }

    static std::vector<std::pair<std::string, std::vector<double>>> alphabet(Index n)
    {
      std::vector<std::pair<std::string, std::vector<double>>> r;
      auto dense = [&](double sc) { std::vector<double> v((size_t(n)), 0.0); for(Index j = 0; j < n; ++j) v[size_t(j)] = sc * (double(int((j * 5u + 3u) % 11u) - 5) / 4.0 + 0.125); return v; };
      r.push_back(std::make_pair(std::string("dense"), dense(1.0)));
      r.push_back(std::make_pair(std::string("zero"), std::vector<double>((size_t(n)), 0.0)));
      { std::vector<double> v((size_t(n)), 0.0); v[0] = 1.0; r.push_back(std::make_pair(std::string("e_first"), v)); }
      { std::vector<double> v((size_t(n)), 0.0); v[size_t(n - 1)] = 1.0; r.push_back(std::make_pair(std::string("e_last"), v)); }
      { std::vector<double> v((size_t(n)), 0.0); for(Index j = 0; j < n; ++j) v[size_t(j)] = -double(1 + (j % 4)) / 4.0; r.push_back(std::make_pair(std::string("all-negative"), v)); }
      r.push_back(std::make_pair(std::string("dense*2^400"), dense(std::ldexp(1.0, 400))));
      r.push_back(std::make_pair(std::string("dense*2^-900"), dense(std::ldexp(1.0, -900))));
      return r;
    }

    /// Global::Transfer prol / rest / trunc on (scalar or blocked) vectors, component-wise against the scalar matrices
    template<typename GT_>
    static void apply_checks(verif::Ctx& c, const std::string& key, const std::string& stage, const GT_& gt, const Csr& P, const Csr& R, const Csr* T)
    {
      typedef typename GT_::VectorType GV;
      typedef typename GT_::LocalVectorType LV;
      static constexpr int bs = int(sizeof(typename LV::ValueType) / sizeof(DataType));
      const Index nf = P.m, nc = P.n;
      c.check(!gt.is_ghost(), "Global::Transfer filled by asm_transfer: is_ghost; " + stage + "; " + key, "single process transfer claims to be a ghost operator");
      auto rd = [](const LV& v, Index i, int b) { return v.template elements<LAFEM::Perspective::pod>()[size_t(i) * size_t(bs) + size_t(b)]; };
      auto wr = [](LV& v, Index i, int b, double x) { v.template elements<LAFEM::Perspective::pod>()[size_t(i) * size_t(bs) + size_t(b)] = x; };
      std::vector<double> y, ya;
      double wp = 0.0, wrr = 0.0, wt = 0.0, wid = 0.0; std::string wp_n, wr_n, wt_n, wid_n;
      for(auto& tv : alphabet(nc))
      {
        GV gc(nullptr, LV(nc)), gf(nullptr, LV(nf)), gt2(nullptr, LV(nc));
        double vmag = 0.0;
        for(Index j = 0; j < nc; ++j) for(int b = 0; b < bs; ++b) { const double x = tv.second[size_t(j)] * (b == 0 ? 1.0 : -0.5 * double(b)); wr(gc.local(), j, b, x); vmag = std::max(vmag, std::fabs(x)); }
        gf.local().format(DataType(77));
        gt.prol(gf, gc);
        for(int b = 0; b < bs; ++b)
        {
          std::vector<double> x((size_t(nc)), 0.0); for(Index j = 0; j < nc; ++j) x[size_t(j)] = rd(gc.local(), j, b);
          P.apply(y, ya, x);
          for(Index i = 0; i < nf; ++i) { const double e = std::fabs(rd(gf.local(), i, b) - y[size_t(i)]) / (std::max(ya[size_t(i)], vmag) + 1e-300); if(!(e <= wp)) { wp = e; wp_n = tv.first; } }
        }
        if(T != nullptr)
        {
          gt2.local().format(DataType(77));
          gt.trunc(gf, gt2);
          for(int b = 0; b < bs; ++b)
          {
            std::vector<double> x((size_t(nf)), 0.0); for(Index i = 0; i < nf; ++i) x[size_t(i)] = rd(gf.local(), i, b);
            T->apply(y, ya, x);
            for(Index j = 0; j < nc; ++j)
            {
              const double e = std::fabs(rd(gt2.local(), j, b) - y[size_t(j)]) / (std::max(ya[size_t(j)], vmag) + 1e-300); if(!(e <= wt)) { wt = e; wt_n = tv.first; }
              const double e2 = std::fabs(rd(gt2.local(), j, b) - rd(gc.local(), j, b)) / (vmag + 1e-300); if(vmag > 0.0 && !(e2 <= wid)) { wid = e2; wid_n = tv.first; }
              if(vmag == 0.0 && rd(gt2.local(), j, b) != 0.0) { wid = 1.0; wid_n = tv.first; }
            }
          }
        }
      }
      for(auto& tv : alphabet(nf))
      {
        GV gf(nullptr, LV(nf)), gc(nullptr, LV(nc));
        double vmag = 0.0;
        for(Index i = 0; i < nf; ++i) for(int b = 0; b < bs; ++b) { const double x = tv.second[size_t(i)] * (b == 0 ? 1.0 : 0.25 * double(b + 1)); wr(gf.local(), i, b, x); vmag = std::max(vmag, std::fabs(x)); }
        gc.local().format(DataType(77));
        gt.rest(gf, gc);
        for(int b = 0; b < bs; ++b)
        {
          std::vector<double> x((size_t(nf)), 0.0); for(Index i = 0; i < nf; ++i) x[size_t(i)] = rd(gf.local(), i, b);
          R.apply(y, ya, x);
          for(Index j = 0; j < nc; ++j) { const double e = std::fabs(rd(gc.local(), j, b) - y[size_t(j)]) / (std::max(ya[size_t(j)], vmag) + 1e-300); if(!(e <= wrr)) { wrr = e; wr_n = tv.first; } }
        }
      }
      const double tol = 64.0 * 2.3e-16;
      c.check(wp <= tol, "Global::Transfer::prol differs from P*v; " + stage + "; " + key, [&]{ char b[120]; snprintf(b, sizeof b, "relative difference %.3e (%s vector)", wp, wp_n.c_str()); return std::string(b); });
      c.check(wrr <= tol, "Global::Transfer::rest differs from P^T*v; " + stage + "; " + key, [&]{ char b[120]; snprintf(b, sizeof b, "relative difference %.3e (%s vector)", wrr, wr_n.c_str()); return std::string(b); });
      if(T != nullptr)
      {
        c.check(wt <= tol, "Global::Transfer::trunc differs from T*v; " + stage + "; " + key, [&]{ char b[120]; snprintf(b, sizeof b, "relative difference %.3e (%s vector)", wt, wt_n.c_str()); return std::string(b); });
        c.check(wid <= 1e-10, "Global::Transfer trunc(prol(x)) != x; " + stage + "; " + key, [&]{ char b[120]; snprintf(b, sizeof b, "relative difference %.3e (%s vector)", wid, wid_n.c_str()); return std::string(b); });
      }
      c.count("global_transfer_applications", 3 * 7);
    }

    /// all identities of one assembled state; Lmat() gives the local transfer with scalar CSR access
    template<typename GT_, typename Unwrap_>
    static void judge(verif::Ctx& c, const std::string& key, const std::string& stage, const GT_& gt, Unwrap_&& unwrap,
      const SpaceType& sf, const SpaceType& sc, int degree, const String& cub, bool trunc, bool shrink, bool matrix_free)
    {
      // the accessors of the global wrapper refer to the matrices of the local transfer it owns; its temporary has the coarse size
      c.check(&gt.get_mat_prol() == &gt._transfer.get_mat_prol() && &gt.get_mat_rest() == &gt._transfer.get_mat_rest() && &gt.get_mat_trunc() == &gt._transfer.get_mat_trunc()
        && &const_cast<GT_&>(gt).local() == &gt._transfer && const_cast<GT_&>(gt).get_vec_temp().size() == gt.get_mat_rest().rows(),
        "Global::Transfer accessors; " + stage + "; " + key, "get_mat_prol/rest/trunc/local do not refer to the owned local transfer, or the temporary vector has the wrong size after compile()");
      const Csr P(unwrap(gt.get_mat_prol())), R(unwrap(gt.get_mat_rest()));
      // the control route equals the kernel route bitwise
      MatrixType kp, kpu, kt;
      kernel_route(sf, sc, cub, shrink, kp, kpu, kt);
      const Csr KP(kp), KPU(kpu), KT(kt);
      c.check(csr_equal(P, KP), "asm_transfer: prolongation differs from the kernel route (GridTransfer + weights); " + stage + "; " + key, "mat_prol is not bitwise the serial kernel result");
      c.check(csr_is_transpose(R, P), "asm_transfer: restriction is not the transpose of the prolongation; " + stage + "; " + key, "mat_rest != mat_prol^T");
      // exactness on the coarse space
      bool parents_ok = true; uint64_t npts = 0;
      const double err = geo_exactness<Mesh_, SpaceType>(sf, sc, degree, P, parents_ok, npts);
      c.check(parents_ok, "geometric parent lookup (harness oracle); " + stage + "; " + key, "fine cell without unique parent / uneven children");
      double dropped = 0.0;
      if(shrink) for(Index i = 0; i < KPU.m; ++i) for(Index k = KPU.rp[i]; k < KPU.rp[i + 1]; ++k) if(!P.stored(i, KPU.ci[k])) dropped = std::max(dropped, std::fabs(KPU.va[k]));
      c.check(err <= std::max(2e-11, 64.0 * dropped), "asm_transfer: prolongation not exact on the coarse space; " + stage + "; " + key, [&]{ char b[160]; snprintf(b, sizeof b, "max |(P e_j)(x) - phi_j(x)| = %.3e (largest entry dropped by shrink %.3e)", err, dropped); return std::string(b); });
      c.count("lattice_points", npts);
      std::unique_ptr<Csr> T;
      if(trunc)
      {
        T.reset(new Csr(unwrap(gt._transfer.get_mat_trunc())));
        c.check(csr_equal(*T, KT), "asm_transfer: truncation differs from the kernel route (GridTransfer + weights); " + stage + "; " + key, "mat_trunc is not bitwise the serial kernel result");
        double tdropped = dropped;
        if(shrink) { MatrixType a, b2, t2; kernel_route(sf, sc, cub, false, a, b2, t2); const Csr TU(t2); for(Index i = 0; i < TU.m; ++i) for(Index k = TU.rp[i]; k < TU.rp[i + 1]; ++k) if(!T->stored(i, TU.ci[k])) tdropped = std::max(tdropped, std::fabs(TU.va[k])); }
        const double e = tp_identity_error(*T, P);
        if(tdropped <= 1e-12)
          c.check(e <= 2e-10, "asm_transfer: truncation is not a left inverse of the prolongation; " + stage + "; " + key, [&]{ char b[120]; snprintf(b, sizeof b, "max |(T*P - I)_ij| = %.3e", e); return std::string(b); });
        else c.excluded("shrink(1e-3*max) drops genuine entries (documented lossy option): T*P=I not demanded");
        if(tdropped <= 1e-12) apply_checks(c, key, stage, gt, P, R, T.get());
        else apply_checks(c, key, stage, gt, P, R, nullptr);
      }
      else
        apply_checks(c, key, stage, gt, P, R, nullptr);
      // matrix-free = assembled (dense, first and last unit vector)
      if(matrix_free && dropped <= 1e-12)
      {
        const Index nc = P.n, nf = P.m;
        double w = 0.0;
        for(int which = 0; which < 3; ++which)
        {
          VectorType vc(nc, 0.0), vf(nf, 0.0);
          std::vector<double> x((size_t(nc)), 0.0), y, ya;
          if(which == 0) for(Index j = 0; j < nc; ++j) x[size_t(j)] = double(int((j * 5u + 3u) % 11u) - 5) / 4.0;
          if(which == 1) x[0] = 1.0;
          if(which == 2) x[size_t(nc - 1)] = 1.0;
          for(Index j = 0; j < nc; ++j) vc(j, x[size_t(j)]);
          Assembly::GridTransfer::prolongate_vector_direct(vf, vc, sf, sc, cub);
          P.apply(y, ya, x);
          for(Index i = 0; i < nf; ++i) { const double e = std::fabs(vf(i) - y[size_t(i)]) / std::max(1.0, ya[size_t(i)]); if(!(e <= w)) w = e; }
        }
        c.check(w <= 1e-12, "asm_transfer: matrix-free prolongate_vector differs from the assembled prolongation; " + stage + "; " + key, [&]{ char b[100]; snprintf(b, sizeof b, "max relative difference %.3e", w); return std::string(b); });
      }
      c.count("assembled_states_judged");
    }

    template<typename GT_, typename Unwrap_>
    static void compare(verif::Ctx& c, const std::string& key, const std::string& what, const GT_& a, const GT_& b, Unwrap_&& unwrap, bool trunc)
    {
      c.check(csr_equal(Csr(unwrap(a._transfer.get_mat_prol())), Csr(unwrap(b._transfer.get_mat_prol()))), "asm_transfer re-assembly: prolongation differs from a freshly assembled object; " + what + "; " + key, "mat_prol not bitwise equal");
      c.check(csr_equal(Csr(unwrap(a._transfer.get_mat_rest())), Csr(unwrap(b._transfer.get_mat_rest()))), "asm_transfer re-assembly: restriction differs from a freshly assembled object; " + what + "; " + key, "mat_rest not bitwise equal");
      if(trunc)
        c.check(csr_equal(Csr(unwrap(a._transfer.get_mat_trunc())), Csr(unwrap(b._transfer.get_mat_trunc()))), "asm_transfer re-assembly: truncation differs from a freshly assembled object; " + what + "; " + key, "mat_trunc not bitwise equal");
      c.count("reassembly_comparisons");
    }

    /// kind 0: asm_transfer_scalar, kind bs >= 2: asm_transfer_blocked with block size bs
    template<int bs_>
    static void run(verif::Ctx& c, Mesh_&& mesh_c, Mesh_&& mesh_f, int degree, const std::string& key, bool trunc, bool shrink, bool nonaffine_move)
    {
      typedef typename std::conditional<bs_ == 0, MatrixType, LAFEM::SparseMatrixBWrappedCSR<DataType, Index, (bs_ == 0 ? 2 : bs_)>>::type LMat;
      typedef typename std::conditional<bs_ == 0, VectorType, LAFEM::DenseVectorBlocked<DataType, Index, (bs_ == 0 ? 2 : bs_)>>::type LVec;
      typedef LAFEM::Transfer<LMat> LT;
      typedef Global::Gate<LVec, MirrorType> GateT;
      typedef Global::Muxer<LVec, MirrorType> MuxT;
      typedef Global::Transfer<LT, MirrorType> GT;
      auto unwrap = [](const LMat& m) -> const MatrixType& { return static_cast<const MatrixType&>(m); };

      auto lvl_c = std::make_shared<Level>(std::move(mesh_c));
      auto lvl_f = std::make_shared<Level>(std::move(mesh_f));
      VirtLevel virt_f(lvl_f, std::shared_ptr<Control::Domain::DomainLayer>());
      VirtLevel virt_c(lvl_c, std::shared_ptr<Control::Domain::DomainLayer>());
      GateT gate_f, gate_c;
      MuxT muxer;
      auto space_lambda = [](const Level& l) { return &l.space; };
      const String cub = "auto-degree:" + stringify(2 * degree + 2);
      auto assemble = [&](GT& gt, bool tr) {
        if constexpr (bs_ == 0) Control::Asm::asm_transfer_scalar(virt_f, virt_c, cub, tr, shrink, space_lambda, gt.local(), muxer, gate_f, gate_c);
        else Control::Asm::asm_transfer_blocked(virt_f, virt_c, cub, tr, shrink, space_lambda, gt.local(), muxer, gate_f, gate_c);
        gt.compile();
      };
      const SpaceType& sf = lvl_f->space; const SpaceType& sc = lvl_c->space;

      GT gt(&muxer);
      assemble(gt, trunc);
      judge(c, key, "first assembly", gt, unwrap, sf, sc, degree, cub, trunc, shrink, true);
      if(shrink) return; // re-assembly into a shrunk layout is not defined

      // the mesh is updated, the SAME object is assembled again
      move_meshes(*lvl_c, *lvl_f, nonaffine_move);
      assemble(gt, trunc);
      judge(c, key, "re-assembly after a mesh update", gt, unwrap, sf, sc, degree, cub, trunc, shrink, false);
      { GT fresh(&muxer); assemble(fresh, trunc); compare(c, key, "after a mesh update", gt, fresh, unwrap, trunc);
        // and a third time with unchanged meshes: idempotent
        assemble(gt, trunc); compare(c, key, "third assembly, meshes unchanged", gt, fresh, unwrap, trunc); }
      // switch the truncation on (resp. assemble it once more) on the existing object
      assemble(gt, true);
      { GT fresh(&muxer); assemble(fresh, true); compare(c, key, trunc ? "fourth assembly" : "re-assembly with the truncation switched on", gt, fresh, unwrap, true); }
      judge(c, key, "last assembly (with truncation)", gt, unwrap, sf, sc, degree, cub, true, shrink, false);
    }
  };

  struct ElemDesc { const char* name; int degree; bool needs_parallelogram; };

  template<typename Mesh_, template<typename> class Element_, int bs_>
  void enumerate(verif::Ctx& c, const ElemDesc& E, bool hypercube)
  {
    typedef Sources<Mesh_> Src;
    const int ng = pair_group_size<Mesh_>();
    const int npairs = (Mesh_::shape_dim >= 2) ? 2 * ng - 1 : ng * ng; // (id,g), (g,id); 1D: all
    static const int PS[4] = {0, 1, 2, 7}; static const int PW[4] = {0, 0, 1, 2}; // none, lexi(coarse), colored(fine), random(both)
    for(int src = 0; src < Src::count() + npairs; ++src)
    for(int dist = 0; dist < 2; ++dist)
    for(int ref = 0; ref < 2; ++ref)
    for(int pq = 0; pq < 4; ++pq)
    for(int ts = 0; ts < 4; ++ts) // (trunc, shrink): (1,0) (0,0) (1,1) (0,1)
    {
      const int ps = PS[pq], pw = PW[pq];
      const bool trunc = (ts == 0 || ts == 2), shrink = (ts >= 2);
      const bool is_pair = src >= Src::count();
      int g1 = 0, g2 = 0;
      if(is_pair) { const int q = src - Src::count(); if(Mesh_::shape_dim >= 2) { if(q < ng) g2 = q; else g1 = q - ng + 1; } else { g1 = q / ng; g2 = q % ng; } }
      const std::string sname = is_pair ? (std::string(Src::tag()) + "-pair(g" + std::to_string(g1) + ",g" + std::to_string(g2) + ")") : std::string(Src::name(src));
      const bool multi = is_pair || (ref > 0) || sname.find("orient") == std::string::npos;
      // reduced products
      if(ps > 0 && !multi) continue;
      if(is_pair && !(dist == 0 && ref == 0 && ps == 0 && ts <= 1) && !(c.thorough && ps == 0 && ref == 0)) continue;
      if(is_pair && Mesh_::shape_dim == 3 && E.degree >= 2 && !c.thorough && (g1 + g2) % 3 != 0) continue;
      if(bs_ != 0 && !(ts <= 1 || c.thorough)) continue;
      if(shrink && (dist == 1 || ps > 0) && !c.thorough) continue;
      if(Mesh_::shape_dim == 3 && ref > 0 && (E.degree >= 2 || src == 3) && !c.thorough) continue;
      if(Mesh_::shape_dim == 3 && E.degree >= 3 && (ref > 0 || ps > 0)) continue;
      if(dist == 1 && ps > 0 && !(ps == 7)) continue;
      if(!c.want()) continue;
      const std::string key = std::string(bs_ == 0 ? "scalar " : (bs_ == 2 ? "blocked2 " : "blocked3 ")) + E.name + " " + sname + (dist == 1 ? " distorted" : "") + " ref" + std::to_string(ref)
        + " perm=" + PERM_NAMES[ps] + (ps ? (pw == 0 ? "(coarse)" : pw == 1 ? "(fine)" : "(both)") : "") + (trunc ? " trunc" : " notrunc") + (shrink ? " shrink" : "");
      c.desc([&]{ return key; });
      // parametric discontinuous P_k on hypercubes needs parallelograms: no nonaffine distortion, affine mesh updates only
      const bool para_only = hypercube && E.needs_parallelogram;
      if(dist == 1 && para_only) { c.excluded("parametric discontinuous P_k on non-parallelogram hypercube cells is not nested"); continue; }
      std::unique_ptr<Mesh_> mc = is_pair ? pair_mesh<Mesh_>(g1, g2) : Src::make(src);
      if(dist == 1) distort(*mc);
      for(int r = 0; r < ref; ++r) { Geometry::StandardRefinery<Mesh_> rr(*mc); std::unique_ptr<Mesh_> nx(new Mesh_(rr)); mc = std::move(nx); }
      Geometry::StandardRefinery<Mesh_> rf(*mc);
      Mesh_ mf(rf);
      if(ps > 0)
      {
        if(pw == 0 || pw == 2) mc->create_permutation(PERMS[ps]);
        if(pw == 1 || pw == 2) mf.create_permutation(PERMS[ps]);
      }
      // mesh update: nonaffine (coarse vertices moved, fine mesh re-refined) only for unpermuted pairs of elements that stay nested
      const bool nonaffine = (ps == 0) && !para_only;
      AsmChecker<Mesh_, Element_>::template run<bs_>(c, std::move(*mc), std::move(mf), E.degree, key, trunc, shrink, nonaffine);
      c.nontrivial(verif::Hash().str(key).get());
      c.outcome(std::string(bs_ == 0 ? "scalar" : "blocked") + (trunc ? " trunc" : " notrunc") + (shrink ? " shrink" : ""));
    }
  }
} // namespace

int main(int argc, char** argv)
{
  Runtime::ScopeGuard guard(argc, argv);
  verif::Spec spec; spec.property = "C18"; spec.harness = "c18_asm";
  spec.rule = "case = (asm_transfer_scalar | asm_transfer_blocked<2|3>, element, coarse mesh source incl. orientation pairs, distortion, level pair, "
    "permutation variant, trunc on/off, shrink on/off); per case: first assembly into an empty Global::Transfer, re-assembly of the same object after a mesh "
    "update, a third unchanged assembly, an assembly with the truncation switched on - every state judged by: control route = kernel route bitwise, "
    "geometric exactness of P, R = P^T bitwise, T*P = I, matrix-free = assembled, Global::Transfer prol/rest/trunc on a 7-vector value alphabet, "
    "and re-assembled = freshly assembled bitwise. Every executed case is non-trivial, hashed by its key";
  spec.bounds_quick = "elements Lagrange1-3, Discontinuous P0/P1, Bernstein2 on line/quad/tria/hexa/tetra meshes of c18_transfer (test_aux orientations, tetris/patch/big, unit cubes, "
    "orientation pairs (id,g) and (g,id)); level pairs (M,RM),(RM,RRM) [3D: second pair for degree 1 on small meshes]; permutations none/lexi(coarse)/colored(fine)/random(both); "
    "(trunc,shrink) in {(1,0),(0,0),(1,1),(0,1)} [shrink: undistorted, unpermuted]; blocked bs=2 for Lagrange1/2 on quad/tria and bs=3 for Lagrange1 on hexa";
  spec.bounds_thorough = "as quick plus all orientation pairs distorted, shrink variants for distorted/permuted pairs and for the blocked routine, larger 3D pairs";
  spec.assumptions = {
    "single process: default-constructed Global::Muxer and Global::Gate (no neighbours), VirtualLevel without domain layer; ghost/parent/child branches of the weight synchronisation need MPI (C13)",
    "re-assembly into a shrunk layout is not defined by the code (the layout lost entries): shrink cases are judged on the first assembly only",
    "mesh update: coarse vertices moved by the nonaffine map of c18_transfer and the fine mesh re-refined (unpermuted pairs), else an affine map of both meshes",
    "tolerances as in c18_transfer; route comparisons and re-assembly comparisons are bitwise"};

  static const ElemDesc L1 = {"Lagrange1", 1, false}, L2 = {"Lagrange2", 2, false}, L3 = {"Lagrange3", 3, false},
    D0 = {"Discontinuous-P0", 0, false}, D1 = {"Discontinuous-P1", 1, true}, B2 = {"Bernstein2", 2, false};

  return verif::run(spec, argc, argv, [&](verif::Ctx& c) {
    enumerate<Mesh1D, ElL1, 0>(c, L1, true);
    enumerate<Mesh1D, ElL2, 0>(c, L2, true);
    enumerate<Mesh1D, ElD1, 0>(c, D1, true);
    enumerate<MeshQ, ElL1, 0>(c, L1, true);
    enumerate<MeshQ, ElL2, 0>(c, L2, true);
    enumerate<MeshQ, ElL3, 0>(c, L3, true);
    enumerate<MeshQ, ElD0, 0>(c, D0, true);
    enumerate<MeshQ, ElD1, 0>(c, D1, true);
    enumerate<MeshQ, ElB2, 0>(c, B2, true);
    enumerate<MeshQ, ElL1, 2>(c, L1, true);
    enumerate<MeshQ, ElL2, 2>(c, L2, true);
    enumerate<MeshT, ElL1, 0>(c, L1, false);
    enumerate<MeshT, ElL2, 0>(c, L2, false);
    enumerate<MeshT, ElL3, 0>(c, L3, false);
    enumerate<MeshT, ElD1, 0>(c, D1, false);
    enumerate<MeshT, ElL1, 2>(c, L1, false);
    enumerate<MeshH, ElL1, 0>(c, L1, true);
    enumerate<MeshH, ElL2, 0>(c, L2, true);
    enumerate<MeshH, ElD0, 0>(c, D0, true);
    enumerate<MeshH, ElL1, 3>(c, L1, true);
    enumerate<MeshS, ElL1, 0>(c, L1, false);
    enumerate<MeshS, ElL2, 0>(c, L2, false);
  });
}
