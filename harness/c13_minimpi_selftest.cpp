// c13_minimpi_selftest -- C13, "model bound to its specification": conformance self-test of the in-process MPI
// environment model engine/minimpi against the MPI-3.1 semantics it implements.
//
// case = (test, number of ranks P, send mode, exploration kind). Every case runs the test body on P rank threads
// under vsched; all answer sequences of MPI_Waitany & co. are enumerated (minimpi::Explorer, unlimited deviations);
// cases of kind "threads" additionally enumerate the rank interleavings with one preemption (vsched::Explorer) to
// validate the claim that rank interleaving does not influence rank-visible values.
// Erroneous programs (truncation, collective mismatch, deadlock, foreign request, ...) must abort loudly: those
// cases run forked and require SIGABRT / the scheduler's deadlock exit.
#include <verif.hpp>
#include <kernel/runtime.hpp>
#include <mpi.h>
#include <kernel/util/dist.hpp>
#include <kernel/util/binary_stream.hpp>
#include <mpi_explore.hpp>
#include <explore.hpp>
#include <sched.h>
#include <cstring>
#include <numeric>

namespace
{
  struct Exec
  {
    std::string err;                 // failures of this execution
    std::vector<std::string> obs;    // per rank: observation string (arrival orders etc.)
    std::string finding_key, finding_msg;   // a defect of the code under test (not of the model) with its own stable key
    void fail(int rank, const std::string& m) { if(err.size() < 2000) err += "[rank " + std::to_string(rank) + "] " + m + "; "; }
  };
#define EXPECT(cond, msg) do { if(!(cond)) { std::ostringstream o_; o_ << msg; e.fail(rank, o_.str()); } } while(0)

  typedef std::function<void(int rank, int P, Exec& e)> Body;

  struct Test
  {
    std::string name;
    int pmin, pmax;
    Body body;
    /// expected number of executions (= number of distinct answer sequences) as a function of P; 0 = do not check
    std::function<uint64_t(int)> nexec;
    /// expected number of distinct observation vectors; 0 = do not check
    std::function<uint64_t(int)> nobs;
    bool threads = false;            // also explore rank interleavings
    int only_mode = -1;              // -1 both, 0 eager only, 1 rendezvous only
    bool allow_leftovers = false;
  };

  uint64_t fact(int n) { uint64_t f = 1; for(int i = 2; i <= n; ++i) f *= uint64_t(i); return f; }
  uint64_t one(int) { return 1; }

  // user reduction: non-commutative "append decimal digit": lo*10 + io  (shows the evaluation order)
  void op_digits(void* in, void* io, int* n, MPI_Datatype* dt)
  {
    if(*dt != MPI_LONG_LONG) abort();
    long long* a = static_cast<long long*>(in); long long* b = static_cast<long long*>(io);
    for(int i = 0; i < *n; ++i) b[i] = a[i] * 10 + b[i];
  }
  // user reduction on a derived type of two doubles: complex multiplication
  void op_cmul(void* in, void* io, int* n, MPI_Datatype*)
  {
    double* a = static_cast<double*>(in); double* b = static_cast<double*>(io);
    for(int i = 0; i < *n; ++i) { const double re = a[2*i] * b[2*i] - a[2*i+1] * b[2*i+1], im = a[2*i] * b[2*i+1] + a[2*i+1] * b[2*i]; b[2*i] = re; b[2*i+1] = im; }
  }

  std::vector<Test> make_tests()
  {
    std::vector<Test> T;
    // ------------------------------------------------------------------------------------------
    T.push_back({"p2p non-overtaking, same tag, Isend/Irecv/Waitall", 2, 4, [](int rank, int P, Exec& e)
    {
      if(rank == 0)
      {
        std::vector<int> v(size_t(3 * (P - 1))); std::vector<MPI_Request> rq(v.size());
        for(int d = 1; d < P; ++d) for(int k = 0; k < 3; ++k) { v[size_t(3*(d-1)+k)] = 100 * d + k; MPI_Isend(&v[size_t(3*(d-1)+k)], 1, MPI_INT, d, 7, MPI_COMM_WORLD, &rq[size_t(3*(d-1)+k)]); }
        MPI_Waitall(int(rq.size()), rq.data(), MPI_STATUSES_IGNORE);
        for(auto r : rq) EXPECT(r == MPI_REQUEST_NULL, "request not nulled by Waitall");
      }
      else
      {
        int got[3] = {-1, -1, -1}; MPI_Request rq[3]; MPI_Status st[3];
        for(int k = 0; k < 3; ++k) MPI_Irecv(&got[k], 1, MPI_INT, 0, 7, MPI_COMM_WORLD, &rq[k]);
        MPI_Waitall(3, rq, st);
        for(int k = 0; k < 3; ++k) { EXPECT(got[k] == 100 * rank + k, "message " << k << " overtaken: got " << got[k]); EXPECT(st[k].MPI_SOURCE == 0 && st[k].MPI_TAG == 7, "bad status"); }
      }
    }, one, nullptr, true});
    // ------------------------------------------------------------------------------------------
    T.push_back({"p2p tags select messages; MPI_ANY_TAG takes the oldest; Get_count", 2, 2, [](int rank, int, Exec& e)
    {
      if(rank == 0)
      {
        int a = 5, b = 3; double c[4] = {1, 2, 3, 4}; MPI_Request rq[3];
        MPI_Isend(&a, 1, MPI_INT, 1, 5, MPI_COMM_WORLD, &rq[0]);
        MPI_Isend(&b, 1, MPI_INT, 1, 3, MPI_COMM_WORLD, &rq[1]);
        MPI_Isend(c, 3, MPI_DOUBLE, 1, 9, MPI_COMM_WORLD, &rq[2]);
        MPI_Waitall(3, rq, MPI_STATUSES_IGNORE);
      }
      else
      {
        int x = 0, y = 0; double c[4] = {0, 0, 0, -1}; MPI_Status st;
        MPI_Recv(&x, 1, MPI_INT, 0, 3, MPI_COMM_WORLD, &st);
        EXPECT(x == 3 && st.MPI_TAG == 3, "tag 3 receive got " << x);
        MPI_Recv(&y, 1, MPI_INT, 0, MPI_ANY_TAG, MPI_COMM_WORLD, &st);
        EXPECT(y == 5 && st.MPI_TAG == 5, "ANY_TAG receive got " << y << " tag " << st.MPI_TAG);
        MPI_Recv(c, 4, MPI_DOUBLE, 0, MPI_ANY_TAG, MPI_COMM_WORLD, &st);
        int cnt = -1; MPI_Get_count(&st, MPI_DOUBLE, &cnt);
        EXPECT(cnt == 3 && c[2] == 3.0 && c[3] == -1.0, "short message: count " << cnt);
        MPI_Get_count(&st, MPI_LONG_DOUBLE, &cnt);
        EXPECT(cnt == MPI_UNDEFINED, "Get_count with non-dividing type");
      }
    }, one, nullptr, true});
    // ------------------------------------------------------------------------------------------
    T.push_back({"blocking Send/Recv ring shift (safe ordering)", 2, 4, [](int rank, int P, Exec& e)
    {
      int out = 10 + rank, in = -1;
      const int nx = (rank + 1) % P, pv = (rank + P - 1) % P;
      if(rank % 2 == 0) { MPI_Send(&out, 1, MPI_INT, nx, 1, MPI_COMM_WORLD); MPI_Recv(&in, 1, MPI_INT, pv, 1, MPI_COMM_WORLD, MPI_STATUS_IGNORE); }
      else { MPI_Recv(&in, 1, MPI_INT, pv, 1, MPI_COMM_WORLD, MPI_STATUS_IGNORE); MPI_Send(&out, 1, MPI_INT, nx, 1, MPI_COMM_WORLD); }
      if(P % 2 == 1 && rank == P - 1) { /* rank P-1 and rank 0 both send first: rank 0's receive is posted after its send to rank 1 completes */ }
      EXPECT(in == 10 + pv, "ring value " << in);
    }, one, nullptr, true, -1});
    // ------------------------------------------------------------------------------------------
    T.push_back({"Waitany enumerates all arrival orders", 2, 4, [](int rank, int P, Exec& e)
    {
      if(rank == 0)
      {
        std::vector<int> buf(size_t(P - 1), -1); std::vector<MPI_Request> rq(size_t(P - 1));
        for(int s = 1; s < P; ++s) MPI_Irecv(&buf[size_t(s - 1)], 1, MPI_INT, s, 0, MPI_COMM_WORLD, &rq[size_t(s - 1)]);
        std::string order;
        for(;;)
        {
          int idx = -7; MPI_Status st;
          MPI_Waitany(P - 1, rq.data(), &idx, &st);
          if(idx == MPI_UNDEFINED) break;
          EXPECT(idx >= 0 && idx < P - 1 && rq[size_t(idx)] == MPI_REQUEST_NULL, "bad index " << idx);
          EXPECT(buf[size_t(idx)] == 1000 + idx + 1 && st.MPI_SOURCE == idx + 1, "payload/status of " << idx);
          // receive buffers of requests not yet returned must be untouched
          for(int j = 0; j < P - 1; ++j) if(rq[size_t(j)] != MPI_REQUEST_NULL) EXPECT(buf[size_t(j)] == -1, "buffer " << j << " written before its completion was observed");
          order += char('0' + idx);
        }
        EXPECT(int(order.size()) == P - 1, "Waitany returned " << order.size() << " completions");
        e.obs[0] = order;
      }
      else
      {
        int v = 1000 + rank;
        MPI_Send(&v, 1, MPI_INT, 0, 0, MPI_COMM_WORLD);
      }
    }, [](int P) { return fact(P - 1); }, [](int P) { return fact(P - 1); }, false});
    // ------------------------------------------------------------------------------------------
    T.push_back({"Waitany on two ranks at once: full product of orders", 3, 4, [](int rank, int P, Exec& e)
    {
      // ranks 0 and 1 each receive from all others; everybody sends to 0 and 1
      std::vector<int> sv(2); std::vector<MPI_Request> srq;
      std::vector<int> buf(size_t(P), -1); std::vector<MPI_Request> rq;
      if(rank < 2) for(int s = 0; s < P; ++s) if(s != rank) { rq.push_back(MPI_REQUEST_NULL); MPI_Irecv(&buf[size_t(s)], 1, MPI_INT, s, 2, MPI_COMM_WORLD, &rq.back()); }
      for(int d = 0; d < 2; ++d) if(d != rank) { sv[size_t(d)] = 10 * rank + d; srq.push_back(MPI_REQUEST_NULL); MPI_Isend(&sv[size_t(d)], 1, MPI_INT, d, 2, MPI_COMM_WORLD, &srq.back()); }
      std::string order;
      if(rank < 2) for(;;)
      {
        int idx; MPI_Waitany(int(rq.size()), rq.data(), &idx, MPI_STATUS_IGNORE);
        if(idx == MPI_UNDEFINED) break;
        order += char('0' + idx);
      }
      MPI_Waitall(int(srq.size()), srq.data(), MPI_STATUSES_IGNORE);
      if(rank < 2) for(int s = 0; s < P; ++s) if(s != rank) EXPECT(buf[size_t(s)] == 10 * s + rank, "value from " << s);
      e.obs[size_t(rank)] = order;
    }, [](int P) { return fact(P - 1) * fact(P - 1); }, [](int P) { return fact(P - 1) * fact(P - 1); }, false});
    // ------------------------------------------------------------------------------------------
    T.push_back({"Waitsome / Testany / Testsome / Test / Testall", 2, 3, [](int rank, int P, Exec& e)
    {
      if(rank == 0)
      {
        const int n = P - 1;
        std::vector<int> buf(std::size_t(4) * std::size_t(n), -1); std::vector<MPI_Request> rq(static_cast<std::size_t>(n));
        // round 1: Waitsome
        for(int s = 1; s < P; ++s) MPI_Irecv(&buf[size_t(s - 1)], 1, MPI_INT, s, 1, MPI_COMM_WORLD, &rq[size_t(s - 1)]);
        int seen = 0; std::vector<int> idx(static_cast<std::size_t>(n)); std::vector<MPI_Status> st(static_cast<std::size_t>(n));
        for(;;) { int oc = -1; MPI_Waitsome(n, rq.data(), &oc, idx.data(), st.data()); if(oc == MPI_UNDEFINED) break; EXPECT(oc >= 1 && oc <= n, "outcount " << oc); for(int k = 0; k < oc; ++k) EXPECT(st[size_t(k)].MPI_SOURCE == idx[size_t(k)] + 1, "Waitsome status"); seen += oc; }
        EXPECT(seen == n, "Waitsome completions " << seen);
        // round 2: Testany polling
        for(int s = 1; s < P; ++s) MPI_Irecv(&buf[size_t(n + s - 1)], 1, MPI_INT, s, 2, MPI_COMM_WORLD, &rq[size_t(s - 1)]);
        seen = 0;
        for(int guard = 0; guard < 1000; ++guard) { int i = -1, flag = 0; MPI_Testany(n, rq.data(), &i, &flag, MPI_STATUS_IGNORE); if(flag && i == MPI_UNDEFINED) break; if(flag) ++seen; }
        EXPECT(seen == n, "Testany completions " << seen);
        // round 3: Testsome polling
        for(int s = 1; s < P; ++s) MPI_Irecv(&buf[size_t(2 * n + s - 1)], 1, MPI_INT, s, 3, MPI_COMM_WORLD, &rq[size_t(s - 1)]);
        seen = 0;
        for(int guard = 0; guard < 1000; ++guard) { int oc = 0; MPI_Testsome(n, rq.data(), &oc, idx.data(), MPI_STATUSES_IGNORE); if(oc == MPI_UNDEFINED) break; seen += oc; }
        EXPECT(seen == n, "Testsome completions " << seen);
        // round 4: Test / Testall polling
        for(int s = 1; s < P; ++s) MPI_Irecv(&buf[size_t(3 * n + s - 1)], 1, MPI_INT, s, 4, MPI_COMM_WORLD, &rq[size_t(s - 1)]);
        int flag = 0; for(int guard = 0; guard < 1000 && !flag; ++guard) MPI_Test(&rq[0], &flag, MPI_STATUS_IGNORE);
        EXPECT(flag && rq[0] == MPI_REQUEST_NULL, "Test never succeeded");
        flag = 0; for(int guard = 0; guard < 1000 && !flag; ++guard) MPI_Testall(n, rq.data(), &flag, MPI_STATUSES_IGNORE);
        EXPECT(flag, "Testall never succeeded");
        for(int r = 0; r < 4; ++r) for(int s = 1; s < P; ++s) EXPECT(buf[size_t(r * n + s - 1)] == 100 * (r + 1) + s, "round " << r << " value from " << s);
      }
      else
      {
        for(int r = 1; r <= 4; ++r) { int v = 100 * r + rank; MPI_Send(&v, 1, MPI_INT, 0, r, MPI_COMM_WORLD); }
      }
    }, nullptr, nullptr, false});
    // ------------------------------------------------------------------------------------------
    T.push_back({"null requests, MPI_PROC_NULL, Waitany(all null) = MPI_UNDEFINED", 1, 2, [](int rank, int, Exec& e)
    {
      MPI_Request rq[2] = {MPI_REQUEST_NULL, MPI_REQUEST_NULL}; MPI_Status st; int idx = 0, flag = 0;
      MPI_Wait(&rq[0], &st);
      MPI_Waitall(2, rq, MPI_STATUSES_IGNORE);
      MPI_Waitany(2, rq, &idx, &st); EXPECT(idx == MPI_UNDEFINED, "Waitany all-null index " << idx);
      MPI_Waitany(0, rq, &idx, &st); EXPECT(idx == MPI_UNDEFINED, "Waitany empty index " << idx);
      MPI_Test(&rq[0], &flag, &st); EXPECT(flag == 1, "Test(null) flag");
      MPI_Testany(2, rq, &idx, &flag, &st); EXPECT(flag == 1 && idx == MPI_UNDEFINED, "Testany all-null");
      int v = 3; MPI_Send(&v, 1, MPI_INT, MPI_PROC_NULL, 0, MPI_COMM_WORLD);
      MPI_Recv(&v, 1, MPI_INT, MPI_PROC_NULL, 0, MPI_COMM_WORLD, &st); EXPECT(st.MPI_SOURCE == MPI_PROC_NULL && v == 3, "PROC_NULL receive");
      MPI_Isend(&v, 1, MPI_INT, MPI_PROC_NULL, 0, MPI_COMM_WORLD, &rq[0]); MPI_Wait(&rq[0], MPI_STATUS_IGNORE);
      // self message on MPI_COMM_SELF and on the world
      int w = -1; MPI_Irecv(&w, 1, MPI_INT, 0, 4, MPI_COMM_SELF, &rq[0]); MPI_Isend(&v, 1, MPI_INT, 0, 4, MPI_COMM_SELF, &rq[1]); MPI_Waitall(2, rq, MPI_STATUSES_IGNORE);
      EXPECT(w == 3, "self message");
      int sr = -1, ss = -1; MPI_Comm_rank(MPI_COMM_SELF, &sr); MPI_Comm_size(MPI_COMM_SELF, &ss); EXPECT(sr == 0 && ss == 1, "COMM_SELF rank/size");
    }, one, nullptr, true});
    // ------------------------------------------------------------------------------------------
    {
      Test t{"eager: send buffer may be reused immediately; Send never blocks", 2, 2, [](int rank, int, Exec& e)
      {
        if(rank == 0) { int v = 1; MPI_Request rq; MPI_Isend(&v, 1, MPI_INT, 1, 0, MPI_COMM_WORLD, &rq); v = 2; MPI_Wait(&rq, MPI_STATUS_IGNORE); int u = 8; MPI_Send(&u, 1, MPI_INT, 1, 1, MPI_COMM_WORLD); int in = 0; MPI_Recv(&in, 1, MPI_INT, 1, 1, MPI_COMM_WORLD, MPI_STATUS_IGNORE); EXPECT(in == 9, "exchange"); }
        else { int u = 9; MPI_Send(&u, 1, MPI_INT, 0, 1, MPI_COMM_WORLD); int x = 0, in = 0; MPI_Recv(&in, 1, MPI_INT, 0, 1, MPI_COMM_WORLD, MPI_STATUS_IGNORE); MPI_Recv(&x, 1, MPI_INT, 0, 0, MPI_COMM_WORLD, MPI_STATUS_IGNORE); EXPECT(x == 1 && in == 8, "eager payload " << x); }
      }, one, nullptr, true, 0};
      T.push_back(t);
      Test r{"rendezvous: the send buffer is read as late as MPI allows (premature reuse is visible)", 2, 2, [](int rank, int, Exec& e)
      {
        if(rank == 0) { int v = 1; MPI_Request rq; MPI_Isend(&v, 1, MPI_INT, 1, 0, MPI_COMM_WORLD, &rq); v = 2; MPI_Wait(&rq, MPI_STATUS_IGNORE); v = 3; }
        else { int x = 0; MPI_Recv(&x, 1, MPI_INT, 0, 0, MPI_COMM_WORLD, MPI_STATUS_IGNORE); EXPECT(x == 2, "rendezvous payload " << x << " (expected the value at the completion of the send, 2)"); }
      }, one, nullptr, false, 1};
      T.push_back(r);
      Test s{"rendezvous: Isend completes only after the receive is posted", 2, 2, [](int rank, int, Exec& e)
      {
        if(rank == 0)
        {
          int v = 1, flag = 1; MPI_Request rq; MPI_Isend(&v, 1, MPI_INT, 1, 0, MPI_COMM_WORLD, &rq);
          MPI_Test(&rq, &flag, MPI_STATUS_IGNORE); EXPECT(flag == 0, "send complete before the receive was posted");
          MPI_Barrier(MPI_COMM_WORLD);
          MPI_Wait(&rq, MPI_STATUS_IGNORE);
        }
        else { MPI_Barrier(MPI_COMM_WORLD); int x = 0; MPI_Recv(&x, 1, MPI_INT, 0, 0, MPI_COMM_WORLD, MPI_STATUS_IGNORE); EXPECT(x == 1, "payload"); }
      }, one, nullptr, false, 1};
      T.push_back(s);
    }
    // ------------------------------------------------------------------------------------------
    T.push_back({"receive buffer is written only when completion is observed", 2, 2, [](int rank, int, Exec& e)
    {
      if(rank == 0) { int v = 42; MPI_Request rq; MPI_Isend(&v, 1, MPI_INT, 1, 0, MPI_COMM_WORLD, &rq); MPI_Barrier(MPI_COMM_WORLD); MPI_Wait(&rq, MPI_STATUS_IGNORE); }
      else { int x = -1; MPI_Request rq; MPI_Irecv(&x, 1, MPI_INT, 0, 0, MPI_COMM_WORLD, &rq); MPI_Barrier(MPI_COMM_WORLD); EXPECT(x == -1, "buffer written before Wait"); MPI_Wait(&rq, MPI_STATUS_IGNORE); EXPECT(x == 42, "payload"); }
    }, one, nullptr, true});
    // ------------------------------------------------------------------------------------------
    T.push_back({"Cancel of an unmatched receive; Request_free of a send", 2, 2, [](int rank, int, Exec& e)
    {
      if(rank == 1)
      {
        int x = -1; MPI_Request rq; MPI_Status st; int c = 0;
        MPI_Irecv(&x, 1, MPI_INT, 0, 77, MPI_COMM_WORLD, &rq); MPI_Cancel(&rq); MPI_Wait(&rq, &st); MPI_Test_cancelled(&st, &c);
        EXPECT(c == 1 && x == -1, "cancelled receive");
        MPI_Recv(&x, 1, MPI_INT, 0, 5, MPI_COMM_WORLD, MPI_STATUS_IGNORE); EXPECT(x == 6, "payload after Request_free " << x);
      }
      else { int v = 6; MPI_Request rq; MPI_Isend(&v, 1, MPI_INT, 1, 5, MPI_COMM_WORLD, &rq); MPI_Request_free(&rq); EXPECT(rq == MPI_REQUEST_NULL, "handle after free"); }
    }, one, nullptr, false});
    // ------------------------------------------------------------------------------------------
    T.push_back({"derived contiguous datatype", 2, 2, [](int rank, int, Exec& e)
    {
      MPI_Datatype t3; MPI_Type_contiguous(3, MPI_INT, &t3); MPI_Type_commit(&t3);
      int sz = 0; MPI_Type_size(t3, &sz); EXPECT(sz == int(3 * sizeof(int)), "Type_size " << sz);
      if(rank == 0) { int v[6] = {1, 2, 3, 4, 5, 6}; MPI_Send(v, 2, t3, 1, 0, MPI_COMM_WORLD); }
      else { int v[7] = {0, 0, 0, 0, 0, 0, -1}; MPI_Status st; MPI_Recv(v, 2, t3, 0, 0, MPI_COMM_WORLD, &st); int c = 0; MPI_Get_count(&st, t3, &c); EXPECT(c == 2 && v[5] == 6 && v[6] == -1, "contiguous payload"); }
      MPI_Type_free(&t3); EXPECT(t3 == MPI_DATATYPE_NULL, "Type_free handle");
    }, one, nullptr, false});
    // ------------------------------------------------------------------------------------------
    T.push_back({"Barrier/Bcast/Reduce/Allreduce/Scan/Exscan incl. MPI_IN_PLACE, all roots", 1, 4, [](int rank, int P, Exec& e)
    {
      MPI_Barrier(MPI_COMM_WORLD);
      for(int root = 0; root < P; ++root)
      {
        double b[2] = {rank == root ? 2.5 : -1.0, rank == root ? double(root) : -1.0};
        MPI_Bcast(b, 2, MPI_DOUBLE, root, MPI_COMM_WORLD);
        EXPECT(b[0] == 2.5 && b[1] == double(root), "Bcast root " << root);
        int s[2] = {rank + 1, 10 * (rank + 1)}, r[2] = {-1, -1};
        MPI_Reduce(s, r, 2, MPI_INT, MPI_SUM, root, MPI_COMM_WORLD);
        if(rank == root) EXPECT(r[0] == P * (P + 1) / 2 && r[1] == 10 * P * (P + 1) / 2, "Reduce sum root " << root); else EXPECT(r[0] == -1, "Reduce wrote on non-root");
        int ip[2] = {rank + 1, -(rank + 1)};
        if(rank == root) MPI_Reduce(MPI_IN_PLACE, ip, 2, MPI_INT, MPI_MAX, root, MPI_COMM_WORLD); else MPI_Reduce(ip, nullptr, 2, MPI_INT, MPI_MAX, root, MPI_COMM_WORLD);
        if(rank == root) EXPECT(ip[0] == P && ip[1] == -1, "Reduce IN_PLACE max root " << root);
      }
      double x = 0.25 * (rank + 1), y = -1; MPI_Allreduce(&x, &y, 1, MPI_DOUBLE, MPI_SUM, MPI_COMM_WORLD); EXPECT(y == 0.25 * P * (P + 1) / 2, "Allreduce sum " << y);
      float fm = float(rank) - 1.5f; MPI_Allreduce(MPI_IN_PLACE, &fm, 1, MPI_FLOAT, MPI_MIN, MPI_COMM_WORLD); EXPECT(fm == -1.5f, "Allreduce IN_PLACE min");
      unsigned long long um = 1ull << rank; MPI_Allreduce(MPI_IN_PLACE, &um, 1, MPI_UNSIGNED_LONG_LONG, MPI_BOR, MPI_COMM_WORLD); EXPECT(um == (1ull << P) - 1, "Allreduce BOR");
      long sc = rank + 1, so = -1; MPI_Scan(&sc, &so, 1, MPI_LONG, MPI_SUM, MPI_COMM_WORLD); EXPECT(so == long(rank + 1) * (rank + 2) / 2, "Scan " << so);
      long ex = rank + 1, eo = -5; MPI_Exscan(&ex, &eo, 1, MPI_LONG, MPI_SUM, MPI_COMM_WORLD); if(rank == 0) EXPECT(eo == -5, "Exscan wrote on rank 0"); else EXPECT(eo == long(rank) * (rank + 1) / 2, "Exscan " << eo);
      long si = rank + 1; MPI_Scan(MPI_IN_PLACE, &si, 1, MPI_LONG, MPI_PROD, MPI_COMM_WORLD); EXPECT(si == long(fact(rank + 1)), "Scan IN_PLACE prod " << si);
      // user operations: evaluation in rank order, non-commutative
      MPI_Op od; MPI_Op_create(op_digits, 0, &od);
      long long d = rank + 1, dr = -1; MPI_Allreduce(&d, &dr, 1, MPI_LONG_LONG, od, MPI_COMM_WORLD);
      long long want = 0; for(int i = 1; i <= P; ++i) want = want * 10 + i;
      EXPECT(dr == want, "user op order: " << dr << " instead of " << want);
      long long ds = rank + 1; MPI_Scan(MPI_IN_PLACE, &ds, 1, MPI_LONG_LONG, od, MPI_COMM_WORLD);
      want = 0; for(int i = 1; i <= rank + 1; ++i) want = want * 10 + i;
      EXPECT(ds == want, "user op scan: " << ds);
      MPI_Op_free(&od); EXPECT(od == MPI_OP_NULL, "Op_free handle");
      MPI_Datatype tc; MPI_Type_contiguous(2, MPI_DOUBLE, &tc); MPI_Type_commit(&tc);
      MPI_Op oc; MPI_Op_create(op_cmul, 1, &oc);
      double z[2] = {0.0, 2.0}, zr[2] = {0, 0};   // (2i)^P
      MPI_Reduce(z, zr, 1, tc, oc, P - 1, MPI_COMM_WORLD);
      const double pw = double(1 << P);
      if(rank == P - 1) { const double re[4] = {pw, 0, -pw, 0}, im[4] = {0, pw, 0, -pw}; EXPECT(zr[0] == re[P % 4] && zr[1] == im[P % 4], "user op on derived type: " << zr[0] << "," << zr[1]); }
      MPI_Op_free(&oc); MPI_Type_free(&tc);
    }, one, nullptr, false});
    // ------------------------------------------------------------------------------------------
    T.push_back({"Gather/Scatter/Allgather(v)/Alltoall(v) incl. MPI_IN_PLACE, all roots", 1, 4, [](int rank, int P, Exec& e)
    {
      const size_t n = size_t(P);
      for(int root = 0; root < P; ++root)
      {
        int s[2] = {100 * rank, 100 * rank + 1}; std::vector<int> g(2 * n + 1, -1);
        MPI_Gather(s, 2, MPI_INT, g.data(), 2, MPI_INT, root, MPI_COMM_WORLD);
        if(rank == root) { for(int r = 0; r < P; ++r) EXPECT(g[size_t(2 * r)] == 100 * r && g[size_t(2 * r + 1)] == 100 * r + 1, "Gather slot " << r); EXPECT(g[2 * n] == -1, "Gather overrun"); }
        else EXPECT(g[0] == -1, "Gather wrote on non-root");
        if(rank == root) { std::vector<int> gi(2 * n, -1); gi[size_t(2 * rank)] = 100 * rank; gi[size_t(2 * rank + 1)] = 100 * rank + 1; MPI_Gather(MPI_IN_PLACE, 0, MPI_INT, gi.data(), 2, MPI_INT, root, MPI_COMM_WORLD); for(int r = 0; r < P; ++r) EXPECT(gi[size_t(2 * r)] == 100 * r, "Gather IN_PLACE slot " << r); }
        else MPI_Gather(s, 2, MPI_INT, nullptr, 0, MPI_INT, root, MPI_COMM_WORLD);
        std::vector<double> sc(n); for(int r = 0; r < P; ++r) sc[size_t(r)] = 0.5 * r + root;
        double mine = -1; MPI_Scatter(rank == root ? sc.data() : nullptr, 1, MPI_DOUBLE, &mine, 1, MPI_DOUBLE, root, MPI_COMM_WORLD); EXPECT(mine == 0.5 * rank + root, "Scatter value " << mine);
        if(rank == root) MPI_Scatter(sc.data(), 1, MPI_DOUBLE, MPI_IN_PLACE, 0, MPI_DOUBLE, root, MPI_COMM_WORLD);
        else { mine = -1; MPI_Scatter(nullptr, 0, MPI_DOUBLE, &mine, 1, MPI_DOUBLE, root, MPI_COMM_WORLD); EXPECT(mine == 0.5 * rank + root, "Scatter (root IN_PLACE) value"); }
      }
      short a = short(7 * rank); std::vector<short> ag(n + 1, -1);
      MPI_Allgather(&a, 1, MPI_SHORT, ag.data(), 1, MPI_SHORT, MPI_COMM_WORLD);
      for(int r = 0; r < P; ++r) EXPECT(ag[size_t(r)] == 7 * r, "Allgather slot " << r); EXPECT(ag[n] == -1, "Allgather overrun");
      std::vector<short> ai(n, -1); ai[size_t(rank)] = short(3 * rank); MPI_Allgather(MPI_IN_PLACE, 0, MPI_SHORT, ai.data(), 1, MPI_SHORT, MPI_COMM_WORLD);
      for(int r = 0; r < P; ++r) EXPECT(ai[size_t(r)] == 3 * r, "Allgather IN_PLACE slot " << r);
      // Allgatherv: rank r contributes r+1 entries, stored in reverse rank order
      std::vector<int> cnt(n), dsp(n); int tot = 0; for(int r = P - 1; r >= 0; --r) { cnt[size_t(r)] = r + 1; dsp[size_t(r)] = tot; tot += r + 1; }
      std::vector<int> mv(size_t(rank + 1), 1000 + rank), av(size_t(tot), -1);
      MPI_Allgatherv(mv.data(), rank + 1, MPI_INT, av.data(), cnt.data(), dsp.data(), MPI_INT, MPI_COMM_WORLD);
      for(int r = 0; r < P; ++r) for(int k = 0; k <= r; ++k) EXPECT(av[size_t(dsp[size_t(r)] + k)] == 1000 + r, "Allgatherv block " << r);
      std::vector<int> avi(size_t(tot), -1); for(int k = 0; k <= rank; ++k) avi[size_t(dsp[size_t(rank)] + k)] = 2000 + rank;
      MPI_Allgatherv(MPI_IN_PLACE, 0, MPI_INT, avi.data(), cnt.data(), dsp.data(), MPI_INT, MPI_COMM_WORLD);
      for(int r = 0; r < P; ++r) for(int k = 0; k <= r; ++k) EXPECT(avi[size_t(dsp[size_t(r)] + k)] == 2000 + r, "Allgatherv IN_PLACE block " << r);
      // Alltoall
      std::vector<int> ts(n), tr(n, -1); for(int r = 0; r < P; ++r) ts[size_t(r)] = 10 * rank + r;
      MPI_Alltoall(ts.data(), 1, MPI_INT, tr.data(), 1, MPI_INT, MPI_COMM_WORLD);
      for(int r = 0; r < P; ++r) EXPECT(tr[size_t(r)] == 10 * r + rank, "Alltoall from " << r);
      MPI_Alltoall(MPI_IN_PLACE, 0, MPI_INT, ts.data(), 1, MPI_INT, MPI_COMM_WORLD);
      for(int r = 0; r < P; ++r) EXPECT(ts[size_t(r)] == 10 * r + rank, "Alltoall IN_PLACE from " << r);
      // Alltoallv: rank s sends (s+d)%3 entries to d
      std::vector<int> scn(n), sds(n), rcn(n), rds(n); int st = 0, rt = 0;
      for(int d = 0; d < P; ++d) { scn[size_t(d)] = (rank + d) % 3; sds[size_t(d)] = st; st += scn[size_t(d)]; rcn[size_t(d)] = (d + rank) % 3; rds[size_t(d)] = rt; rt += rcn[size_t(d)]; }
      std::vector<int> vs(size_t(st) + 1), vr(size_t(rt) + 1, -1);
      for(int d = 0; d < P; ++d) for(int k = 0; k < scn[size_t(d)]; ++k) vs[size_t(sds[size_t(d)] + k)] = 100 * rank + 10 * d + k;
      MPI_Alltoallv(vs.data(), scn.data(), sds.data(), MPI_INT, vr.data(), rcn.data(), rds.data(), MPI_INT, MPI_COMM_WORLD);
      for(int s = 0; s < P; ++s) for(int k = 0; k < rcn[size_t(s)]; ++k) EXPECT(vr[size_t(rds[size_t(s)] + k)] == 100 * s + 10 * rank + k, "Alltoallv from " << s);
    }, one, nullptr, false});
    // ------------------------------------------------------------------------------------------
    T.push_back({"non-blocking collectives complete through Wait/Waitall; results appear at completion", 1, 4, [](int rank, int P, Exec& e)
    {
      const size_t n = size_t(P);
      MPI_Request rq[8];
      double x = 0.5 * (rank + 1), y = -1; MPI_Iallreduce(&x, &y, 1, MPI_DOUBLE, MPI_SUM, MPI_COMM_WORLD, &rq[0]);
      int b = (rank == P - 1) ? 77 : -1; MPI_Ibcast(&b, 1, MPI_INT, P - 1, MPI_COMM_WORLD, &rq[1]);
      int gs = rank; std::vector<int> gr(n, -1); MPI_Igather(&gs, 1, MPI_INT, gr.data(), 1, MPI_INT, 0, MPI_COMM_WORLD, &rq[2]);
      std::vector<int> ss(n); std::iota(ss.begin(), ss.end(), 50); int sr = -1; MPI_Iscatter(ss.data(), 1, MPI_INT, &sr, 1, MPI_INT, 0, MPI_COMM_WORLD, &rq[3]);
      std::vector<int> ag(n, -1); MPI_Iallgather(&gs, 1, MPI_INT, ag.data(), 1, MPI_INT, MPI_COMM_WORLD, &rq[4]);
      std::vector<int> ts(n), tr(n, -1); for(int r = 0; r < P; ++r) ts[size_t(r)] = 10 * rank + r; MPI_Ialltoall(ts.data(), 1, MPI_INT, tr.data(), 1, MPI_INT, MPI_COMM_WORLD, &rq[5]);
      int rs = rank + 1, rr = -1; MPI_Ireduce(&rs, &rr, 1, MPI_INT, MPI_SUM, 0, MPI_COMM_WORLD, &rq[6]);
      MPI_Ibarrier(MPI_COMM_WORLD, &rq[7]);
      if(P > 1) EXPECT(y == -1 && (rank == P - 1 || b == -1), "result visible before completion");
      MPI_Wait(&rq[0], MPI_STATUS_IGNORE); EXPECT(y == 0.5 * P * (P + 1) / 2, "Iallreduce " << y);
      MPI_Waitall(7, rq + 1, MPI_STATUSES_IGNORE);
      EXPECT(b == 77, "Ibcast"); EXPECT(sr == 50 + rank, "Iscatter");
      for(int r = 0; r < P; ++r) { if(rank == 0) EXPECT(gr[size_t(r)] == r, "Igather"); EXPECT(ag[size_t(r)] == r, "Iallgather"); EXPECT(tr[size_t(r)] == 10 * r + rank, "Ialltoall"); }
      if(rank == 0) EXPECT(rr == P * (P + 1) / 2, "Ireduce");
      long sc = rank + 1, so = -1, eo = -5; MPI_Iscan(&sc, &so, 1, MPI_LONG, MPI_SUM, MPI_COMM_WORLD, &rq[0]); MPI_Iexscan(&sc, &eo, 1, MPI_LONG, MPI_SUM, MPI_COMM_WORLD, &rq[1]); MPI_Waitall(2, rq, MPI_STATUSES_IGNORE);
      EXPECT(so == long(rank + 1) * (rank + 2) / 2, "Iscan"); if(rank > 0) EXPECT(eo == long(rank) * (rank + 1) / 2, "Iexscan");
    }, one, nullptr, false});
    // ------------------------------------------------------------------------------------------
    T.push_back({"Comm_dup/split/create: contexts are separate, ranks follow (key, old rank), non-members get MPI_COMM_NULL", 1, 4, [](int rank, int P, Exec& e)
    {
      MPI_Comm dup; MPI_Comm_dup(MPI_COMM_WORLD, &dup);
      int dr = -1, ds = -1; MPI_Comm_rank(dup, &dr); MPI_Comm_size(dup, &ds); EXPECT(dr == rank && ds == P, "dup rank/size");
      if(P >= 2)
      {
        // same (source, dest, tag) on two communicators: messages must not cross
        if(rank == 0) { int a = 1, b = 2; MPI_Request rq[2]; MPI_Isend(&a, 1, MPI_INT, 1, 0, MPI_COMM_WORLD, &rq[0]); MPI_Isend(&b, 1, MPI_INT, 1, 0, dup, &rq[1]); MPI_Waitall(2, rq, MPI_STATUSES_IGNORE); }
        if(rank == 1) { int a = 0, b = 0; MPI_Recv(&b, 1, MPI_INT, 0, 0, dup, MPI_STATUS_IGNORE); MPI_Recv(&a, 1, MPI_INT, 0, 0, MPI_COMM_WORLD, MPI_STATUS_IGNORE); EXPECT(a == 1 && b == 2, "messages crossed communicators: " << a << "," << b); }
      }
      // split by parity, reversed order
      MPI_Comm sp; MPI_Comm_split(dup, rank % 2, -rank, &sp);
      int sr = -1, ss = -1; MPI_Comm_rank(sp, &sr); MPI_Comm_size(sp, &ss);
      const int members = (P + 1 - (rank % 2)) / 2;
      int higher = 0; for(int r = rank + 2; r < P; r += 2) ++higher;
      EXPECT(ss == members && sr == higher, "split rank " << sr << " size " << ss);
      int sum = rank; MPI_Allreduce(MPI_IN_PLACE, &sum, 1, MPI_INT, MPI_SUM, sp); int want = 0; for(int r = rank % 2; r < P; r += 2) want += r; EXPECT(sum == want, "Allreduce on split comm " << sum);
      MPI_Comm_free(&sp); EXPECT(sp == MPI_COMM_NULL, "Comm_free handle");
      // split with MPI_UNDEFINED
      MPI_Comm su; MPI_Comm_split(MPI_COMM_WORLD, rank == 0 ? MPI_UNDEFINED : 1, 0, &su);
      if(rank == 0) EXPECT(su == MPI_COMM_NULL, "split UNDEFINED"); else { int z = -1; MPI_Comm_size(su, &z); EXPECT(z == P - 1, "split rest size"); MPI_Comm_free(&su); }
      // create from a strided range
      MPI_Group wg, sg; MPI_Comm_group(dup, &wg);
      int ranges[1][3] = {{0, P - 1, 2}}; MPI_Group_range_incl(wg, 1, ranges, &sg);
      int gsz = -1, grk = -1; MPI_Group_size(sg, &gsz); MPI_Group_rank(sg, &grk); EXPECT(gsz == (P + 1) / 2 && grk == (rank % 2 == 0 ? rank / 2 : MPI_UNDEFINED), "group size/rank");
      MPI_Comm cc; MPI_Comm_create(dup, sg, &cc);
      if(rank % 2 == 1) EXPECT(cc == MPI_COMM_NULL, "create on a non-member");
      else { int cr = -1; MPI_Comm_rank(cc, &cr); EXPECT(cr == rank / 2, "create rank"); int v = rank; MPI_Bcast(&v, 1, MPI_INT, 0, cc); EXPECT(v == 0, "Bcast on created comm"); MPI_Comm_free(&cc); }
      int incl[1] = {P - 1}; MPI_Group ig; MPI_Group_incl(wg, 1, incl, &ig); MPI_Comm ic; MPI_Comm_create(dup, ig, &ic);
      if(rank == P - 1) { int z = -1; MPI_Comm_size(ic, &z); EXPECT(z == 1, "incl comm size"); MPI_Comm_free(&ic); } else EXPECT(ic == MPI_COMM_NULL, "incl on non-member");
      MPI_Group_free(&ig); MPI_Group_free(&sg); MPI_Group_free(&wg); EXPECT(wg == MPI_GROUP_NULL, "Group_free handle");
      MPI_Comm_free(&dup);
    }, one, nullptr, false});
    // ------------------------------------------------------------------------------------------
    T.push_back({"MPI_File_*: ordered collective access is rank ordered; shared pointer; set_size", 1, 4, [](int rank, int P, Exec& e)
    {
      char name[128]; snprintf(name, sizeof name, "/verif/build/scratch/c13_minimpi_selftest/f.%d.%d.bin", int(getpid()), P);
      MPI_File fh = MPI_FILE_NULL; MPI_Status st;
      const int rc = MPI_File_open(MPI_COMM_WORLD, name, MPI_MODE_WRONLY | MPI_MODE_CREATE, MPI_INFO_NULL, &fh);
      EXPECT(rc == MPI_SUCCESS && fh != MPI_FILE_NULL, "File_open for writing failed");
      if(fh == MPI_FILE_NULL) return;
      MPI_File_set_size(fh, 0);
      if(rank == 0) { const char hdr[4] = {'H', 'D', 'R', '!'}; MPI_File_write_shared(fh, hdr, 4, MPI_BYTE, &st); }
      std::vector<int> mine(size_t(rank + 1), 1000 + rank);
      MPI_File_write_ordered(fh, mine.data(), rank + 1, MPI_INT, &st);
      int wc = -1; MPI_Get_count(&st, MPI_INT, &wc); EXPECT(wc == rank + 1, "write count");
      MPI_File_close(&fh); EXPECT(fh == MPI_FILE_NULL, "File_close handle");
      MPI_File_open(MPI_COMM_WORLD, name, MPI_MODE_RDONLY, MPI_INFO_NULL, &fh);
      MPI_Offset sz = -1; MPI_File_get_size(fh, &sz); EXPECT(sz == MPI_Offset(4 + sizeof(int) * size_t(P * (P + 1) / 2)), "file size " << sz);
      char hdr[4] = {0, 0, 0, 0};
      if(rank == 0) { MPI_File_read_shared(fh, hdr, 4, MPI_BYTE, &st); EXPECT(hdr[0] == 'H' && hdr[3] == '!', "header"); }
      MPI_Barrier(MPI_COMM_WORLD);
      // read back with the mirrored distribution: rank r reads P-r entries
      std::vector<int> in(size_t(P - rank) + 1, -1);
      MPI_File_read_ordered(fh, in.data(), P - rank, MPI_INT, &st);
      int rcnt = -1; MPI_Get_count(&st, MPI_INT, &rcnt); EXPECT(rcnt == P - rank, "read count " << rcnt);
      std::vector<int> all; for(int r = 0; r < P; ++r) for(int k = 0; k <= r; ++k) all.push_back(1000 + r);
      size_t off = 0; for(int r = 0; r < rank; ++r) off += size_t(P - r);
      for(int k = 0; k < P - rank; ++k) EXPECT(in[size_t(k)] == all[off + size_t(k)], "read_ordered entry " << k);
      EXPECT(in[size_t(P - rank)] == -1, "read overrun");
      // reading past the end returns a short count
      int extra[2] = {-1, -1}; MPI_File_read_ordered(fh, extra, 2, MPI_INT, &st); MPI_Get_count(&st, MPI_INT, &rcnt); EXPECT(rcnt == 0, "read past EOF count " << rcnt);
      MPI_File_close(&fh);
      MPI_File nf = MPI_FILE_NULL; const int rc2 = MPI_File_open(MPI_COMM_WORLD, "/verif/build/scratch/c13_minimpi_selftest/does/not/exist", MPI_MODE_RDONLY, MPI_INFO_NULL, &nf);
      EXPECT(rc2 != MPI_SUCCESS && nf == MPI_FILE_NULL, "opening a missing file must fail softly");
      MPI_Barrier(MPI_COMM_WORLD);
      if(rank == 0) unlink(name);
    }, one, nullptr, false});
    // ------------------------------------------------------------------------------------------
    T.push_back({"zero-size messages and zero-count collectives (null buffers); counts 0 and 1", 1, 4, [](int rank, int P, Exec& e)
    {
      const int nx = (rank + 1) % P, pv = (rank + P - 1) % P;
      MPI_Request rq[4]; MPI_Status st[4];
      double one = 1.5 + rank, got = -1;
      MPI_Irecv(nullptr, 0, MPI_DOUBLE, pv, 3, MPI_COMM_WORLD, &rq[0]);
      MPI_Irecv(&got, 1, MPI_DOUBLE, pv, 4, MPI_COMM_WORLD, &rq[1]);
      MPI_Isend(nullptr, 0, MPI_DOUBLE, nx, 3, MPI_COMM_WORLD, &rq[2]);
      MPI_Isend(&one, 1, MPI_DOUBLE, nx, 4, MPI_COMM_WORLD, &rq[3]);
      MPI_Waitall(4, rq, st);
      int c0 = -1, c1 = -1; MPI_Get_count(&st[0], MPI_DOUBLE, &c0); MPI_Get_count(&st[1], MPI_DOUBLE, &c1);
      EXPECT(c0 == 0 && c1 == 1 && got == 1.5 + pv && st[0].MPI_SOURCE == pv && st[0].MPI_TAG == 3, "zero-size message: counts " << c0 << "," << c1);
      MPI_Bcast(nullptr, 0, MPI_INT, P - 1, MPI_COMM_WORLD);
      MPI_Allreduce(MPI_IN_PLACE, nullptr, 0, MPI_DOUBLE, MPI_SUM, MPI_COMM_WORLD);
      int dummy = 7; MPI_Allreduce(MPI_IN_PLACE, &dummy, 0, MPI_INT, MPI_MAX, MPI_COMM_WORLD); EXPECT(dummy == 7, "zero-count Allreduce touched the buffer");
      MPI_Gather(nullptr, 0, MPI_INT, nullptr, 0, MPI_INT, 0, MPI_COMM_WORLD);
      std::vector<int> cnt(static_cast<size_t>(P), 0), dsp(static_cast<size_t>(P), 0);
      cnt[0] = 1; int mine = 40 + rank, all = -1;
      MPI_Allgatherv(&mine, rank == 0 ? 1 : 0, MPI_INT, &all, cnt.data(), dsp.data(), MPI_INT, MPI_COMM_WORLD); EXPECT(all == 40, "Allgatherv with empty contributions " << all);
      MPI_Alltoall(nullptr, 0, MPI_INT, nullptr, 0, MPI_INT, MPI_COMM_WORLD);
    }, one, nullptr, true});
    // ------------------------------------------------------------------------------------------
    T.push_back({"one Waitany array mixing receive, send and collective requests; requests given in descending source order", 2, 4, [](int rank, int P, Exec& e)
    {
      if(rank == 0)
      {
        std::vector<int> buf(static_cast<size_t>(P), -1); std::vector<MPI_Request> rq;
        for(int s = P - 1; s >= 1; --s) { rq.push_back(MPI_REQUEST_NULL); MPI_Irecv(&buf[size_t(s)], 1, MPI_INT, s, 0, MPI_COMM_WORLD, &rq.back()); }
        int sum = 1, out = -1; rq.push_back(MPI_REQUEST_NULL); MPI_Iallreduce(&sum, &out, 1, MPI_INT, MPI_SUM, MPI_COMM_WORLD, &rq.back());
        int tok = 5; rq.push_back(MPI_REQUEST_NULL); MPI_Isend(&tok, 1, MPI_INT, 1, 9, MPI_COMM_WORLD, &rq.back());
        std::string order;
        for(;;) { int idx; MPI_Waitany(int(rq.size()), rq.data(), &idx, MPI_STATUS_IGNORE); if(idx == MPI_UNDEFINED) break; order += char('a' + idx); }
        EXPECT(order.size() == rq.size(), "completions " << order);
        EXPECT(out == P, "Iallreduce through Waitany " << out);
        for(int s = 1; s < P; ++s) EXPECT(buf[size_t(s)] == 70 + s, "value from " << s);
        e.obs[0] = order;
      }
      else
      {
        int sum = 1, out = -1, v = 70 + rank; MPI_Request rq[2];
        MPI_Iallreduce(&sum, &out, 1, MPI_INT, MPI_SUM, MPI_COMM_WORLD, &rq[0]);
        MPI_Isend(&v, 1, MPI_INT, 0, 0, MPI_COMM_WORLD, &rq[1]);
        if(rank == 1) { int tok = 0; MPI_Recv(&tok, 1, MPI_INT, 0, 9, MPI_COMM_WORLD, MPI_STATUS_IGNORE); EXPECT(tok == 5, "token"); }
        MPI_Waitall(2, rq, MPI_STATUSES_IGNORE);
        EXPECT(out == P, "Iallreduce " << out);
      }
    }, [](int P) { return fact(P + 1); }, [](int P) { return fact(P + 1); }, false});
    // ------------------------------------------------------------------------------------------
    T.push_back({"FEAT::Dist wrappers (kernel/util/dist.cpp): every Comm / Request / RequestVector function incl. the in-place decisions", 1, 4, [](int rank, int P, Exec& e)
    {
      using namespace FEAT;
      const size_t n = size_t(P);
      Dist::Comm comm = Dist::Comm::world();
      EXPECT(comm.is_world() && !comm.is_self() && !comm.is_null() && comm.rank() == rank && comm.size() == P, "world properties");
      { Dist::Comm s = Dist::Comm::self(); EXPECT(s.is_self() && s.size() == 1 && s.rank() == 0, "self properties"); Dist::Comm z = Dist::Comm::null(); EXPECT(z.is_null(), "null properties"); }
      comm.barrier();
      { Dist::Request rq = comm.ibarrier(); rq.wait(); EXPECT(rq.is_null(), "ibarrier request after wait"); }
      // communicator construction
      { Dist::Comm d = comm.comm_dup(); EXPECT(d.is_world(), "comm_dup of the world returns the world");
        Dist::Comm sp = comm.comm_split(rank % 2, P - rank); int members = (P + 1 - (rank % 2)) / 2; EXPECT(sp.size() == members, "comm_split size " << sp.size());
        Dist::Comm sd = sp.comm_dup(); EXPECT(sd.size() == members && !sd.is_world(), "dup of a split comm");
        int sum = rank; sd.allreduce(&sum, &sum, std::size_t(1), Dist::op_sum); int want = 0; for(int r = rank % 2; r < P; r += 2) want += r; EXPECT(sum == want, "allreduce (in place) on a split comm " << sum);
        std::vector<int> rk; for(int r = P - 1; r >= 0; r -= 2) rk.push_back(r);
        Dist::Comm ci = comm.comm_create_incl(int(rk.size()), rk.data());
        bool member = false; for(size_t k = 0; k < rk.size(); ++k) if(rk[k] == rank) { member = true; EXPECT(ci.rank() == int(k) && ci.size() == int(rk.size()), "comm_create_incl rank " << ci.rank()); }
        if(!member) EXPECT(ci.is_null(), "comm_create_incl on a non-member");
        Dist::Comm cr = comm.comm_create_range_incl((P + 1) / 2, 0, 2);
        if(rank % 2 == 0) EXPECT(cr.rank() == rank / 2, "comm_create_range_incl rank"); else EXPECT(cr.is_null(), "comm_create_range_incl on a non-member"); }
      // point to point, requests
      if(P >= 2)
      {
        const int nx = (rank + 1) % P, pv = (rank + P - 1) % P;
        double out = 1.5 * rank, in = -1;
        Dist::Request rr = comm.irecv(&in, std::size_t(1), pv, 3);
        Dist::Request rs = comm.isend(&out, std::size_t(1), nx, 3);
        Dist::Status st; int guard = 0; while(!rr.test(st) && guard++ < 1000) {}
        EXPECT(in == 1.5 * pv && st.source() == pv && st.tag() == 3 && st.get_count(Dist::dt_double) == 1u, "isend/irecv/test " << in);
        rs.wait();
        Dist::Request rc = comm.irecv(&in, std::size_t(1), pv, 99); rc.cancel(); rc.wait(); EXPECT(rc.is_null(), "cancelled request");
        Dist::Request rf = comm.isend(&out, std::size_t(1), nx, 4); rf.free(); EXPECT(rf.is_null(), "freed request"); comm.recv(&in, std::size_t(1), pv, 4);
        Dist::RequestVector rv(2); long lo = 10 + rank, li = -1;
        rv.get_request(0) = comm.irecv(&li, std::size_t(1), pv, 5); rv.get_request(1) = comm.isend(&lo, std::size_t(1), nx, 5);
        guard = 0; while(!rv.test_all() && guard++ < 1000) {} EXPECT(li == 10 + pv, "test_all " << li);
        Dist::RequestVector rw(2); rw.get_request(0) = comm.irecv(&li, std::size_t(1), pv, 6); rw.get_request(1) = comm.isend(&lo, std::size_t(1), nx, 6);
        int done = 0; guard = 0; std::size_t idx = 99; Dist::Status s2; while(done < 2 && guard++ < 1000) { if(rw.test_any(idx, s2)) ++done; } EXPECT(done == 2 && li == 10 + pv, "test_any " << done);
        if(rank % 2 == 0) { char msg[4] = {'a', 'b', char('0' + rank), 0}; comm.send(msg, std::size_t(4), nx, 7); char got[4]; Dist::Status s3; comm.recv(got, std::size_t(4), pv, 7, s3); EXPECT(got[2] == char('0' + pv) && s3.get_size() == 4u, "send/recv"); }
        else { char got[4]; comm.recv(got, std::size_t(4), pv, 7); char msg[4] = {'a', 'b', char('0' + rank), 0}; comm.send(msg, std::size_t(4), nx, 7); EXPECT(got[2] == char('0' + pv), "recv/send"); }
        if(P % 2 == 1 && P > 1) { /* odd ring: ranks P-1 and 0 both send first; legal only if sends are buffered -> skipped above for the last rank by ordering */ }
      }
      // collectives through the wrappers
      for(int root = 0; root < P; ++root)
      {
        int b = (rank == root) ? 50 + root : -1; comm.bcast(&b, std::size_t(1), root); EXPECT(b == 50 + root, "bcast");
        int ib = (rank == root) ? 60 + root : -1; { Dist::Request rq = comm.ibcast(&ib, std::size_t(1), root); rq.wait(); } EXPECT(ib == 60 + root, "ibcast");
        std::vector<int> g(n, -1); int mine = 7 * rank; comm.gather(&mine, std::size_t(1), g.data(), std::size_t(1), root); if(rank == root) for(int r = 0; r < P; ++r) EXPECT(g[size_t(r)] == 7 * r, "gather slot " << r);
        std::vector<int> gi(n, -1); { Dist::Request rq = comm.igather(&mine, std::size_t(1), gi.data(), std::size_t(1), root); rq.wait(); } if(rank == root) for(int r = 0; r < P; ++r) EXPECT(gi[size_t(r)] == 7 * r, "igather slot " << r);
        // gather with sendbuf == recvbuf on the root: the wrapper switches to MPI_IN_PLACE, i.e. the root's data is expected in ITS slot
        std::vector<int> gp(n, -1); gp[size_t(rank == root ? root : 0)] = 9 * rank; comm.gather(rank == root ? gp.data() : &gp[0], std::size_t(1), gp.data(), std::size_t(1), root);
        if(rank == root && root == 0) for(int r = 0; r < P; ++r) EXPECT(gp[size_t(r)] == 9 * r, "gather (aliased buffers, root 0) slot " << r);
        std::vector<double> sc(n); for(int r = 0; r < P; ++r) sc[size_t(r)] = 0.5 * r + root; double piece = -1;
        comm.scatter(sc.data(), std::size_t(1), &piece, std::size_t(1), root); EXPECT(piece == 0.5 * rank + root, "scatter");
        piece = -1; { Dist::Request rq = comm.iscatter(sc.data(), std::size_t(1), &piece, std::size_t(1), root); rq.wait(); } EXPECT(piece == 0.5 * rank + root, "iscatter");
        int rs = rank + 1, rr = -1; comm.reduce(&rs, &rr, std::size_t(1), Dist::op_sum, root); if(rank == root) EXPECT(rr == P * (P + 1) / 2, "reduce");
        int ri = rank + 1; comm.reduce(&ri, &ri, std::size_t(1), Dist::op_max, root); if(rank == root) EXPECT(ri == P, "reduce (aliased buffers) " << ri);
        rr = -1; { Dist::Request rq = comm.ireduce(&rs, &rr, std::size_t(1), Dist::op_min, root); rq.wait(); } if(rank == root) EXPECT(rr == 1, "ireduce");
      }
      { short a = short(3 * rank); std::vector<short> ag(n, -1); comm.allgather(&a, std::size_t(1), ag.data(), std::size_t(1)); for(int r = 0; r < P; ++r) EXPECT(ag[size_t(r)] == 3 * r, "allgather");
        std::vector<short> ai(n, -1); ai[size_t(rank)] = short(5 * rank); comm.allgather(ai.data(), std::size_t(1), ai.data(), std::size_t(1)); for(int r = 0; r < P; ++r) EXPECT(ai[size_t(r)] == 5 * r, "allgather (aliased buffers)");
        std::vector<short> aa(n, -1); { Dist::Request rq = comm.iallgather(&a, std::size_t(1), aa.data(), std::size_t(1)); rq.wait(); } for(int r = 0; r < P; ++r) EXPECT(aa[size_t(r)] == 3 * r, "iallgather");
        std::vector<int> cnt(n), dsp(n); int tot = 0; for(int r = 0; r < P; ++r) { cnt[size_t(r)] = r + 1; dsp[size_t(r)] = tot; tot += r + 1; }
        std::vector<int> mv(size_t(rank + 1), 100 + rank), av(static_cast<size_t>(tot), -1); comm.allgatherv(mv.data(), std::size_t(rank + 1), av.data(), cnt.data(), dsp.data());
        for(int r = 0; r < P; ++r) for(int k = 0; k <= r; ++k) EXPECT(av[size_t(dsp[size_t(r)] + k)] == 100 + r, "allgatherv");
        std::vector<int> ts(n), tr(n, -1); for(int r = 0; r < P; ++r) ts[size_t(r)] = 10 * rank + r; comm.alltoall(ts.data(), std::size_t(1), tr.data(), std::size_t(1)); for(int r = 0; r < P; ++r) EXPECT(tr[size_t(r)] == 10 * r + rank, "alltoall");
        std::vector<int> tq(n, -1); { Dist::Request rq = comm.ialltoall(ts.data(), std::size_t(1), tq.data(), std::size_t(1)); rq.wait(); } for(int r = 0; r < P; ++r) EXPECT(tq[size_t(r)] == 10 * r + rank, "ialltoall");
        comm.alltoall(ts.data(), std::size_t(1), ts.data(), std::size_t(1)); for(int r = 0; r < P; ++r) EXPECT(ts[size_t(r)] == 10 * r + rank, "alltoall (aliased buffers)");
        std::vector<int> one(n, 1), dd(n); for(int r = 0; r < P; ++r) dd[size_t(r)] = r; std::vector<int> vs(n), vr(n, -1); for(int r = 0; r < P; ++r) vs[size_t(r)] = 20 * rank + r;
        comm.alltoallv(vs.data(), one.data(), dd.data(), vr.data(), one.data(), dd.data()); for(int r = 0; r < P; ++r) EXPECT(vr[size_t(r)] == 20 * r + rank, "alltoallv");
        double x = 0.25 * (rank + 1), y = -1; comm.allreduce(&x, &y, std::size_t(1), Dist::op_sum); EXPECT(y == 0.25 * P * (P + 1) / 2, "allreduce");
        { Dist::Request rq = comm.iallreduce(&x, &y, std::size_t(1), Dist::op_max); rq.wait(); } EXPECT(y == 0.25 * P, "iallreduce");
        long s1 = rank + 1, so = -1; comm.scan(&s1, &so, std::size_t(1), Dist::op_sum); EXPECT(so == long(rank + 1) * (rank + 2) / 2, "scan");
        long e1 = rank + 1, eo = -5; comm.exscan(&e1, &eo, std::size_t(1), Dist::op_sum); if(rank > 0) EXPECT(eo == long(rank) * (rank + 1) / 2, "exscan");
        long sa = rank + 1; comm.scan(&sa, &sa, std::size_t(1), Dist::op_sum); EXPECT(sa == long(rank + 1) * (rank + 2) / 2, "scan (aliased buffers)"); }
      // streams and printing
      { std::stringstream ss; if(rank == P - 1) ss << "hello " << P; comm.bcast_stringstream(ss, P - 1); EXPECT(ss.str() == "hello " + std::to_string(P), "bcast_stringstream '" << ss.str() << "'");
        std::stringstream se; comm.bcast_stringstream(se, 0); EXPECT(se.str().empty(), "bcast_stringstream of an empty stream");
        BinaryStream bs; if(rank == 0) { const char d[5] = {1, 2, 3, 4, 5}; bs.write(d, 5); } comm.bcast_binarystream(bs, 0); EXPECT(bs.container().size() == 5u && bs.container()[4] == 5, "bcast_binarystream");
        std::ostringstream o1; comm.print(o1, "line", P - 1); EXPECT(o1.str() == (rank == P - 1 ? "line\n" : ""), "print");
        std::ostringstream o2; comm.allprint(o2, rank % 2 == 0 ? String("r") + stringify(rank) + "\nx" : String(), 0);
        if(rank == 0) { std::string want; for(int r = 0; r < P; r += 2) { want += "[" + std::to_string(r) + "] r" + std::to_string(r) + "\n[" + std::to_string(r) + "] x\n"; } EXPECT(o2.str() == want, "allprint '" << o2.str() << "'"); }
        else EXPECT(o2.str().empty(), "allprint on a non-root"); }
    }, nullptr, nullptr, false});
    // ------------------------------------------------------------------------------------------
    {
      Test t{"leftovers are reported (unmatched eager send, unfreed communicator)", 2, 2, [](int rank, int, Exec&)
      {
        MPI_Comm d; MPI_Comm_dup(MPI_COMM_WORLD, &d);
        if(rank == 0) { int v = 1; MPI_Send(&v, 1, MPI_INT, 1, 9, MPI_COMM_WORLD); }
      }, one, nullptr, false, 0};
      t.allow_leftovers = true;
      T.push_back(t);
    }
    return T;
  }

  // erroneous programs: name, P, mode, body, expected way to die (SIGABRT or 1000+97 = scheduler deadlock exit)
  struct Bad { std::string name; int P; int mode; std::function<void(int, int)> body; int expect; };
  std::vector<Bad> make_bad()
  {
    std::vector<Bad> B;
    const int DEAD = 1000 + 97;
    B.push_back({"message truncation", 2, 0, [](int rank, int) { int v[2] = {1, 2}; if(rank == 0) MPI_Send(v, 2, MPI_INT, 1, 0, MPI_COMM_WORLD); else MPI_Recv(v, 1, MPI_INT, 0, 0, MPI_COMM_WORLD, MPI_STATUS_IGNORE); }, SIGABRT});
    B.push_back({"collective kind mismatch", 2, 0, [](int rank, int) { int v = 0; if(rank == 0) MPI_Barrier(MPI_COMM_WORLD); else MPI_Bcast(&v, 1, MPI_INT, 0, MPI_COMM_WORLD); }, SIGABRT});
    B.push_back({"collective root mismatch", 2, 0, [](int rank, int) { int v = 0; MPI_Bcast(&v, 1, MPI_INT, rank, MPI_COMM_WORLD); }, SIGABRT});
    B.push_back({"collective size mismatch", 2, 0, [](int rank, int) { int v[2] = {0, 0}, w[2]; MPI_Allreduce(v, w, 1 + rank, MPI_INT, MPI_SUM, MPI_COMM_WORLD); }, SIGABRT});
    B.push_back({"MPI_ANY_SOURCE unsupported", 2, 0, [](int rank, int) { int v = 0; if(rank == 1) MPI_Recv(&v, 1, MPI_INT, MPI_ANY_SOURCE, 0, MPI_COMM_WORLD, MPI_STATUS_IGNORE); }, SIGABRT});
    B.push_back({"invalid rank", 2, 0, [](int, int) { int v = 0; MPI_Send(&v, 1, MPI_INT, 5, 0, MPI_COMM_WORLD); }, SIGABRT});
    B.push_back({"stale request handle", 1, 0, [](int, int) { int v = 0; MPI_Request r, s; MPI_Isend(&v, 1, MPI_INT, 0, 0, MPI_COMM_SELF, &r); s = r; MPI_Request_free(&r); MPI_Wait(&s, MPI_STATUS_IGNORE); }, SIGABRT});
    B.push_back({"use of a freed communicator", 1, 0, [](int, int) { MPI_Comm d, d2; MPI_Comm_dup(MPI_COMM_WORLD, &d); d2 = d; MPI_Comm_free(&d); MPI_Barrier(d2); }, SIGABRT});
    B.push_back({"uncommitted datatype", 1, 0, [](int, int) { MPI_Datatype t; MPI_Type_contiguous(2, MPI_INT, &t); int v[2] = {0, 0}; MPI_Request r; MPI_Isend(v, 1, t, 0, 0, MPI_COMM_SELF, &r); }, SIGABRT});
    B.push_back({"aliased buffers without MPI_IN_PLACE", 1, 0, [](int, int) { int v = 0; MPI_Allreduce(&v, &v, 1, MPI_INT, MPI_SUM, MPI_COMM_WORLD); }, SIGABRT});
    B.push_back({"MPI_Abort", 2, 0, [](int rank, int) { if(rank == 1) MPI_Abort(MPI_COMM_WORLD, 3); MPI_Barrier(MPI_COMM_WORLD); }, SIGABRT});
    B.push_back({"deadlock: two blocking receives", 2, 0, [](int rank, int) { int v = 0; MPI_Recv(&v, 1, MPI_INT, 1 - rank, 0, MPI_COMM_WORLD, MPI_STATUS_IGNORE); MPI_Send(&v, 1, MPI_INT, 1 - rank, 0, MPI_COMM_WORLD); }, DEAD});
    B.push_back({"unsafe program: two blocking sends deadlock under rendezvous", 2, 1, [](int rank, int) { int v = 0, w = 0; MPI_Send(&v, 1, MPI_INT, 1 - rank, 0, MPI_COMM_WORLD); MPI_Recv(&w, 1, MPI_INT, 1 - rank, 0, MPI_COMM_WORLD, MPI_STATUS_IGNORE); }, DEAD});
    B.push_back({"deadlock: barrier missed by one rank", 3, 0, [](int rank, int) { if(rank != 2) MPI_Barrier(MPI_COMM_WORLD); }, DEAD});
    B.push_back({"polling loop that can never succeed (reported as deadlock: no rank can act any more)", 2, 0, [](int rank, int) { if(rank == 0) { int v = 0, f = 0; MPI_Request r; MPI_Irecv(&v, 1, MPI_INT, 1, 0, MPI_COMM_WORLD, &r); while(!f) MPI_Test(&r, &f, MPI_STATUS_IGNORE); } }, DEAD});
    return B;
  }

  struct RunResult { Exec e; std::string left; };

  RunResult run_once(const Test& t, int P, int mode, const std::vector<int>& prefix)
  {
    RunResult r;
    r.e.obs.assign(size_t(P), std::string());
    minimpi::set_mode(mode == 0 ? minimpi::eager : minimpi::rendezvous);
    vsched::reset(prefix, false);
    minimpi::run(P, [&](int rank) { t.body(rank, P, r.e); });
    r.left = minimpi::leftovers(true);
    return r;
  }
}

int main(int argc, char** argv)
{
  FEAT::Runtime::ScopeGuard guard(argc, argv);
  verif::Spec spec;
  spec.property = "C13";
  spec.harness = "c13_minimpi_selftest";
  spec.rule = "case = (conformance test of the MPI model, ranks P, send mode eager|rendezvous, exploration: all Waitany/Waitsome/Test* answer sequences, "
    "or additionally all rank interleavings with <= 1 preemption); erroneous programs run forked and must abort / deadlock. "
    "Non-trivial = P >= 2, hashed by (test, P, mode, kind).";
  spec.bounds_quick = "P = 1..4, both send modes, all answer sequences (up to 3!*3! per execution tree), rank interleavings PB<=1 for the point-to-point tests with P<=3";
  spec.bounds_thorough = "as quick, rank interleavings PB<=2";
  spec.assumptions = {"MPI-3.1 semantics as summarised in engine/minimpi/mpi.h; the standard document itself is the trusted reference, read by a human",
    "blocking collectives are modelled as synchronising (complete when the last rank arrives)",
    "observation, not checked (no caller in kernel/control/applications): Dist::RequestVector::test_any on a vector without active requests returns true with idx = size_t(MPI_UNDEFINED) because only the flag of MPI_Testany is inspected, while its documentation and the non-MPI build say false (spec/proposed_fixes/C13-test-any-undefined.patch, not applied)"};
  spec.deadline_quick_s = 170; spec.deadline_thorough_s = 900;

  return verif::run(spec, argc, argv, [&](verif::Ctx& c)
  {
    {
      cpu_set_t set; CPU_ZERO(&set);
      long ncpu = sysconf(_SC_NPROCESSORS_ONLN); if(ncpu < 1) ncpu = 1;
      CPU_SET(int(c._me % ncpu), &set);
      sched_setaffinity(0, sizeof(set), &set);
    }
    if(system("mkdir -p /verif/build/scratch/c13_minimpi_selftest") != 0) return;
    const std::vector<Test> tests = make_tests();
    const std::vector<Bad> bad = make_bad();

    for(const Test& t : tests)
    for(int P = t.pmin; P <= t.pmax; ++P)
    for(int mode = 0; mode < 2; ++mode)
    for(int kind = 0; kind < 2; ++kind)
    {
      if(t.only_mode >= 0 && t.only_mode != mode) continue;
      if(kind == 1 && (!t.threads || P > 3)) continue;
      if(!c.want()) continue;
      c.desc([&]{ return t.name + " P=" + std::to_string(P) + (mode ? " rendezvous" : " eager") + (kind ? " +rank-interleavings" : " answers"); });
      std::set<std::string> observations;
      std::map<std::string, std::string> findings;
      std::string failure;
      auto one_exec = [&](const std::vector<int>& prefix) -> bool
      {
        RunResult r = run_once(t, P, mode, prefix);
        if(vsched::diverged()) { failure = "MACHINERY: schedule prefix diverged"; return false; }
        if(!r.e.err.empty()) { failure = r.e.err; return false; }
        if(!t.allow_leftovers && !r.left.empty()) { failure = "leftovers after a clean program: " + r.left; return false; }
        if(t.allow_leftovers && (r.left.find("unmatched send") == std::string::npos || r.left.find("not freed") == std::string::npos)) { failure = "leftovers not reported: '" + r.left + "'"; return false; }
        std::string o; for(auto& s : r.e.obs) { o += s; o += '|'; }
        observations.insert(o);
        if(!r.e.finding_key.empty()) findings[r.e.finding_key] = r.e.finding_msg;
        return true;
      };
      if(c.replaying && !c.extra.empty())
      {
        if(!one_exec(vsched::schedule_from_string(c.extra))) c.fail("replayed schedule: " + t.name, failure, c.extra);
        continue;
      }
      uint64_t execs = 0;
      std::vector<int> failing;
      bool ok = true;
      if(kind == 0)
      {
        minimpi::Explorer ex;
        ex.max_executions = 200000;
        ok = ex.explore(one_exec);
        execs = ex.stats.executions; failing = ex.failing;
        c.count("states", ex.stats.states); c.count("transitions", ex.stats.transitions); c.count("environment_decisions", ex.stats.value_decisions);
        c.maxi("waitany_options", ex.stats.max_options);
        if(ex.stats.capped) c.capped("executions");
        if(ok && t.nexec) { const uint64_t w = t.nexec(P); c.check(w == 0 || execs == w, "execution count: " + t.name, [&]{ return "explored " + std::to_string(execs) + " answer sequences, expected " + std::to_string(w); }); }
        if(ok && t.nobs) { const uint64_t w = t.nobs(P); c.check(observations.size() == w, "arrival orders: " + t.name, [&]{ return "observed " + std::to_string(observations.size()) + " distinct arrival order vectors, expected " + std::to_string(w); }); }
      }
      else
      {
        vsched::Explorer ex;
        ex.preempt_bound = c.thorough ? 2 : 1;
        ex.max_executions = 400000;
        ok = ex.explore(one_exec);
        execs = ex.stats.executions; failing = ex.failing;
        c.count("states", ex.stats.states); c.count("transitions", ex.stats.transitions);
        c.count("rank_interleavings", ex.stats.executions);
        if(ex.stats.capped) c.capped("executions");
      }
      c.count("executions", execs);
      c.count("traces_validated_against_impl", execs);
      if(!ok)
      {
        const std::string s = vsched::schedule_to_string(failing);
        std::string f1 = failure;
        const bool again = one_exec(failing);
        if(f1.compare(0, 9, "MACHINERY") == 0 || again) c.fail("machinery", again ? "failing schedule did not reproduce: " + f1 : f1, s);
        else c.fail("model: " + t.name, f1 + " [schedule=" + s + "]", s);
      }
      for(auto& f : findings) c.fail(f.first, f.second);
      c.outcome(std::to_string(observations.size()) + " observation(s)");
      if(P >= 2) c.nontrivial(verif::Hash().str(t.name).pod(P).pod(mode).pod(kind).get());
    }

    for(const Bad& b : bad)
    {
      if(!c.want()) continue;
      c.desc([&]{ return "erroneous program: " + b.name + " P=" + std::to_string(b.P) + (b.mode ? " rendezvous" : " eager"); });
      const int sig = c.run_forked([&]
      {
        minimpi::set_mode(b.mode == 0 ? minimpi::eager : minimpi::rendezvous);
        vsched::reset(std::vector<int>(), false);
        minimpi::run(b.P, [&](int rank) { b.body(rank, b.P); });
      });
      c.check(sig == b.expect, "erroneous program not rejected: " + b.name, [&]{ return "outcome " + std::to_string(sig) + ", expected " + std::to_string(b.expect); });
      c.outcome(sig == SIGABRT ? "abort" : sig == 1097 ? "deadlock" : "other");
      c.nontrivial(verif::Hash().str(b.name).get());
    }
  });
}
