// C02 -- conversion, cloning, transposition and permutation preserve the matrix.
//
// Engine E3 (histbfs): explicit-state BFS over chains of operations applied to one matrix slot.
// A state is the history that reaches it; every transition re-executes the real FEAT operation on real
// containers, the canonical key is computed from the *implementation* state (format/type node, _scalar_index,
// all raw arrays), and a dense reference model (values D + stored pattern S) is stepped alongside; after every
// step the raw arrays of the container must be exactly the arrays the reference predicts for that format.
#include <verif.hpp>
#include <kernel/runtime.hpp>
#include <kernel/lafem/dense_vector.hpp>
#include <kernel/lafem/sparse_matrix_csr.hpp>
#include <kernel/lafem/sparse_matrix_bcsr.hpp>
#include <kernel/lafem/sparse_matrix_cscr.hpp>
#include <kernel/lafem/sparse_matrix_banded.hpp>
#include <kernel/lafem/dense_matrix.hpp>
#include <kernel/lafem/vector_mirror.hpp>
#include <kernel/adjacency/graph.hpp>
#include <kernel/adjacency/permutation.hpp>
#include <memory>
#include <malloc.h>

using namespace FEAT;
using namespace FEAT::LAFEM;
typedef std::uint64_t u64;
typedef std::uint32_t u32;

// ------------------------------------------------------------------------------------------------ nodes
enum Fmt { F_CSR = 0, F_BAND, F_CSCR, F_DENSE, F_BCSR };
enum
{
  N_CSR_D64 = 0, N_CSR_F64, N_CSR_D32, N_CSR_F32,
  N_BAND_D64, N_BAND_F32,
  N_CSCR_D64, N_CSCR_F32,
  N_DENSE_D64, N_DENSE_F32,
  N_B23_D64, N_B23_F32, N_B32_D64,
  N_NODES
};
template<int N> struct NodeT;
#define C02_NODE(N, F, BH, BW, ...) template<> struct NodeT<N> { typedef __VA_ARGS__ type; static constexpr int fmt = F, bh = BH, bw = BW; };
C02_NODE(N_CSR_D64, F_CSR, 1, 1, SparseMatrixCSR<double, u64>)
C02_NODE(N_CSR_F64, F_CSR, 1, 1, SparseMatrixCSR<float, u64>)
C02_NODE(N_CSR_D32, F_CSR, 1, 1, SparseMatrixCSR<double, u32>)
C02_NODE(N_CSR_F32, F_CSR, 1, 1, SparseMatrixCSR<float, u32>)
C02_NODE(N_BAND_D64, F_BAND, 1, 1, SparseMatrixBanded<double, u64>)
C02_NODE(N_BAND_F32, F_BAND, 1, 1, SparseMatrixBanded<float, u32>)
C02_NODE(N_CSCR_D64, F_CSCR, 1, 1, SparseMatrixCSCR<double, u64>)
C02_NODE(N_CSCR_F32, F_CSCR, 1, 1, SparseMatrixCSCR<float, u32>)
C02_NODE(N_DENSE_D64, F_DENSE, 1, 1, DenseMatrix<double, u64>)
C02_NODE(N_DENSE_F32, F_DENSE, 1, 1, DenseMatrix<float, u32>)
C02_NODE(N_B23_D64, F_BCSR, 2, 3, SparseMatrixBCSR<double, u64, 2, 3>)
C02_NODE(N_B23_F32, F_BCSR, 2, 3, SparseMatrixBCSR<float, u32, 2, 3>)
C02_NODE(N_B32_D64, F_BCSR, 3, 2, SparseMatrixBCSR<double, u64, 3, 2>)

static const int node_fmt[N_NODES] = {F_CSR, F_CSR, F_CSR, F_CSR, F_BAND, F_BAND, F_CSCR, F_CSCR, F_DENSE, F_DENSE, F_BCSR, F_BCSR, F_BCSR};
static const int node_bh[N_NODES] = {1, 1, 1, 1, 1, 1, 1, 1, 1, 1, 2, 2, 3};
static const int node_bw[N_NODES] = {1, 1, 1, 1, 1, 1, 1, 1, 1, 1, 3, 3, 2};
static const int node_dt[N_NODES] = {0, 1, 0, 1, 0, 1, 0, 1, 0, 1, 0, 1, 0}; // 0 double, 1 float
static const int node_it[N_NODES] = {0, 0, 1, 1, 0, 1, 0, 1, 0, 1, 0, 1, 0}; // 0 u64, 1 u32
static const char* node_name[N_NODES] = {"CSR<d,u64>", "CSR<f,u64>", "CSR<d,u32>", "CSR<f,u32>", "Banded<d,u64>", "Banded<f,u32>",
  "CSCR<d,u64>", "CSCR<f,u32>", "Dense<d,u64>", "Dense<f,u32>", "BCSR23<d,u64>", "BCSR23<f,u32>", "BCSR32<d,u64>"};

/// which conversions target.convert(source) are offered (and instantiated here)
constexpr bool conv_ok(int s, int t)
{
  return
    (s <= N_CSR_F32 && t <= N_CSR_F32) ||
    (s == N_CSR_D64 && (t == N_BAND_D64 || t == N_BAND_F32 || t == N_CSCR_D64 || t == N_CSCR_F32)) ||
    (s == N_CSR_F32 && (t == N_BAND_F32 || t == N_CSCR_F32)) ||
    (s == N_BAND_D64 && (t == N_BAND_D64 || t == N_BAND_F32 || t == N_CSR_D64)) ||
    (s == N_BAND_F32 && (t == N_BAND_D64 || t == N_BAND_F32 || t == N_CSR_F32)) ||
    (s == N_CSCR_D64 && (t == N_CSCR_D64 || t == N_CSCR_F32 || t == N_CSR_D64)) ||
    (s == N_CSCR_F32 && (t == N_CSCR_D64 || t == N_CSCR_F32 || t == N_CSR_F32)) ||
    ((s == N_DENSE_D64 || s == N_DENSE_F32) && (t == N_DENSE_D64 || t == N_DENSE_F32)) ||
    (s == N_B23_D64 && (t == N_B23_D64 || t == N_B23_F32 || t == N_CSR_D64 || t == N_CSR_F32 || t == N_CSCR_D64)) ||
    (s == N_B23_F32 && (t == N_B23_D64 || t == N_B23_F32 || t == N_CSR_F32)) ||
    (s == N_B32_D64 && (t == N_B32_D64 || t == N_CSR_D64));
}
constexpr bool has_permute(int n) { return n == N_CSR_D64 || n == N_CSR_F32 || n == N_B23_D64 || n == N_B32_D64; }
constexpr int transpose_target(int n)
{
  return n <= N_CSR_F32 ? n : (n == N_DENSE_D64 || n == N_DENSE_F32) ? n : n == N_B23_D64 ? N_B32_D64 : n == N_B32_D64 ? N_B23_D64 : -1;
}
constexpr bool has_layout(int n) { return n != N_DENSE_D64 && n != N_DENSE_F32; }
constexpr bool has_graph(int n) { return n == N_CSR_D64 || n == N_B23_D64 || n == N_CSCR_D64 || n == N_BAND_D64; }
/// CSCR(Graph) leaves its values uninitialised (allocating ctor + convert), the other Graph ctors zero them
static bool graph_values_defined(int n) { return n != N_CSCR_D64; }
constexpr int mirror_target(int n) { return n == N_CSR_D64 ? N_CSCR_D64 : n == N_CSR_F32 ? N_CSCR_F32 : -1; }

struct Obj { int node = -1; virtual ~Obj() {} };
template<int N> struct ObjT : Obj { typename NodeT<N>::type mat; ObjT() { node = N; } };
typedef std::unique_ptr<Obj> ObjP;

template<typename F> void visit(Obj& o, F&& f)
{
  switch(o.node)
  {
#define C02_V(N) case N: f(static_cast<ObjT<N>&>(o), std::integral_constant<int, N>()); break;
    C02_V(0) C02_V(1) C02_V(2) C02_V(3) C02_V(4) C02_V(5) C02_V(6) C02_V(7) C02_V(8) C02_V(9) C02_V(10) C02_V(11) C02_V(12)
  default: abort();
  }
}
template<int N = 0, typename F> void for_each_node(F&& f)
{
  if constexpr(N < N_NODES) { f(std::integral_constant<int, N>()); for_each_node<N + 1>(f); }
}

// ------------------------------------------------------------------------------------------------ raw state
struct Raw
{
  std::vector<Index> si;
  std::vector<std::vector<double>> el;
  std::vector<std::vector<u64>> ix;
  std::vector<const void*> ep, ip;
  bool foreign = false;
  bool sizes_ok = true; // _elements.size()==_elements_size.size() etc.
  std::vector<double> sdt;            // _scalar_dt
  std::vector<u64> pool;              // per non-null array: reference count and byte size in MemoryPool::_pool (0,0 if unregistered)
};
template<typename DT_, typename IT_> Raw get_raw(const Container<DT_, IT_>& c)
{
  Raw r;
  r.si = c.get_scalar_index();
  r.foreign = c._foreign_memory;
  for(auto v : c.get_scalar_dt()) r.sdt.push_back(double(v));
  auto pool_info = [&](const void* p) { if(!p) return; auto it = MemoryPool::_pool.find(const_cast<void*>(p)); r.pool.push_back(it == MemoryPool::_pool.end() ? 0 : u64(it->second.counter)); r.pool.push_back(it == MemoryPool::_pool.end() ? 0 : u64(it->second.size)); };
  for(auto q : c.get_elements()) pool_info(q);
  for(auto q : c.get_indices()) pool_info(q);
  const auto& e = c.get_elements(); const auto& es = c.get_elements_size();
  const auto& x = c.get_indices(); const auto& xs = c.get_indices_size();
  r.sizes_ok = (e.size() == es.size()) && (x.size() == xs.size());
  for(size_t k = 0; k < e.size() && k < es.size(); ++k)
  {
    std::vector<double> v(es[k]);
    for(Index i = 0; i < es[k]; ++i) v[i] = double(e[k][i]);
    r.el.push_back(std::move(v)); r.ep.push_back(e[k]);
  }
  for(size_t k = 0; k < x.size() && k < xs.size(); ++k)
  {
    std::vector<u64> v(xs[k]);
    for(Index i = 0; i < xs[k]; ++i) v[i] = u64(x[k][i]);
    r.ix.push_back(std::move(v)); r.ip.push_back(x[k]);
  }
  return r;
}
static Raw raw_of(Obj& o) { Raw r; visit(o, [&](auto& x, auto) { r = get_raw(x.mat); }); return r; }

// ------------------------------------------------------------------------------------------------ reference model
struct Model
{
  int node = 0;
  Index m = 0, n = 0;       // pod dimensions
  std::vector<double> D;    // m*n values (exact dyadics)
  std::vector<char> S;      // m*n stored pattern (pod level; block-/band-closed as the format demands)
  int bh() const { return node_bh[node]; }
  int bw() const { return node_bw[node]; }
  int fmt() const { return node_fmt[node]; }
  Index nnz() const { Index k = 0; for(char s : S) k += s ? 1 : 0; return k; }
  bool row_empty(Index i) const { for(Index j = 0; j < n; ++j) if(S[i * n + j]) return false; return true; }
  bool empty_row_before_nonempty() const
  {
    bool seen_empty = false;
    for(Index i = 0; i < m; ++i) { if(row_empty(i)) seen_empty = true; else if(seen_empty) return true; }
    return false;
  }
  bool has_empty_row() const { for(Index i = 0; i < m; ++i) if(row_empty(i)) return true; return false; }
};

/// canonical layout: what the arrays of a container must be
struct Lay
{
  std::vector<double> sdt;   // _scalar_dt (none of the matrix formats uses it)
  bool foreign = false;
  std::vector<Index> si;
  std::vector<std::vector<double>> el;
  std::vector<std::vector<u64>> ix;
};

static bool band_valid(Index m, Index n, u64 off, Index i) { u64 c = u64(i) + off + 1; return c >= m && c - m < n; }

static Lay expected(const Model& M)
{
  Lay L;
  const Index m = M.m, n = M.n;
  switch(M.fmt())
  {
  case F_CSR:
  {
    std::vector<u64> rp(1, 0), ci; std::vector<double> v;
    for(Index i = 0; i < m; ++i) { for(Index j = 0; j < n; ++j) if(M.S[i * n + j]) { ci.push_back(j); v.push_back(M.D[i * n + j]); } rp.push_back(ci.size()); }
    L.si = {m * n, m, n, Index(ci.size())};
    if(!ci.empty()) { L.el.push_back(v); L.ix.push_back(ci); L.ix.push_back(rp); }
    break;
  }
  case F_CSCR:
  {
    std::vector<u64> rp(1, 0), ci, rn; std::vector<double> v;
    for(Index i = 0; i < m; ++i)
    {
      if(M.row_empty(i)) continue;
      for(Index j = 0; j < n; ++j) if(M.S[i * n + j]) { ci.push_back(j); v.push_back(M.D[i * n + j]); }
      rp.push_back(ci.size()); rn.push_back(i);
    }
    L.si = {m * n, m, n, Index(ci.size()), Index(rn.size())};
    if(!ci.empty()) { L.el.push_back(v); L.ix.push_back(ci); L.ix.push_back(rp); L.ix.push_back(rn); }
    break;
  }
  case F_BAND:
  {
    std::set<u64> offs;
    for(Index i = 0; i < m; ++i) for(Index j = 0; j < n; ++j) if(M.S[i * n + j]) offs.insert(u64(j) + m - 1 - i);
    std::vector<u64> ov(offs.begin(), offs.end());
    std::vector<double> v(ov.size() * m, 0.0);
    for(size_t b = 0; b < ov.size(); ++b) for(Index i = 0; i < m; ++i) if(band_valid(m, n, ov[b], i)) v[b * m + i] = M.D[i * n + Index(i + ov[b] + 1 - m)];
    L.si = {m * n, m, n, M.nnz(), Index(ov.size())};
    L.el.push_back(v); L.ix.push_back(ov);
    break;
  }
  case F_DENSE:
  {
    L.si = {m * n, m, n};
    if(m * n > 0) L.el.push_back(M.D);
    break;
  }
  case F_BCSR:
  {
    const Index bh = Index(M.bh()), bw = Index(M.bw()), BM = m / bh, BN = n / bw;
    std::vector<u64> rp(1, 0), ci; std::vector<double> v;
    for(Index I = 0; I < BM; ++I)
    {
      for(Index J = 0; J < BN; ++J)
      {
        if(!M.S[(I * bh) * n + J * bw]) continue;
        ci.push_back(J);
        for(Index r = 0; r < bh; ++r) for(Index c = 0; c < bw; ++c) v.push_back(M.D[(I * bh + r) * n + J * bw + c]);
      }
      rp.push_back(ci.size());
    }
    L.si = {BM * BN, BM, BN, Index(ci.size())};
    if(!ci.empty()) { L.el.push_back(v); L.ix.push_back(ci); L.ix.push_back(rp); }
    break;
  }
  }
  return L;
}

/// canonical layout of the real container (Banded padding masked, a single null/empty data array dropped)
static Lay actual(const Raw& r, int node)
{
  Lay L; L.si = r.si; L.el = r.el; L.ix = r.ix; L.sdt = r.sdt; L.foreign = r.foreign;
  if(node_fmt[node] == F_BAND && r.si.size() >= 5 && r.ix.size() == 1 && r.el.size() == 1)
  {
    const Index m = r.si[1], n = r.si[2];
    for(size_t b = 0; b < r.ix[0].size(); ++b) for(Index i = 0; i < m; ++i)
      if(b * m + i < L.el[0].size() && !band_valid(m, n, r.ix[0][b], i)) L.el[0][b * m + i] = 0.0;
  }
  if(node_fmt[node] != F_BAND && L.ix.empty() && L.el.size() == 1 && L.el[0].empty() && r.ep[0] == nullptr) L.el.clear();
  return L;
}
static bool lay_eq(const Lay& a, const Lay& b)
{
  if(a.si != b.si || a.ix != b.ix || a.el.size() != b.el.size() || a.sdt != b.sdt || a.foreign != b.foreign) return false;
  for(size_t k = 0; k < a.el.size(); ++k)
  {
    if(a.el[k].size() != b.el[k].size()) return false;
    if(!a.el[k].empty() && memcmp(a.el[k].data(), b.el[k].data(), a.el[k].size() * sizeof(double)) != 0) return false;
  }
  return true;
}
static std::string lay_str(const Lay& L)
{
  std::ostringstream o; o << "si=[";
  for(auto v : L.si) o << v << ","; o << "]";
  for(auto& a : L.el) { o << " el=["; for(auto v : a) o << v << ","; o << "]"; }
  for(auto& a : L.ix) { o << " ix=["; for(auto v : a) o << v << ","; o << "]"; }
  return o.str();
}
static std::string key_of(const Lay& L, int node)
{
  std::string k;
  auto put = [&](const void* p, size_t n) { k.append(static_cast<const char*>(p), n); };
  put(&node, sizeof node);
  { u64 f = L.foreign ? 1 : 0; put(&f, 8); u64 n = L.sdt.size(); put(&n, 8); if(!L.sdt.empty()) put(L.sdt.data(), L.sdt.size() * 8); }
  u64 t = L.si.size(); put(&t, 8); for(auto v : L.si) { u64 w = v; put(&w, 8); }
  t = L.el.size(); put(&t, 8); for(auto& a : L.el) { t = a.size(); put(&t, 8); if(!a.empty()) put(a.data(), a.size() * 8); }
  t = L.ix.size(); put(&t, 8); for(auto& a : L.ix) { t = a.size(); put(&t, 8); if(!a.empty()) put(a.data(), a.size() * 8); }
  return k;
}

/// structural validity, independent of the reference model; returns "" if valid
static std::string structure_error(const Raw& r, int node)
{
  if(!r.sizes_ok) return "array/size vectors disagree";
  const int f = node_fmt[node];
  if(f == F_CSR || f == F_BCSR || f == F_CSCR)
  {
    if(r.si.size() < 4) return "scalar_index too short";
    if(r.ix.empty()) return r.si[3] == 0 ? "" : "no index arrays but used_elements>0";
    if(r.ix.size() < 2) return "index arrays missing";
    const auto& ci = r.ix[0]; const auto& rp = r.ix[1];
    const Index lines = (f == F_CSCR) ? (r.si.size() > 4 ? r.si[4] : 0) : r.si[1];
    if(rp.size() != lines + 1) return "row_ptr length != lines+1";
    if(rp[0] != 0) return "row_ptr[0] != 0";
    for(Index i = 0; i < lines; ++i) if(rp[i + 1] < rp[i]) return "row_ptr not monotone";
    if(rp[lines] != r.si[3]) return "row_ptr[last] != used_elements";
    if(ci.size() != r.si[3]) return "col_ind length != used_elements";
    for(Index i = 0; i < lines; ++i) for(u64 k = rp[i]; k < rp[i + 1]; ++k)
    {
      if(ci[k] >= r.si[2]) return "column index out of range";
      if(k > rp[i] && ci[k - 1] >= ci[k]) return "column indices not strictly increasing";
    }
    if(f == F_CSCR)
    {
      if(r.ix.size() < 3) return "row_numbers missing";
      const auto& rn = r.ix[2];
      if(rn.size() != lines) return "row_numbers length";
      for(Index i = 0; i < lines; ++i) { if(rn[i] >= r.si[1]) return "row number out of range"; if(i > 0 && rn[i - 1] >= rn[i]) return "row numbers not sorted"; }
    }
  }
  else if(f == F_BAND)
  {
    if(r.si.size() < 5 || r.ix.size() != 1 || r.el.size() != 1) return "banded arrays missing";
    const auto& of = r.ix[0];
    if(of.size() != r.si[4]) return "offsets length";
    for(size_t b = 0; b < of.size(); ++b) { if(of[b] + 2 > r.si[1] + r.si[2]) return "offset out of matrix"; if(b > 0 && of[b - 1] >= of[b]) return "offsets not sorted"; }
    if(r.el[0].size() != of.size() * r.si[1]) return "val length";
  }
  return "";
}

// ------------------------------------------------------------------------------------------------ operations
enum OpK { O_CONV = 1, O_CLONE, O_TRANS, O_PERM, O_LAYOUT, O_GRAPH, O_MIRROR, O_SHRINK /* relatives phase only */, O_XCLONE /* cross-type clone: a=mode, b=target node */, O_COPY /* relatives phase only: t.copy(x, full=a) */ };
struct Op;
struct Op { int k = 0, a = 0, b = 0; };
static bool is_clone(const Op& o) { return o.k == O_CLONE || o.k == O_XCLONE; }
constexpr int c_fmt(int n) { return n <= N_CSR_F32 ? F_CSR : n <= N_BAND_F32 ? F_BAND : n <= N_CSCR_F32 ? F_CSCR : n <= N_DENSE_F32 ? F_DENSE : F_BCSR; }
constexpr bool xclone_ok(int s, int t) { return s != t && conv_ok(s, t) && c_fmt(s) == c_fmt(t); }
static const char* clone_name[5] = {"Shallow", "Layout", "Weak", "Deep", "Allocate"};

/// all permutations of k elements for k<=3, three representatives above
static const std::vector<std::vector<Index>>& perms(Index k)
{
  static std::map<Index, std::vector<std::vector<Index>>> cache;
  auto it = cache.find(k);
  if(it != cache.end()) return it->second;
  std::vector<std::vector<Index>> out;
  std::vector<Index> p(k); for(Index i = 0; i < k; ++i) p[i] = i;
  if(k <= 3) { do out.push_back(p); while(std::next_permutation(p.begin(), p.end())); }
  else
  {
    out.push_back(p);
    std::vector<Index> q(p.rbegin(), p.rend()); out.push_back(q);
    std::vector<Index> c(k); for(Index i = 0; i < k; ++i) c[i] = (i + 1) % k; out.push_back(c);
    std::vector<Index> ci(k); for(Index i = 0; i < k; ++i) ci[c[i]] = i; out.push_back(ci); // keep the list closed under inversion
  }
  return cache[k] = out;
}
static std::vector<Index> inverse_of(const std::vector<Index>& p) { std::vector<Index> q(p.size()); for(Index i = 0; i < p.size(); ++i) q[p[i]] = i; return q; }
static int perm_index(Index k, const std::vector<Index>& p) { auto& v = perms(k); for(size_t i = 0; i < v.size(); ++i) if(v[i] == p) return int(i); return -1; }

static std::string op_name_build(const Op& o, int src);
static const std::string& op_name(const Op& o, int src)
{
  static std::map<uint32_t, std::string> cache;
  const uint32_t k = (uint32_t(o.k) << 16) | (uint32_t(src) << 8) | uint32_t(o.k == O_PERM ? 0 : o.a) | (o.k == O_XCLONE ? (uint32_t(o.b) << 24) : 0u);
  auto it = cache.find(k);
  if(it == cache.end()) it = cache.emplace(k, op_name_build(o, src)).first;
  return it->second;
}
static std::string op_name_build(const Op& o, int src)
{
  std::ostringstream s;
  switch(o.k)
  {
  case O_CONV: s << "convert " << node_name[src] << "->" << node_name[o.a]; break;
  case O_CLONE: s << "clone(" << clone_name[o.a] << ") " << node_name[src]; break;
  case O_XCLONE: s << "cross-type clone(" << clone_name[o.a] << ") " << node_name[src] << "->" << node_name[o.b]; break;
  case O_TRANS: s << "transpose" << (o.a == 0 ? "" : o.a == 1 ? "(into sized target)" : "_inplace") << " " << node_name[src]; break;
  case O_PERM: s << "permute " << node_name[src]; break;
  case O_LAYOUT: s << (o.a == 0 ? "ctor(layout) " : "operator=(layout) ") << node_name[src]; break;
  case O_GRAPH: s << "ctor(Graph(as_is)) " << node_name[src]; break;
  case O_MIRROR: s << "CSCR(csr,mirror of non-empty rows) " << node_name[src]; break;
  case O_SHRINK: s << "shrink(1) " << node_name[src]; break;
  case O_COPY: s << (o.a ? "copy(x,full=true) " : "copy(x) ") << node_name[src]; break;
  }
  return s.str();
}
static std::string op_full(const Op& o, const Model& M)
{
  std::string s = op_name(o, M.node);
  if(o.k == O_PERM)
  {
    auto& P = perms(M.m / Index(M.bh()))[size_t(o.a)]; auto& Q = perms(M.n / Index(M.bw()))[size_t(o.b)];
    s += " P=["; for(auto v : P) s += std::to_string(v); s += "] Q=["; for(auto v : Q) s += std::to_string(v); s += "]";
  }
  return s;
}
static bool is_leaf(const Op& o) { return (is_clone(o) && (o.a == int(CloneMode::Layout) || o.a == int(CloneMode::Allocate))) || o.k == O_LAYOUT || o.k == O_GRAPH; }
static bool graph_values_defined(int n);
/// are the values of the result defined by contract?
static bool op_defined(const Op& o, int src)
{
  if(o.k == O_LAYOUT) return false;
  if(is_clone(o) && (o.a == int(CloneMode::Layout) || o.a == int(CloneMode::Allocate))) return false;
  if(o.k == O_GRAPH) return graph_values_defined(src);
  return true;
}
static bool is_mutating(const Op& o) { return o.k == O_PERM || o.k == O_SHRINK || (o.k == O_TRANS && o.a == 2); }

/// expected sharing between result and source: bit0 data arrays shared, bit1 index arrays shared
static int expected_sharing(const Op& o, int src)
{
  switch(o.k)
  {
  case O_CONV:
    if(node_fmt[src] != node_fmt[o.a]) return 0;
    return (node_dt[src] == node_dt[o.a] ? 1 : 0) | (node_it[src] == node_it[o.a] ? 2 : 0);
  case O_CLONE:
    return o.a == int(CloneMode::Shallow) ? 3 : (o.a == int(CloneMode::Weak) || o.a == int(CloneMode::Layout)) ? 2 : 0;
  case O_XCLONE:
    // clone(t, mode) of the converted temporary t: only arrays whose element type is unchanged can come from the source
    return (o.a == int(CloneMode::Shallow) ? 3 : (o.a == int(CloneMode::Weak) || o.a == int(CloneMode::Layout)) ? 2 : 0)
      & ((node_dt[src] == node_dt[o.b] ? 1 : 0) | (node_it[src] == node_it[o.b] ? 2 : 0));
  case O_LAYOUT: return 2;
  default: return 0;
  }
}

/// enumerate the operations applicable in model state M (forbidden operands are counted, not generated)
static void ops_for(const Model& M, std::vector<Op>& out, verif::Ctx& c, bool count_excl)
{
  out.clear();
  const int s = M.node;
  const Index nnz = M.nnz();
  for(int t = 0; t < N_NODES; ++t)
  {
    if(!conv_ok(s, t)) continue;
    if(node_fmt[s] != node_fmt[t] && nnz == 0 && (node_fmt[s] != F_BCSR || node_fmt[t] != F_CSR))
    {
      // Banded::convert(CSR) and the generic convert(MT_) assert used_elements() > 0
      if(count_excl) c.excluded("cross-format convert of an entry-free matrix (asserted precondition)");
      continue;
    }
    out.push_back(Op{O_CONV, t, 0});
  }
  for(int mode = 0; mode < 5; ++mode) out.push_back(Op{O_CLONE, mode, 0});
  // cross-type clone overload (all five modes are accepted; only ranged sources are asserted, matrices never are)
  for(int t = 0; t < N_NODES; ++t) if(xclone_ok(s, t)) for(int mode = 0; mode < 5; ++mode) out.push_back(Op{O_XCLONE, mode, t});
  if(transpose_target(s) >= 0)
  {
    out.push_back(Op{O_TRANS, 0, 0});
    if(node_fmt[s] == F_DENSE) { out.push_back(Op{O_TRANS, 1, 0}); out.push_back(Op{O_TRANS, 2, 0}); }
  }
  if(has_permute(s) && M.m > 0 && M.n > 0)
  {
    const Index np = perms(M.m / Index(M.bh())).size(), nq = perms(M.n / Index(M.bw())).size();
    for(Index a = 0; a < np; ++a) for(Index b = 0; b < nq; ++b)
    {
      if(nnz == 0 && !((a == 0 && b == 0) || (a == np - 1 && b == nq - 1))) continue; // entry-free: identity and one other
      out.push_back(Op{O_PERM, int(a), int(b)});
    }
  }
  if(has_layout(s)) { out.push_back(Op{O_LAYOUT, 0, 0}); out.push_back(Op{O_LAYOUT, 1, 0}); }
  if(has_graph(s)) out.push_back(Op{O_GRAPH, 0, 0});
  if(mirror_target(s) >= 0)
  {
    if(nnz == 0) { if(count_excl) c.excluded("CSCR(csr,mirror) with an empty mirror (asserted precondition)"); }
    else out.push_back(Op{O_MIRROR, 0, 0});
  }
}

/// reference semantics
static void model_step_raw(Model& M, const Op& o);
static void model_step(Model& M, const Op& o)
{
  model_step_raw(M, o);
  // values held in a float container are rounded to float (exact emulation of the element-wise cast)
  if(node_dt[M.node] == 1) for(double& v : M.D) v = double(float(v));
}
static void model_step_raw(Model& M, const Op& o)
{
  switch(o.k)
  {
  case O_CONV:
    if(node_fmt[M.node] == F_CSR && node_fmt[o.a] == F_BAND)
    {
      std::set<long> d;
      for(Index i = 0; i < M.m; ++i) for(Index j = 0; j < M.n; ++j) if(M.S[i * M.n + j]) d.insert(long(j) - long(i));
      for(Index i = 0; i < M.m; ++i) for(Index j = 0; j < M.n; ++j) if(d.count(long(j) - long(i))) M.S[i * M.n + j] = 1;
    }
    M.node = o.a;
    break;
  case O_MIRROR: M.node = mirror_target(M.node); break;
  case O_SHRINK: // drop every stored entry with |value| < 1
    for(size_t k = 0; k < M.S.size(); ++k) if(M.S[k] && std::fabs(M.D[k]) < 1.0) { M.S[k] = 0; M.D[k] = 0.0; }
    break;
  case O_CLONE: case O_LAYOUT: break;
  case O_XCLONE: M.node = o.b; break;
  case O_GRAPH: for(auto& v : M.D) v = 0.0; break;
  case O_TRANS:
  {
    Model T = M; T.m = M.n; T.n = M.m; T.node = transpose_target(M.node);
    for(Index i = 0; i < M.m; ++i) for(Index j = 0; j < M.n; ++j) { T.D[j * T.n + i] = M.D[i * M.n + j]; T.S[j * T.n + i] = M.S[i * M.n + j]; }
    M = T;
    break;
  }
  case O_PERM:
  {
    const Index bh = Index(M.bh()), bw = Index(M.bw());
    auto& P = perms(M.m / bh)[size_t(o.a)]; auto& Q = perms(M.n / bw)[size_t(o.b)];
    Model T = M;
    for(Index i = 0; i < M.m; ++i) for(Index j = 0; j < M.n; ++j)
    {
      const Index si = P[i / bh] * bh + i % bh, sj = Q[j / bw] * bw + j % bw;   // B(i,j) = A(p(i), q(j))
      T.D[i * M.n + j] = M.D[si * M.n + sj]; T.S[i * M.n + j] = M.S[si * M.n + sj];
    }
    M = T;
    break;
  }
  }
}

template<typename MT_> void do_permute(MT_& mat, const std::vector<Index>& P, const std::vector<Index>& Q)
{
  Adjacency::Permutation pr(Index(P.size()), Adjacency::Permutation::ConstrType::perm, P.data());
  Adjacency::Permutation pc(Index(Q.size()), Adjacency::Permutation::ConstrType::perm, Q.data());
  mat.permute(pr, pc);
}

/// Executes the real operation. Non-mutating ops return a new object and leave X alone; mutating ops
/// change *X and return it.
/// when set, operations on fresh targets use the alternative public overloads: x.transpose() / x.clone(mode) returning
/// by value and the converting constructor MT(x) instead of t.transpose(x) / t.clone(x, mode) / t.convert(x)
static bool g_alt = false;
constexpr bool has_conv_ctor(int n) { return c_fmt(n) == F_CSR || c_fmt(n) == F_CSCR || c_fmt(n) == F_BAND; }
template<int NT_> std::unique_ptr<ObjT<NT_>> take_target(ObjP* target)
{
  if(target && *target && (*target)->node == NT_) return std::unique_ptr<ObjT<NT_>>(static_cast<ObjT<NT_>*>(target->release()));
  return std::make_unique<ObjT<NT_>>();
}
/// target: optional pre-existing container the operation writes into (t.op(x) form); consumed if its node fits
static ObjP apply_op(const Op& o, ObjP& X, const Model& M, ObjP* target = nullptr)
{
  ObjP Y;
  visit(*X, [&](auto& x, auto NS)
  {
    constexpr int ns = decltype(NS)::value;
    typedef typename NodeT<ns>::type MS;
    switch(o.k)
    {
    case O_CONV:
      for_each_node([&](auto NT)
      {
        constexpr int nt = decltype(NT)::value;
        if constexpr(conv_ok(ns, nt)) { if(o.a == nt)
        {
          auto y = take_target<nt>(target);
          if constexpr(has_conv_ctor(nt) && nt != ns) { if(g_alt && !target) y->mat = typename NodeT<nt>::type(x.mat); else y->mat.convert(x.mat); }
          else y->mat.convert(x.mat);
          Y = std::move(y);
        } }
      });
      break;
    case O_CLONE:
    {
      auto y = take_target<ns>(target);
      if(g_alt && !target) y->mat = x.mat.clone(CloneMode(o.a)); else y->mat.clone(x.mat, CloneMode(o.a));
      Y = std::move(y);
      break;
    }
    case O_XCLONE:
      for_each_node([&](auto NT)
      {
        constexpr int nt = decltype(NT)::value;
        if constexpr(xclone_ok(ns, nt)) { if(o.b == nt) { auto y = take_target<nt>(target); y->mat.clone(x.mat, CloneMode(o.a)); Y = std::move(y); } }
      });
      break;
    case O_TRANS:
      if constexpr(transpose_target(ns) >= 0)
      {
        constexpr int nt = transpose_target(ns);
        if constexpr(NodeT<ns>::fmt == F_DENSE)
        {
          if(o.a == 2) { x.mat.transpose_inplace(); Y = std::move(X); break; }
          auto y = take_target<nt>(target);
          if(o.a == 1 && !target) y->mat = MS(x.mat.columns(), x.mat.rows(), typename MS::DataType(0));
          y->mat.transpose(x.mat);
          Y = std::move(y);
        }
        else
        {
          auto y = take_target<nt>(target);
          if(g_alt && !target) y->mat = x.mat.transpose(); else y->mat.transpose(x.mat);
          Y = std::move(y);
        }
      }
      break;
    case O_COPY:
    {
      auto y = take_target<ns>(target);
      y->mat.copy(x.mat, o.a != 0);
      Y = std::move(y);
      break;
    }
    case O_SHRINK:
      if constexpr(NodeT<ns>::fmt == F_CSR) { x.mat.shrink(typename MS::DataType(1)); Y = std::move(X); }
      break;
    case O_PERM:
      if constexpr(has_permute(ns))
      {
        do_permute(x.mat, perms(M.m / Index(M.bh()))[size_t(o.a)], perms(M.n / Index(M.bw()))[size_t(o.b)]);
        Y = std::move(X);
      }
      break;
    case O_LAYOUT:
      if constexpr(has_layout(ns))
      {
        auto y = take_target<ns>(target);
        if(o.a == 0) y->mat = MS(x.mat.layout());
        else { if(!target) y->mat.clone(x.mat, CloneMode::Deep); y->mat = x.mat.layout(); }
        Y = std::move(y);
      }
      break;
    case O_GRAPH:
      if constexpr(has_graph(ns))
      {
        auto y = take_target<ns>(target);
        if constexpr(NodeT<ns>::fmt == F_CSCR)
        {
          // CSCR is no adjactor: the graph is built from the reference pattern
          std::vector<Index> dp(1, 0), ii;
          for(Index i = 0; i < M.m; ++i) { for(Index j = 0; j < M.n; ++j) if(M.S[i * M.n + j]) ii.push_back(j); dp.push_back(Index(ii.size())); }
          Adjacency::Graph g(M.m, M.n, Index(ii.size()), dp.data(), ii.data());
          y->mat = MS(g);
        }
        else
        {
          Adjacency::Graph g(Adjacency::RenderType::as_is, x.mat);
          y->mat = MS(g);
        }
        Y = std::move(y);
      }
      break;
    case O_MIRROR:
      if constexpr(mirror_target(ns) >= 0)
      {
        constexpr int nt = mirror_target(ns);
        typedef typename MS::DataType DT; typedef typename MS::IndexType IT;
        std::vector<Index> rows;
        for(Index i = 0; i < M.m; ++i) if(!M.row_empty(i)) rows.push_back(i);
        VectorMirror<DT, IT> mir(M.m, Index(rows.size()));
        for(size_t k = 0; k < rows.size(); ++k) mir.indices()[k] = IT(rows[k]);
        auto y = take_target<nt>(target);
        y->mat = typename NodeT<nt>::type(x.mat, mir);
        Y = std::move(y);
      }
      break;
    }
  });
  return Y;
}

// ------------------------------------------------------------------------------------------------ harness-built containers
template<typename DT_, typename IT_> void fill_dv(DenseVector<DT_, IT_>& v, const std::vector<double>& s) { for(size_t i = 0; i < s.size(); ++i) v.elements()[i] = DT_(s[i]); }
template<typename IT_> void fill_iv(DenseVector<IT_, IT_>& v, const std::vector<u64>& s) { for(size_t i = 0; i < s.size(); ++i) v.elements()[i] = IT_(s[i]); }

/// builds a container of node M.node holding exactly the matrix of the model, from harness-owned arrays (nnz > 0)
static ObjP build_object(const Model& M)
{
  const Lay L = expected(M);
  ObjP R;
  for_each_node([&](auto NT)
  {
    constexpr int nt = decltype(NT)::value;
    if(M.node != nt) return;
    typedef typename NodeT<nt>::type MT; typedef typename MT::DataType DT; typedef typename MT::IndexType IT;
    constexpr int f = NodeT<nt>::fmt;
    auto y = std::make_unique<ObjT<nt>>();
    if constexpr(f == F_DENSE)
    {
      y->mat = MT(M.m, M.n);
      for(Index k = 0; k < M.m * M.n; ++k) y->mat.elements()[k] = DT(M.D[k]);
    }
    else
    {
      DenseVector<DT, IT> v(Index(L.el[0].size())); fill_dv(v, L.el[0]);
      DenseVector<IT, IT> i0(Index(L.ix[0].size())); fill_iv(i0, L.ix[0]);
      if constexpr(f == F_BAND) y->mat = MT(M.m, M.n, v, i0);
      else
      {
        DenseVector<IT, IT> i1(Index(L.ix[1].size())); fill_iv(i1, L.ix[1]);
        if constexpr(f == F_CSR) y->mat = MT(M.m, M.n, i0, v, i1);
        else if constexpr(f == F_BCSR) y->mat = MT(M.m / Index(NodeT<nt>::bh), M.n / Index(NodeT<nt>::bw), i0, v, i1);
        else { DenseVector<IT, IT> i2(Index(L.ix[2].size())); fill_iv(i2, L.ix[2]); y->mat = MT(M.m, M.n, i0, v, i1, i2); }
      }
    }
    R = std::move(y);
  });
  return R;
}
enum RelKind { R_WEAK = 0, R_LAYOUT, R_CTOR_LAYOUT, R_SHALLOW };
static const char* rel_name[4] = {"Weak clone", "Layout clone", "matrix built from layout()", "Shallow clone"};
/// a relative of s: clone(Weak) / clone(Layout) / MT(s.layout()) / clone(Shallow); nullptr if not offered
static ObjP make_relative(Obj& s, int rk)
{
  ObjP R;
  visit(s, [&](auto& x, auto NS)
  {
    constexpr int ns = decltype(NS)::value;
    typedef typename NodeT<ns>::type MS;
    auto y = std::make_unique<ObjT<ns>>();
    if(rk == R_WEAK) y->mat.clone(x.mat, CloneMode::Weak);
    else if(rk == R_LAYOUT) y->mat.clone(x.mat, CloneMode::Layout);
    else if(rk == R_SHALLOW) y->mat.clone(x.mat, CloneMode::Shallow);
    else { if constexpr(has_layout(ns)) y->mat = MS(x.mat.layout()); else return; }
    R = std::move(y);
  });
  return R;
}
/// writes values through the raw data pointers: element k of array a gets f(k) (positions keep the layout of the container)
template<typename F> void write_values(Obj& Y, F&& f)
{
  visit(Y, [&](auto& y, auto)
  {
    auto& e = y.mat._elements; auto& es = y.mat._elements_size;
    for(size_t a = 0; a < e.size(); ++a) for(Index i = 0; i < es[a]; ++i) e[a][i] = typename std::remove_reference<decltype(e[a][i])>::type(f(i));
  });
}

// ------------------------------------------------------------------------------------------------ start states
struct Start { int node; Index m, n; u64 pattern; bool default_ctor; int va = 0; int how = 0; /* 1: allocating ctor (rows, cols, used[, used_rows]) + arrays filled in place */ }; // pattern over native blocks for BCSR; va = value alphabet

static double pos_value(Index i, Index j) { return (((i + j) & 1) ? -1.0 : 1.0) * double(1 + 8 * i + j) / 4.0; }
/// value alphabets: 0 = distinct exact dyadics with alternating sign; 1 = special values (stored exact zero, -0, +-1, values that
/// round when converted to float, float-range extremes, a float denormal); 2 = all negative
static double alpha_value(int va, Index i, Index j)
{
  if(va == 0) return pos_value(i, j);
  if(va == 2) return -double(1 + 8 * i + j) / 4.0;
  static const double sp[10] = {0.0, 1.0, -1.0, -0.0, 1e30, -1e-30, 0.1, 3e38, 1e-40, -1.0 / 3.0};
  return sp[(3 * i + j) % 10];
}

static Model start_model(const Start& s)
{
  Model M; M.node = s.node; M.m = s.m; M.n = s.n;
  M.D.assign(s.m * s.n, 0.0); M.S.assign(s.m * s.n, 0);
  const Index bh = Index(M.bh()), bw = Index(M.bw()), BN = (bw ? s.n / bw : 0);
  for(Index i = 0; i < s.m; ++i) for(Index j = 0; j < s.n; ++j)
  {
    const bool on = (node_fmt[s.node] == F_DENSE) || ((s.pattern >> ((i / bh) * BN + j / bw)) & 1u);
    if(on) { M.S[i * s.n + j] = 1; M.D[i * s.n + j] = alpha_value(s.va, i, j); }
  }
  return M;
}

/// builds the start container from harness-owned arrays (constructor taking the three arrays)
/// "allocated but empty" constructors (rows, cols, used_elements[, used_rows]); the arrays are then filled in place
static ObjP build_object_alloc(const Model& M)
{
  const Lay L = expected(M);
  ObjP R;
  auto fill = [&](auto& mat)
  {
    for(size_t a = 0; a < L.el.size(); ++a) for(size_t i = 0; i < L.el[a].size(); ++i) mat._elements.at(a)[i] = typename std::remove_reference<decltype(mat._elements.at(a)[i])>::type(L.el[a][i]);
    for(size_t a = 0; a < L.ix.size(); ++a) for(size_t i = 0; i < L.ix[a].size(); ++i) mat._indices.at(a)[i] = typename std::remove_reference<decltype(mat._indices.at(a)[i])>::type(L.ix[a][i]);
  };
  if(M.node == N_CSR_D64) { auto y = std::make_unique<ObjT<N_CSR_D64>>(); y->mat = SparseMatrixCSR<double, u64>(M.m, M.n, M.nnz()); fill(y->mat); R = std::move(y); }
  else if(M.node == N_B23_D64) { auto y = std::make_unique<ObjT<N_B23_D64>>(); y->mat = SparseMatrixBCSR<double, u64, 2, 3>(M.m / 2, M.n / 3, L.si[3]); fill(y->mat); R = std::move(y); }
  else if(M.node == N_CSCR_D64) { auto y = std::make_unique<ObjT<N_CSCR_D64>>(); y->mat = SparseMatrixCSCR<double, u64>(M.m, M.n, L.si[3], L.si[4]); fill(y->mat); R = std::move(y); }
  return R;
}

static ObjP start_object(const Start& s, const Model& M)
{
  const Lay L = expected(M);
  if(s.node == N_CSCR_D64)
  {
    if(M.nnz() == 0) { auto y = std::make_unique<ObjT<N_CSCR_D64>>(); y->mat = SparseMatrixCSCR<double, u64>(s.m, s.n); return y; }
    return s.how == 1 ? build_object_alloc(M) : build_object(M);
  }
  if(s.how == 1 && M.nnz() > 0) return build_object_alloc(M);
  if(s.node == N_CSR_D64)
  {
    auto y = std::make_unique<ObjT<N_CSR_D64>>();
    if(s.default_ctor) return y;
    if(L.ix.empty()) { y->mat = SparseMatrixCSR<double, u64>(s.m, s.n); return y; }
    DenseVector<double, u64> v(Index(L.el[0].size())); DenseVector<u64, u64> ci(Index(L.ix[0].size())), rp(Index(L.ix[1].size()));
    fill_dv(v, L.el[0]); fill_iv(ci, L.ix[0]); fill_iv(rp, L.ix[1]);
    y->mat = SparseMatrixCSR<double, u64>(s.m, s.n, ci, v, rp);
    return y;
  }
  if(s.node == N_B23_D64)
  {
    auto y = std::make_unique<ObjT<N_B23_D64>>();
    if(L.ix.empty()) { y->mat = SparseMatrixBCSR<double, u64, 2, 3>(s.m / 2, s.n / 3); return y; }
    DenseVector<double, u64> v(Index(L.el[0].size())); DenseVector<u64, u64> ci(Index(L.ix[0].size())), rp(Index(L.ix[1].size()));
    fill_dv(v, L.el[0]); fill_iv(ci, L.ix[0]); fill_iv(rp, L.ix[1]);
    y->mat = SparseMatrixBCSR<double, u64, 2, 3>(s.m / 2, s.n / 3, ci, v, rp);
    return y;
  }
  if(s.node == N_DENSE_D64)
  {
    auto y = std::make_unique<ObjT<N_DENSE_D64>>();
    y->mat = DenseMatrix<double, u64>(s.m, s.n);
    for(Index k = 0; k < s.m * s.n; ++k) y->mat.elements()[k] = M.D[k];
    return y;
  }
  abort();
}

static std::string start_desc(const Start& s)
{
  std::ostringstream o;
  o << node_name[s.node] << " " << s.m << "x" << s.n;
  if(s.va) o << (s.va == 1 ? " values=special(0,-0,+-1,1e30,-1e-30,0.1,3e38,1e-40,-1/3)" : " values=all-negative");
  if(s.how == 1) o << " built with the allocating constructor";
  if(s.default_ctor) o << " default-constructed";
  else if(node_fmt[s.node] != F_DENSE)
  {
    const Index bh = Index(node_bh[s.node]), bw = Index(node_bw[s.node]);
    o << " pattern=";
    for(Index I = 0; I < s.m / bh; ++I) { for(Index J = 0; J < s.n / bw; ++J) o << ((s.pattern >> (I * (s.n / bw) + J)) & 1u); o << (I + 1 < s.m / bh ? "/" : ""); }
  }
  return o.str();
}

// ------------------------------------------------------------------------------------------------ the search
struct Frontier { std::vector<Op> hist; std::string key; };

struct Search
{
  verif::Ctx& c;
  const Start& st;
  std::set<std::string> reported;
  std::string cur_hist;
  const std::vector<Op>* lazy_hist = nullptr; const Op* lazy_op = nullptr; const Model* lazy_model = nullptr;
  std::string history_text()
  {
    if(!lazy_hist) return cur_hist;
    std::string t = hist_str(*lazy_hist);
    if(lazy_op && lazy_model) t += " ; " + op_full(*lazy_op, *lazy_model);
    return t;
  }

  Search(verif::Ctx& cc, const Start& s) : c(cc), st(s) {}

  bool in_child = false;
  unsigned alt_counter = 0;
  static char* shm()
  {
    static char* p = static_cast<char*>(mmap(nullptr, 65536, PROT_READ | PROT_WRITE, MAP_SHARED | MAP_ANONYMOUS, -1, 0));
    return p;
  }
  void fail_once(const std::string& key, const std::string& msg)
  {
    if(in_child)
    {
      // executed in a forked child: hand the failure to the parent
      std::string line = key + "\t" + msg.substr(0, 1500) + "\n";
      size_t used = strlen(shm());
      if(used + line.size() + 1 < 65536) memcpy(shm() + used, line.c_str(), line.size() + 1);
      return;
    }
    if(reported.insert(key).second) c.fail(key, msg + " | history: start" + history_text());
  }

  static std::string qual(const Model& M)
  {
    std::string q;
    if(M.nnz() == 0) q += " [entry-free]";
    else if(M.fmt() != F_DENSE && M.empty_row_before_nonempty()) q += " [empty row before a non-empty row]";
    else if(M.fmt() != F_DENSE && M.has_empty_row()) q += " [trailing empty row]";
    return q;
  }

  /// full comparison of a container with the reference; opn identifies the operation that produced it
  bool check_state(Obj& Y, const Raw& ry, const Model& M, const std::string& opn, const Model& Msrc, bool values_defined, bool indices_defined = true)
  {
    bool ok = true;
    const std::string q = qual(Msrc);
    if(Y.node != M.node) { fail_once(opn + ": wrong result type" + q, "node mismatch"); return false; }
    const std::string se = indices_defined ? structure_error(ry, Y.node) : std::string();
    if(!se.empty()) { fail_once(opn + ": structurally invalid layout" + q, se + " | " + lay_str(actual(ry, Y.node))); ok = false; }
    Lay A = actual(ry, Y.node), E = expected(M);
    if(!values_defined) { for(auto& a : A.el) std::fill(a.begin(), a.end(), 0.0); for(auto& a : E.el) std::fill(a.begin(), a.end(), 0.0); }
    if(!indices_defined) { for(auto& a : A.ix) std::fill(a.begin(), a.end(), u64(0)); for(auto& a : E.ix) std::fill(a.begin(), a.end(), u64(0)); }
    if(A.si != E.si)
    {
      std::string what = "dimensions/used_elements (_scalar_index) wrong";
      if(A.si.size() >= 3 && E.si.size() >= 3 && (A.si[1] != E.si[1] || A.si[2] != E.si[2])) what = "wrong dimensions";
      fail_once(opn + ": " + what + q, "got " + lay_str(A) + " expected " + lay_str(E)); ok = false;
    }
    else if(!lay_eq(A, E)) { fail_once(opn + ": arrays differ from the reference matrix" + q, "got " + lay_str(A) + " expected " + lay_str(E)); ok = false; }
    if(ry.foreign) { fail_once(opn + ": _foreign_memory set", ""); ok = false; }
    if(!ok) return false;
    // accessors and operator() against the dense reference
    visit(Y, [&](auto& y, auto NY)
    {
      constexpr int ny = decltype(NY)::value;
      constexpr int f = NodeT<ny>::fmt;
      const Index bh = Index(NodeT<ny>::bh), bw = Index(NodeT<ny>::bw);
      bool acc = y.mat.rows() == M.m / bh && y.mat.columns() == M.n / bw && y.mat.size() == (M.m / bh) * (M.n / bw);
      if constexpr(f == F_DENSE) acc = acc && y.mat.used_elements() == M.m * M.n;
      else if constexpr(f == F_BCSR) acc = acc && y.mat.template used_elements<Perspective::pod>() == M.nnz() && y.mat.template rows<Perspective::pod>() == M.m && y.mat.template columns<Perspective::pod>() == M.n;
      else acc = acc && y.mat.used_elements() == M.nnz();
      if(!acc) { fail_once(opn + ": rows()/columns()/size()/used_elements() wrong" + q, ""); ok = false; return; }
      if(!values_defined) return;
      if((f == F_CSR || f == F_BCSR || f == F_CSCR) && ry.ix.empty()) { c.count("operator()_skipped_on_entry_free"); return; }
      if(f == F_DENSE && M.m * M.n == 0) return;
      for(Index i = 0; i < M.m / bh && ok; ++i) for(Index j = 0; j < M.n / bw && ok; ++j)
      {
        if constexpr(f == F_BCSR)
        {
          auto blk = y.mat(i, j);
          for(Index r = 0; r < bh; ++r) for(Index s = 0; s < bw; ++s)
            if(double(blk(int(r), int(s))) != M.D[(i * bh + r) * M.n + j * bw + s]) ok = false;
        }
        else { if(double(y.mat(i, j)) != M.D[i * M.n + j]) ok = false; }
        if(!ok) fail_once(opn + ": operator()(i,j) differs from the reference" + q, "at (" + std::to_string(i) + "," + std::to_string(j) + ")");
      }
      c.count("dense_expansions_checked");
    });
    return ok;
  }

  /// operator()(i,j) for the whole matrix as the very first access to a freshly produced container (before any raw
  /// array is looked at and before any other accessor), compared with the reference
  void first_access(Obj& Y, const Model& M, const std::string& opn)
  {
    if(M.nnz() == 0 || M.m * M.n == 0) return;
    bool ok = true;
    visit(Y, [&](auto& y, auto NY)
    {
      constexpr int ny = decltype(NY)::value; constexpr int f = NodeT<ny>::fmt;
      const Index bh = Index(NodeT<ny>::bh), bw = Index(NodeT<ny>::bw);
      if(Y.node != M.node) return;
      for(Index i = 0; i < M.m / bh && ok; ++i) for(Index j = 0; j < M.n / bw && ok; ++j)
      {
        if constexpr(f == F_BCSR)
        {
          auto blk = y.mat(i, j);
          for(Index r = 0; r < bh; ++r) for(Index q = 0; q < bw; ++q) if(double(blk(int(r), int(q))) != M.D[(i * bh + r) * M.n + j * bw + q]) ok = false;
        }
        else { if(double(y.mat(i, j)) != M.D[i * M.n + j]) ok = false; }
      }
    });
    c.count("first_access_observations");
    if(!ok) fail_once(opn + ": operator()(i,j) as first access differs from the reference", "");
  }

  /// multiplies the data arrays of Y by 2 through the raw pointers (or restores them)
  static void scale_values(Obj& Y, double f)
  {
    visit(Y, [&](auto& y, auto)
    {
      auto& e = y.mat._elements; auto& es = y.mat._elements_size;
      for(size_t k = 0; k < e.size(); ++k) for(Index i = 0; i < es[k]; ++i) e[k][i] = typename std::remove_reference<decltype(e[k][i])>::type(double(e[k][i]) * f);
    });
  }
  static void fill_values(Obj& Y, double v)
  {
    visit(Y, [&](auto& y, auto)
    {
      auto& e = y.mat._elements; auto& es = y.mat._elements_size;
      for(size_t k = 0; k < e.size(); ++k) for(Index i = 0; i < es[k]; ++i) e[k][i] = typename std::remove_reference<decltype(e[k][i])>::type(v);
    });
  }

  /// FEAT's own operator== as an observer: true exactly if both containers have the same canonical state; false after one
  /// stored value of the result got another value
  bool check_operator_eq(Obj& X, const std::string& kx, Obj& Y, const std::string& opn)
  {
    bool ok = true;
    bool same = okey(Y) == kx;
    if(!same)
    {
      // numerically equal states (-0 == 0) count as equal for operator==
      const Lay a = actual(raw_of(X), X.node), b = actual(raw_of(Y), Y.node);
      same = a.si == b.si && a.ix == b.ix && a.el == b.el;
    }
    visit(X, [&](auto& x, auto NX)
    {
      constexpr int nx = decltype(NX)::value;
      auto& y = static_cast<ObjT<nx>&>(Y);
      const bool eq = (y.mat == x.mat);
      if(eq != same) { fail_once(opn + ": operator== disagrees with the comparison of the raw states", std::string("operator== says ") + (eq ? "equal" : "different")); ok = false; return; }
      if(!same) return;
      // change one value of the result (if it does not share its data with the source) and compare again
      auto& e = y.mat._elements;
      if(e.empty() || y.mat._elements_size[0] == 0 || e[0] == x.mat._elements[0]) return;
      std::vector<Index> probes;
      if constexpr(NodeT<nx>::fmt == F_BAND)
      {
        const Raw ry = raw_of(Y); const Index m = ry.si[1], n = ry.si[2];
        for(size_t b = 0; b < ry.ix[0].size(); ++b) for(Index i = 0; i < m; ++i) if(band_valid(m, n, ry.ix[0][b], i)) probes.push_back(Index(b) * m + i);
        if(probes.size() > 2) { const Index f = probes.front(), l = probes.back(); probes = {f, l}; }
      }
      else { probes.push_back(0); if(y.mat._elements_size[0] > 1) probes.push_back(y.mat._elements_size[0] - 1); }
      bool eq2 = false;
      for(Index pos : probes)
      {
        const auto old = e[0][pos];
        e[0][pos] = (old == typename std::remove_const<decltype(old)>::type(0)) ? typename std::remove_const<decltype(old)>::type(1) : -old;   // a value that certainly compares different
        if(y.mat == x.mat) eq2 = true;
        e[0][pos] = old;
      }
      if(eq2) { fail_once(opn + ": operator== still true after a stored value was changed", ""); ok = false; }
    });
    c.count("operator_eq_observations");
    return ok;
  }

  /// MemoryPool bookkeeping of the result: every array registered with the rounded byte size and exactly one reference
  /// per holder (the result itself plus the source if it shares the array)
  bool check_pool(const Raw& ry, const Raw* rx, int node, const std::string& opn)
  {
    bool ok = true; size_t q = 0;
    for(int pass = 0; pass < 2; ++pass)
    {
      const auto& ptr = pass ? ry.ip : ry.ep; const auto& arr_ix = ry.ix; const auto& arr_el = ry.el;
      for(size_t k = 0; k < ptr.size(); ++k)
      {
        if(!ptr[k]) continue;
        if(q + 1 >= ry.pool.size()) return ok;
        const u64 cnt = ry.pool[q], bytes = ry.pool[q + 1]; q += 2;
        const u64 n = pass ? arr_ix[k].size() : arr_el[k].size();
        const u64 eb = pass ? (node_it[node] ? 4 : 8) : (node_dt[node] ? 4 : 8);
        const u64 want_bytes = (n % 4 == 0 ? n : n + 4 - n % 4) * eb;
        u64 holders = 1;
        if(rx) { for(auto x : rx->ep) if(x == ptr[k]) ++holders; for(auto x : rx->ip) if(x == ptr[k]) ++holders; }
        if(cnt == 0) { fail_once(opn + ": array of the result is not registered in MemoryPool", ""); ok = false; }
        else if(cnt != holders) { fail_once(opn + ": MemoryPool reference count of a result array differs from the number of containers holding it", "count=" + std::to_string(cnt) + " holders=" + std::to_string(holders)); ok = false; }
        else if(bytes != want_bytes) { fail_once(opn + ": MemoryPool byte size of a result array differs from its length", "bytes=" + std::to_string(bytes) + " expected=" + std::to_string(want_bytes)); ok = false; }
      }
    }
    c.count("pool_bookkeeping_checks");
    return ok;
  }
  void check_pool_empty(const char* where)
  {
    if(MemoryPool::_pool.empty()) return;
    fail_once(std::string("MemoryPool not empty ") + where + " (leaked or over-counted array)", "chunks=" + std::to_string(MemoryPool::_pool.size()));
    while(!MemoryPool::_pool.empty()) { auto it = MemoryPool::_pool.begin(); ::free(it->first); MemoryPool::_pool.erase(it); }
  }

  /// pointer identity and write-through behaviour between the result Y and its source X
  bool check_aliasing(Obj& X, const Raw& rx, Obj& Y, const Raw& ry, int exp, const std::string& opn, bool values_defined)
  {
    bool ok = true;
    auto shared = [](const std::vector<const void*>& a, const std::vector<const void*>& b, bool& any, bool& all)
    {
      any = false; all = true; size_t nn = 0;
      for(size_t k = 0; k < a.size(); ++k)
      {
        if(a[k] == nullptr) continue;
        ++nn;
        const bool eq = (k < b.size() && a[k] == b[k]);
        bool elsewhere = false; for(auto p : b) if(p == a[k]) elsewhere = true;
        any = any || eq || elsewhere; all = all && eq;
      }
      if(nn == 0) all = false;
      return nn > 0;
    };
    bool any = false, all = false;
    if(shared(ry.ep, rx.ep, any, all))
    {
      if((exp & 1) && !all) { fail_once(opn + ": data array not shared with the source (val() pointers differ)", ""); ok = false; }
      if(!(exp & 1) && any) { fail_once(opn + ": data array unexpectedly shared with the source", ""); ok = false; }
    }
    if(shared(ry.ip, rx.ip, any, all))
    {
      if((exp & 2) && !all) { fail_once(opn + ": index arrays not shared with the source", ""); ok = false; }
      if(!(exp & 2) && any) { fail_once(opn + ": index arrays unexpectedly shared with the source", ""); ok = false; }
    }
    // write through the result, observe the source
    if(values_defined) scale_values(Y, -1.0); else fill_values(Y, 3.0);
    const Raw rx2 = raw_of(X);
    bool changed = false;
    for(size_t k = 0; k < rx.el.size(); ++k)
      if(!rx.el[k].empty() && memcmp(rx.el[k].data(), rx2.el[k].data(), rx.el[k].size() * sizeof(double)) != 0) changed = true;
    const bool nonzero = true;   // the probe flips signs, which changes the bit pattern of every value including zeros
    if(nonzero || !values_defined)
    {
      const bool has_data = !rx.el.empty() && !rx.el[0].empty();
      if((exp & 1) && has_data && values_defined && !changed) { fail_once(opn + ": write through the result is not visible in the source (should alias)", ""); ok = false; }
      if(!(exp & 1) && changed) { fail_once(opn + ": write through the result changed the source (should be value-independent)", ""); ok = false; }
    }
    if(rx2.ix != rx.ix || rx2.si != rx.si) { fail_once(opn + ": source layout changed by a write through the result", ""); ok = false; }
    if(values_defined) scale_values(Y, -1.0);
    {
      // the other direction: write through the source, observe the result
      const Raw ry1 = raw_of(Y);
      scale_values(X, -1.0);
      const Raw ry2 = raw_of(Y);
      bool ychanged = false;
      for(size_t k = 0; k < ry1.el.size() && k < ry2.el.size(); ++k)
        if(!ry1.el[k].empty() && memcmp(ry1.el[k].data(), ry2.el[k].data(), ry1.el[k].size() * sizeof(double)) != 0) ychanged = true;
      const bool has_data = !rx.el.empty() && !rx.el[0].empty();
      if((exp & 1) && has_data && nonzero && !ychanged) { fail_once(opn + ": write through the source is not visible in the result (should alias)", ""); ok = false; }
      if(!(exp & 1) && ychanged) { fail_once(opn + ": write through the source changed the result (should be value-independent)", ""); ok = false; }
      if(ry2.ix != ry1.ix || ry2.si != ry1.si) { fail_once(opn + ": result layout changed by a write through the source", ""); ok = false; }
      scale_values(X, -1.0);
    }
    c.count("aliasing_probes");
    return ok;
  }

  // ---------------------------------------------------------------------------------------------- relatives / target reuse
  static std::string okey(Obj& o) { return key_of(actual(raw_of(o), o.node), o.node); }

  /// a matrix of the shape of R (and, except for Banded, its nnz) for the target to be a relative of:
  /// kind 0 = same pattern, 1 = columns reversed (block-wise); other values
  static Model other_matrix(const Model& R, int kind)
  {
    Model T = R;
    const Index bw = Index(R.bw()), BN = R.n / bw;
    for(Index i = 0; i < R.m; ++i) for(Index j = 0; j < R.n; ++j)
    {
      const Index sj = (kind == 1) ? (BN - 1 - j / bw) * bw + j % bw : j;
      T.S[i * R.n + j] = R.S[i * R.n + sj];
      T.D[i * R.n + j] = R.S[i * R.n + sj] ? -(pos_value(i, j) + 16.0) : 0.0;
    }
    if(R.fmt() == F_BAND)
    {
      std::set<long> d;
      for(Index i = 0; i < T.m; ++i) for(Index j = 0; j < T.n; ++j) if(T.S[i * T.n + j]) d.insert(long(j) - long(i));
      for(Index i = 0; i < T.m; ++i) for(Index j = 0; j < T.n; ++j) if(d.count(long(j) - long(i))) T.S[i * T.n + j] = 1;
    }
    return T;
  }

  void relatives_phase(const std::vector<Op>& hist, const Model& M, const std::string& kx)
  {
    if(M.nnz() == 0) { c.count("relatives_phase_skipped_entry_free"); return; }
    const int ns = M.node;
    lazy_hist = &hist; lazy_op = nullptr; lazy_model = nullptr;
    // ---- in-place structural operations, in both directions
    std::vector<Op> inplace;
    if(has_permute(ns))
    {
      const int np = int(perms(M.m / Index(M.bh())).size()), nq = int(perms(M.n / Index(M.bw())).size());
      const int cand[3][2] = {{np - 1, nq - 1}, {1 % np, 0}, {0, 1 % nq}};
      for(auto& pq : cand)
      {
        bool dup = (pq[0] == 0 && pq[1] == 0);
        for(auto& o : inplace) if(o.k == O_PERM && o.a == pq[0] && o.b == pq[1]) dup = true;
        if(!dup) inplace.push_back(Op{O_PERM, pq[0], pq[1]});
      }
    }
    if(node_fmt[ns] == F_DENSE) inplace.push_back(Op{O_TRANS, 2, 0});
    if(node_fmt[ns] == F_CSR) inplace.push_back(Op{O_SHRINK, 0, 0});
    for(const Op& o : inplace)
    {
      Model M2 = M; model_step(M2, o);
      const std::string& opn = op_name(o, ns);
      {
        // the operation is applied to the matrix while relatives of it are alive
        Model Mt; ObjP X = replay(hist, Mt);
        ObjP B[4]; std::string kb[4];
        for(int rk = 0; rk < 4; ++rk)
        {
          B[rk] = make_relative(*X, rk);
          if(!B[rk]) continue;
          if(rk == R_LAYOUT || rk == R_CTOR_LAYOUT) write_values(*B[rk], [](Index i) { return 100.0 + double(i); });
          kb[rk] = okey(*B[rk]);
        }
        ObjP Y = apply_op(o, X, M);
        c.count("transitions"); c.count("relative_scenarios");
        if(!Y) continue;
        const Raw ry = raw_of(*Y);
        check_state(*Y, ry, M2, opn + " [relatives of the matrix alive]", M, true);
        for(int rk = 0; rk < 3; ++rk) if(B[rk])
        {
          c.count("bystanders_checked");
          if(okey(*B[rk]) != kb[rk]) fail_once(opn + " in place: changes a " + rel_name[rk] + " of the matrix it is applied to", "bystander now " + lay_str(actual(raw_of(*B[rk]), ns)));
        }
        if(B[R_SHALLOW])
        {
          c.count("bystanders_checked");
          const Raw rs = raw_of(*B[R_SHALLOW]);
          const bool unchanged = okey(*B[R_SHALLOW]) == kb[R_SHALLOW];
          bool aliased = rs.ep == ry.ep && rs.ip == ry.ip;
          if(!unchanged && !aliased) fail_once(opn + " in place: Shallow clone is neither unchanged nor an alias of the result", "");
          if(structure_error(rs, ns) != "" ) fail_once(opn + " in place: Shallow clone left with a structurally invalid layout", structure_error(rs, ns));
        }
      }
      for(int rk = 0; rk < 3; ++rk)
      {
        // the operation is applied to a relative, the matrix watches
        Model Mt; ObjP X = replay(hist, Mt);
        ObjP T = make_relative(*X, rk);
        if(!T) continue;
        if(rk != R_WEAK) { const Raw rx = raw_of(*X); write_values(*T, [&](Index i) { return rx.el[0][i]; }); }
        ObjP Y = apply_op(o, T, M);
        c.count("transitions"); c.count("relative_scenarios"); c.count("bystanders_checked");
        if(!Y) continue;
        const Raw ry = raw_of(*Y);
        check_state(*Y, ry, M2, opn + " applied to a " + rel_name[rk], M, true);
        if(okey(*X) != kx) fail_once(opn + " applied to a " + rel_name[rk] + ": changes the matrix it was made from", "source now " + lay_str(actual(raw_of(*X), ns)));
      }
    }
    // ---- self-aliasing: the matrix itself is the source of an operation that writes into it (x.op(x)), wherever the
    //      API does not forbid it (clone(x) of itself aborts by contract)
    {
      std::vector<Op> selfops;
      if(transpose_target(ns) == ns) selfops.push_back(Op{O_TRANS, 0, 0});
      selfops.push_back(Op{O_CONV, ns, 0});
      if(has_layout(ns)) selfops.push_back(Op{O_LAYOUT, 1, 0});
      selfops.push_back(Op{O_COPY, 0, 0}); selfops.push_back(Op{O_COPY, 1, 0});
      c.excluded("x.clone(x, mode): self-clone aborts by contract");
      for(const Op& o : selfops)
      {
        Model M2 = M; model_step(M2, o);
        const std::string opn = op_name(o, ns) + " with the matrix itself as source (x.op(x))";
        const bool defined = (o.k != O_LAYOUT);
        Model Mt; ObjP X = replay(hist, Mt);
        ObjP Y = apply_op(o, X, M, &X);
        c.count("transitions"); c.count("relative_scenarios"); c.count("self_aliasing_operations");
        if(!Y) { fail_once(opn + ": harness could not apply", ""); continue; }
        const Raw ry = raw_of(*Y);
        if(o.k == O_CONV && okey(*Y) != kx) { fail_once(std::string("x.convert(x) ") + node_name[ns] + ": the matrix is not preserved", "now " + lay_str(actual(ry, ns))); continue; }
        if(check_state(*Y, ry, M2, opn, M, defined)) check_pool(ry, nullptr, Y->node, opn);
      }
    }
    // ---- convert_reverse: the values of a CSR matrix are written back into a matrix of the same layout (set_line_reverse)
    if(node_fmt[ns] == F_CSR)
    {
      Model Mt; ObjP X = replay(hist, Mt);
      ObjP T = make_relative(*X, R_LAYOUT);
      if(T)
      {
        write_values(*T, [](Index i) { return 400.0 + double(i); });
        visit(*X, [&](auto& x, auto NX)
        {
          constexpr int nx = decltype(NX)::value;
          if constexpr(NodeT<nx>::fmt == F_CSR) x.mat.convert_reverse(static_cast<ObjT<nx>&>(*T).mat);
        });
        c.count("transitions"); c.count("relative_scenarios"); c.count("convert_reverse_checks");
        const Raw rt = raw_of(*T);
        const std::string opn = std::string("convert_reverse ") + node_name[ns] + " into a Layout clone";
        check_state(*T, rt, M, opn, M, true);
        if(okey(*X) != kx) fail_once(opn + ": source matrix modified", "");
      }
    }
    if(ns == N_B23_D64 || ns == N_B32_D64)
    {
      // CSR made from the BCSR matrix writes its values back into a BCSR matrix of the same layout (BCSR::set_line_reverse)
      Model Mt; ObjP X = replay(hist, Mt);
      ObjP T = make_relative(*X, R_LAYOUT);
      if(T)
      {
        write_values(*T, [](Index i) { return 500.0 + double(i); });
        visit(*X, [&](auto& x, auto NX)
        {
          constexpr int nx = decltype(NX)::value;
          if constexpr(nx == N_B23_D64 || nx == N_B32_D64)
          {
            SparseMatrixCSR<double, u64> csr; csr.convert(x.mat);
            csr.convert_reverse(static_cast<ObjT<nx>&>(*T).mat);
          }
        });
        c.count("transitions"); c.count("relative_scenarios"); c.count("convert_reverse_checks");
        const Raw rt = raw_of(*T);
        const std::string opn = std::string("CSR(x).convert_reverse into a Layout clone of ") + node_name[ns];
        check_state(*T, rt, M, opn, M, true);
        if(okey(*X) != kx) fail_once(opn + ": source matrix modified", "");
      }
    }
    // ---- copy(x, full) into existing targets of the same layout
    for(int full = 0; full < 2; ++full)
    {
      const Op o{O_COPY, full, 0};
      const std::string& opn0 = op_name(o, ns);
      for(int tv = 0; tv < 3; ++tv)
      {
        Model Mt; ObjP X = replay(hist, Mt);
        ObjP Sb, T; std::string ks;
        if(tv == 0) { T = make_relative(*X, R_LAYOUT); if(T) write_values(*T, [](Index i) { return 300.0 + double(i); }); }
        else if(tv == 1) { T = make_derived(D_DEEP, X); if(T) scale_values(*T, -1.0); }
        else { Sb = build_object(other_matrix(M, 0)); if(Sb) { T = make_relative(*Sb, R_WEAK); ks = okey(*Sb); } }
        if(!T) continue;
        static const char* tn[3] = {" into a Layout clone of the source", " into an independent matrix of the same layout", " into a Weak clone of another matrix with the same pattern"};
        const std::string opn = opn0 + tn[tv];
        ObjP Y = apply_op(o, X, M, &T);
        c.count("transitions"); c.count("relative_scenarios"); c.count("bystanders_checked");
        if(!Y) continue;
        const Raw ry = raw_of(*Y);
        check_state(*Y, ry, M, opn, M, true);
        if(okey(*X) != kx) fail_once(opn + ": source matrix modified", "");
        if(Sb && okey(*Sb) != ks) fail_once(opn + ": changes that other matrix", "");
      }
    }
    // ---- operations with an explicit target, executed into an existing target that has relatives
    std::vector<Op> ops;
    ops_for(M, ops, c, false);
    for(const Op& o : ops)
    {
      if(!(o.k == O_CONV || is_clone(o) || (o.k == O_LAYOUT && o.a == 1) || o.k == O_GRAPH || o.k == O_MIRROR || (o.k == O_TRANS && o.a == 0))) continue;
      Model M2 = M; model_step(M2, o);
      const int nt = M2.node;
      const std::string& opn = op_name(o, ns);
      const bool defined = op_defined(o, M.node);
      const bool idx_defined = !(is_clone(o) && o.a == int(CloneMode::Allocate));
      {
        // the same call a second time on the already filled target
        Model Mt; ObjP X = replay(hist, Mt);
        ObjP T = apply_op(o, X, M);
        if(T && T->node == nt)
        {
          ObjP Y = apply_op(o, X, M, &T);
          c.count("transitions"); c.count("relative_scenarios"); c.count("second_invocations");
          if(Y) { const Raw ry = raw_of(*Y); check_state(*Y, ry, M2, opn + " repeated on the already filled target", M, defined, idx_defined); const Raw rxx = raw_of(*X); check_pool(ry, &rxx, Y->node, opn + " repeated on the already filled target"); }
          if(okey(*X) != kx) fail_once(opn + " repeated on the already filled target: source matrix modified", "");
        }
      }
      static const int var_trans[7][2] = {{0, R_WEAK}, {1, R_WEAK}, {0, R_LAYOUT}, {1, R_LAYOUT}, {1, R_CTOR_LAYOUT}, {2, R_WEAK}, {2, R_LAYOUT}};
      static const int var_other[3][2] = {{1, R_WEAK}, {0, R_LAYOUT}, {2, R_WEAK}};
      const int nvar = (o.k == O_TRANS) ? 7 : 3;
      for(int vi = 0; vi < nvar; ++vi)
      {
        const int skind = (o.k == O_TRANS) ? var_trans[vi][0] : var_other[vi][0];
        const int rk = (o.k == O_TRANS) ? var_trans[vi][1] : var_other[vi][1];
        if(skind == 2 && (nt != ns || !(o.k == O_TRANS || o.k == O_CONV))) continue;
        Model Mt; ObjP X = replay(hist, Mt);
        ObjP Sb, T; std::string ks;
        if(skind == 2) T = make_relative(*X, rk);
        else
        {
          const Model Ms = other_matrix(M2, skind);
          if(Ms.nnz() == 0) continue;
          Sb = build_object(Ms);
          if(!Sb) continue;
          T = make_relative(*Sb, rk);
          ks = okey(*Sb);
        }
        if(!T) continue;
        if(rk != R_WEAK) write_values(*T, [](Index i) { return 200.0 + double(i); });
        ObjP Y = apply_op(o, X, M, &T);
        c.count("transitions"); c.count("relative_scenarios"); c.count("bystanders_checked");
        if(!Y) continue;
        const std::string how = skind == 2 ? std::string(" into target = ") + rel_name[rk] + " of the source"
          : std::string(" into an existing target (") + rel_name[rk] + " of another matrix with " + (skind == 0 ? "the result's pattern" : "another pattern") + ")";
        const Raw ry = raw_of(*Y);
        check_state(*Y, ry, M2, opn + how, M, defined, idx_defined);
        if(Sb && okey(*Sb) != ks) fail_once(opn + how + ": changes that other matrix", "bystander now " + lay_str(actual(raw_of(*Sb), nt)));
        if(okey(*X) != kx) fail_once(opn + how + ": source matrix modified", "source now " + lay_str(actual(raw_of(*X), ns)));
      }
    }
  }

  /// Leaf check for the formats whose typed nodes differ in DT and IT at once: cross-type clone into the same format
  /// with only the index type changed (data arrays keep their type, so a wrong shortcut would alias them).
  void xclone_it_leaves(Obj& X, const Raw& rx, const Model& M, const std::string& kx)
  {
    if(M.fmt() == F_CSR) return;
    visit(X, [&](auto& x, auto NS)
    {
      constexpr int ns = decltype(NS)::value;
      typedef typename NodeT<ns>::type MS; typedef typename MS::DataType DT; typedef typename MS::IndexType IT;
      typedef typename std::conditional<std::is_same<IT, u64>::value, u32, u64>::type IT2;
      if constexpr(NodeT<ns>::fmt != F_CSR)
      {
        typedef typename MS::template ContainerType<DT, IT2> MT2;
        for(int mode = 0; mode < 5; ++mode)
        {
          const std::string opn = std::string("cross-index-type clone(") + clone_name[mode] + ") " + node_name[ns];
          MT2 y;
          y.clone(x.mat, CloneMode(mode));
          c.count("transitions"); c.count("cross_index_type_clone_leaves");
          const Raw ry = get_raw(y);
          const bool copies = mode == int(CloneMode::Deep) || mode == int(CloneMode::Weak) || mode == int(CloneMode::Shallow);
          bool same = ry.si == rx.si && ry.el.size() == rx.el.size() && ry.ix.size() == rx.ix.size() && ry.sizes_ok;
          for(size_t k = 0; same && k < rx.el.size(); ++k) same = ry.el[k].size() == rx.el[k].size() && (!copies || ry.el[k] == rx.el[k]);
          for(size_t k = 0; same && k < rx.ix.size(); ++k) same = ry.ix[k].size() == rx.ix[k].size() && (mode == int(CloneMode::Allocate) || ry.ix[k] == rx.ix[k]);
          if(!same) { fail_once(opn + ": clone differs from its source", ""); continue; }
          const bool alias = mode == int(CloneMode::Shallow);
          bool shared = false, ishared = false;
          for(size_t k = 0; k < rx.ep.size(); ++k) if(rx.ep[k] && ry.ep[k] == rx.ep[k]) shared = true;
          for(size_t k = 0; k < rx.ip.size(); ++k) for(auto q : ry.ip) if(rx.ip[k] && q == rx.ip[k]) ishared = true;
          const bool has_data = !rx.el.empty() && !rx.el[0].empty();
          if(has_data && shared != alias) fail_once(opn + (alias ? ": data array not shared with the source" : ": data array unexpectedly shared with the source"), "");
          if(ishared) fail_once(opn + ": index arrays of different type shared with the source", "");
          const bool nonzero = true;
          if(has_data && nonzero)
          {
            auto scale_y = [&](double f) { for(size_t k = 0; k < y._elements.size(); ++k) for(Index i = 0; i < y._elements_size[k]; ++i) y._elements[k][i] = DT(double(y._elements[k][i]) * f); };
            if(copies)
            {
              scale_y(-1.0);
              const bool xch = okey(X) != kx;
              scale_y(-1.0);
              if(xch != alias) fail_once(opn + (alias ? ": write through the clone is not visible in the source (should alias)" : ": write through the clone changed the source (should be value-independent)"), "");
            }
            scale_values(X, -1.0);
            const Raw ry2 = get_raw(y);
            scale_values(X, -1.0);
            bool ych = false;
            for(size_t k = 0; k < ry.el.size(); ++k) if(!ry.el[k].empty() && memcmp(ry.el[k].data(), ry2.el[k].data(), ry.el[k].size() * sizeof(double)) != 0) ych = true;
            if(ych != alias) fail_once(opn + (alias ? ": write through the source is not visible in the clone (should alias)" : ": write through the source changed the clone (should be value-independent)"), "");
          }
          if(okey(X) != kx) fail_once(opn + ": source matrix modified", "");
        }
      }
    });
  }

  // ---------------------------------------------------------------------------------------------- derived objects
  enum { D_WEAK = 0, D_SHALLOW, D_DEEP, D_MOVE_CTOR, D_MOVE_ASSIGN, D_CONVERT_SAME, D_ROUNDTRIP, D_N };
  static const char* derived_name(int k)
  {
    static const char* n[D_N] = {"Weak clone", "Shallow clone", "Deep clone", "move-constructed copy", "move-assigned copy", "same-type convert()", "convert to another DT/IT and back"};
    return n[k];
  }
  /// copy-like derivation of *X; X stays alive as the bystander (hollow after the two moves)
  static ObjP make_derived(int kind, ObjP& X)
  {
    ObjP R;
    visit(*X, [&](auto& x, auto NS)
    {
      constexpr int ns = decltype(NS)::value;
      typedef typename NodeT<ns>::type MS;
      auto y = std::make_unique<ObjT<ns>>();
      switch(kind)
      {
      case D_WEAK: y->mat.clone(x.mat, CloneMode::Weak); break;
      case D_SHALLOW: y->mat.clone(x.mat, CloneMode::Shallow); break;
      case D_DEEP: y->mat.clone(x.mat, CloneMode::Deep); break;
      case D_MOVE_CTOR: { MS tmp(std::move(x.mat)); y->mat = std::move(tmp); break; }
      case D_MOVE_ASSIGN: y->mat.clone(x.mat, CloneMode::Deep); y->mat = std::move(x.mat); break;
      case D_CONVERT_SAME: y->mat.convert(x.mat); break;
      case D_ROUNDTRIP:
      {
        bool done = false;
        for_each_node([&](auto NT)
        {
          constexpr int nt = decltype(NT)::value;
          if constexpr(xclone_ok(ns, nt) && xclone_ok(nt, ns))
          {
            if(!done) { typename NodeT<nt>::type tmp; tmp.convert(x.mat); y->mat.convert(tmp); done = true; }
          }
        });
        if(!done) return;
        break;
      }
      }
      R = std::move(y);
    });
    return R;
  }

  /// pattern "derived objects": every copy-like derivation of the state gets the core operation set applied to it while
  /// the source is alive; results must match the reference, the source must stay intact
  void derived_phase(const std::vector<Op>& hist, const Model& M, const std::string& kx)
  {
    if(M.nnz() == 0) return;
    lazy_hist = &hist; lazy_op = nullptr; lazy_model = nullptr;
    const int ns = M.node;
    // values that went through a float container are rounded: the round trip is only the identity on representable values
    Model Mrt = M; for(double& v : Mrt.D) v = double(float(v));
    std::vector<Op> all, core;
    ops_for(M, all, c, false);
    int nperm = 0;
    for(const Op& o : all)
    {
      if(o.k == O_PERM) { if(o.a == 0 && o.b == 0) continue; if(++nperm % 13 != 1) continue; }
      if(o.k == O_CLONE && (o.a == int(CloneMode::Layout) || o.a == int(CloneMode::Allocate))) continue;
      if(o.k == O_XCLONE && !(o.a == int(CloneMode::Weak) || o.a == int(CloneMode::Deep))) continue;
      if(o.k == O_LAYOUT && o.a != 0) continue;
      core.push_back(o);
    }
    for(int kind = 0; kind < D_N; ++kind)
    {
      const bool moved = (kind == D_MOVE_CTOR || kind == D_MOVE_ASSIGN);
      const bool full_alias = (kind == D_SHALLOW || kind == D_CONVERT_SAME);
      const bool lossy = (kind == D_ROUNDTRIP && key_of(expected(Mrt), ns) != key_of(expected(M), ns));
      if(lossy) { c.count("derived_roundtrips_skipped_lossy"); continue; }
      const std::string dn = derived_name(kind);
      {
        // the derivation itself
        Model Mt; ObjP X = replay(hist, Mt);
        ObjP Y = make_derived(kind, X);
        if(!Y) continue;
        c.count("transitions"); c.count("derived_objects");
        const Raw ry = raw_of(*Y);
        if(!check_state(*Y, ry, M, std::string("derived object (") + dn + ") of " + node_name[ns], M, true)) continue;
        const Raw rx = raw_of(*X);
        if(moved) { if(!rx.ep.empty() || !rx.ip.empty()) fail_once(std::string("moved-from ") + node_name[ns] + " still holds arrays", ""); }
        else if(okey(*X) != kx) fail_once(std::string("derived object (") + dn + ") of " + node_name[ns] + ": source matrix modified", "");
      }
      for(const Op& o : core)
      {
        Model Mt; ObjP X = replay(hist, Mt);
        ObjP Y = make_derived(kind, X);
        if(!Y) break;
        Model M2 = M; model_step(M2, o);
        const std::string opn = op_name(o, ns) + " applied to a " + dn;
        const bool mut = is_mutating(o);
        ObjP Z = apply_op(o, Y, M);
        c.count("transitions"); c.count("derived_object_operations");
        if(!Z) continue;
        const Raw rz = raw_of(*Z);
        const bool defined = op_defined(o, M.node);
        check_state(*Z, rz, M2, opn, M, defined, !(is_clone(o) && o.a == int(CloneMode::Allocate)));
        if(!mut && okey(*Y) != kx) fail_once(opn + ": the operand itself was modified", "");
        if(!moved && !(mut && full_alias) && okey(*X) != kx) fail_once(opn + ": changes the matrix the operand was derived from", "now " + lay_str(actual(raw_of(*X), ns)));
      }
    }
  }

  ObjP replay(const std::vector<Op>& h, Model& M)
  {
    M = start_model(st);
    ObjP X = start_object(st, M);
    for(const Op& o : h) { ObjP Y = apply_op(o, X, M); model_step(M, o); X = std::move(Y); }
    return X;
  }

  int derived_depth = 1;
  void run(int max_depth)
  {
    Model M0 = start_model(st);
    cur_hist.clear();
    {
      ObjP X0 = start_object(st, M0);
      Raw r0 = raw_of(*X0);
      if(!check_state(*X0, r0, M0, std::string("start state ") + node_name[st.node], M0, true)) return;
    }
    std::unordered_set<std::string> seen;
    std::vector<Frontier> frontier(1), next;
    { Model Mt; ObjP X = replay({}, Mt); frontier[0].key = key_of(actual(raw_of(*X), X->node), X->node); }
    seen.insert(frontier[0].key);
    c.count("states");
    std::vector<Op> ops;
    for(int depth = 0; depth < max_depth && !frontier.empty(); ++depth)
    {
      next.clear();
      for(const Frontier& fr : frontier)
      {
        if(c.cut()) { c.capped("deadline inside BFS"); return; }
        c.heartbeat();
        lazy_hist = &fr.hist; lazy_op = nullptr; lazy_model = nullptr;
        check_pool_empty("after all containers of the previous state were destroyed");
        Model M;
        ObjP X = replay(fr.hist, M);
        const Raw rx = raw_of(*X);
        const std::string kx = key_of(actual(rx, X->node), X->node);
        // canonicalisation stable: the replayed state has the key it had when it was discovered
        c.count("replays_checked");
        if(kx != fr.key) { lazy_hist = &fr.hist; lazy_op = nullptr; fail_once("replay of a history reached a different implementation state (nondeterminism)", ""); continue; }
        ops_for(M, ops, c, true);
        for(const Op& o : ops)
        {
          lazy_hist = &fr.hist; lazy_op = &o; lazy_model = &M;
          const std::string& opn = op_name(o, M.node);
          Model M2 = M; model_step(M2, o);
          const bool mut = is_mutating(o);
          const bool leaf = is_leaf(o);
          const bool defined = op_defined(o, M.node);
          const bool idx_defined = !(is_clone(o) && o.a == int(CloneMode::Allocate));
          // generic convert(MT_) between CSR and CSCR with an empty row: reads beyond the initialised part of its
          // temporary row pointer on the pinned tree (undefined behaviour, differs from process to process), so the
          // transition is executed and checked in a child only and not expanded; the same CSCR states are reached
          // through CSCR(csr,mirror), the same CSR states are the ones the CSCR matrix came from
          const bool child_only = false;   // (was needed while the generic CSR<->CSCR conversion had undefined behaviour for empty rows)
          const bool risky = (M.nnz() == 0);
          if(risky)
          {
            // operations on entry-free operands (and the generic CSCR conversions with empty rows) may dereference
            // absent arrays or write out of bounds: execute and check the whole transition in a child first
            shm()[0] = 0;
            const int sig = c.run_forked([&]
            {
              in_child = true;
              Model Mt; ObjP Xt = replay(fr.hist, Mt); ObjP Yt = apply_op(o, Xt, Mt);
              if(!Yt) _exit(9);
              const Raw rt = raw_of(*Yt);
              _exit(check_state(*Yt, rt, M2, opn, M, defined, idx_defined) ? 0 : 7);
            });
            c.count("guarded_transitions");
            if(sig != 0)
            {
              c.count("transitions");
              if(child_only)
              {
                // undefined behaviour shows up as a wrong layout, wrong values or a crash depending on heap contents: one key
                std::string detail = sig == 1007 ? std::string(shm()).substr(0, 1200) : "signal/exit " + std::to_string(sig);
                for(char& ch : detail) if(ch == '\n' || ch == '\t') ch = ' ';
                fail_once(opn + ": wrong result or crash" + qual(M), detail);
                c.outcome("violation");
              }
              else if(sig == 1007)
              {
                std::istringstream in{std::string(shm())}; std::string line;
                while(std::getline(in, line)) { size_t t = line.find('\t'); if(t != std::string::npos) fail_once(line.substr(0, t), line.substr(t + 1)); }
                c.outcome("violation");
              }
              else
              {
                fail_once(opn + ": dies" + qual(M), "the operation aborts or crashes (signal/exit " + std::to_string(sig) + ") instead of producing the matrix");
                c.outcome("op crashes");
              }
              continue;
            }
            if(child_only) { c.count("transitions"); c.count("traces_validated_against_impl"); c.count("child_only_transitions"); c.outcome("leaf:validated in child only"); continue; }
          }
          ObjP Xm; Model Mm;
          if(mut) Xm = replay(fr.hist, Mm);
          g_alt = ((++alt_counter) & 1) != 0;
          ObjP Y = apply_op(o, mut ? Xm : X, M);
          if(g_alt) c.count("alternative_overload_transitions");
          g_alt = false;
          c.count("transitions");
          c.count("traces_validated_against_impl");
          if(!Y) { fail_once(opn + ": harness could not apply", ""); continue; }
          if(defined && (alt_counter & 2)) first_access(*Y, M2, opn);
          const Raw ry = raw_of(*Y);
          bool ok = check_state(*Y, ry, M2, opn, M, defined, idx_defined);
          if(ok) ok = check_pool(ry, mut ? nullptr : &rx, Y->node, opn);
          if(!mut)
          {
            // the source must be untouched (bitwise)
            const Raw rx2 = raw_of(*X);
            if(key_of(actual(rx2, X->node), X->node) != kx) { fail_once(opn + ": source matrix modified" + qual(M), ""); ok = false; }
            if(ok) ok = check_aliasing(*X, rx, *Y, ry, expected_sharing(o, M.node), opn, defined);
          }
          if(ok && !mut && defined && Y->node == X->node && M2.nnz() > 0 && M.nnz() > 0) ok = check_operator_eq(*X, kx, *Y, opn);
          if(!ok) { c.outcome("violation"); continue; }
          // differential oracles
          if(o.k == O_TRANS && !mut)
          {
            Model M3 = M2; Op o2{O_TRANS, 0, 0};
            ObjP Z = apply_op(o2, Y, M3);
            c.count("transitions");
            if(key_of(actual(raw_of(*Z), Z->node), Z->node) != kx) fail_once(opn + ": transpose(transpose(A)) != A" + qual(M), "");
          }
          if(o.k == O_PERM)
          {
            const Index np = M.m / Index(M.bh()), nq = M.n / Index(M.bw());
            Op o2{O_PERM, perm_index(np, inverse_of(perms(np)[size_t(o.a)])), perm_index(nq, inverse_of(perms(nq)[size_t(o.b)]))};
            const std::string ky = key_of(actual(ry, Y->node), Y->node);
            {
              // Permutation::concat against the composition computed in the harness: (P1.concat(P2))[i] = p2[p1[i]]
              for(int side = 0; side < 2; ++side)
              {
                const Index k = side ? nq : np;
                const size_t ia = size_t(side ? o.b : o.a), ib = (ia + 1) % perms(k).size();
                const std::vector<Index>& pa = perms(k)[ia]; const std::vector<Index>& pb = perms(k)[ib];
                Adjacency::Permutation P1(k, Adjacency::Permutation::ConstrType::perm, pa.data()), P2(k, Adjacency::Permutation::ConstrType::perm, pb.data());
                P1.concat(P2);
                bool good = true; for(Index i = 0; i < k; ++i) if(P1.get_perm_pos()[i] != pb[pa[i]]) good = false;
                // the swap array must describe the same permutation: applying it to an array equals gathering with perm_pos
                std::vector<Index> arr(k), want(k); for(Index i = 0; i < k; ++i) arr[i] = 10 + i; for(Index i = 0; i < k; ++i) want[i] = arr[pb[pa[i]]];
                P1.apply(arr.data());
                if(arr != want) good = false;
                if(!good) fail_once("Permutation::concat differs from the composition of the two permutations", "");
              }
              c.count("permutation_concat_checks");
            }
            ObjP Z = apply_op(o2, Y, M2);   // in place: Y is consumed
            c.count("transitions");
            const bool back = key_of(actual(raw_of(*Z), Z->node), Z->node) == kx;
            if(!back) fail_once(opn + ": permute followed by the inverse permutation does not restore the matrix" + qual(M), "");
            if(leaf || !back) continue;
            c.outcome("permute/inverse restores");
            if(seen.insert(ky).second) { c.count("states"); Frontier f2; f2.hist = fr.hist; f2.hist.push_back(o); f2.key = ky; next.push_back(std::move(f2)); }
            c.maxi("depth", uint64_t(depth + 1));
            continue;
          }
          if(leaf) { c.outcome(std::string("leaf:") + (is_clone(o) ? "clone" : o.k == O_LAYOUT ? "layout" : "graph")); continue; }
          const std::string ky = key_of(actual(ry, Y->node), Y->node);
          if(seen.insert(ky).second)
          {
            c.count("states");
            c.maxi("depth", uint64_t(depth + 1));
            Frontier f2; f2.hist = fr.hist; f2.hist.push_back(o); f2.key = ky; next.push_back(std::move(f2));
            c.outcome(std::string("new state in ") + node_name[Y->node]);
          }
          else c.count("transitions_to_known_state");
        }
        lazy_hist = &fr.hist; lazy_op = nullptr; lazy_model = nullptr;
        xclone_it_leaves(*X, rx, M, kx);
        relatives_phase(fr.hist, M, kx);
        if(depth <= derived_depth) derived_phase(fr.hist, M, kx);
        {
          // the phase must leave the state itself untouched
          Model Mz; ObjP Xz = replay(fr.hist, Mz);
          if(okey(*Xz) != kx) fail_once("relatives phase: history no longer reproduces its state (leaked aliasing)", "");
        }
      }
      frontier.swap(next);
    }
    lazy_hist = nullptr; cur_hist = " (end of case)";
    check_pool_empty("at the end of the case");
  }

  std::string hist_str(const std::vector<Op>& h)
  {
    std::string s; Model M = start_model(st);
    for(const Op& o : h) { s += " ; " + op_full(o, M); model_step(M, o); }
    return s;
  }
};

int main(int argc, char** argv)
{
  // fresh heap memory gets a fixed byte pattern: reads of uninitialised array parts behave identically in every
  // process (worker, guarded child, replay) instead of depending on heap history
  mallopt(M_PERTURB, 0xA5);
  Runtime::ScopeGuard guard(argc, argv);
  verif::Spec spec; spec.property = "C02"; spec.harness = "c02_convert";
  spec.rule = "case = start matrix (CSR<double,u64>: every 0/1 pattern of every shape m,n in 1..3 plus entry-free 3x5/5x3/0x0; "
    "BCSR<2,3>: every block pattern of 1..2 x 1..2 blocks plus entry-free 3x5 blocks; DenseMatrix: every shape 1..3 x 1..3); inside a case a BFS over "
    "operation chains (convert between CSR{d,f}x{u64,u32}/Banded/CSCR/BCSR/Dense nodes, clone in 5 modes, transpose, permute with all "
    "P,Q in S_m x S_n, ctor/operator= from layout(), ctor from rendered Graph, CSCR(csr,mirror)) deduplicated on the implementation state "
    "(type node, _scalar_index, _scalar_dt, _foreign_memory, all raw arrays). Per expanded state additionally: cross-type clones, a relatives/target-reuse phase "
    "(every target-writing op into existing targets that are Weak/Layout/layout() relatives of bystanders, repeated on the already filled target; in-place ops "
    "with live relatives), and a derived-objects phase (core op set on Weak/Shallow/Deep clones, move-constructed/-assigned copies, same-type convert, "
    "convert-and-back, with the source alive). Value alphabets: exact dyadics for all patterns; special values (0, -0, +-1, 1e30, -1e-30, 0.1, 3e38, 1e-40, -1/3) and "
    "all-negative values on 3 patterns per shape. Non-trivial case = start matrix with at least one stored entry; hashed by (node, m, n, pattern, alphabet).";
  spec.bounds_quick = "chains up to depth 3 from every start state; all permutations for dimensions <= 3; derived-objects phase for states up to depth 1";
  spec.bounds_thorough = "chains up to depth 4; additionally all CSR patterns of shapes 3x4, 4x3 (depth 2) and BCSR 2x3/3x2 block patterns; derived-objects phase for states up to depth 2";
  spec.assumptions = {
    "reference model: dense value matrix + stored-pattern matrix with op semantics written in the harness (identity / transpose / B(i,j)=A(p(i),q(j)) with p,q the permute-position arrays / band closure for CSR->Banded); exact dyadic values so double<->float is lossless; for the special alphabet the reference rounds values to float exactly where a float container holds them",
    "MemoryPool bookkeeping: every array of a result must be registered with one reference per holding container and the rounded byte size; the pool must be empty after each state's containers are destroyed",
    "alternate transitions use the by-value overloads x.transpose()/x.clone(mode) and the converting constructor, and call operator() as the first access before any raw array is read",
    "excluded (asserted preconditions): Banded::convert(CSR) and generic convert(MT_) of an entry-free matrix, CSCR(csr,mirror) with an empty mirror; operator()(i,j) is not called on entry-free CSR/BCSR (no arrays)",
    "values after clone(Layout/Allocate) and ctor(layout) are undefined by contract: only layout, dimensions and aliasing are compared, the state is not expanded",
    "Banded padding entries outside the matrix are ignored",
    "not exercised (out of the property's scope, covered elsewhere or dead): serialisation / file I/O / checkpoint members of the containers (C05), linear algebra members (axpy, scale, apply, norms, scale_rows/cols, extract_diag, row/column bandwidth and radius: C01/C03), Scatter/GatherAxpy helper classes (C16), operator<<, Container::bytes(), SerialConfig; DenseMatrix::set_line/set_line_reverse/get_length_of_line are unreachable because the generic convert(MT_) does not compile for DenseMatrix",
    "operations on entry-free matrices are first executed in a forked child so that a crash is reported with a specific key instead of killing the search"
  };
  spec.max_fail_per_worker = 100000;
  if(std::getenv("VERIF_MAX_REPORT")) spec.max_report = size_t(atol(std::getenv("VERIF_MAX_REPORT")));
  return verif::run(spec, argc, argv, [&](verif::Ctx& c)
  {
    std::vector<Start> starts;
    // simplest first
    starts.push_back(Start{N_CSR_D64, 0, 0, 0, true});
    for(Index m = 1; m <= 3; ++m) for(Index n = 1; n <= 3; ++n)
      for(u64 p = 0; p < (u64(1) << (m * n)); ++p) starts.push_back(Start{N_CSR_D64, m, n, p, false});
    starts.push_back(Start{N_CSR_D64, 3, 5, 0, false});
    starts.push_back(Start{N_CSR_D64, 5, 3, 0, false});
    for(Index m = 1; m <= 3; ++m) for(Index n = 1; n <= 3; ++n) starts.push_back(Start{N_DENSE_D64, m, n, 0, false});
    for(Index bm = 1; bm <= 2; ++bm) for(Index bn = 1; bn <= 2; ++bn)
      for(u64 p = 0; p < (u64(1) << (bm * bn)); ++p) starts.push_back(Start{N_B23_D64, bm * 2, bn * 3, p, false});
    starts.push_back(Start{N_B23_D64, 6, 15, 0, false});
    // containers made by the allocating constructors (rows, cols, used[, used_rows]) and filled in place; CSCR start states
    // (array ctor, allocating ctor, entry-free ctor) incl. patterns with unused rows
    for(Index m = 1; m <= 3; ++m) for(Index n = 1; n <= 3; ++n)
    {
      const u64 full = (u64(1) << (m * n)) - 1;
      u64 checker = 0, lower = 0, lastrow = 0;
      for(Index i = 0; i < m; ++i) for(Index j = 0; j < n; ++j) { if(((i + j) & 1) == 0) checker |= u64(1) << (i * n + j); if(j <= i) lower |= u64(1) << (i * n + j); if(i + 1 == m) lastrow |= u64(1) << (i * n + j); }
      std::set<u64> ps = {full, checker, lower, lastrow};
      for(u64 q : ps)
      {
        Start a{N_CSR_D64, m, n, q, false}; a.how = 1; starts.push_back(a);
        Start b{N_CSCR_D64, m, n, q, false}; starts.push_back(b);
        Start d{N_CSCR_D64, m, n, q, false}; d.how = 1; starts.push_back(d);
      }
      starts.push_back(Start{N_CSCR_D64, m, n, 0, false});
    }
    { Start a{N_B23_D64, 4, 6, 9, false}; a.how = 1; starts.push_back(a); Start b{N_B23_D64, 4, 6, 15, false}; b.how = 1; starts.push_back(b); }
    // value alphabets 1 (special values) and 2 (all negative) on a few patterns of every shape
    for(int va = 1; va <= 2; ++va)
    {
      for(Index m = 1; m <= 3; ++m) for(Index n = 1; n <= 3; ++n)
      {
        const u64 full = (u64(1) << (m * n)) - 1;
        u64 checker = 0, lower = 0;
        for(Index i = 0; i < m; ++i) for(Index j = 0; j < n; ++j) { if(((i + j) & 1) == 0) checker |= u64(1) << (i * n + j); if(j <= i) lower |= u64(1) << (i * n + j); }
        std::set<u64> ps = {full, checker, lower};
        for(u64 q : ps) starts.push_back(Start{N_CSR_D64, m, n, q, false, va});
      }
      starts.push_back(Start{N_DENSE_D64, 2, 3, 0, false, va});
      starts.push_back(Start{N_DENSE_D64, 3, 3, 0, false, va});
      starts.push_back(Start{N_B23_D64, 4, 6, 15, false, va});
      starts.push_back(Start{N_B23_D64, 2, 6, 2, false, va});
    }
    const size_t n_quick = starts.size();
    if(c.thorough)
    {
      for(u64 p = 1; p < (u64(1) << 12); ++p) starts.push_back(Start{N_CSR_D64, 3, 4, p, false});
      for(u64 p = 1; p < (u64(1) << 12); ++p) starts.push_back(Start{N_CSR_D64, 4, 3, p, false});
      for(u64 p = 1; p < (u64(1) << 6); ++p) starts.push_back(Start{N_B23_D64, 4, 9, p, false});
      for(u64 p = 1; p < (u64(1) << 6); ++p) starts.push_back(Start{N_B23_D64, 6, 6, p, false});
    }
    for(size_t si = 0; si < starts.size(); ++si)
    {
      const Start& s = starts[si];
      if(!c.want()) continue;
      c.desc([&] { return start_desc(s); });
      const int depth = c.thorough ? (si < n_quick ? 4 : 2) : 3;
      Search S(c, s);
      S.derived_depth = c.thorough ? 2 : 1;
      S.run(depth);
      const Model M = start_model(s);
      if(M.nnz() > 0) c.nontrivial(verif::Hash().pod(s.node).pod(s.m).pod(s.n).pod(s.pattern).pod(s.va).pod(s.how).get());
      c.count("bfs_cases");
    }
  });
}
