// c13_sync -- C13 Tier 1 on quadrilateral base meshes (see c13_sync_impl.hpp / c13_core.hpp)
#define C13_FAMILY 0
#define C13_HARNESS "c13_sync"
#include "c13_sync_impl.hpp"
int main(int argc, char** argv) { return c13::main_family(argc, argv); }
