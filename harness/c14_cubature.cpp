// C14 -- every named cubature rule is exact to its nominal degree (library default configuration).
#define C14_HARNESS_NAME "c14_cubature"
#include "c14_body.hpp"
int main(int argc, char** argv) { return c14::main_(argc, argv); }
