// C16 scalar operators/functionals/patterns on the 2D shapes (tria, quad); see c16_assembly_impl.hpp.
#include <c16_assembly_impl.hpp>
int main(int argc, char** argv) { return c16_assembly_main<false>(argc, argv, "c16_assembly"); }
