// c16_history_impl.hpp -- C16: assembly entry points called on objects that already have a structure and hold values.
// For every entry point three histories are executed on real objects:
//   (a) fresh      single call into freshly structured, zeroed objects            -> reference result R
//   (b) refill     a second identical call on the same, already filled objects
//   (c) marker     a call into pre-structured objects pre-filled with a position coded marker M
// and compared with what the entry point documents for existing contents (classification table below):
//   ACC  "assembles into / onto" ([in,out] parameter with scaling factor): result must be old + R
//        (refill: 2R, marker: M + R)
//   FMT  "formats first / gets overwritten": result must not depend on the old contents (refill: R, marker: R, bitwise)
// Outputs of one routine (B and D of GradPresDivVeloAssembler) must be treated alike.
//
// classification (from the doc comments and, where they are silent, from the [in,out]/alpha convention of the class):
//   BilinearOperatorAssembler::assemble_matrix1/2          ACC  ("[in,out] matrix ... alpha: scaling factor")
//   BilinearOperatorAssembler::apply1/apply2               FMT  (result vector is formatted, "ret = alpha * A * x")
//   LinearFunctionalAssembler::assemble_vector             ACC
//   GradPresDivVeloAssembler::assemble  B and D            FMT  (both; structures built if empty)
//   GradOperatorAssembler::assemble (matrix)               FMT  ("[out] matrix_g ... gets overwritten")
//   GradOperatorAssembler::assemble (vector)               ACC  ("[in,out] vec_asm: the vector we assemble onto")
//   BurgersAssembler::assemble_matrix/scalar_matrix/vector ACC  ("[in,out] ... scale")
//   DomainAssembler jobs (bilinear 1/2, linear functional, force, Burgers matrix/vector, scalar matrix/vector) ACC
//   TraceAssembler::assemble_operator_matrix1, assemble_functional_vector  ACC
//   Voxel{Poisson,Defo,Burgers}Assembler (in c16_voxel.cpp) ACC
#pragma once
#include <c16_blocked_impl.hpp>

#include <kernel/assembly/common_functionals.hpp>
#include <kernel/assembly/linear_functional_assembler.hpp>
#include <kernel/assembly/trace_assembler.hpp>

namespace c16h
{
  using namespace FEAT;
  using namespace c16;
  using namespace c16b;

  enum Policy { ACC, FMT };

  // raw value access -----------------------------------------------------------------------------------------------
  inline std::pair<double*, size_t> raw(CSR& m) { return {m.val(), size_t(m.used_elements())}; }
  inline std::pair<double*, size_t> raw(Vec& v) { return {v.elements(), size_t(v.size())}; }
  template<int BH, int BW> std::pair<double*, size_t> raw(BCSR<BH, BW>& m) { return {reinterpret_cast<double*>(m.val()), size_t(m.used_elements()) * size_t(BH * BW)}; }
  template<int N> std::pair<double*, size_t> raw(BVec<N>& v) { return {reinterpret_cast<double*>(v.elements()), size_t(v.size()) * size_t(N)}; }

  inline double marker(size_t k) { return 0.25 + double(k % 7u) / 8.0 - double(k % 3u); }

  /// runs the three histories of one entry point. make(): freshly structured zero object; call(obj): the entry point
  template<typename Make_, typename Call_>
  void history(verif::Ctx& c, const std::string& key, Policy pol, const Make_& make, const Call_& call)
  {
    auto oa = make();
    call(oa);
    auto ra = raw(oa);
    std::vector<double> R(ra.first, ra.first + ra.second);
    double big = 1e-300;
    for(double v : R) big = std::max(big, std::fabs(v));
    c.count("history_entry_points");
    // (b) refill
    call(oa);
    ra = raw(oa);
    {
      double d = 0; size_t at = 0;
      for(size_t k = 0; k < R.size(); ++k)
      {
        double expect = (pol == ACC) ? 2.0 * R[k] : R[k];
        double e = std::fabs(ra.first[k] - expect);
        if(!(e <= d)) { d = e; at = k; }
      }
      const double tol = (pol == ACC) ? 1e-13 * big : 0.0;
      c.check(d <= tol, key + " refill", [&]{ return std::string(pol == ACC ? "documented as accumulating: second call must give 2*R" : "documented as formatting: second call must give R again (bitwise)")
        + ", deviation " + std::to_string(d) + " at value " + std::to_string(at) + " (R=" + std::to_string(R[at]) + ", got " + std::to_string(ra.first[at]) + ")"; });
    }
    // bystander: a layout clone (shares the index arrays, own values) of the target must not be touched by the call
    {
      auto ot = make();
      auto by = ot.clone(LAFEM::CloneMode::Layout);
      auto rb = raw(by);
      for(size_t k = 0; k < rb.second; ++k) rb.first[k] = marker(k + 1);
      call(ot);
      rb = raw(by);
      auto rt = raw(ot);
      bool untouched = true, target_ok = (rt.second == R.size());
      for(size_t k = 0; k < rb.second; ++k) untouched = untouched && (rb.first[k] == marker(k + 1));
      for(size_t k = 0; target_ok && k < R.size(); ++k) target_ok = (rt.first[k] == R[k]);
      c.check(untouched, key + " bystander", "a layout clone of the target taken before the call was modified");
      c.check(target_ok, key + " bystander-target", "assembling into an object that has a layout clone gives another result than into a private object");
    }
    // (c) marker
    auto oc = make();
    auto rc = raw(oc);
    c.check(rc.second == R.size(), key + " layout", "freshly structured objects differ in size (machinery)");
    for(size_t k = 0; k < rc.second; ++k) rc.first[k] = marker(k);
    call(oc);
    rc = raw(oc);
    {
      double d = 0; size_t at = 0;
      for(size_t k = 0; k < R.size() && k < rc.second; ++k)
      {
        double expect = (pol == ACC) ? marker(k) + R[k] : R[k];
        double e = std::fabs(rc.first[k] - expect);
        if(!(e <= d)) { d = e; at = k; }
      }
      const double tol = (pol == ACC) ? 1e-13 * (big + 3.0) : 0.0;
      c.check(d <= tol, key + " marker", [&]{ return std::string(pol == ACC ? "documented as accumulating: result must be marker + R" : "documented as formatting: result must not depend on the old contents")
        + ", deviation " + std::to_string(d) + " at value " + std::to_string(at) + " (marker=" + std::to_string(marker(at)) + ", R=" + std::to_string(R[at]) + ", got " + std::to_string(rc.first[at]) + ")"; });
    }
  }

  /// scaling factor alphabet {0, 1, -1, 0.5}: an accumulating route called with alpha on marker filled objects must give
  /// marker + alpha * R1 (R1 = result for alpha = 1 on zeroed objects); alpha = 0 must leave the object unchanged (bitwise)
  template<typename Make_, typename Call_>
  void alpha_alphabet(verif::Ctx& c, const std::string& key, const Make_& make, const Call_& call)
  {
    auto o1 = make();
    call(o1, 1.0);
    auto r1 = raw(o1);
    std::vector<double> R(r1.first, r1.first + r1.second);
    double big = 1e-300;
    for(double v : R) big = std::max(big, std::fabs(v));
    for(double alpha : {0.0, -1.0, 0.5})
    {
      auto o = make();
      auto r = raw(o);
      for(size_t k = 0; k < r.second; ++k) r.first[k] = marker(k);
      call(o, alpha);
      r = raw(o);
      double d = 0;
      for(size_t k = 0; k < R.size() && k < r.second; ++k) d = std::max(d, std::fabs(r.first[k] - (marker(k) + alpha * R[k])));
      c.count("alpha_checks");
      c.check(d <= (alpha == 0.0 ? 0.0 : 1e-13 * (big + 3.0)), key + " alpha=" + (alpha == 0.0 ? "0" : alpha < 0 ? "-1" : "0.5"), [&]{ return "result is not marker + alpha*R, deviation " + std::to_string(d); });
    }
  }

  template<typename Shape_>
  struct HistoryChecker
  {
    static constexpr int D = Shape_::dimension;
    typedef typename MeshCtx<Shape_>::MeshType MeshType;
    typedef Trafo::Standard::Mapping<MeshType> TrafoType;
    typedef typename VL2::template Space<TrafoType> VeloSpace;
    typedef typename VL1::template Space<TrafoType> PresSpace;

    verif::Ctx& c;
    MeshCtx<Shape_>& mc;
    std::string kp;
    TrafoType trafo;
    VeloSpace velo;
    PresSpace pres;

    HistoryChecker(verif::Ctx& c_, MeshCtx<Shape_>& mc_) : c(c_), mc(mc_), trafo(*mc_.mesh), velo(trafo), pres(trafo)
    {
      kp = std::string(ShapeInfo<Shape_>::name()) + " history ";
    }

    void run()
    {
      const String cn = ShapeInfo<Shape_>::is_simplex ? String("auto-degree:5") : String("gauss-legendre:4");
      Cubature::DynamicFactory cf(cn);
      Assembly::DomainAssembler<TrafoType> dom_asm(trafo);
      dom_asm.set_max_worker_threads(0);
      dom_asm.compile_all_elements();

      // data
      Field<D> vf, pf;
      for(int i = 0; i < D; ++i)
      {
        vf[(size_t)i] = Poly<D>(LD(0.5 * (i + 1))) + Poly<D>::var((i + 1) % D) * LD(0.75) - Poly<D>::var(i) * LD(0.25);
        pf[(size_t)i] = Poly<D>(LD(0.25)) + Poly<D>::var(i) * LD(0.5) + Poly<D>::var(i) * Poly<D>::var((i + 1) % D) * LD(0.125);
      }
      PolyVectorFunction<D, D> vfun(vf), pfun(pf);
      BVec<D> conv, primal;
      Assembly::Interpolator::project(conv, vfun, velo);
      Assembly::Interpolator::project(primal, pfun, velo);
      PolyFunction<D> sfun(pf[0]);
      Vec sprimal, pvec;
      Assembly::Interpolator::project(sprimal, sfun, velo);
      Assembly::Interpolator::project(pvec, sfun, pres);

      auto mk_csr_v = [&]{ CSR m; Assembly::SymbolicAssembler::assemble_matrix_std1(m, velo); m.format(); return m; };
      auto mk_csr_vp = [&]{ CSR m; Assembly::SymbolicAssembler::assemble_matrix_std2(m, velo, pres); m.format(); return m; };
      auto mk_bcsr_v = [&]{ BCSR<D, D> m; Assembly::SymbolicAssembler::assemble_matrix_std1(m, velo); m.format(); return m; };
      auto mk_b = [&]{ BCSR<D, 1> m; Assembly::SymbolicAssembler::assemble_matrix_std2(m, velo, pres); m.format(); return m; };
      auto mk_d = [&]{ BCSR<1, D> m; Assembly::SymbolicAssembler::assemble_matrix_std2(m, pres, velo); m.format(); return m; };
      auto mk_vec_v = [&]{ return Vec(velo.get_num_dofs(), 0.0); };
      auto mk_bvec_v = [&]{ BVec<D> v(velo.get_num_dofs()); v.format(); return v; };

      Assembly::Common::LaplaceOperator lap;
      Assembly::Common::IdentityOperator ident;
      Assembly::Common::DuDvOperatorBlocked<D> dudv;
      Assembly::Common::ForceFunctional<PolyFunction<D>> force(sfun);
      Assembly::Common::ForceFunctional<PolyVectorFunction<D, D>> vforce(vfun);

      // ---- classic bilinear / linear assemblers
      history(c, kp + "bilinear.matrix1", ACC, mk_csr_v, [&](CSR& m) { Assembly::BilinearOperatorAssembler::assemble_matrix1(m, lap, velo, cf, 0.75); });
      history(c, kp + "bilinear.matrix2", ACC, mk_csr_vp, [&](CSR& m) { Assembly::BilinearOperatorAssembler::assemble_matrix2(m, ident, velo, pres, cf, 1.5); });
      history(c, kp + "bilinear.matrix1-blocked", ACC, mk_bcsr_v, [&](BCSR<D, D>& m) { Assembly::BilinearOperatorAssembler::assemble_matrix1(m, dudv, velo, cf); });
      history(c, kp + "bilinear.apply1", FMT, mk_vec_v, [&](Vec& r) { Assembly::BilinearOperatorAssembler::apply1(r, sprimal, lap, velo, cf, 0.5); });
      history(c, kp + "bilinear.apply2", FMT, mk_vec_v, [&](Vec& r) { Assembly::BilinearOperatorAssembler::apply2(r, pvec, ident, velo, pres, cf); });
      history(c, kp + "linfunc.vector", ACC, mk_vec_v, [&](Vec& r) { Assembly::LinearFunctionalAssembler::assemble_vector(r, force, velo, cf, 1.25); });
      history(c, kp + "linfunc.vector-blocked", ACC, mk_bvec_v, [&](BVec<D>& r) { Assembly::LinearFunctionalAssembler::assemble_vector(r, vforce, velo, cf); });

      // ---- gradient / divergence: B and D of one routine have to be treated alike; each history acts on BOTH matrices
      {
        // fresh reference via empty matrices (structures built by the assembler)
        BCSR<D, 1> b0; BCSR<1, D> d0;
        Assembly::GradPresDivVeloAssembler::assemble(b0, d0, velo, pres, cn);
        BCSR<D, 1> bs = mk_b(); BCSR<1, D> ds = mk_d();
        Assembly::GradPresDivVeloAssembler::assemble(bs, ds, velo, pres, cn);
        bool lay = false;
        c.check(max_rel_diff_b<D, 1>(b0, bs, &lay) == 0.0 && lay, kp + "gpdv.B empty-vs-structured", "B differs between automatically and externally structured matrices");
        c.check(max_rel_diff_b<1, D>(d0, ds, &lay) == 0.0 && lay, kp + "gpdv.D empty-vs-structured", "D differs between automatically and externally structured matrices");
        // histories: the partner matrix goes through the same history
        BCSR<1, D> dpart = mk_d(); BCSR<D, 1> bpart = mk_b();
        history(c, kp + "gpdv.B", FMT, mk_b, [&](BCSR<D, 1>& b) { Assembly::GradPresDivVeloAssembler::assemble(b, dpart, velo, pres, cn); });
        history(c, kp + "gpdv.D", FMT, mk_d, [&](BCSR<1, D>& d) { Assembly::GradPresDivVeloAssembler::assemble(bpart, d, velo, pres, cn); });
        // mixed history: B empty (structure built inside), D pre-structured and marker filled -- and vice versa
        {
          BCSR<D, 1> be; BCSR<1, D> dm = mk_d();
          auto r = raw(dm); for(size_t k = 0; k < r.second; ++k) r.first[k] = marker(k);
          Assembly::GradPresDivVeloAssembler::assemble(be, dm, velo, pres, cn);
          c.check(max_rel_diff_b<1, D>(d0, dm, &lay) == 0.0 && lay, kp + "gpdv.D marker-with-empty-B", "D keeps old contents when B is empty on entry");
          BCSR<D, 1> bm = mk_b(); BCSR<1, D> de;
          auto rb = raw(bm); for(size_t k = 0; k < rb.second; ++k) rb.first[k] = marker(k);
          Assembly::GradPresDivVeloAssembler::assemble(bm, de, velo, pres, cn);
          c.check(max_rel_diff_b<D, 1>(b0, bm, &lay) == 0.0 && lay, kp + "gpdv.B marker-with-empty-D", "B keeps old contents when D is empty on entry");
        }
        history(c, kp + "gradop.matrix", FMT, mk_b, [&](BCSR<D, 1>& g) { Assembly::GradOperatorAssembler::assemble(g, velo, pres, cf, 1.5); });
        history(c, kp + "gradop.vector", ACC, mk_bvec_v, [&](BVec<D>& r) { Assembly::GradOperatorAssembler::assemble(r, pvec, velo, pres, cf, 1.5); });
      }

      // ---- Burgers, classic
      Assembly::BurgersAssembler<double, Index, D> ba;
      ba.deformation = true; ba.nu = 0.5; ba.theta = 2.0; ba.beta = 1.5; ba.frechet_beta = 0.25;
      history(c, kp + "burgers.matrix", ACC, mk_bcsr_v, [&](BCSR<D, D>& m) { ba.assemble_matrix(m, conv, velo, cf, 1.25); });
      history(c, kp + "burgers.vector", ACC, mk_bvec_v, [&](BVec<D>& r) { ba.assemble_vector(r, conv, primal, velo, cf, 1.25); });
      {
        Assembly::BurgersAssembler<double, Index, D> bs;
        bs.nu = 0.5; bs.theta = 2.0; bs.beta = 1.5;
        history(c, kp + "burgers.scalar-matrix", ACC, mk_csr_v, [&](CSR& m) { bs.assemble_scalar_matrix(m, conv, velo, cf, 0.75); });
      }

      // ---- DomainAssembler jobs
      history(c, kp + "job.bilinear1", ACC, mk_csr_v, [&](CSR& m) { Assembly::assemble_bilinear_operator_matrix_1(dom_asm, m, lap, velo, cn, 0.75); });
      history(c, kp + "job.bilinear2", ACC, mk_csr_vp, [&](CSR& m) { Assembly::assemble_bilinear_operator_matrix_2(dom_asm, m, ident, velo, pres, cn, 1.5); });
      history(c, kp + "job.bilinear1-blocked", ACC, mk_bcsr_v, [&](BCSR<D, D>& m) { Assembly::assemble_bilinear_operator_matrix_1(dom_asm, m, dudv, velo, cn); });
      history(c, kp + "job.linfunc", ACC, mk_vec_v, [&](Vec& r) { Assembly::assemble_linear_functional_vector(dom_asm, r, force, velo, cn, 1.25); });
      history(c, kp + "job.force", ACC, mk_vec_v, [&](Vec& r) { Assembly::assemble_force_function_vector(dom_asm, r, sfun, velo, cn, 1.25); });
      history(c, kp + "job.force-blocked", ACC, mk_bvec_v, [&](BVec<D>& r) { Assembly::assemble_force_function_vector(dom_asm, r, vfun, velo, cn); });
      history(c, kp + "job.burgers-matrix", ACC, mk_bcsr_v, [&](BCSR<D, D>& m)
      {
        Assembly::BurgersBlockedMatrixAssemblyJob<BCSR<D, D>, VeloSpace, BVec<D>> job(m, conv, velo, cn);
        job.deformation = true; job.nu = 0.5; job.theta = 2.0; job.beta = 1.5; job.frechet_beta = 0.25;
        dom_asm.assemble(job);
      });
      history(c, kp + "job.burgers-vector", ACC, mk_bvec_v, [&](BVec<D>& r)
      {
        Assembly::BurgersBlockedVectorAssemblyJob<BVec<D>, VeloSpace> job(r, primal, conv, velo, cn);
        job.deformation = true; job.nu = 0.5; job.theta = 2.0; job.beta = 1.5; job.frechet_beta = 0.25;
        dom_asm.assemble(job);
      });
      history(c, kp + "job.burgers-scalar-matrix", ACC, mk_csr_v, [&](CSR& m)
      {
        Assembly::BurgersScalarMatrixAssemblyJob<CSR, VeloSpace, BVec<D>> job(m, conv, velo, cn);
        job.nu = 0.5; job.theta = 2.0; job.beta = 1.5;
        dom_asm.assemble(job);
      });
      history(c, kp + "job.burgers-scalar-vector", ACC, mk_vec_v, [&](Vec& r)
      {
        Assembly::BurgersScalarVectorAssemblyJob<Vec, VeloSpace, BVec<D>> job(r, sprimal, conv, velo, cn);
        job.nu = 0.5; job.theta = 2.0; job.beta = 1.5;
        dom_asm.assemble(job);
      });

      // ---- scaling factor alphabet
      alpha_alphabet(c, kp + "bilinear.matrix1", mk_csr_v, [&](CSR& m, double a) { Assembly::BilinearOperatorAssembler::assemble_matrix1(m, lap, velo, cf, a); });
      alpha_alphabet(c, kp + "bilinear.matrix2", mk_csr_vp, [&](CSR& m, double a) { Assembly::BilinearOperatorAssembler::assemble_matrix2(m, ident, velo, pres, cf, a); });
      alpha_alphabet(c, kp + "linfunc.vector", mk_vec_v, [&](Vec& r, double a) { Assembly::LinearFunctionalAssembler::assemble_vector(r, force, velo, cf, a); });
      alpha_alphabet(c, kp + "gradop.vector", mk_bvec_v, [&](BVec<D>& r, double a) { Assembly::GradOperatorAssembler::assemble(r, pvec, velo, pres, cf, a); });
      alpha_alphabet(c, kp + "burgers.matrix", mk_bcsr_v, [&](BCSR<D, D>& m, double a) { ba.assemble_matrix(m, conv, velo, cf, a); });
      alpha_alphabet(c, kp + "burgers.vector", mk_bvec_v, [&](BVec<D>& r, double a) { ba.assemble_vector(r, conv, primal, velo, cf, a); });
      alpha_alphabet(c, kp + "job.bilinear1", mk_csr_v, [&](CSR& m, double a) { Assembly::assemble_bilinear_operator_matrix_1(dom_asm, m, lap, velo, cn, a); });
      alpha_alphabet(c, kp + "job.bilinear2", mk_csr_vp, [&](CSR& m, double a) { Assembly::assemble_bilinear_operator_matrix_2(dom_asm, m, ident, velo, pres, cn, a); });
      alpha_alphabet(c, kp + "job.linfunc", mk_vec_v, [&](Vec& r, double a) { Assembly::assemble_linear_functional_vector(dom_asm, r, force, velo, cn, a); });
      alpha_alphabet(c, kp + "job.force", mk_vec_v, [&](Vec& r, double a) { Assembly::assemble_force_function_vector(dom_asm, r, sfun, velo, cn, a); });
      {
        // FMT routes: scale 0 gives exact zeros, scale -1 the negated matrix
        BCSR<D, 1> b1 = mk_b(), b0 = mk_b(), bm = mk_b(); BCSR<1, D> d1 = mk_d(), d0 = mk_d(), dm = mk_d();
        Assembly::GradPresDivVeloAssembler::assemble(b1, d1, velo, pres, cn, 1.0, 1.0);
        { auto r = raw(b0); for(size_t k = 0; k < r.second; ++k) r.first[k] = marker(k); auto q = raw(d0); for(size_t k = 0; k < q.second; ++k) q.first[k] = marker(k); }
        Assembly::GradPresDivVeloAssembler::assemble(b0, d0, velo, pres, cn, 0.0, 0.0);
        Assembly::GradPresDivVeloAssembler::assemble(bm, dm, velo, pres, cn, -1.0, 0.5);
        auto rb1 = raw(b1), rb0 = raw(b0), rbm = raw(bm), rd1 = raw(d1), rd0 = raw(d0), rdm = raw(dm);
        bool z = true, n = true;
        for(size_t k = 0; k < rb1.second; ++k) { z = z && rb0.first[k] == 0.0; n = n && rbm.first[k] == -rb1.first[k]; }
        for(size_t k = 0; k < rd1.second; ++k) { z = z && rd0.first[k] == 0.0; n = n && rdm.first[k] == 0.5 * rd1.first[k]; }
        c.count("alpha_checks", 2);
        c.check(z, kp + "gpdv scale=0", "scale factors 0 do not give zero matrices");
        c.check(n, kp + "gpdv scale=-1/0.5", "scale_b=-1, scale_d=0.5 do not give -B and D/2");
      }

      // ---- element orders of the DomainAssembler: elements added in reversed / scrambled order and twice compiled
      // assemblers give the matrix of compile_all_elements (1e-13); a subset of the elements gives the sum of its cells
      {
        const Index nc = Index(mc.geoms.size());
        CSR all = mk_csr_v();
        Assembly::assemble_bilinear_operator_matrix_1(dom_asm, all, lap, velo, cn);
        BCSR<D, D> ball = mk_bcsr_v();
        {
          Assembly::BurgersBlockedMatrixAssemblyJob<BCSR<D, D>, VeloSpace, BVec<D>> job(ball, conv, velo, cn);
          job.deformation = true; job.nu = 0.5; job.theta = 2.0; job.beta = 1.5; job.frechet_beta = 0.25;
          dom_asm.assemble(job);
        }
        std::vector<std::vector<Index>> orders;
        { std::vector<Index> o; for(Index k = nc; k > 0; --k) o.push_back(k - 1); orders.push_back(o); }
        { std::vector<Index> o; for(Index k = 0; k < nc; ++k) o.push_back((k * 7 + nc / 2) % nc); std::sort(o.begin(), o.end()); o.erase(std::unique(o.begin(), o.end()), o.end()); if(o.size() == size_t(nc)) { std::vector<Index> p; for(Index k = 0; k < nc; ++k) p.push_back((k * 7 + nc / 2) % nc); orders.push_back(p); } }
        for(auto& o : orders)
        {
          Assembly::DomainAssembler<TrafoType> da(trafo);
          da.set_max_worker_threads(0);
          for(Index k : o) da.add_element(k);
          da.compile();
          CSR m = mk_csr_v();
          Assembly::assemble_bilinear_operator_matrix_1(da, m, lap, velo, cn);
          bool lay = false, bit = false;
          double d = max_rel_diff(all, m, &lay, &bit);
          c.count("element_order_checks");
          c.check(lay && d <= 1e-13, kp + "job.bilinear1 element-order", [&]{ return "matrix depends on the order in which the elements were added: " + std::to_string(d); });
          BCSR<D, D> bm = mk_bcsr_v();
          Assembly::BurgersBlockedMatrixAssemblyJob<BCSR<D, D>, VeloSpace, BVec<D>> job(bm, conv, velo, cn);
          job.deformation = true; job.nu = 0.5; job.theta = 2.0; job.beta = 1.5; job.frechet_beta = 0.25;
          da.assemble(job);
          double db = max_rel_diff_b<D, D>(ball, bm, &lay);
          c.check(lay && db <= 1e-13, kp + "job.burgers-matrix element-order", [&]{ return "matrix depends on the order in which the elements were added: " + std::to_string(db); });
        }
        if(nc >= 2)
        {
          // two complementary element subsets add up to the full matrix; a subset alone equals the exact integral over its cells
          CSR sum = mk_csr_v();
          for(int part = 0; part < 2; ++part)
          {
            Assembly::DomainAssembler<TrafoType> da(trafo);
            da.set_max_worker_threads(0);
            MeshCtx<Shape_> sub;
            for(Index k = 0; k < nc; ++k) if(int((k * 5 + k / 3) % 2) == part) { da.add_element(k); sub.geoms.push_back(mc.geoms[k]); }
            da.compile();
            CSR m = mk_csr_v();
            Assembly::assemble_bilinear_operator_matrix_1(da, m, ident, velo, cn);
            Assembly::assemble_bilinear_operator_matrix_1(da, sum, lap, velo, cn);
            // 1^T M 1 over the subset == volume of the subset
            Vec one(velo.get_num_dofs(), 1.0);
            LD got = bilinear(m, one, one), ex = sub.geoms.empty() ? LD(0) : sub.volume();
            c.count("element_order_checks");
            c.check(std::fabs(got - ex) <= LD(1e-11) * (1 + ex), kp + "job.bilinear1 element-subset", [&]{ return "mass over an element subset sums to " + std::to_string(double(got)) + ", subset volume " + std::to_string(double(ex)); });
          }
          bool lay = false, bit = false;
          double d = max_rel_diff(all, sum, &lay, &bit);
          c.check(lay && d <= 1e-13, kp + "job.bilinear1 element-partition", [&]{ return "two complementary element subsets do not add up to the full matrix: " + std::to_string(d); });
        }
      }

      // ---- clear() histories: compile on a set S1, clear(), add a set S2, compile: the assembler must work on S2 only
      {
        const Index nc = Index(mc.geoms.size());
        // DomainAssembler: all elements, clear, then element 0 (and the last one): mass sums to the volume of these cells
        {
          Assembly::DomainAssembler<TrafoType> da(trafo);
          da.set_max_worker_threads(0);
          da.compile_all_elements();
          bool threw = false; std::string what;
          MeshCtx<Shape_> sub;
          sub.geoms.push_back(mc.geoms[0]);
          if(nc > 2) sub.geoms.push_back(mc.geoms[nc - 1]);
          CSR m = mk_csr_v();
          try
          {
            da.clear();
            da.add_element(0);
            if(nc > 2) da.add_element(nc - 1);
            da.compile();
            Assembly::assemble_bilinear_operator_matrix_1(da, m, ident, velo, cn);
          }
          catch(const std::exception& e) { threw = true; what = e.what(); }
          c.count("clear_histories");
          if(threw)
            c.fail(kp + "domain-assembler clear-readd exception", "DomainAssembler: compile_all_elements(); clear(); add_element(0) throws " + what);
          else
          {
            Vec one(velo.get_num_dofs(), 1.0);
            LD got = bilinear(m, one, one), ex = sub.volume();
            c.check(std::fabs(got - ex) <= LD(1e-11) * (1 + ex), kp + "domain-assembler clear-readd", [&]{ return "after clear() and re-adding a subset the mass sums to " + std::to_string(double(got)) + ", subset volume " + std::to_string(double(ex)); });
          }
        }
        // TraceAssembler: all outer facets via add_facet, compile, clear, one facet, compile: boundary mass sums to its measure
        {
          const String ct0 = ShapeInfo<Shape_>::is_simplex ? String("auto-degree:5") : String("gauss-legendre:3");
          Cubature::DynamicFactory cf0(ct0);
          const auto& fc = mc.mesh->template get_index_set<D, D - 1>();
          std::map<Index, int> cnt;
          for(Index k = 0; k < nc; ++k) for(int l = 0; l < fc.num_indices; ++l) cnt[fc(k, l)]++;
          std::vector<Index> bf;
          for(auto& kv : cnt) if(kv.second == 1) bf.push_back(kv.first);
          Assembly::TraceAssembler<TrafoType> ta(trafo), tfresh(trafo);
          for(Index f : bf) ta.add_facet(f);
          ta.compile();
          ta.clear();
          ta.add_facet(bf.front());
          ta.compile();
          tfresh.add_facet(bf.front());
          tfresh.compile();
          CSR m1 = mk_csr_v(), m2 = mk_csr_v();
          ta.assemble_operator_matrix1(m1, ident, velo, cf0);
          tfresh.assemble_operator_matrix1(m2, ident, velo, cf0);
          bool lay = false, bit = false;
          double d = max_rel_diff(m2, m1, &lay, &bit);
          c.count("clear_histories");
          c.check(lay && d <= 1e-13, kp + "trace-assembler clear-readd", [&]{ return "TraceAssembler: add all boundary facets; compile(); clear(); add_facet(f); compile() assembles something else than a fresh assembler with facet f only (relative difference " + std::to_string(d) + ")"; });
        }
      }

      // ---- trace assembler
      {
        // facets added one by one in reversed order == compile_all_facets(outer)
        {
          const String ct0 = ShapeInfo<Shape_>::is_simplex ? String("auto-degree:5") : String("gauss-legendre:3");
          Cubature::DynamicFactory cf0(ct0);
          Assembly::TraceAssembler<TrafoType> ta(trafo), tb(trafo);
          ta.compile_all_facets(false, true);
          // boundary facets = facets with one adjacent cell (harness count over the cells' facet lists)
          const auto& fc = mc.mesh->template get_index_set<D, D - 1>();
          std::map<Index, int> cnt;
          for(Index k = 0; k < Index(mc.geoms.size()); ++k) for(int l = 0; l < fc.num_indices; ++l) cnt[fc(k, l)]++;
          std::vector<Index> bf;
          for(auto& kv : cnt) if(kv.second == 1) bf.push_back(kv.first);
          for(size_t i = bf.size(); i > 0; --i) tb.add_facet(bf[i - 1]);
          tb.compile();
          CSR m1 = mk_csr_v(), m2 = mk_csr_v();
          ta.assemble_operator_matrix1(m1, ident, velo, cf0);
          tb.assemble_operator_matrix1(m2, ident, velo, cf0);
          bool lay = false, bit = false;
          double d = max_rel_diff(m1, m2, &lay, &bit);
          c.count("element_order_checks");
          c.check(lay && d <= 1e-13, kp + "trace.matrix1 facet-order", [&]{ return "boundary mass depends on the order in which the facets were added: " + std::to_string(d); });
        }
        Assembly::TraceAssembler<TrafoType> tr(trafo);
        tr.compile_all_facets(false, true);
        const String ct = ShapeInfo<Shape_>::is_simplex ? String("auto-degree:5") : String("gauss-legendre:3");
        Cubature::DynamicFactory cft(ct);
        history(c, kp + "trace.matrix1", ACC, mk_csr_v, [&](CSR& m) { tr.assemble_operator_matrix1(m, ident, velo, cft, 0.5); });
        history(c, kp + "trace.functional", ACC, mk_vec_v, [&](Vec& r) { tr.assemble_functional_vector(r, force, velo, cft, 0.5); });
      }
    }
  };

  template<typename Shape_>
  void enumerate_history_shape(verif::Ctx& c)
  {
    const std::string sn = ShapeInfo<Shape_>::name();
    auto fam = mesh_family<Shape_>(c.thorough && Shape_::dimension == 3);
    for(size_t im = 0; im < fam.size(); ++im)
    {
      const MeshSpec& ms = fam[im];
      // the treatment of existing contents does not depend on the mesh: a sample of the family is enough
      const size_t stride = c.thorough ? 3u : 4u;
      if((im % stride) != 0) continue;
      if(!c.want()) continue;
      c.desc([&]{ return sn + " history mesh " + ms.str(); });
      MeshCtx<Shape_> mc = make_mesh<Shape_>(ms);
      HistoryChecker<Shape_>(c, mc).run();
      c.nontrivial(verif::Hash().str(sn).str(ms.str()).get());
      c.outcome(sn);
      c.count("cases");
      c.count("cells", mc.geoms.size());
    }
  }

  template<bool three_d>
  int history_main(int argc, char** argv, const char* harness_name)
  {
    Runtime::ScopeGuard guard(argc, argv);
    verif::Spec spec;
    spec.property = "C16";
    spec.harness = harness_name;
    spec.rule = "cases = (shape, sample of the c16 mesh family), elements L2 (velocity) / L1 (pressure); per case, for every assembly entry point the three "
      "histories fresh / refill (second identical call on the filled objects) / marker (pre-structured objects pre-filled with a position coded marker), compared with "
      "the documented treatment of existing contents: ACC (old + alpha*integral: refill = 2R, marker = M + R, 1e-13 relative) for "
      "BilinearOperatorAssembler::assemble_matrix1/2 (scalar, blocked), LinearFunctionalAssembler::assemble_vector (scalar, blocked), GradOperatorAssembler vector "
      "version, BurgersAssembler matrix/scalar matrix/vector, all DomainAssembler jobs (bilinear 1/2, blocked, linear functional, force scalar/blocked, Burgers "
      "matrix/vector/scalar matrix/scalar vector), TraceAssembler operator matrix and functional vector; FMT (result independent of old contents, bitwise) for "
      "BilinearOperatorAssembler::apply1/2, GradPresDivVeloAssembler B and D (both, also with the partner matrix empty on entry, and automatically vs externally "
      "built structure), GradOperatorAssembler matrix version. The voxel assemblers (ACC) go through the same histories in c16_voxel. Non-trivial: every case.";
    spec.bounds_quick = "this binary: tria/quad (c16_history) resp. tetra/hexa (c16_history3d); every 4th mesh of the family";
    spec.bounds_thorough = "every third mesh of the (3D: thorough) family";
    spec.assumptions = {
      "additionally per entry point: a layout clone of the target taken before the call stays untouched; scaling factor alphabet {0, 1, -1, 0.5} on marker filled "
      "objects; DomainAssembler element orders (reversed, scrambled), complementary element subsets (partition adds up, subset mass == subset volume), TraceAssembler facet order",
      "classification ACC/FMT is taken from the doc comments ([in,out] + scaling factor = assembles into; 'gets overwritten' / formatted result = FMT); a route that behaves "
      "differently from its classification, or treats two outputs of one call differently, is reported",
      "histories of length 2 only (fresh, refill, marker)"};
    spec.max_fail_per_worker = 100000;
    return verif::run(spec, argc, argv, [&](verif::Ctx& c) {
      if constexpr(!three_d) { enumerate_history_shape<Shape::Simplex<2>>(c); enumerate_history_shape<Shape::Hypercube<2>>(c); }
      else { enumerate_history_shape<Shape::Simplex<3>>(c); enumerate_history_shape<Shape::Hypercube<3>>(c); }
    });
  }
} // namespace c16h
