// C16 Burgers route agreement with streamline diffusion on tria/quad; see c16_burgers_impl.hpp.
#include <c16_burgers_impl.hpp>
int main(int argc, char** argv) { return c16s::burgers_sd_main<false>(argc, argv, "c16_burgers"); }
