// C03 (part 1, SparseMatrixCSR): matrix algebra operations equal their dense definitions.
//   axpy, scale, scale_rows, scale_cols, norm_frobenius, row_norm2, row_norm2sqr(+scal), lump_rows, extract_diag(+indices),
//   max/min(_abs)_element, shrink  -- for ALL sparsity patterns of all small shapes
//   add_mat_mat_product, add_double_mat_product (matrix and diagonal-vector middle factor) -- for ALL pattern tuples (X,D[,A],B)
//   with allow_incomplete in {false,true}; an incomplete output pattern without allow_incomplete MUST abort.
#include <c03_common.hpp>
#include <c03_unary.hpp>
#include <kernel/lafem/dense_matrix.hpp>

using namespace c03;

namespace
{
  template<typename DT, typename IT> std::string tp() { return std::string(dtname<DT>()) + "," + itname<IT>(); }
  struct Shape { int m, n; };

  template<typename DT_, typename IT_>
  struct CsrTraits
  {
    typedef DT_ DT; typedef IT_ IT; typedef SparseMatrixCSR<DT, IT> M; typedef DenseVector<DT, IT> VL; typedef DenseVector<DT, IT> VR;
    typedef SparseMatrixCSR<DT, typename OtherIndex<IT>::type> MO;
    struct Aux { int m, n; };
    static constexpr bool has_shrink = true;
    static const char* prefix() { return "csr."; }
    static M build(const DenseRef& D, int rep, const Aux&) { return build_csr<DT, IT>(D, rep); }
    static const DT* val(const M& a) { return a.val(); }
    static VL make_l(const Aux& x) { return VL(Index(x.m)); }
    static VR make_r(const Aux& x) { return VR(Index(x.n)); }
    static int block_rows(const Aux& x) { return x.m; }
    static std::vector<std::pair<int, int>> entries(const DenseRef& D, const Aux&)
    { std::vector<std::pair<int, int>> e; for(int i = 0; i < D.m; ++i) for(int j = 0; j < D.n; ++j) if(D.has(i, j)) e.push_back({i, j}); return e; }
    static Index diag_index(const DenseRef& D, const Aux& x, int I)
    { Index k = 0; for(int i = 0; i < D.m; ++i) for(int j = 0; j < D.n; ++j) if(D.has(i, j)) { if(i == I && j == I) return k; ++k; } (void)x; return k; }
  };

  std::vector<Shape> ushapes(bool thorough)
  {
    std::vector<Shape> v = {{0, 0}, {0, 1}, {1, 0}, {0, 2}, {2, 0}};
    for(int s = 2; s <= 6; ++s) for(int m = 1; m <= 3; ++m) { int n = s - m; if(n >= 1 && n <= 3) v.push_back({m, n}); }
    if(thorough) { v.push_back({2, 4}); v.push_back({4, 2}); v.push_back({3, 4}); v.push_back({4, 3}); v.push_back({4, 4}); }
    return v;
  }

  template<typename DT, typename IT>
  void enum_unary(verif::Ctx& c)
  {
    const auto ucs = ucases(true);
    for(const Shape& sh : ushapes(c.thorough))
    {
      const int bitsn = sh.m * sh.n; const bool big = bitsn >= 12;
      if(bitsn >= 16 && !std::is_same<DT, double>::value) continue;
      for(uint64_t bits = 0; bits < (uint64_t(1) << bitsn); ++bits)
      {
        const int nreps = (bits == 0 && sh.m > 0 && sh.n > 0) ? 2 : 1;
        for(int rep = 0; rep < nreps; ++rep)
          for(const Variant& var : (big ? std::vector<Variant>{{0, S_BASE}, {0, S_CLONE_WEAK}} : uvariants(bitsn <= 9)))
            for(const UCase& uc : ucs)
            {
              const int alphabet = var.alphabet;
              if(uc.op == U_DIAG && sh.m != sh.n) continue;                       // XASSERT: square only
              if(uc.op >= U_MAXABS && uc.op <= U_MIN && bits == 0) continue;      // precondition: no min/max of nothing
              if(uc.op == U_SHRINK && bits == 0 && (uc.var % 5) > 1) continue;
              if(uc.op == U_SHRINK && bits == 0 && uc.var >= 5) continue;
              if(!alphabet_applies(uc.op, alphabet)) continue;                    // extreme magnitudes: selecting / single-entry operations only
              if((uc.op == U_BANDW || uc.op == U_RADIUS) && (alphabet != 0 || bits == 0)) continue; // pattern reductions: exact alphabet; a matrix without entries ends in the recorded entry-free class (column variants transpose into an array-less matrix)
              if(alphabet == 3 && uc.op == U_SCALE && !scalars[uc.var % 7].dyadic) continue; // (denormal * 0.3 is not a rounding-bound statement)
              if(var.scenario != S_BASE && (bits == 0 || rep != 0)) continue;     // derived objects of matrices with entries
              if(!c.want()) continue;
              set_extreme_exp<DT>();
              const DenseRef D = dense_from_bits(sh.m, sh.n, bits, alphabet == 3 ? 0 : alphabet);
              const bool ef = (bits == 0 && rep == 0);
              static const char* sn[9] = {"", "", "", " operands=deep-clones", " operands=shallow-clones", " operands=weak-clones", " operands=moved", " operands=index-type-round-trip", ""};
              c.desc([&]{ return "csr<" + tp<DT, IT>() + "> " + D.str() + (bits == 0 ? (rep ? " rep=allocated-empty " : " rep=entry-free ") : " ") + uname[uc.op] + " variant=" + std::to_string(uc.var) + " alphabet=" + alphabet_name(alphabet) + sn[var.scenario]; });
              guarded(c, ef, std::string("entry-free operand ") + uname[uc.op], [&]{ run_unary<CsrTraits<DT, IT>>(c, uc, D, rep, alphabet, typename CsrTraits<DT, IT>::Aux{sh.m, sh.n}, var.scenario); });
              if(bits != 0) c.nontrivial(verif::Hash().str("u").str(tp<DT, IT>()).pod(sh).pod(bits).pod(uc).pod(var).get());
              c.outcome(std::string("csr/") + uname[uc.op]);
              c.count("operations");
            }
      }
    }
  }


  // ------------------------------------------------------------------------------------------ DenseMatrix::multiply (dense*dense and CSR*dense)
  // this <- x*y                       (2 operands; the old content of the output must not matter)
  // this <- alpha x*y + beta z        (z separate, z == this (in-place GEMM, legal: the MKL backend requires it), z == x, z == y)
  // this <- alpha X*y + beta this     (X sparse CSR, accumulating)           -- each also as a repeated accumulating call on one object
  static const LD dscal[6] = {LD(0), LD(1), LD(-1), LD(0.5L), LD(2), LD(0.3L)};
  static const char* dscal_name[6] = {"0", "1", "-1", "0.5", "2", "0.3"};

  inline LD dval(int which, int alphabet, int i, int j)   // which: 0 x, 1 y, 2 z / old content of the output
  {
    return aval(alphabet, i + 2 * which, j + which);
  }

  template<typename DT, typename IT>
  void fill_dense(DenseMatrix<DT, IT>& a, const DenseRef& d) { for(int i = 0; i < d.m; ++i) for(int j = 0; j < d.n; ++j) a.elements()[i * d.n + j] = DT(d.at(i, j)); }

  inline DenseRef dense_vals(int which, int m, int n, int alphabet, int zeros)
  {
    DenseRef d(m, n);
    for(int i = 0; i < m; ++i) for(int j = 0; j < n; ++j) d.set(i, j, (zeros && ((i + 2 * j + which) % 3 == 0)) ? LD(0) : dval(which, alphabet, i, j));
    return d;
  }

  template<typename DT, typename IT>
  void enum_dense_products(verif::Ctx& c)
  {
    typedef DenseMatrix<DT, IT> M; typedef SparseMatrixCSR<DT, IT> MC;
    const LD eps = LD(std::numeric_limits<DT>::epsilon());
    const LD nan = std::numeric_limits<LD>::quiet_NaN();
    const int maxd = c.thorough ? 4 : 3;
    // mode: 0 multiply(x,y) output pre-filled with finite values, 1 same with NaN in the output, 2 z separate, 3 z == this, 4 z == x (k == n), 5 z == y (m == k),
    //       6 CSR x: multiply(X,y), 7 CSR x: multiply(X,y) NaN in the output, 8 CSR x: multiply(X,y,alpha,beta)
    for(int m = 1; m <= maxd; ++m) for(int k = 1; k <= maxd; ++k) for(int n = 1; n <= maxd; ++n)
      for(int mode = 0; mode <= 8; ++mode)
      {
        if(mode == 4 && k != n) continue;
        if(mode == 5 && m != k) continue;
        const bool sparse = (mode >= 6);
        const int npat = sparse ? (m * k <= 9 ? (1 << (m * k)) : 0) : 2;       // sparse: all patterns of X; dense: full / with exact zeros
        for(int pat = 0; pat < npat; ++pat)
          for(int rep = 0; rep < ((sparse && pat == 0) ? 2 : 1); ++rep)
            for(int ai = 0; ai < ((mode == 0 || mode == 1 || mode == 6 || mode == 7) ? 1 : 6); ++ai)
              for(int bi = 0; bi < ((mode == 0 || mode == 1 || mode == 6 || mode == 7) ? 1 : 6); ++bi)
                for(int alphabet = 0; alphabet < 3; ++alphabet)
                {
                  if(!c.want()) continue;
                  const bool two = (mode == 0 || mode == 1 || mode == 6 || mode == 7);
                  const LD alpha = two ? LD(1) : LD(DT(dscal[ai])), beta = two ? LD(0) : LD(DT(dscal[bi]));
                  static const char* mn[9] = {"dense.multiply(x,y)", "dense.multiply(x,y) NaN-in-output", "dense.multiply(x,y,z,alpha,beta)", "dense.multiply(x,y,z,alpha,beta) z==this",
                    "dense.multiply(x,y,z,alpha,beta) z==x", "dense.multiply(x,y,z,alpha,beta) z==y", "dense.multiply(csr,y)", "dense.multiply(csr,y) NaN-in-output", "dense.multiply(csr,y,alpha,beta)"};
                  const std::string key = mn[mode];
                  c.desc([&]{ std::ostringstream o; o << "dense<" << tp<DT, IT>() << "> " << key << " m,k,n=" << m << "," << k << "," << n << (sparse ? " X pattern=" : " zeros=") << pat
                    << (sparse && pat == 0 ? (rep ? " rep=allocated-empty" : " rep=entry-free") : "") << " alpha=" << (two ? "1" : dscal_name[ai]) << " beta=" << (two ? "0" : dscal_name[bi]) << " alphabet=" << alphabet_name(alphabet); return o.str(); });
                  DenseRef X = sparse ? DenseRef(m, k) : dense_vals(0, m, k, alphabet, pat);
                  if(sparse) for(int i = 0; i < m; ++i) for(int j = 0; j < k; ++j) if((pat >> (i * k + j)) & 1) X.set(i, j, dval(0, alphabet, i, j));
                  DenseRef Y = dense_vals(1, k, n, alphabet, sparse ? 0 : pat), Z = dense_vals(2, m, n, alphabet, 0);
                  for(DenseRef* p : {&X, &Y, &Z}) for(auto& v : p->a) v = LD(DT(v));
                  M mx{Index(m), Index(k)}, my{Index(k), Index(n)}, mz{Index(m), Index(n)}, mr{Index(m), Index(n)};
                  fill_dense(mx, X); fill_dense(my, Y); fill_dense(mz, Z);
                  // old content of the output: Z (in-place modes), NaN (modes 1, 2, 7: it must never be read), finite marker otherwise
                  DenseRef R0 = Z;
                  if(mode == 1 || mode == 2 || mode == 7 || mode == 4 || mode == 5) for(auto& v : R0.a) v = nan;
                  fill_dense(mr, R0);
                  MC cx; if(sparse) cx = build_csr<DT, IT>(X, rep);
                  const bool ef = sparse && pat == 0 && rep == 0;
                  // the z operand of the dense modes
                  const DenseRef& ZZ = (mode == 4) ? X : (mode == 5) ? Y : Z;
                  auto op = [&]{
                    switch(mode)
                    {
                    case 0: case 1: mr.multiply(mx, my); break;
                    case 2: mr.multiply(mx, my, mz, DT(alpha), DT(beta)); break;
                    case 3: mr.multiply(mx, my, mr, DT(alpha), DT(beta)); break;
                    case 4: mr.multiply(mx, my, mx, DT(alpha), DT(beta)); break;
                    case 5: mr.multiply(mx, my, my, DT(alpha), DT(beta)); break;
                    case 6: case 7: mr.multiply(cx, my); break;
                    default: mr.multiply(cx, my, DT(alpha), DT(beta)); break;
                    } };
                  auto body = [&]{
                    const uint64_t hx = hash_of(mx), hy = hash_of(my), hz = hash_of(mz), hc = sparse ? hash_of(cx) : 0;
                    std::vector<LD> cur(size_t(m * n)); for(int i = 0; i < m; ++i) for(int j = 0; j < n; ++j) cur[size_t(i * n + j)] = R0.at(i, j);
                    const bool inplace = (mode == 3 || mode == 8);
                    const bool exact = alphabet_exact(alphabet) && (two || (ai != 5 && bi != 5));
                    for(int pass = 0; pass < 2; ++pass)   // pass 1: repeated (accumulating) call on the same objects
                    {
                      op();
                      c.count("operations"); if(pass) c.count("re_invocations");
                      bool ok = true;
                      if(mode == 1 || mode == 7)
                      {
                        // one stable key for "the result depends on the old content of the output" (0 * NaN)
                        for(int i = 0; i < m * n; ++i) if(!(mr.elements()[i] == mr.elements()[i]))
                        { c.fail(key, "this <- x*y returns NaN when the (uninitialised) output matrix holds NaN before the call: the kernel computes 0*old + x*y"); return; }
                      }
                      for(int i = 0; i < m && ok; ++i) for(int j = 0; j < n && ok; ++j)
                      {
                        LD s2 = 0, as = 0; for(int q = 0; q < k; ++q) if(X.has(i, q)) { const LD t = X.at(i, q) * Y.at(q, j); s2 += t; as += fabsl(t); }
                        const LD zold = two ? LD(0) : inplace ? cur[size_t(i * n + j)] : ZZ.at(i, j);
                        const LD expect = alpha * s2 + beta * zold;
                        ok = near<DT>(c, key + (pass ? " re-invocation" : ""), mr.elements()[i * n + j], expect, exact, LD(8 * (k + 3)) * eps * (fabsl(alpha) * as + fabsl(beta * zold)),
                          "entry (" + std::to_string(i) + "," + std::to_string(j) + ")");
                      }
                      if(!ok) return;
                      for(int i = 0; i < m * n; ++i) cur[size_t(i)] = LD(mr.elements()[i]);
                      if(!c.check(hash_of(mx) == hx && hash_of(my) == hy && hash_of(mz) == hz && (!sparse || hash_of(cx) == hc), key + " operand-modified", "an input operand was modified")) return;
                    } };
                  guarded(c, ef, "entry-free operand dense.multiply(csr,y) x", body);
                  if(!sparse || pat != 0) c.nontrivial(verif::Hash().str("dm").str(tp<DT, IT>()).pod(m).pod(k).pod(n).pod(mode).pod(pat).pod(ai).pod(bi).pod(alphabet).get());
                  c.outcome(std::string("dense/") + mn[mode]);
                }
      }
  }

  // ------------------------------------------------------------------------------------------ sparse matrix products
  enum POp { P_MM, P_DMM, P_DVM };
  static const char* pname[3] = {"add_mat_mat_product", "add_double_mat_product", "add_double_mat_product(diag-vector)"};
  static const int palpha[5] = {1, 2, 3, 5, 0}; // indices into scalars: 1, -1, 1/2, 0.3, 0

  struct PDims { int m, k, l, n; };

  /// one (operation, pattern tuple, representation, allow_incomplete) case; loops over alpha and the alphabets internally
  template<typename DT, typename IT>
  void run_product(verif::Ctx& c, int pop, const PDims& d, uint64_t bx, uint64_t bd, uint64_t ba, uint64_t bb, int rep, bool allow, bool complete, bool validate_fork)
  {
    typedef SparseMatrixCSR<DT, IT> M; typedef DenseVector<DT, IT> V;
    const std::string key = std::string("csr.") + pname[pop];
    const LD eps = LD(std::numeric_limits<DT>::epsilon());
    const bool efd = (bd == 0 && rep == 0), efa = (pop == P_DMM && ba == 0 && rep == 0), efx = (bx == 0 && rep == 0), efb = (bb == 0 && rep == 0);
    const bool ef = efd || efa || efx || efb;
    const std::string efkey = std::string("entry-free operand ") + pname[pop] + " " + (efd ? "d" : efa ? "a" : efx ? "this" : "b");
    for(int alphabet = 0; alphabet < 2; ++alphabet)
    {
      DenseRef X = dense_id(0, d.m, d.n, bx, alphabet), Dd = dense_id(1, d.m, d.k, bd, alphabet), B = dense_id(3, d.l, d.n, bb, alphabet);
      DenseRef A(d.k, d.l);
      if(pop == P_DMM) A = dense_id(2, d.k, d.l, ba, alphabet);
      else if(pop == P_DVM) { for(int q = 0; q < d.k; ++q) A.set(q, q, mval(2, alphabet, q, q)); }
      else { for(int q = 0; q < d.k; ++q) A.set(q, q, LD(1)); }
      for(DenseRef* p : {&X, &Dd, &A, &B}) for(auto& v : p->a) v = LD(DT(v));
      M md = build_csr<DT, IT>(Dd, rep), mb = build_csr<DT, IT>(B, rep), ma;
      V va;
      if(pop == P_DMM) ma = build_csr<DT, IT>(A, rep);
      if(pop == P_DVM) { va = V(Index(d.k)); std::vector<LD> f; for(int q = 0; q < d.k; ++q) f.push_back(A.at(q, q)); vfill(va, f); }
      const uint64_t hd = hash_of(md), hb = hash_of(mb), ha = (pop == P_DMM) ? hash_of(ma) : 0;
      const auto vas = vflat(va);
      for(int ai = 0; ai < 5; ++ai)
      {
        const Scalar& sc = scalars[palpha[ai]]; const LD alpha = LD(DT(sc.v));
        M mx = build_csr<DT, IT>(X, rep);
        const uint64_t sx = hash_structure(mx);
        auto op = [&]{
          if(pop == P_MM) mx.add_mat_mat_product(md, mb, DT(alpha), allow);
          else if(pop == P_DMM) mx.add_double_mat_product(md, ma, mb, DT(alpha), allow);
          else mx.add_double_mat_product(md, va, mb, DT(alpha), allow); };
        const int st = trapped(op);
        c.count("operations");
        if(validate_fork && ai == 0 && alphabet == 0)
        {
          M mx2 = build_csr<DT, IT>(X, rep); mx = std::move(mx2);
          const int fs = c.run_forked(op);
          if(c.check(fs == st, key + " trap!=fork", [&]{ return "in-process trap saw status " + std::to_string(st) + ", the forked run " + std::to_string(fs); })) c.count("trap_matches_fork");
        }
        if(!complete && !allow)
        {
          c.count("required_abort_operations");
          if(st == SIGABRT) continue;
          if(st == 0) { c.fail(key + " no-abort", "incomplete output pattern with allow_incomplete=false: the operation returned instead of aborting (silently wrong values)"); return; }
          if(ef) { c.count("entry_free_operand_crashes"); fail_throttled(c, efkey, "operation died with signal " + std::to_string(st) + " instead of the required abort (the entry-free representation has no arrays)"); return; }
          c.fail(key + " wrong-death", "expected SIGABRT, got signal " + std::to_string(st)); return;
        }
        if(st != 0)
        {
          if(ef) { c.count("entry_free_operand_crashes"); fail_throttled(c, efkey, "operation died with signal " + std::to_string(st) + " (the entry-free representation has no arrays: null row pointer dereferenced or val() throws)"); return; }
          c.fail(key + (st == SIGABRT ? " spurious-abort" : " crash"), "operation died with signal " + std::to_string(st) + " although the output pattern is " + (complete ? "complete" : "allowed to be incomplete")); return;
        }
        if(ef) c.count("entry_free_operand_handled_correctly");
        if(!c.check(hash_structure(mx) == sx, key + " structure-modified", "layout of the output matrix changed")) return;
        if(!c.check(hash_of(md) == hd && hash_of(mb) == hb && (pop != P_DMM || hash_of(ma) == ha) && same_bits(vas, vflat(va)), key + " operand-modified", "an input operand was modified")) return;
        const bool exact = (alphabet == 0) && sc.dyadic && (std::is_same<DT, double>::value || std::max(std::max(d.m, d.k), std::max(d.l, d.n)) <= 2);
        size_t kk = 0;
        for(int i = 0; i < d.m; ++i) for(int j = 0; j < d.n; ++j) if(X.has(i, j))
        {
          LD s = 0, as = 0;
          for(int k = 0; k < d.k; ++k) if(Dd.has(i, k)) for(int l = 0; l < d.l; ++l) if(A.has(k, l) && B.has(l, j))
          { const LD t = Dd.at(i, k) * A.at(k, l) * B.at(l, j); s += t; as += fabsl(t); }
          const LD expect = X.at(i, j) + alpha * s;
          if(!near<DT>(c, key + (complete ? "" : " allow_incomplete"), mx.val()[kk], expect, exact, LD(8 * (d.k * d.l + 2)) * eps * (fabsl(X.at(i, j)) + fabsl(alpha) * as),
            "entry (" + std::to_string(i) + "," + std::to_string(j) + ") alpha=" + sc.name + (alphabet ? " rounding" : " exact"))) return;
          ++kk;
        }
      }
    }
    // ---- extra executions (lessons 2, 3, 4) for cases that neither must abort nor touch an entry-free operand:
    //  0: all-negative alphabet, alpha=1   1: re-invocation: the product is added twice onto the same X (alpha=1/2)
    //  2: derived operands (d shallow clone, a weak clone, b moved deep clone; X = weak clone of a bystander sharing its layout), alpha=-1
    if((!complete && !allow) || ef) return;
    //  3: all operands share ONE layout object with the output (square case with equal patterns: d, a, b and X are Layout/Weak clones of one matrix)
    const bool can_share = (d.m == d.k && d.k == d.l && d.l == d.n && bx != 0 && bx == bd && bd == bb && (pop != P_DMM || ba == bx));
    for(int extra = 0; extra < (can_share ? 4 : 3); ++extra)
    {
      const int alphabet = (extra == 0) ? 2 : 0;
      DenseRef X = dense_id(0, d.m, d.n, bx, alphabet), Dd = dense_id(1, d.m, d.k, bd, alphabet), B = dense_id(3, d.l, d.n, bb, alphabet);
      DenseRef A(d.k, d.l);
      if(pop == P_DMM) A = dense_id(2, d.k, d.l, ba, alphabet);
      else if(pop == P_DVM) { for(int q = 0; q < d.k; ++q) A.set(q, q, mval(2, alphabet, q, q)); }
      else { for(int q = 0; q < d.k; ++q) A.set(q, q, LD(1)); }
      for(DenseRef* p : {&X, &Dd, &A, &B}) for(auto& v : p->a) v = LD(DT(v));
      M sd = build_csr<DT, IT>(Dd, rep), sb = build_csr<DT, IT>(B, rep), sa, sx = build_csr<DT, IT>(X, rep);
      if(pop == P_DMM) sa = build_csr<DT, IT>(A, rep);
      M md = (extra == 2) ? sd.clone(CloneMode::Shallow) : sd.clone(CloneMode::Shallow);
      M ma = (pop == P_DMM) ? ((extra == 2) ? sa.clone(CloneMode::Weak) : sa.clone(CloneMode::Shallow)) : M();
      M mb; if(extra == 2) { M t = sb.clone(CloneMode::Deep); M moved(std::move(t)); mb = std::move(moved); } else mb = sb.clone(CloneMode::Shallow);
      M mx = (extra >= 2) ? sx.clone(CloneMode::Weak) : sx.clone(CloneMode::Shallow);
      if(extra == 3)
      {
        // same index arrays for everything: Layout clones of sx, values written through the raw pointer (same pattern = same entry order)
        md = sx.clone(CloneMode::Layout); mb = sx.clone(CloneMode::Layout); if(pop == P_DMM) ma = sx.clone(CloneMode::Layout);
        for(Index q = 0; q < sx.used_elements(); ++q) { md.val()[q] = sd.val()[q]; mb.val()[q] = sb.val()[q]; if(pop == P_DMM) ma.val()[q] = sa.val()[q]; }
      }
      V va; if(pop == P_DVM) { va = V(Index(d.k)); std::vector<LD> f; for(int q = 0; q < d.k; ++q) f.push_back(A.at(q, q)); vfill(va, f); }
      const uint64_t hd = hash_of(sd), hb = hash_of(sb), ha = (pop == P_DMM) ? hash_of(sa) : 0, hx0 = hash_of(sx), sxs = hash_structure(mx);
      const uint64_t hmd = hash_of(md), hmb = hash_of(mb);
      const LD alpha = (extra == 0 || extra == 3) ? LD(1) : (extra == 1) ? LD(0.5L) : LD(-1);
      const int reps = (extra == 1) ? 2 : 1;
      auto op = [&]{
        for(int q = 0; q < reps; ++q)
        {
          if(pop == P_MM) mx.add_mat_mat_product(md, mb, DT(alpha), allow);
          else if(pop == P_DMM) mx.add_double_mat_product(md, ma, mb, DT(alpha), allow);
          else mx.add_double_mat_product(md, va, mb, DT(alpha), allow);
        } };
      const int st = trapped(op);
      c.count("operations", uint64_t(reps));
      static const char* en[4] = {" all-negative", " re-invocation", " derived-operands", " shared-layout"};
      c.count(extra == 0 ? "all_negative_product_executions" : extra == 1 ? "re_invocations" : extra == 2 ? "derived_object_cases" : "shared_layout_product_executions");
      if(st != 0) { c.fail(key + en[extra] + " crash", "operation died with signal " + std::to_string(st)); return; }
      if(!c.check(hash_structure(mx) == sxs, key + en[extra] + " structure-modified", "layout of the output matrix changed")) return;
      if(!c.check(hash_of(sd) == hd && hash_of(sb) == hb && (pop != P_DMM || hash_of(sa) == ha) && hash_of(md) == hmd && hash_of(mb) == hmb, key + en[extra] + " operand-modified", "an input operand (source of a derived operand) was modified")) return;
      if(extra >= 2 && !c.check(hash_of(sx) == hx0, key + en[extra] + " bystander-modified", "the matrix whose layout the output matrix shares (weak clone) was modified")) return;
      const bool exact = (std::is_same<DT, double>::value || std::max(std::max(d.m, d.k), std::max(d.l, d.n)) <= 2);
      size_t kk = 0;
      for(int i = 0; i < d.m; ++i) for(int j = 0; j < d.n; ++j) if(X.has(i, j))
      {
        LD s = 0, as = 0;
        for(int k = 0; k < d.k; ++k) if(Dd.has(i, k)) for(int l = 0; l < d.l; ++l) if(A.has(k, l) && B.has(l, j))
        { const LD t = Dd.at(i, k) * A.at(k, l) * B.at(l, j); s += t; as += fabsl(t); }
        const LD expect = X.at(i, j) + LD(reps) * alpha * s;
        if(!near<DT>(c, key + en[extra], mx.val()[kk], expect, exact, LD(8 * (d.k * d.l + 2)) * std::numeric_limits<DT>::epsilon() * (fabsl(X.at(i, j)) + as),
          "entry (" + std::to_string(i) + "," + std::to_string(j) + ")")) return;
        ++kk;
      }
    }
  }

  /// structural completeness: pattern(D*A*B) subset of pattern(X)
  inline bool is_complete(int pop, const PDims& d, uint64_t bx, uint64_t bd, uint64_t ba, uint64_t bb)
  {
    for(int i = 0; i < d.m; ++i) for(int j = 0; j < d.n; ++j)
    {
      if((bx >> (i * d.n + j)) & 1u) continue;
      for(int k = 0; k < d.k; ++k) if((bd >> (i * d.k + k)) & 1u) for(int l = 0; l < d.l; ++l)
      {
        const bool a = (pop == P_DMM) ? (((ba >> (k * d.l + l)) & 1u) != 0) : (k == l);
        if(a && ((bb >> (l * d.n + j)) & 1u)) return false;
      }
    }
    return true;
  }

  template<typename DT, typename IT>
  void enum_products(verif::Ctx& c, int maxbits_quick)
  {
    std::vector<std::pair<int, PDims>> cfgs;
    // all dimension tuples in {1,2}
    for(int m = 1; m <= 2; ++m) for(int k = 1; k <= 2; ++k) for(int n = 1; n <= 2; ++n)
    {
      cfgs.push_back({P_MM, {m, k, k, n}}); cfgs.push_back({P_DVM, {m, k, k, n}});
      for(int l = 1; l <= 2; ++l) cfgs.push_back({P_DMM, {m, k, l, n}});
    }
    // selected tuples with a dimension 3
    static const PDims d3[] = {{3, 2, 2, 2}, {2, 3, 3, 2}, {2, 2, 2, 3}, {1, 3, 3, 3}, {3, 1, 1, 3}, {3, 3, 3, 1}};
    for(const PDims& d : d3) { cfgs.push_back({P_MM, d}); cfgs.push_back({P_DVM, d}); }
    static const PDims d4[] = {{1, 3, 2, 1}, {1, 2, 3, 1}, {3, 1, 1, 2}, {2, 1, 1, 3}, {1, 3, 3, 1}, {3, 1, 2, 1}, {1, 2, 1, 3}, {2, 2, 3, 1}, {1, 3, 2, 2}, {3, 2, 2, 1}, {1, 2, 2, 3}, {2, 3, 2, 2}, {2, 2, 3, 2}};
    for(const PDims& d : d4) cfgs.push_back({P_DMM, d});
    for(auto& cf : cfgs)
    {
      const int pop = cf.first; const PDims d = cf.second;
      const int nx = d.m * d.n, nd = d.m * d.k, na = (pop == P_DMM) ? d.k * d.l : 0, nb = d.l * d.n;
      const int total = nx + nd + na + nb;
      if(!c.thorough && total > maxbits_quick) continue;
      if(total > 18) continue;
      for(uint64_t all = 0; all < (uint64_t(1) << total); ++all)
      {
        const uint64_t bx = all & ((uint64_t(1) << nx) - 1), bd = (all >> nx) & ((uint64_t(1) << nd) - 1),
          ba = (all >> (nx + nd)) & ((uint64_t(1) << na) - 1), bb = (all >> (nx + nd + na)) & ((uint64_t(1) << nb) - 1);
        const bool complete = is_complete(pop, d, bx, bd, ba, bb);
        const bool any_empty = (bx == 0 || bd == 0 || bb == 0 || (pop == P_DMM && ba == 0));
        for(int rep = 0; rep < (any_empty ? 2 : 1); ++rep)
          for(int allow = 0; allow < 2; ++allow)
          {
            if(!c.want()) continue;
            const bool dies = (!complete && !allow);
            c.desc([&]{ std::ostringstream o; o << "csr<" << tp<DT, IT>() << "> " << pname[pop] << " X=" << dense_id(0, d.m, d.n, bx, 0).str() << " D=" << dense_id(1, d.m, d.k, bd, 0).str();
              if(pop == P_DMM) o << " A=" << dense_id(2, d.k, d.l, ba, 0).str(); if(pop == P_DVM) o << " a=vector(" << d.k << ")";
              o << " B=" << dense_id(3, d.l, d.n, bb, 0).str() << (any_empty ? (rep ? " empty-rep=allocated" : " empty-rep=entry-free") : "")
                << " allow_incomplete=" << allow << (complete ? " complete" : " INCOMPLETE") << " alpha in {1,-1,1/2,0.3,0} x {exact,rounding} alphabet"; return o.str(); });
            // a deterministic sample of the trapped executions is repeated in a forked child
            const bool validate = (dies || (any_empty && rep == 0)) && (all % 97 == 0);
            const bool efd = (bd == 0 && rep == 0), efa = ((pop == P_DMM && ba == 0) && rep == 0), efx = (bx == 0 && rep == 0), efb = (bb == 0 && rep == 0);
            product_case(c, efd || efa || efx || efb, dies, all, pname[pop], std::string("entry-free operand ") + pname[pop] + " " + (efd ? "d" : efa ? "a" : efx ? "this" : "b"),
              [&]{ run_product<DT, IT>(c, pop, d, bx, bd, ba, bb, rep, allow != 0, complete, validate); });
            if(bd != 0 && bb != 0 && (pop != P_DMM || ba != 0)) c.nontrivial(verif::Hash().str("p").str(tp<DT, IT>()).pod(pop).pod(d).pod(all).pod(rep).pod(allow).get());
            c.outcome(std::string("csr/") + pname[pop] + (dies ? " must-abort" : complete ? " complete" : " incomplete-allowed"));
          }
      }
    }
  }
}

int main(int argc, char** argv)
{
  FEAT::Runtime::ScopeGuard guard(argc, argv);
  verif::Spec spec; spec.property = "C03"; spec.harness = "c03_algebra"; spec.max_fail_per_worker = 1000000; spec.case_timeout_s = 120;
  spec.rule = "element-wise ops: case = (type pair, shape, one of ALL 2^(mn) patterns, representation of the empty pattern, operation + variant (alpha, x aliasing this, overload, shrink threshold, stored zero), alphabet {exact, rounding, all-negative, extreme magnitudes} or (exact alphabet) operands that are deep/shallow/weak clones, moved or index-type-converted objects, target = weak clone of a bystander); every operation is invoked twice on the same objects; "
    "products: case = (operation, dimension tuple, one of ALL pattern tuples (X,D[,A],B), empty-pattern representation, allow_incomplete), each executed for alpha in {1,-1,1/2,0.3,0} x {exact, rounding alphabet} + all-negative alphabet + product added twice (re-invocation) + derived operands (clones / moved, output = weak clone of a bystander); "
    "non-trivial = pattern(s) with entries; hash over all of these";
  spec.bounds_quick = "DenseMatrix::multiply: shapes m,k,n in {1..3}^3 (thorough {1..4}^3), multiply(x,y), multiply(x,y,z,a,b) with z separate / z==this / z==x / z==y, CSR*dense with all patterns of X, alpha,beta in {0,1,-1,0.5,2,0.3}^2, 3 alphabets, every call repeated on the same objects; element-wise: shapes {0..3}x{0..3}, all patterns, (double,u64),(float,u32),(double,u32); products: add_mat_mat_product and the diagonal-vector double product for all dims in {1,2}^3, "
    "add_double_mat_product for all dims in {1,2}^4 (65536 pattern tuples for 2x2x2x2, double/u64; float/u32 up to 2^12 tuples per dims); (sanitizer build: up to 2^12 resp. 2^10 tuples per dims); incomplete & !allow_incomplete executions must die with SIGABRT (trapped in-process by a sigsetjmp handler; a deterministic 1/97 sample is repeated in a forked child and must agree)";
  spec.bounds_thorough = "quick + element-wise shapes 2x4,4x2,3x4,4x3,4x4(double) + products with one dimension 3 (up to 2^18 pattern tuples per dimension tuple) for (double,u64), all {1,2}^4 for (float,u32)";
  spec.assumptions = {
    "coverage audit: bandwidth_row/column and radius_row/column added (matrices with entries; without entries the column variants transpose into an array-less matrix = recorded entry-free class); out of scope of C03 (other properties): apply (C01), transpose/permute/convert/layout constructors/set_line (C02), file I/O (C05), scatter/gather-axpy helper classes (C16), *_blocked_generic vector kernels (DenseVectorBlocked, C04), MKL/CUDA back ends", 
    "oracle: dense long double formulas written in the harness, restricted to the output pattern where entries are dropped (allow_incomplete)",
    "exact alphabet (position coded dyadic values) compared with ==; rounding alphabet, alpha=0.3, sqrt based norms: relative bound 8(terms+2) eps",
    "entry-free operands SparseMatrixCSR(m,n) (no arrays) are generated; element-wise cases run in a forked child, product cases under the in-process trap; a death by signal is reported under the key 'entry-free operand <op> [operand]'",
    "DenseMatrix::multiply: the output is pre-filled with NaN where it is no operand (it must not be read); excluded: x or y aliasing the output (not an in-place capable form)", "excluded (API preconditions): operands with different layouts in axpy/scale/scale_rows/cols; extract_diag of non-square matrices; min/max of a matrix without entries; output matrix aliasing a product operand"};
  return verif::run(spec, argc, argv, [&](verif::Ctx& c) {
    enum_unary<double, std::uint64_t>(c);
    enum_unary<float, std::uint32_t>(c);
    enum_unary<double, std::uint32_t>(c);
#ifdef VERIF_ASAN
    // sanitizer build (5-10x slower): the quick tier stops at 2^12 / 2^10 pattern tuples per dimension tuple
    enum_products<double, std::uint64_t>(c, 12);
    enum_products<float, std::uint32_t>(c, 10);
#else
    enum_products<double, std::uint64_t>(c, 16);
    enum_products<float, std::uint32_t>(c, 12);
#endif
    enum_dense_products<double, std::uint64_t>(c);
    enum_dense_products<float, std::uint32_t>(c);
  });
}
