// C03 (part 1, SparseMatrixCSR): matrix algebra operations equal their dense definitions.
//   axpy, scale, scale_rows, scale_cols, norm_frobenius, row_norm2, row_norm2sqr(+scal), lump_rows, extract_diag(+indices),
//   max/min(_abs)_element, shrink  -- for ALL sparsity patterns of all small shapes
//   add_mat_mat_product, add_double_mat_product (matrix and diagonal-vector middle factor) -- for ALL pattern tuples (X,D[,A],B)
//   with allow_incomplete in {false,true}; an incomplete output pattern without allow_incomplete MUST abort.
#include <c03_common.hpp>

using namespace c03;

namespace
{
  template<typename DT, typename IT> std::string tp() { return std::string(dtname<DT>()) + "," + itname<IT>(); }
  struct Shape { int m, n; };

  enum UOp { U_AXPY, U_SCALE, U_SCALE_ROWS, U_SCALE_COLS, U_FROB, U_RN2, U_RN2SQR, U_RN2SQR_S, U_LUMP, U_DIAG, U_MAXABS, U_MINABS, U_MAX, U_MIN, U_SHRINK, U_COUNT };
  static const char* uname[U_COUNT] = {"axpy", "scale", "scale_rows", "scale_cols", "norm_frobenius", "row_norm2", "row_norm2sqr", "row_norm2sqr(scal)",
    "lump_rows", "extract_diag", "max_abs_element", "min_abs_element", "max_element", "min_element", "shrink"};
  struct UCase { int op, var; };

  std::vector<UCase> ucases()
  {
    std::vector<UCase> v;
    for(int var = 0; var < 14; ++var) v.push_back({U_AXPY, var});       // alpha = var % 7, alias = var / 7
    for(int var = 0; var < 14; ++var) v.push_back({U_SCALE, var});
    for(int var = 0; var < 2; ++var) v.push_back({U_SCALE_ROWS, var});  // alias
    for(int var = 0; var < 2; ++var) v.push_back({U_SCALE_COLS, var});
    v.push_back({U_FROB, 0}); v.push_back({U_RN2, 0}); v.push_back({U_RN2SQR, 0}); v.push_back({U_RN2SQR_S, 0});
    v.push_back({U_LUMP, 0}); v.push_back({U_LUMP, 1});
    v.push_back({U_DIAG, 0});
    for(int op = U_MAXABS; op <= U_MIN; ++op) for(int zv = 0; zv < 2; ++zv) v.push_back({op, zv});
    for(int var = 0; var < 10; ++var) v.push_back({U_SHRINK, var});     // threshold = var % 5, zv = var / 5
    return v;
  }

  std::vector<Shape> ushapes(bool thorough)
  {
    std::vector<Shape> v = {{0, 0}, {0, 1}, {1, 0}, {0, 2}, {2, 0}};
    for(int s = 2; s <= 6; ++s) for(int m = 1; m <= 3; ++m) { int n = s - m; if(n >= 1 && n <= 3) v.push_back({m, n}); }
    if(thorough) { v.push_back({2, 4}); v.push_back({4, 2}); v.push_back({3, 4}); v.push_back({4, 3}); v.push_back({4, 4}); }
    return v;
  }

  // ------------------------------------------------------------------------------------------ unary / element-wise operations
  template<typename DT, typename IT>
  void run_unary(verif::Ctx& c, const UCase& uc, const DenseRef& D0, int rep, int alphabet, bool big)
  {
    typedef SparseMatrixCSR<DT, IT> M; typedef DenseVector<DT, IT> V;
    const std::string key = std::string("csr.") + uname[uc.op];
    const LD eps = LD(std::numeric_limits<DT>::epsilon());
    const LD nan = std::numeric_limits<LD>::quiet_NaN();
    DenseRef D = D0;
    for(auto& v : D.a) v = LD(DT(v));
    const int m = D.m, n = D.n, nnz = D.nnz();
    // row major list of the pattern
    std::vector<std::pair<int, int>> ent; for(int i = 0; i < m; ++i) for(int j = 0; j < n; ++j) if(D.has(i, j)) ent.push_back({i, j});
    auto zero_first = [&](DenseRef& d) { if(!ent.empty()) d.at(ent[0].first, ent[0].second) = LD(0); };

    switch(uc.op)
    {
    case U_AXPY: case U_SCALE:
    {
      const bool alias = uc.var >= 7; const Scalar& sc = scalars[uc.var % 7]; const LD alpha = LD(DT(sc.v));
      DenseRef DX(m, n), DY = D;
      for(auto& e : ent) DX.set(e.first, e.second, LD(DT(aval(alphabet, e.first + 4, e.second + 5))));
      if(uc.op == U_SCALE && !alias) for(auto& e : ent) DY.set(e.first, e.second, nan);
      M Y = build_csr<DT, IT>(DY, rep); M Xm = build_csr<DT, IT>(DX, rep);
      const M& X = alias ? Y : Xm;
      const uint64_t hx = hash_of(Xm), sy = hash_structure(Y);
      if(uc.op == U_AXPY) Y.axpy(X, DT(alpha)); else Y.scale(X, DT(alpha));
      c.check(hash_structure(Y) == sy, key + " structure-modified", "layout of the result changed");
      c.check(hash_of(Xm) == hx, key + " x-modified", "operand x was modified");
      const bool exact = (alphabet == 0) && sc.dyadic;
      for(size_t k = 0; k < ent.size(); ++k)
      {
        const LD y = D.at(ent[k].first, ent[k].second), x = alias ? y : DX.at(ent[k].first, ent[k].second);
        const LD expect = (uc.op == U_AXPY) ? y + alpha * x : alpha * x;
        if(!near<DT>(c, key + (alias ? " x==this" : ""), Y.val()[k], expect, exact, 8 * eps * (fabsl(y) + fabsl(alpha * x)), "entry " + std::to_string(k))) break;
      }
      break;
    }
    case U_SCALE_ROWS: case U_SCALE_COLS:
    {
      const bool alias = uc.var == 1; const bool rows = (uc.op == U_SCALE_ROWS);
      DenseRef DY = D; if(!alias) for(auto& e : ent) DY.set(e.first, e.second, nan);
      M Y = build_csr<DT, IT>(DY, rep); M Xm = build_csr<DT, IT>(D, rep);
      const M& X = alias ? Y : Xm;
      V s{Index(rows ? m : n)}; std::vector<LD> sf; for(int i = 0; i < (rows ? m : n); ++i) sf.push_back(LD(DT(sval(alphabet, i)))); vfill(s, sf);
      const auto ss = vflat(s); const uint64_t hx = hash_of(Xm), sy = hash_structure(Y);
      if(rows) Y.scale_rows(X, s); else Y.scale_cols(X, s);
      c.check(hash_structure(Y) == sy, key + " structure-modified", "layout of the result changed");
      c.check(hash_of(Xm) == hx && same_bits(ss, vflat(s)), key + " operand-modified", "operand x or s was modified");
      for(size_t k = 0; k < ent.size(); ++k)
      {
        const LD x = D.at(ent[k].first, ent[k].second), f = sf[size_t(rows ? ent[k].first : ent[k].second)];
        if(!near<DT>(c, key + (alias ? " x==this" : ""), Y.val()[k], x * f, alphabet == 0, 4 * eps * fabsl(x * f), "entry " + std::to_string(k))) break;
      }
      break;
    }
    case U_FROB:
    {
      M A = build_csr<DT, IT>(D, rep); const uint64_t h = hash_of(A);
      const DT got = A.norm_frobenius();
      LD s = 0; for(auto& e : ent) s += D.at(e.first, e.second) * D.at(e.first, e.second);
      near<DT>(c, key, got, sqrtl(s), nnz == 0, LD(nnz + 4) * eps * sqrtl(s), "norm");
      c.check(hash_of(A) == h, key + " matrix-modified", "matrix was modified");
      break;
    }
    case U_RN2: case U_RN2SQR: case U_RN2SQR_S: case U_LUMP:
    {
      M A = build_csr<DT, IT>(D, rep); const uint64_t h = hash_of(A);
      V r{Index(m)}; vfill(r, std::vector<LD>(size_t(m), nan));
      V s{Index(n)}; std::vector<LD> sf; for(int j = 0; j < n; ++j) sf.push_back(LD(DT(sval(alphabet, j)))); vfill(s, sf);
      if(uc.op == U_RN2) A.row_norm2(r);
      else if(uc.op == U_RN2SQR) A.row_norm2sqr(r);
      else if(uc.op == U_RN2SQR_S) A.row_norm2sqr(r, s);
      else if(uc.var == 0) A.lump_rows(r);
      else r = A.lump_rows();
      const auto rf = vflat(r);
      if(!c.check(rf.size() == size_t(m), key + " result-length", "result vector has the wrong length")) break;
      for(int i = 0; i < m; ++i)
      {
        LD e = 0, ae = 0;
        for(int j = 0; j < n; ++j) if(D.has(i, j))
        {
          const LD a = D.at(i, j);
          const LD t = (uc.op == U_LUMP) ? a : (uc.op == U_RN2SQR_S ? sf[size_t(j)] * a * a : a * a);
          e += t; ae += fabsl(t);
        }
        bool exact = (alphabet == 0);
        if(uc.op == U_RN2) { e = sqrtl(e); ae = e; exact = (D.row_len(i) == 0); }
        if(!near<DT>(c, key, rf[size_t(i)], e, exact, LD(D.row_len(i) + 4) * eps * ae, "row " + std::to_string(i))) break;
      }
      c.check(hash_of(A) == h, key + " matrix-modified", "matrix was modified");
      break;
    }
    case U_DIAG:
    {
      M A = build_csr<DT, IT>(D, rep); const uint64_t h = hash_of(A);
      DenseVector<IT, IT> idx = A.extract_diag_indices();
      bool ok = c.check(idx.size() == Index(m), key + "_indices length", "wrong length");
      for(int i = 0; i < m && ok; ++i)
      {
        Index expect = Index(nnz);
        for(size_t k = 0; k < ent.size(); ++k) if(ent[k].first == i && ent[k].second == i) expect = Index(k);
        ok = c.check(Index(idx.elements()[i]) == expect, key + "_indices", [&]{ return "row " + std::to_string(i) + ": got " + std::to_string(idx.elements()[i]) + " expected " + std::to_string(expect); });
      }
      V d1{Index(m)}, d2{Index(m)}; vfill(d1, std::vector<LD>(size_t(m), nan)); vfill(d2, std::vector<LD>(size_t(m), nan));
      if(ok) A.extract_diag(d1, idx);
      A.extract_diag(d2);
      V d3 = A.extract_diag();
      const auto f1 = vflat(d1), f2 = vflat(d2), f3 = vflat(d3);
      c.check(f3.size() == size_t(m), key + " result-length", "wrong length");
      for(int i = 0; i < m && ok && f3.size() == size_t(m); ++i)
      {
        const LD e = D.has(i, i) ? D.at(i, i) : LD(0);
        ok = near<DT>(c, key + "(diag,indices)", f1[size_t(i)], e, true, 0, "row " + std::to_string(i))
          && near<DT>(c, key + "(diag)", f2[size_t(i)], e, true, 0, "row " + std::to_string(i))
          && near<DT>(c, key + "()", f3[size_t(i)], e, true, 0, "row " + std::to_string(i));
      }
      c.check(hash_of(A) == h, key + " matrix-modified", "matrix was modified");
      break;
    }
    case U_MAXABS: case U_MINABS: case U_MAX: case U_MIN:
    {
      if(uc.var == 1) zero_first(D);
      M A = build_csr<DT, IT>(D, rep); const uint64_t h = hash_of(A);
      LD e = 0; bool first = true;
      for(auto& en : ent)
      {
        const LD a = D.at(en.first, en.second);
        const LD t = (uc.op == U_MAXABS || uc.op == U_MINABS) ? fabsl(a) : a;
        if(first || ((uc.op == U_MAXABS || uc.op == U_MAX) ? t > e : t < e)) e = t;
        first = false;
      }
      const DT got = (uc.op == U_MAXABS) ? A.max_abs_element() : (uc.op == U_MINABS) ? A.min_abs_element() : (uc.op == U_MAX) ? A.max_element() : A.min_element();
      near<DT>(c, key + (uc.var ? " stored-zero" : ""), got, e, true, 0, "value");
      c.check(hash_of(A) == h, key + " matrix-modified", "matrix was modified");
      break;
    }
    case U_SHRINK:
    {
      if(uc.var >= 5) zero_first(D);
      const int t = uc.var % 5;
      std::vector<LD> av; for(auto& en : ent) av.push_back(fabsl(D.at(en.first, en.second)));
      std::sort(av.begin(), av.end());
      LD thr = 0;
      if(av.empty()) thr = (t == 0) ? LD(0) : LD(1);
      else if(t == 1) { thr = av.back(); for(LD x : av) if(x > 0) { thr = x; break; } }
      else if(t == 2) thr = av[av.size() / 2];
      else if(t == 3) thr = av.back();
      else if(t == 4) thr = 2 * av.back() + 1;
      M A = build_csr<DT, IT>(D, rep);
      A.shrink(DT(thr));
      std::vector<std::pair<int, int>> keep; for(auto& en : ent) if(DT(fabsl(D.at(en.first, en.second))) >= DT(thr)) keep.push_back(en);
      const std::string k2 = key + (big ? "" : "") + (t == 0 ? " eps=0" : t == 4 ? " eps>max" : " eps=|entry|");
      bool ok = c.check(A.rows() == Index(m) && A.columns() == Index(n), k2 + " dimensions", "dimensions changed")
        && c.check(A.used_elements() == Index(keep.size()), k2 + " used_elements", [&]{ return "kept " + std::to_string(A.used_elements()) + " entries, expected " + std::to_string(keep.size()); });
      if(ok && !keep.empty())
      {
        ok = c.check(csr_valid(A), k2 + " invalid-layout", "row_ptr/col_ind of the shrunk matrix are not a valid CSR layout");
        for(size_t k = 0; k < keep.size() && ok; ++k)
        {
          ok = c.check(Index(A.col_ind()[k]) == Index(keep[k].second) && Index(A.row_ptr()[keep[k].first]) <= Index(k) && Index(k) < Index(A.row_ptr()[keep[k].first + 1]), k2 + " pattern", "wrong entry kept")
            && near<DT>(c, k2 + " value", A.val()[k], D.at(keep[k].first, keep[k].second), true, 0, "entry " + std::to_string(k));
        }
      }
      break;
    }
    default: break;
    }
  }

  template<typename DT, typename IT>
  void enum_unary(verif::Ctx& c)
  {
    const auto ucs = ucases();
    for(const Shape& sh : ushapes(c.thorough))
    {
      const int bitsn = sh.m * sh.n; const bool big = bitsn >= 12;
      if(bitsn >= 16 && !std::is_same<DT, double>::value) continue;
      for(uint64_t bits = 0; bits < (uint64_t(1) << bitsn); ++bits)
      {
        const int nreps = (bits == 0 && sh.m > 0 && sh.n > 0) ? 2 : 1;
        for(int rep = 0; rep < nreps; ++rep)
          for(int alphabet = 0; alphabet < (big ? 1 : 2); ++alphabet)
            for(const UCase& uc : ucs)
            {
              if(uc.op == U_DIAG && sh.m != sh.n) continue;                       // XASSERT: square only
              if(uc.op >= U_MAXABS && uc.op <= U_MIN && bits == 0) continue;      // precondition: no min/max of nothing
              if(uc.op == U_SHRINK && bits == 0 && (uc.var % 5) > 1) continue;
              if(uc.op == U_SHRINK && bits == 0 && uc.var >= 5) continue;
              if(!c.want()) continue;
              const DenseRef D = dense_from_bits(sh.m, sh.n, bits, alphabet);
              const bool ef = (bits == 0 && rep == 0);
              c.desc([&]{ return "csr<" + tp<DT, IT>() + "> " + D.str() + (bits == 0 ? (rep ? " rep=allocated-empty " : " rep=entry-free ") : " ") + uname[uc.op] + " variant=" + std::to_string(uc.var) + (alphabet ? " alphabet=rounding" : " alphabet=exact"); });
              guarded(c, ef, std::string("entry-free operand ") + uname[uc.op], [&]{ run_unary<DT, IT>(c, uc, D, rep, alphabet, big); });
              if(bits != 0) c.nontrivial(verif::Hash().str("u").str(tp<DT, IT>()).pod(sh).pod(bits).pod(uc).pod(alphabet).get());
              c.outcome(std::string("csr/") + uname[uc.op]);
              c.count("operations");
            }
      }
    }
  }

  // ------------------------------------------------------------------------------------------ sparse matrix products
  enum POp { P_MM, P_DMM, P_DVM };
  static const char* pname[3] = {"add_mat_mat_product", "add_double_mat_product", "add_double_mat_product(diag-vector)"};
  static const int palpha[5] = {1, 2, 3, 5, 0}; // indices into scalars: 1, -1, 1/2, 0.3, 0

  struct PDims { int m, k, l, n; };

  /// one (operation, pattern tuple, representation, allow_incomplete) case; loops over alpha and the alphabets internally
  template<typename DT, typename IT>
  void run_product(verif::Ctx& c, int pop, const PDims& d, uint64_t bx, uint64_t bd, uint64_t ba, uint64_t bb, int rep, bool allow, bool complete, bool validate_fork)
  {
    typedef SparseMatrixCSR<DT, IT> M; typedef DenseVector<DT, IT> V;
    const std::string key = std::string("csr.") + pname[pop];
    const LD eps = LD(std::numeric_limits<DT>::epsilon());
    const bool efd = (bd == 0 && rep == 0), efa = (pop == P_DMM && ba == 0 && rep == 0), efx = (bx == 0 && rep == 0), efb = (bb == 0 && rep == 0);
    const bool ef = efd || efa || efx || efb;
    const std::string efkey = std::string("entry-free operand ") + pname[pop] + " " + (efd ? "d" : efa ? "a" : efx ? "this" : "b");
    for(int alphabet = 0; alphabet < 2; ++alphabet)
    {
      DenseRef X = dense_id(0, d.m, d.n, bx, alphabet), Dd = dense_id(1, d.m, d.k, bd, alphabet), B = dense_id(3, d.l, d.n, bb, alphabet);
      DenseRef A(d.k, d.l);
      if(pop == P_DMM) A = dense_id(2, d.k, d.l, ba, alphabet);
      else if(pop == P_DVM) { for(int q = 0; q < d.k; ++q) A.set(q, q, mval(2, alphabet, q, q)); }
      else { for(int q = 0; q < d.k; ++q) A.set(q, q, LD(1)); }
      for(DenseRef* p : {&X, &Dd, &A, &B}) for(auto& v : p->a) v = LD(DT(v));
      M md = build_csr<DT, IT>(Dd, rep), mb = build_csr<DT, IT>(B, rep), ma;
      V va;
      if(pop == P_DMM) ma = build_csr<DT, IT>(A, rep);
      if(pop == P_DVM) { va = V(Index(d.k)); std::vector<LD> f; for(int q = 0; q < d.k; ++q) f.push_back(A.at(q, q)); vfill(va, f); }
      const uint64_t hd = hash_of(md), hb = hash_of(mb), ha = (pop == P_DMM) ? hash_of(ma) : 0;
      const auto vas = vflat(va);
      for(int ai = 0; ai < 5; ++ai)
      {
        const Scalar& sc = scalars[palpha[ai]]; const LD alpha = LD(DT(sc.v));
        M mx = build_csr<DT, IT>(X, rep);
        const uint64_t sx = hash_structure(mx);
        auto op = [&]{
          if(pop == P_MM) mx.add_mat_mat_product(md, mb, DT(alpha), allow);
          else if(pop == P_DMM) mx.add_double_mat_product(md, ma, mb, DT(alpha), allow);
          else mx.add_double_mat_product(md, va, mb, DT(alpha), allow); };
        const int st = trapped(op);
        c.count("operations");
        if(validate_fork && ai == 0 && alphabet == 0)
        {
          M mx2 = build_csr<DT, IT>(X, rep); mx = std::move(mx2);
          const int fs = c.run_forked(op);
          if(c.check(fs == st, key + " trap!=fork", [&]{ return "in-process trap saw status " + std::to_string(st) + ", the forked run " + std::to_string(fs); })) c.count("trap_matches_fork");
        }
        if(!complete && !allow)
        {
          c.count("required_abort_operations");
          if(st == SIGABRT) continue;
          if(st == 0) { c.fail(key + " no-abort", "incomplete output pattern with allow_incomplete=false: the operation returned instead of aborting (silently wrong values)"); return; }
          if(ef) { c.count("entry_free_operand_crashes"); fail_throttled(c, efkey, "operation died with signal " + std::to_string(st) + " instead of the required abort (null row pointer of the entry-free representation)"); return; }
          c.fail(key + " wrong-death", "expected SIGABRT, got signal " + std::to_string(st)); return;
        }
        if(st != 0)
        {
          if(ef) { c.count("entry_free_operand_crashes"); fail_throttled(c, efkey, "operation died with signal " + std::to_string(st) + " (null row pointer of the entry-free representation is dereferenced)"); return; }
          c.fail(key + (st == SIGABRT ? " spurious-abort" : " crash"), "operation died with signal " + std::to_string(st) + " although the output pattern is " + (complete ? "complete" : "allowed to be incomplete")); return;
        }
        if(ef) c.count("entry_free_operand_handled_correctly");
        if(!c.check(hash_structure(mx) == sx, key + " structure-modified", "layout of the output matrix changed")) return;
        if(!c.check(hash_of(md) == hd && hash_of(mb) == hb && (pop != P_DMM || hash_of(ma) == ha) && same_bits(vas, vflat(va)), key + " operand-modified", "an input operand was modified")) return;
        const bool exact = (alphabet == 0) && sc.dyadic && (std::is_same<DT, double>::value || std::max(std::max(d.m, d.k), std::max(d.l, d.n)) <= 2);
        size_t kk = 0;
        for(int i = 0; i < d.m; ++i) for(int j = 0; j < d.n; ++j) if(X.has(i, j))
        {
          LD s = 0, as = 0;
          for(int k = 0; k < d.k; ++k) if(Dd.has(i, k)) for(int l = 0; l < d.l; ++l) if(A.has(k, l) && B.has(l, j))
          { const LD t = Dd.at(i, k) * A.at(k, l) * B.at(l, j); s += t; as += fabsl(t); }
          const LD expect = X.at(i, j) + alpha * s;
          if(!near<DT>(c, key + (complete ? "" : " allow_incomplete"), mx.val()[kk], expect, exact, LD(8 * (d.k * d.l + 2)) * eps * (fabsl(X.at(i, j)) + fabsl(alpha) * as),
            "entry (" + std::to_string(i) + "," + std::to_string(j) + ") alpha=" + sc.name + (alphabet ? " rounding" : " exact"))) return;
          ++kk;
        }
      }
    }
  }

  /// structural completeness: pattern(D*A*B) subset of pattern(X)
  inline bool is_complete(int pop, const PDims& d, uint64_t bx, uint64_t bd, uint64_t ba, uint64_t bb)
  {
    for(int i = 0; i < d.m; ++i) for(int j = 0; j < d.n; ++j)
    {
      if((bx >> (i * d.n + j)) & 1u) continue;
      for(int k = 0; k < d.k; ++k) if((bd >> (i * d.k + k)) & 1u) for(int l = 0; l < d.l; ++l)
      {
        const bool a = (pop == P_DMM) ? (((ba >> (k * d.l + l)) & 1u) != 0) : (k == l);
        if(a && ((bb >> (l * d.n + j)) & 1u)) return false;
      }
    }
    return true;
  }

  template<typename DT, typename IT>
  void enum_products(verif::Ctx& c, int maxbits_quick)
  {
    std::vector<std::pair<int, PDims>> cfgs;
    // all dimension tuples in {1,2}
    for(int m = 1; m <= 2; ++m) for(int k = 1; k <= 2; ++k) for(int n = 1; n <= 2; ++n)
    {
      cfgs.push_back({P_MM, {m, k, k, n}}); cfgs.push_back({P_DVM, {m, k, k, n}});
      for(int l = 1; l <= 2; ++l) cfgs.push_back({P_DMM, {m, k, l, n}});
    }
    // selected tuples with a dimension 3
    static const PDims d3[] = {{3, 2, 2, 2}, {2, 3, 3, 2}, {2, 2, 2, 3}, {1, 3, 3, 3}, {3, 1, 1, 3}, {3, 3, 3, 1}};
    for(const PDims& d : d3) { cfgs.push_back({P_MM, d}); cfgs.push_back({P_DVM, d}); }
    static const PDims d4[] = {{1, 3, 2, 1}, {1, 2, 3, 1}, {3, 1, 1, 2}, {2, 1, 1, 3}, {1, 3, 3, 1}, {3, 1, 2, 1}, {1, 2, 1, 3}, {2, 2, 3, 1}, {1, 3, 2, 2}, {3, 2, 2, 1}, {1, 2, 2, 3}, {2, 3, 2, 2}, {2, 2, 3, 2}};
    for(const PDims& d : d4) cfgs.push_back({P_DMM, d});
    for(auto& cf : cfgs)
    {
      const int pop = cf.first; const PDims d = cf.second;
      const int nx = d.m * d.n, nd = d.m * d.k, na = (pop == P_DMM) ? d.k * d.l : 0, nb = d.l * d.n;
      const int total = nx + nd + na + nb;
      if(!c.thorough && total > maxbits_quick) continue;
      if(total > 18) continue;
      for(uint64_t all = 0; all < (uint64_t(1) << total); ++all)
      {
        const uint64_t bx = all & ((uint64_t(1) << nx) - 1), bd = (all >> nx) & ((uint64_t(1) << nd) - 1),
          ba = (all >> (nx + nd)) & ((uint64_t(1) << na) - 1), bb = (all >> (nx + nd + na)) & ((uint64_t(1) << nb) - 1);
        const bool complete = is_complete(pop, d, bx, bd, ba, bb);
        const bool any_empty = (bx == 0 || bd == 0 || bb == 0 || (pop == P_DMM && ba == 0));
        for(int rep = 0; rep < (any_empty ? 2 : 1); ++rep)
          for(int allow = 0; allow < 2; ++allow)
          {
            if(!c.want()) continue;
            const bool dies = (!complete && !allow);
            c.desc([&]{ std::ostringstream o; o << "csr<" << tp<DT, IT>() << "> " << pname[pop] << " X=" << dense_id(0, d.m, d.n, bx, 0).str() << " D=" << dense_id(1, d.m, d.k, bd, 0).str();
              if(pop == P_DMM) o << " A=" << dense_id(2, d.k, d.l, ba, 0).str(); if(pop == P_DVM) o << " a=vector(" << d.k << ")";
              o << " B=" << dense_id(3, d.l, d.n, bb, 0).str() << (any_empty ? (rep ? " empty-rep=allocated" : " empty-rep=entry-free") : "")
                << " allow_incomplete=" << allow << (complete ? " complete" : " INCOMPLETE") << " alpha in {1,-1,1/2,0.3,0} x {exact,rounding} alphabet"; return o.str(); });
            // a deterministic sample of the trapped executions is repeated in a forked child
            const bool validate = (dies || (any_empty && rep == 0)) && (all % 97 == 0);
            run_product<DT, IT>(c, pop, d, bx, bd, ba, bb, rep, allow != 0, complete, validate);
            if(bd != 0 && bb != 0 && (pop != P_DMM || ba != 0)) c.nontrivial(verif::Hash().str("p").str(tp<DT, IT>()).pod(pop).pod(d).pod(all).pod(rep).pod(allow).get());
            c.outcome(std::string("csr/") + pname[pop] + (dies ? " must-abort" : complete ? " complete" : " incomplete-allowed"));
          }
      }
    }
  }
}

int main(int argc, char** argv)
{
  FEAT::Runtime::ScopeGuard guard(argc, argv);
  verif::Spec spec; spec.property = "C03"; spec.harness = "c03_algebra"; spec.max_fail_per_worker = 1000000;
  spec.rule = "element-wise ops: case = (type pair, shape, one of ALL 2^(mn) patterns, representation of the empty pattern, operation + variant (alpha, x aliasing this, overload, shrink threshold, stored zero), alphabet); "
    "products: case = (operation, dimension tuple, one of ALL pattern tuples (X,D[,A],B), empty-pattern representation, allow_incomplete), each executed for alpha in {1,-1,1/2,0.3,0} x {exact, rounding alphabet}; "
    "non-trivial = pattern(s) with entries; hash over all of these";
  spec.bounds_quick = "element-wise: shapes {0..3}x{0..3}, all patterns, (double,u64),(float,u32),(double,u32); products: add_mat_mat_product and the diagonal-vector double product for all dims in {1,2}^3, "
    "add_double_mat_product for all dims in {1,2}^4 (65536 pattern tuples for 2x2x2x2, double/u64; float/u32 up to 2^14 tuples per dims); incomplete & !allow_incomplete executions must die with SIGABRT (trapped in-process by a sigsetjmp handler; a deterministic 1/97 sample is repeated in a forked child and must agree)";
  spec.bounds_thorough = "quick + element-wise shapes 2x4,4x2,3x4,4x3,4x4(double) + products with one dimension 3 (up to 2^18 pattern tuples per dimension tuple) for (double,u64), all {1,2}^4 for (float,u32)";
  spec.assumptions = {
    "oracle: dense long double formulas written in the harness, restricted to the output pattern where entries are dropped (allow_incomplete)",
    "exact alphabet (position coded dyadic values) compared with ==; rounding alphabet, alpha=0.3, sqrt based norms: relative bound 8(terms+2) eps",
    "entry-free operands SparseMatrixCSR(m,n) (no arrays) are generated; element-wise cases run in a forked child, product cases under the in-process trap; a death by signal is reported under the key 'entry-free operand <op> [operand]'",
    "excluded (API preconditions): operands with different layouts in axpy/scale/scale_rows/cols; extract_diag of non-square matrices; min/max of a matrix without entries; output matrix aliasing a product operand"};
  return verif::run(spec, argc, argv, [&](verif::Ctx& c) {
    enum_unary<double, std::uint64_t>(c);
    enum_unary<float, std::uint32_t>(c);
    enum_unary<double, std::uint32_t>(c);
    enum_products<double, std::uint64_t>(c, 16);
    enum_products<float, std::uint32_t>(c, 14);
  });
}
