// C16 remaining operator classes of common_operators.hpp / common_functionals.hpp on tetra/hexa; see c16_operators_impl.hpp.
#include <c16_operators_impl.hpp>
int main(int argc, char** argv) { return c16o::operators_main<true>(argc, argv, "c16_operators3d"); }
