#pragma once
// c16_assembly_impl.hpp -- shared implementation of c16_assembly (2D shapes) and c16_assembly3d (3D shapes).
// C16 (scalar part): bilinear operators and linear functionals assembled into CSR matrices / dense vectors on every
// route (classic cell-loop assemblers, matrix-free apply, DomainAssembler jobs with 0 worker threads), against the
// harness-owned exact polynomial integrator; plus the symbolic assembler's patterns against the coupling sets computed
// from the dof mappings.
#include <c16_core.hpp>
#include <c15_desc.hpp>

#include <kernel/assembly/asm_traits.hpp>
#include <kernel/assembly/bilinear_operator_assembler.hpp>
#include <kernel/assembly/basic_assembly_jobs.hpp> // not self-contained: needs asm_traits.hpp
#include <kernel/assembly/common_functionals.hpp>
#include <kernel/assembly/common_operators.hpp>
#include <kernel/assembly/domain_assembler.hpp>
#include <kernel/assembly/domain_assembler_helpers.hpp>
#include <kernel/assembly/linear_functional_assembler.hpp>
#include <kernel/assembly/symbolic_assembler.hpp>
#include <kernel/cubature/dynamic_factory.hpp>
#include <kernel/runtime.hpp>
#include <kernel/space/cro_rav_ran_tur/element.hpp>
#include <kernel/space/discontinuous/element.hpp>
#include <kernel/space/lagrange1/element.hpp>
#include <kernel/space/lagrange2/element.hpp>
#include <kernel/space/lagrange3/element.hpp>

using namespace FEAT;
using namespace c16;

namespace
{
  // element tags: name, space template, degree of the real polynomials contained in the space on every cell
  struct EL1 { static const char* name() { return "lagrange1"; } template<typename T_> using Space = FEAT::Space::Lagrange1::Element<T_>; static constexpr int pk = 1; static constexpr int deg = 1; static constexpr bool has_grad = true; };
  struct EL2 { static const char* name() { return "lagrange2"; } template<typename T_> using Space = FEAT::Space::Lagrange2::Element<T_>; static constexpr int pk = 2; static constexpr int deg = 2; static constexpr bool has_grad = true; };
  struct EL3 { static const char* name() { return "lagrange3"; } template<typename T_> using Space = FEAT::Space::Lagrange3::Element<T_>; static constexpr int pk = 3; static constexpr int deg = 3; static constexpr bool has_grad = true; };
  struct ECR { static const char* name() { return "cro_rav_ran_tur"; } template<typename T_> using Space = FEAT::Space::CroRavRanTur::Element<T_>; static constexpr int pk = 1; static constexpr int deg = 2; static constexpr bool has_grad = true; };
  struct EP0 { static const char* name() { return "discontinuous-p0"; } template<typename T_> using Space = FEAT::Space::Discontinuous::Element<T_, FEAT::Space::Discontinuous::Variant::StdPolyP<0>>; static constexpr int pk = 0; static constexpr int deg = 0; static constexpr bool has_grad = false; };
  struct EP1 { static const char* name() { return "discontinuous-p1"; } template<typename T_> using Space = FEAT::Space::Discontinuous::Element<T_, FEAT::Space::Discontinuous::Variant::StdPolyP<1>>; static constexpr int pk = 1; static constexpr int deg = 1; static constexpr bool has_grad = true; };

  template<int D> Poly<D> grad_dot(const Poly<D>& a, const Poly<D>& b)
  {
    Poly<D> r;
    for(int i = 0; i < D; ++i) r += a.diff(i) * b.diff(i);
    return r;
  }

  /// names of two cubature rules that integrate per-variable/total degree `deg` exactly
  template<typename Shape_>
  std::vector<String> cubature_names(int deg)
  {
    std::vector<String> r;
    if(ShapeInfo<Shape_>::is_simplex)
    {
      r.push_back("auto-degree:" + stringify(std::max(deg, 1)));
      r.push_back("auto-degree:" + stringify(std::max(deg, 1) + 1));
    }
    else
    {
      r.push_back("gauss-legendre:" + stringify(deg / 2 + 1));
      r.push_back("auto-degree:" + stringify(deg + 2));
    }
    return r;
  }

  template<typename Shape_, typename Test_, typename Trial_>
  struct PairChecker
  {
    static constexpr int D = Shape_::dimension;
    static constexpr bool same = std::is_same<Test_, Trial_>::value;
    typedef typename MeshCtx<Shape_>::MeshType MeshType;
    typedef Trafo::Standard::Mapping<MeshType> TrafoType;
    typedef typename Test_::template Space<TrafoType> TestSpace;
    typedef typename Trial_::template Space<TrafoType> TrialSpace;

    verif::Ctx& c;
    MeshCtx<Shape_>& mc;
    std::string kp;
    TrafoType trafo;
    TestSpace test;
    TrialSpace trial;
    std::vector<Poly<D>> mt, ms;   // monomials in the test / trial space
    std::vector<Vec> vt, vs;       // their interpolants
    CSR pattern;
    std::unique_ptr<Assembly::DomainAssembler<TrafoType>> dom_asm;
    bool poly_entries = true;      // the matrix entries themselves are integrals of polynomials (false: rational integrands on non-affine cells)

    PairChecker(verif::Ctx& c_, MeshCtx<Shape_>& mc_) : c(c_), mc(mc_), trafo(*mc_.mesh), test(trafo), trial(trafo)
    {
      kp = std::string(ShapeInfo<Shape_>::name()) + " " + Test_::name() + "x" + Trial_::name();
      mt = monomials<D>(exps_total_degree<D>(Test_::pk));
      ms = monomials<D>(exps_total_degree<D>(Trial_::pk));
      vt = interpolate_all(test, mt);
      vs = interpolate_all(trial, ms);
      if constexpr(same) Assembly::SymbolicAssembler::assemble_matrix_std1(pattern, test);
      else Assembly::SymbolicAssembler::assemble_matrix_std2(pattern, test, trial);
      dom_asm.reset(new Assembly::DomainAssembler<TrafoType>(trafo));
      dom_asm->set_max_worker_threads(0);
      dom_asm->compile_all_elements();
    }

    // ------------------------------------------------------------------ symbolic patterns
    void check_patterns()
    {
      auto cs = coupling_set(test, trial);
      auto ps = pattern_set(pattern);
      c.count("patterns");
      c.check(ps == cs, kp + " pattern.std", [&]{ return "std pattern has " + std::to_string(ps.size()) + " entries, the dof mappings couple " + std::to_string(cs.size()); });
      c.check(pattern.rows() == test.get_num_dofs() && pattern.columns() == trial.get_num_dofs(), kp + " pattern.dims", "wrong matrix dimensions");
      // sorted, duplicate free rows
      bool sorted = true;
      for(Index i = 0; i < pattern.rows(); ++i) for(Index k = pattern.row_ptr()[i] + 1; k < pattern.row_ptr()[i + 1]; ++k) sorted = sorted && (pattern.col_ind()[k - 1] < pattern.col_ind()[k]);
      c.check(sorted, kp + " pattern.sorted", "column indices of a row are not strictly increasing");
      if constexpr(same)
      {
        CSR pf, pn, pd;
        Assembly::SymbolicAssembler::assemble_matrix_ext_facet1(pf, test);
        Assembly::SymbolicAssembler::assemble_matrix_ext_node1(pn, test);
        Assembly::SymbolicAssembler::assemble_matrix_diag(pd, test);
        auto sf = pattern_set(pf), sn = pattern_set(pn), sd = pattern_set(pd);
        bool sup_f = true, sup_n = true;
        for(auto& p : cs) { sup_f = sup_f && sf.count(p); sup_n = sup_n && sn.count(p); }
        c.check(sup_f, kp + " pattern.ext_facet", "extended facet pattern misses a cell coupling");
        c.check(sup_n, kp + " pattern.ext_node", "extended node pattern misses a cell coupling");
        // the facet-extended pattern couples dofs of facet-neighbour cells, the node-extended one those of vertex
        // neighbours: facet-ext subset of node-ext
        bool sub = true;
        for(auto& p : sf) sub = sub && sn.count(p);
        c.check(sub, kp + " pattern.ext_nesting", "extended facet pattern is not contained in the extended node pattern");
        bool diag = (sd.size() == size_t(test.get_num_dofs()));
        for(auto& p : sd) diag = diag && (p.first == p.second);
        c.check(diag, kp + " pattern.diag", "diagonal pattern is not the diagonal");
        // symmetry of single-space patterns
        bool sym = true;
        for(auto& p : ps) sym = sym && ps.count(std::make_pair(p.second, p.first));
        c.check(sym, kp + " pattern.symmetric", "single-space pattern is not symmetric");
      }
    }

    // ------------------------------------------------------------------ one bilinear operator on all routes
    /// form(u_trial, v_test) gives the integrand polynomial; int_deg = polynomial degree the cubature has to integrate
    template<typename Operator_, typename Form_>
    void check_operator(const std::string& opname, Operator_& op, const Form_& form, int int_deg, bool symmetric, bool kills_constants)
    {
      const std::string k = kp + " " + opname;
      auto cubs = cubature_names<Shape_>(int_deg);
      CSR first;
      for(size_t ic = 0; ic < cubs.size(); ++ic)
      {
        Cubature::DynamicFactory cf(cubs[ic]);
        // route 1: classic cell loop
        CSR A = pattern.clone(LAFEM::CloneMode::Layout); A.format();
        if constexpr(same) Assembly::BilinearOperatorAssembler::assemble_matrix1(A, op, test, cf);
        else Assembly::BilinearOperatorAssembler::assemble_matrix2(A, op, test, trial, cf);
        c.count("matrices_assembled");
        // oracle: v_b^T A u_a = int form(m_a, m_b)
        for(size_t a = 0; a < ms.size(); ++a) for(size_t b = 0; b < mt.size(); ++b)
        {
          Poly<D> integrand = form(ms[a], mt[b]);
          LD exact = mc.integrate(integrand), sc = 0;
          LD got = bilinear(A, vt[b], vs[a], &sc);
          c.count("oracle_integrals");
          if(!(std::fabs(got - exact) <= LD(1e-10) * (sc + mc.integrate_abs(integrand) + LD(1e-30))))
          {
            c.fail(k + " oracle", "cubature " + cubs[ic] + ": v^T A u = " + std::to_string(double(got)) + " but the exact integral is " + std::to_string(double(exact))
              + " for u=[" + ms[a].str() + "] v=[" + mt[b].str() + "]");
            return;
          }
        }
        if(symmetric && same)
        {
          bool sym = true;
          for(Index i = 0; i < A.rows() && sym; ++i) for(Index kk = A.row_ptr()[i]; kk < A.row_ptr()[i + 1]; ++kk)
          {
            bool pres = false; LD t = entry(A, A.col_ind()[kk], i, &pres);
            if(!pres || double(t) != A.val()[kk]) { sym = false; break; }
          }
          c.check(sym, k + " symmetric", [&]{ return std::string("matrix of a symmetric form is not (bitwise) symmetric, cubature ") + cubs[ic]; });
        }
        if(kills_constants)
        {
          // A * 1 = 0 and 1^T A = 0 (1 = interpolant of the constant function)
          Vec r(A.rows(), 0.0);
          A.apply(r, vs[0]);
          double nrm = 0, big = 0;
          for(Index kk = 0; kk < A.used_elements(); ++kk) big = std::max(big, std::fabs(A.val()[kk]));
          for(Index i = 0; i < r.size(); ++i) nrm = std::max(nrm, std::fabs(r(i)));
          c.check(nrm <= 1e-11 * (big + 1e-300) * 100, k + " kernel", [&]{ return "A*1 = " + std::to_string(nrm) + " (max |a_ij| = " + std::to_string(big) + "), cubature " + cubs[ic]; });
        }
        // route 2: DomainAssembler job, no worker threads
        {
          CSR B = pattern.clone(LAFEM::CloneMode::Layout); B.format();
          if constexpr(same) Assembly::assemble_bilinear_operator_matrix_1(*dom_asm, B, op, test, cubs[ic]);
          else Assembly::assemble_bilinear_operator_matrix_2(*dom_asm, B, op, test, trial, cubs[ic]);
          bool lay = false, bit = false;
          double d = max_rel_diff(A, B, &lay, &bit);
          c.outcome(bit ? "job route bitwise equal" : "job route equal to rounding");
          c.check(lay && d <= 1e-12, k + " route.job", [&]{ return "DomainAssembler job differs from the classic assembler by " + std::to_string(d) + " (relative), cubature " + cubs[ic]; });
        }
        // route 3: matrix-free application
        {
          Vec x(A.columns()), y1(A.rows(), 0.0), y2(A.rows(), 0.0);
          for(Index i = 0; i < x.size(); ++i) x(i, coded_coef(i, 0));
          A.apply(y1, x);
          if constexpr(same) Assembly::BilinearOperatorAssembler::apply1(y2, x, op, test, cf);
          else Assembly::BilinearOperatorAssembler::apply2(y2, x, op, test, trial, cf);
          double d = 0, big = 1e-300;
          for(Index i = 0; i < y1.size(); ++i) { d = std::max(d, std::fabs(y1(i) - y2(i))); big = std::max(big, std::fabs(y1(i))); }
          for(Index kk = 0; kk < A.used_elements(); ++kk) big = std::max(big, std::fabs(A.val()[kk]) * 4.0);
          c.check(d <= 1e-11 * big, k + " route.apply", [&]{ return "matrix-free apply differs from A*x by " + std::to_string(d) + ", cubature " + cubs[ic]; });
        }
        // alpha: two half assemblies accumulate to the full one
        if(ic == 0)
        {
          CSR H = pattern.clone(LAFEM::CloneMode::Layout); H.format();
          if constexpr(same) { Assembly::BilinearOperatorAssembler::assemble_matrix1(H, op, test, cf, 0.25); Assembly::BilinearOperatorAssembler::assemble_matrix1(H, op, test, cf, 0.75); }
          else { Assembly::BilinearOperatorAssembler::assemble_matrix2(H, op, test, trial, cf, 0.25); Assembly::BilinearOperatorAssembler::assemble_matrix2(H, op, test, trial, cf, 0.75); }
          bool lay = false, bit = false;
          double d = max_rel_diff(A, H, &lay, &bit);
          c.check(lay && d <= 1e-13, k + " alpha", [&]{ return "assembling with alpha=0.25 and alpha=0.75 into one matrix differs from alpha=1 by " + std::to_string(d); });
          first = std::move(A);
        }
        else
        {
          // both cubature rules are exact: same matrix
          bool lay = false, bit = false;
          double d = max_rel_diff(first, A, &lay, &bit);
          if(poly_entries) c.check(lay && d <= 1e-11, k + " cubature-independent", [&]{ return "two sufficiently exact cubature rules give matrices that differ by " + std::to_string(d) + " (" + cubs[0] + " vs " + cubs[ic] + ")"; });
        }
      }
    }

    // ------------------------------------------------------------------ linear functionals
    void check_functionals()
    {
      const std::string k = kp + " functional";
      // a fixed polynomial right hand side of degree 2
      Poly<D> f(LD(0.5));
      for(int i = 0; i < D; ++i) { f += Poly<D>::var(i) * LD(i + 1); f += Poly<D>::var(i) * Poly<D>::var((i + 1) % D) * LD(0.25 * (i + 1)); }
      PolyFunction<D> ff(f);
      Poly<D> lapf; for(int i = 0; i < D; ++i) lapf -= f.diff(i).diff(i);
      auto cubs = cubature_names<Shape_>(2 + Test_::deg + (mc.affine ? 0 : D - 1));
      for(size_t ic = 0; ic < cubs.size(); ++ic)
      {
        Cubature::DynamicFactory cf(cubs[ic]);
        Assembly::Common::ForceFunctional<PolyFunction<D>> force(ff);
        Assembly::Common::LaplaceFunctional<PolyFunction<D>> lapl(ff);
        Vec b1(test.get_num_dofs(), 0.0), b2(test.get_num_dofs(), 0.0), b3(test.get_num_dofs(), 0.0), b4(test.get_num_dofs(), 0.0), b5(test.get_num_dofs(), 0.0);
        Assembly::LinearFunctionalAssembler::assemble_vector(b1, force, test, cf);
        Assembly::assemble_linear_functional_vector(*dom_asm, b2, force, test, cubs[ic]);
        Assembly::assemble_force_function_vector(*dom_asm, b3, ff, test, cubs[ic]);
        Assembly::LinearFunctionalAssembler::assemble_vector(b4, lapl, test, cf);
        Assembly::assemble_linear_functional_vector(*dom_asm, b5, lapl, test, cubs[ic], 2.0);
        c.count("vectors_assembled", 5);
        for(size_t b = 0; b < mt.size(); ++b)
        {
          Poly<D> in1 = f * mt[b], in2 = lapf * mt[b];
          LD e1 = mc.integrate(in1), e2 = mc.integrate(in2);
          LD g1 = 0, g2 = 0, g3 = 0, g4 = 0, g5 = 0, sc = 0;
          for(Index i = 0; i < b1.size(); ++i)
          {
            LD v = LD(vt[b](i));
            g1 += v * LD(b1(i)); g2 += v * LD(b2(i)); g3 += v * LD(b3(i)); g4 += v * LD(b4(i)); g5 += v * LD(b5(i));
            sc += std::fabs(v * LD(b1(i))) + std::fabs(v * LD(b4(i)));
          }
          LD tol = LD(1e-10) * (sc + mc.integrate_abs(in1) + mc.integrate_abs(in2) + LD(1e-30));
          c.count("oracle_integrals", 5);
          if(!(std::fabs(g1 - e1) <= tol)) { c.fail(k + " force.classic", "cubature " + cubs[ic] + ": v^T b = " + std::to_string(double(g1)) + ", exact " + std::to_string(double(e1)) + " for v=[" + mt[b].str() + "]"); return; }
          if(!(std::fabs(g2 - e1) <= tol)) { c.fail(k + " force.job", "cubature " + cubs[ic] + ": v^T b = " + std::to_string(double(g2)) + ", exact " + std::to_string(double(e1)) + " for v=[" + mt[b].str() + "]"); return; }
          if(!(std::fabs(g3 - e1) <= tol)) { c.fail(k + " force.force-job", "cubature " + cubs[ic] + ": v^T b = " + std::to_string(double(g3)) + ", exact " + std::to_string(double(e1)) + " for v=[" + mt[b].str() + "]"); return; }
          if(!(std::fabs(g4 - e2) <= tol)) { c.fail(k + " laplace.classic", "cubature " + cubs[ic] + ": v^T b = " + std::to_string(double(g4)) + ", exact " + std::to_string(double(e2)) + " for v=[" + mt[b].str() + "]"); return; }
          if(!(std::fabs(g5 - 2 * e2) <= 2 * tol)) { c.fail(k + " laplace.job-alpha2", "cubature " + cubs[ic] + ": v^T b = " + std::to_string(double(g5)) + ", exact " + std::to_string(double(2 * e2)) + " for v=[" + mt[b].str() + "]"); return; }
        }
      }
    }

    void run()
    {
      check_patterns();
      const int extra = mc.affine ? 0 : (D - 1);
      {
        Assembly::Common::IdentityOperator op;
        check_operator("identity", op, [](const Poly<D>& u, const Poly<D>& v) { return u * v; }, Test_::deg + Trial_::deg + extra, true, false);
      }
      if constexpr(Test_::has_grad && Trial_::has_grad)
      {
        // gradients of the basis functions are rational on non-affine cells: the cubature sees a polynomial only for
        // the combinations u,v; it has to integrate degree deg+deg (affine: deg-1 + deg-1)
        const int gd = (mc.affine && ShapeInfo<Shape_>::is_simplex) ? std::max(0, Test_::deg - 1) + std::max(0, Trial_::deg - 1) : Test_::deg + Trial_::deg + extra;
        poly_entries = mc.affine;
        {
          Assembly::Common::LaplaceOperator op;
          check_operator("laplace", op, [](const Poly<D>& u, const Poly<D>& v) { return grad_dot<D>(u, v); }, gd, true, true);
        }
        for(int ir = 0; ir < D; ++ir) for(int jc = 0; jc < D; ++jc)
        {
          Assembly::Common::DuDvOperator op(ir, jc);
          check_operator("dudv" + std::to_string(ir) + std::to_string(jc), op, [ir, jc](const Poly<D>& u, const Poly<D>& v)
            { Poly<D> r = u.diff(ir) * v.diff(jc); if(ir == jc) r += grad_dot<D>(u, v); return r; }, gd, false, true);
          {
            Assembly::Common::DivDivOperator op2(ir, jc);
            check_operator("divdiv" + std::to_string(ir) + std::to_string(jc), op2, [ir, jc](const Poly<D>& u, const Poly<D>& v)
              { return u.diff(jc) * v.diff(ir); }, gd, false, true);
          }
        }
      }
      if constexpr(Test_::has_grad)
      {
        const int gd = (mc.affine && ShapeInfo<Shape_>::is_simplex) ? std::max(0, Test_::deg - 1) + Trial_::deg : Test_::deg + Trial_::deg + extra;
        poly_entries = mc.affine;
        for(int k = 0; k < D; ++k)
        {
          // documented: phi * d_k psi (phi trial, psi test)
          Assembly::Common::TestDerivativeOperator op(k);
          check_operator("test-derivative" + std::to_string(k), op, [k](const Poly<D>& u, const Poly<D>& v) { return u * v.diff(k); }, gd, false, false);
        }
      }
      check_functionals();
    }
  };

  /// TrialDerivativeOperator: documented as d_k phi * psi (phi trial, psi test); its template configuration asks for
  /// gradients of the TEST space, so it can only be instantiated for test spaces with gradients
  template<typename Shape_, typename Test_, typename Trial_>
  void check_trial_derivative(verif::Ctx& c, MeshCtx<Shape_>& mc)
  {
    constexpr int D = Shape_::dimension;
    PairChecker<Shape_, Test_, Trial_> pc(c, mc);
    const int extra = mc.affine ? 0 : (D - 1);
    const int gd = (mc.affine && ShapeInfo<Shape_>::is_simplex) ? std::max(0, Trial_::deg - 1) + Test_::deg : Test_::deg + Trial_::deg + extra;
    pc.poly_entries = mc.affine;
    for(int k = 0; k < D; ++k)
    {
      Assembly::Common::TrialDerivativeOperator op(k);
      pc.check_operator("trial-derivative" + std::to_string(k), op, [k](const Poly<D>& u, const Poly<D>& v) { return u.diff(k) * v; }, gd, false, false);
    }
  }

  template<typename Shape_>
  void enumerate_shape(verif::Ctx& c)
  {
    constexpr int D = Shape_::dimension;
    const std::string sn = ShapeInfo<Shape_>::name();
    auto fam = mesh_family<Shape_>(c.thorough);
    for(size_t im = 0; im < fam.size(); ++im)
    {
      const MeshSpec& ms = fam[im];
      auto one = [&](const char* pair, auto fn)
      {
        if(!c.want()) return;
        c.desc([&]{ return sn + " " + pair + " mesh " + ms.str(); });
        MeshCtx<Shape_> mc = make_mesh<Shape_>(ms);
        fn(mc);
        c.nontrivial(verif::Hash().str(sn).str(pair).str(ms.str()).get());
        c.outcome(sn + " " + pair);
        c.count("cases");
        c.count("cells", mc.geoms.size());
      };
      one("L1xL1", [&](MeshCtx<Shape_>& mc) { PairChecker<Shape_, EL1, EL1>(c, mc).run(); });
      one("L2xL2", [&](MeshCtx<Shape_>& mc) { PairChecker<Shape_, EL2, EL2>(c, mc).run(); });
      one("L2xL1", [&](MeshCtx<Shape_>& mc) { PairChecker<Shape_, EL2, EL1>(c, mc).run(); });
      one("L1xP0", [&](MeshCtx<Shape_>& mc) { PairChecker<Shape_, EL1, EP0>(c, mc).run(); });
      one("CRxCR", [&](MeshCtx<Shape_>& mc) { PairChecker<Shape_, ECR, ECR>(c, mc).run(); });
      one("CRxP0", [&](MeshCtx<Shape_>& mc) { PairChecker<Shape_, ECR, EP0>(c, mc).run(); });
      one("P1xP1", [&](MeshCtx<Shape_>& mc) { PairChecker<Shape_, EP1, EP1>(c, mc).run(); });
      one("trial-derivative L1xL2", [&](MeshCtx<Shape_>& mc) { check_trial_derivative<Shape_, EL1, EL2>(c, mc); });
      if constexpr(D == 2)
        one("L3xL3", [&](MeshCtx<Shape_>& mc) { PairChecker<Shape_, EL3, EL3>(c, mc).run(); });
    }
  }
}


template<bool three_d>
int c16_assembly_main(int argc, char** argv, const char* harness_name)
{
  Runtime::ScopeGuard guard(argc, argv);
  verif::Spec spec;
  spec.property = "C16";
  spec.harness = harness_name;
  spec.rule = "cases = (shape, mesh, test x trial element pair); meshes: 1-cell and 2-cell meshes of c15_mesh.hpp (re-numbered, re-oriented, affine and "
    "non-affine), 2-cell meshes refined once, refined unit cubes (level 1-2, affine and perturbed); per case every scalar operator (identity, Laplace, "
    "DuDv blocks, DivDiv blocks, test/trial derivative) x two exact cubature rules: v^T A u == exact integral of the form for ALL pairs of monomials "
    "u, v in the spaces (harness long double quadrature with own nodes), bitwise symmetry of symmetric forms, A*1 = 0 for operators with constants in "
    "the kernel, classic assembler == DomainAssembler job (0 threads) == matrix-free apply, alpha accumulation, independence of the (exact) cubature "
    "rule; force and Laplace functionals on three routes; symbolic patterns (std == coupling set from the dof mappings, ext_facet/ext_node supersets, "
    "diag). Non-trivial: every case (hashed by shape, pair, mesh spec).";
  spec.bounds_quick = "this binary: tria/quad (c16_assembly) resp. tetra/hexa (c16_assembly3d); 8 element pairs (+ Lagrange-3 in 2D); ~25 meshes per shape up to 16 (2D) / 8 (3D) cells";
  spec.bounds_thorough = "3D: more local numberings, unit cube refinement level 2, geometry affine*nonaffine (2D already uses the full family in the quick tier: levels 1-3)";
  spec.assumptions = {
    "oracle integrates polynomials only: the test vectors are interpolants of monomials contained in the spaces on every cell (P_k); directions of the "
    "coefficient space that are not global polynomials are covered by the route agreement, symmetry, kernel and pattern checks, not by the integral oracle",
    "interpolation of in-space monomials is exact (this is property C15)",
    "DomainAssembler is run with 0 worker threads (threads are property C17)"};
  spec.max_fail_per_worker = 100000;
  return verif::run(spec, argc, argv, [&](verif::Ctx& c) {
    if constexpr(!three_d)
    {
      enumerate_shape<Shape::Simplex<2>>(c);
      enumerate_shape<Shape::Hypercube<2>>(c);
    }
    else
    {
      enumerate_shape<Shape::Simplex<3>>(c);
      enumerate_shape<Shape::Hypercube<3>>(c);
    }
  });
}
