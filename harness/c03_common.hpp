// Shared helpers of the C03 harnesses (matrix algebra = dense definition).
#pragma once
#include <c01_common.hpp>
#include <csetjmp>
#include <csignal>

// Link-time seam (DESIGN 1.1 b): FEAT's abort path (Runtime::abort) calls backtrace()+backtrace_symbols() (~0.3 ms and a leaked
// malloc block per abort). The millions of *required* aborts of this harness only need the abort itself, so the harness executable
// defines backtrace() (returns 0 frames -> Runtime::abort skips the dump and proceeds to std::abort()). Nothing else is changed.
extern "C" int backtrace(void**, int) { return 0; }

namespace c03
{
  using namespace c01;

  /// values of the product operands: matrix id 0 = X (this), 1 = D, 2 = A, 3 = B. Exact alphabet: numerators <= 36, so
  /// triple products and their sums stay exactly representable (double: dims <= 3, float: dims <= 2).
  inline LD mval(int id, int alphabet, int i, int j)
  {
    const LD sgn = ((i + j + id) & 1) ? LD(-1) : LD(1);
    if(alphabet == 0) return sgn * LD(1 + j + 3 * i + 9 * id) / LD(4);
    if(alphabet == 2) return -LD(1 + j + 3 * i + 9 * id) / LD(4);   // all negative
    return aval(1, i + 2 * id, j + id);
  }

  inline DenseRef dense_id(int id, int m, int n, uint64_t bits, int alphabet)
  {
    DenseRef d(m, n);
    for(int i = 0; i < m; ++i) for(int j = 0; j < n; ++j) if((bits >> (i * n + j)) & 1u) d.set(i, j, mval(id, alphabet, i, j));
    return d;
  }

  /// comparison of one number
  template<typename DT>
  bool near(verif::Ctx& c, const std::string& key, DT got, LD expect, bool exact, LD bound, const std::string& what)
  {
    bool ok;
    if(exact) ok = (LD(got) == LD(DT(expect)));
    else ok = (fabsl(LD(got) - expect) <= bound);
    if(!ok)
    {
      std::ostringstream o; o.precision(17);
      o << what << ": got " << (double)got << " expected " << (exact ? "exactly " : "") << (double)expect; if(!exact) o << " bound " << (double)bound;
      c.fail(key + (exact ? "" : " (rounding)"), o.str());
    }
    return ok;
  }

  /// hash of the structure arrays (indices, scalars) only
  template<typename DT, typename IT> uint64_t hash_structure(const Container<DT, IT>& ct)
  {
    verif::Hash h;
    for(size_t i = 0; i < ct._indices.size(); ++i) { h.pod(ct._indices_size.at(i)); if(ct._indices[i]) h.bytes(ct._indices[i], size_t(ct._indices_size.at(i)) * sizeof(IT)); }
    for(auto s : ct._scalar_index) h.pod(s);
    return h.get();
  }

  /// CSR structural validity
  template<typename DT, typename IT>
  bool csr_valid(const SparseMatrixCSR<DT, IT>& a)
  {
    if(a.used_elements() == 0) return true;
    const IT* rp = a.row_ptr(); const IT* ci = a.col_ind();
    if(rp[0] != IT(0) || Index(rp[a.rows()]) != a.used_elements()) return false;
    for(Index i = 0; i < a.rows(); ++i)
    {
      if(rp[i] > rp[i + 1]) return false;
      for(IT k = rp[i]; k < rp[i + 1]; ++k) { if(Index(ci[k]) >= a.columns()) return false; if(k > rp[i] && ci[k - 1] >= ci[k]) return false; }
    }
    return true;
  }

  /// c.fail with a per-process throttle: the first 25 failures of a key are recorded with their inputs, further ones only counted
  inline void fail_throttled(verif::Ctx& c, const std::string& key, const std::string& msg)
  {
    static std::map<std::string, int> seen;
    if(seen[key]++ < 25) c.fail(key, msg); else c.count("further_failures_not_listed:" + key);
  }

  /**
   * Runs body() (which reports through c.check/c.fail). If `entry_free` (an operand is the array-less representation
   * SparseMatrixCSR(m,n), a recorded finding: several operations dereference its null row pointer), the body runs in a
   * forked child first: death by a signal is attributed to exactly `efkey`; a clean run or a normal mismatch is handled
   * like any other case (the body is repeated in-process to record the mismatch).
   */
  template<typename Body>
  void guarded(verif::Ctx& c, bool entry_free, const std::string& efkey, Body&& body)
  {
    if(!entry_free) { body(); return; }
    const int st = c.run_forked([&]{ c._outfile.clear(); const size_t before = c._nfail; body(); if(c._nfail != before) _exit(3); });
    c.count("entry_free_operand_cases");
    if(st == 0) { c.count("entry_free_operand_handled_correctly"); return; }
    if(st == 1003) { body(); return; }
    if(st < 1000) { c.count("entry_free_operand_crashes"); fail_throttled(c, efkey, "operation died with signal " + std::to_string(st) + " (the entry-free representation has no arrays: null row pointer dereferenced or val() throws)"); return; }
    c.fail(efkey + " unexpected-exit", "forked operation exited with code " + std::to_string(st - 1000));
  }

  // ---- in-process trap of fatal signals (XABORTM -> abort() -> SIGABRT, null row pointer -> SIGSEGV). Used where forking every
  //      case (2-3 ms each) would make the exhaustive pattern-tuple enumeration unaffordable; a deterministic sample of the trapped
  //      cases is cross-checked against c.run_forked (counter trap_matches_fork).
  namespace trapimpl
  {
    static sigjmp_buf jb; static volatile sig_atomic_t armed = 0; static bool installed = false; static bool disabled = false;
    inline void handler(int s) { if(armed) { armed = 0; siglongjmp(jb, s); } signal(s, SIG_DFL); raise(s); }
    inline void install()
    {
      if(installed) return;
      struct sigaction sa; std::memset(&sa, 0, sizeof sa); sa.sa_handler = handler; sigemptyset(&sa.sa_mask);
      sigaction(SIGABRT, &sa, nullptr); sigaction(SIGSEGV, &sa, nullptr); sigaction(SIGBUS, &sa, nullptr);
      installed = true;
    }
  }
  /// runs f; returns 0 if it returned, else the number of the fatal signal it raised
  template<typename F> int trapped(F&& f)
  {
    if(trapimpl::disabled) { f(); return 0; }
    trapimpl::install();
    const int s = sigsetjmp(trapimpl::jb, 1);
    if(s == 0) { trapimpl::armed = 1; f(); trapimpl::armed = 0; return 0; }
    return s;
  }

  /**
   * Wrapper for one product case. Plain build: body() runs in-process (fatal signals are trapped inside).
   * Sanitizer build (VERIF_ASAN): a null dereference of an entry-free operand is reported by UBSan/ASan, whose runtime cannot be
   * resumed after a trapped abort; there the cases with an entry-free operand run in a forked child without the trap, and only
   * every 16th pattern tuple of them is executed (the remaining ones are counted) - the sanitizer build looks for memory errors in
   * the regular executions, the entry-free crashes are recorded findings.
   */
  template<typename Body>
  void product_case(verif::Ctx& c, bool entry_free, bool must_die, uint64_t tuple, const std::string& key, const std::string& efkey, Body&& body)
  {
#ifdef VERIF_ASAN
    if(entry_free)
    {
      if(tuple % 16 != 0) { c.count("sanitizer_build:entry_free_product_cases_not_executed"); return; }
      const int st = c.run_forked([&]{ trapimpl::disabled = true; c._outfile.clear(); const size_t before = c._nfail; body(); if(c._nfail != before) _exit(3); });
      if(st == 0 || (must_die && st == SIGABRT)) return;
      if(st < 1000) { c.count("entry_free_operand_crashes"); fail_throttled(c, efkey, "operation died with signal " + std::to_string(st) + " (the entry-free representation has no arrays)"); return; }
      c.fail(key + " failure-in-forked-child", "forked product case exited with code " + std::to_string(st - 1000));
      return;
    }
#else
    (void)entry_free; (void)must_die; (void)tuple; (void)key; (void)efkey;
#endif
    body();
  }

  /// Expected-abort variant: the operation must die with SIGABRT (XABORTM); returning is the violation.
  template<typename Op>
  void must_abort(verif::Ctx& c, bool entry_free, const std::string& key, const std::string& efkey, Op&& op)
  {
    const int st = c.run_forked([&]{ op(); });
    c.count("required_abort_cases");
    if(st == SIGABRT) return;
    if(st == 0) { c.fail(key + " no-abort", "incomplete output pattern with allow_incomplete=false: the operation returned instead of aborting (silently wrong values)"); return; }
    if(entry_free && st < 1000) { c.count("entry_free_operand_crashes"); c.fail(efkey, "operation died with signal " + std::to_string(st) + " instead of the required abort (the entry-free representation has no arrays)"); return; }
    c.fail(key + " wrong-death", "expected SIGABRT, got status " + std::to_string(st));
  }
}
