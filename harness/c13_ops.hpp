// c13_ops.hpp -- C13 Tier 1: the operations one MPI process performs (the code under test) and the bitwise result
// digest. Free of any scheduler dependency: the same source is compiled against engine/minimpi/mpi.h (harnesses
// c13_sync*) and against the real <mpi.h> (c13_real, OpenMPI cross-run).
#pragma once
#include "c13_core.hpp"

namespace c13
{
  enum Op { op_gate = 0, op_sync0, op_sync1, op_sync1_mean, op_from10_dot, op_apply, op_apply_axpy, op_diag, op_lump, op_to1, op_rect_apply, op_rect_to1, op_pcg, op_count };
  inline const char* op_name(int o)
  {
    static const char* n[] = {"gate", "sync_0", "sync_1", "sync_1(mean)", "from_1_to_0+dot+norm2", "matrix.apply", "matrix.apply(y,alpha)", "extract_diag", "lump_rows", "convert_to_1", "rect-block(2x3) matrix.apply", "rect-block(2x3) convert_to_1", "pcg-jacobi"};
    return n[o];
  }
  static const int pcg_iters = 4;

  // -----------------------------------------------------------------------------------------------
  // the code under test: what one MPI process does
  // -----------------------------------------------------------------------------------------------
  template<typename W_>
  void rank_body(const W_& w, int op, int rank, RankOut& out)
  {
    typedef typename W_::Vec Vec; typedef typename W_::Mat Mat;
    typedef typename W_::GVec GVec; typedef typename W_::GMat GMat; typedef typename W_::GFilt GFilt;
    constexpr int bs = W_::bs;
    const typename W_::Rank& R = *w.ranks[size_t(rank)];
    const Index n = R.ndofs;

    Dist::Comm comm = Dist::Comm::world();
    if(comm.rank() != rank || comm.size() != w.cfg.P) { out.note += "Dist::Comm::world() reports a wrong rank/size; "; return; }
    typename W_::GateType gate(comm);
    for(size_t i = 0; i < R.nb.size(); ++i) gate.push(R.nb[i], R.mirrors[i].clone(LAFEM::CloneMode::Shallow));
    gate.compile(Vec(n));

    auto mk = [&](auto f) { Vec v(n); double* p = raw(v); for(Index j = 0; j < n; ++j) for(int c = 0; c < bs; ++c) p[size_t(j) * size_t(bs) + size_t(c)] = f(R.p2b[size_t(j)], c); return v; };
    auto put = [&](int slot, const Vec& v) { out.vec[slot].assign(raw(v), raw(v) + size_t(n) * size_t(bs)); };
    auto fu = [](Index b, int c) { return val_u(b, c); };
    auto fv = [](Index b, int c) { return val_v(b, c); };
    auto fw = [rank](Index b, int c) { return val_w(rank, b, c); };

    switch(op)
    {
    case op_gate:
      {
        put(0, gate.get_freqs());
        out.scal.push_back(double(gate.get_num_global_dofs()));
        out.scal.push_back(gate.sum(double(rank) + 1.5));
        out.scal.push_back(gate.min(double(rank) + 1.5));
        out.scal.push_back(gate.max(double(rank) + 1.5));
        out.scal.push_back(gate.norm2(0.5 * double(rank + 1)));
        GVec x(&gate, mk(fu));
        out.scal.push_back(x.max_abs_element());
        out.scal.push_back(x.min_abs_element());
        GFilt filter(R.filt.clone());
        GVec s(&gate, mk(fu)), d(&gate, mk(fu));
        filter.filter_sol(s); filter.filter_def(d);
        put(1, s.local()); put(2, d.local());
      }
      break;
    case op_sync0:
      { GVec x(&gate, mk(fw)); x.sync_0(); put(0, x.local()); }
      break;
    case op_sync1:
      { GVec x(&gate, mk(fu)); x.sync_1(); put(0, x.local()); }
      break;
    case op_sync1_mean:
      { GVec x(&gate, mk(fw)); x.sync_1(); put(0, x.local()); }
      break;
    case op_from10_dot:
      {
        GVec x(&gate, mk(fv)), u(&gate, mk(fu)), v(&gate, mk(fv));
        x.from_1_to_0(); put(0, x.local());
        out.scal.push_back(u.dot(v));
        out.scal.push_back(u.norm2());
        out.scal.push_back(u.norm2sqr());
        { auto t = u.dot_async(v); out.scal.push_back(t.wait()); }
        { auto t = u.norm2_async(); out.scal.push_back(t.wait()); }
        put(1, u.local()); put(2, v.local());   // operands must be unchanged
      }
      break;
    case op_apply:
      {
        GMat A(&gate, &gate, R.A0.clone(LAFEM::CloneMode::Shallow));
        GVec x(&gate, mk(fu)), r(&gate, Vec(n));
        r.format(-77.0);
        A.apply(r, x);
        put(0, r.local()); put(1, x.local());
      }
      break;
    case op_apply_axpy:
      {
        GMat A(&gate, &gate, R.A0.clone(LAFEM::CloneMode::Shallow));
        GVec x(&gate, mk(fu)), y(&gate, mk(fv)), r(&gate, Vec(n));
        r.format(-77.0);
        A.apply(r, x, y, -0.5);
        put(0, r.local()); put(1, y.local());
      }
      break;
    case op_diag:
      {
        GMat A(&gate, &gate, R.A0.clone(LAFEM::CloneMode::Shallow));
        GVec d = A.create_vector_l();
        A.extract_diag(d);
        put(0, d.local());
        GVec d0 = A.create_vector_l();
        A.extract_diag(d0, false);
        put(1, d0.local());
      }
      break;
    case op_lump:
      {
        GMat A(&gate, &gate, R.A0.clone(LAFEM::CloneMode::Shallow));
        GVec l = A.lump_rows();
        put(0, l.local());
      }
      break;
    case op_to1:
      {
        GMat A(&gate, &gate, R.A0.clone(LAFEM::CloneMode::Deep));
        Mat M1 = A.convert_to_1();
        const double* v = matval(M1);
        out.mat.assign(v, v + size_t(M1.used_elements()) * size_t(bs * bs));
        if(M1.used_elements() != R.A0.used_elements()) out.note += "convert_to_1 changed the pattern; ";
      }
      break;
    case op_rect_apply:
    case op_rect_to1:
      if constexpr(bs == 2)
      {
        // rectangular blocks: row space blocked<2>, column space blocked<3> with its own gate over the same mirrors
        typedef LAFEM::DenseVectorBlocked<double, Index, 3> Vec3;
        typedef LAFEM::SparseMatrixBCSR<double, Index, 2, 3> MatR;
        Global::Gate<Vec3, Mirror> gate3(comm);
        for(size_t i = 0; i < R.nb.size(); ++i) gate3.push(R.nb[i], R.mirrors[i].clone(LAFEM::CloneMode::Shallow));
        gate3.compile(Vec3(n));
        Global::Matrix<MatR, Mirror, Mirror> A(&gate, &gate3, R.A0r.clone(LAFEM::CloneMode::Deep));
        if(op == op_rect_apply)
        {
          Global::Vector<Vec3, Mirror> x(&gate3, Vec3(n));
          double* px = raw(x.local());
          for(Index j = 0; j < n; ++j) for(int c = 0; c < 3; ++c) px[size_t(j) * 3u + size_t(c)] = val_u(R.p2b[size_t(j)], c);
          GVec r(&gate, Vec(n));
          r.format(-77.0);
          A.apply(r, x);
          put(0, r.local());
        }
        else
        {
          MatR M1 = A.convert_to_1();
          const double* v = matval(M1);
          out.mat.assign(v, v + size_t(M1.used_elements()) * 6u);
          if(M1.used_elements() != R.A0r.used_elements()) out.note += "convert_to_1 changed the pattern; ";
        }
      }
      break;
    case op_pcg:
      {
        GMat A(&gate, &gate, R.A0.clone(LAFEM::CloneMode::Shallow));
        GFilt filter(R.filt.clone());
        auto solver = Solver::new_pcg(A, filter, Solver::new_jacobi_precond(A, filter));
        solver->set_plot_mode(Solver::PlotMode::none);
        solver->set_max_iter(Index(pcg_iters));
        solver->set_tol_rel(1e-12); solver->set_tol_abs(1e-300);
        solver->init();
        GVec b(&gate, mk(fv)), x(&gate, Vec(n));
        x.format(0.0);
        filter.filter_sol(x);
        const Solver::Status st = solver->correct(x, b);
        put(0, x.local());
        out.scal.push_back(double(int(st)));
        out.scal.push_back(double(solver->get_num_iter()));
        out.scal.push_back(solver->get_def_initial());
        out.scal.push_back(solver->get_def_final());
        solver->done();
      }
      break;
    default: break;
    }
  }

  inline uint64_t digest(const std::vector<RankOut>& outs)
  {
    verif::Hash h;
    for(auto& o : outs)
    {
      for(int s = 0; s < 3; ++s) { uint64_t n = o.vec[s].size(); h.pod(n); for(double v : o.vec[s]) { if(v == 0.0) v = 0.0; h.pod(v); } }
      for(double v : o.scal) h.pod(v);
      for(double v : o.mat) h.pod(v);
    }
    return h.get();
  }

} // namespace c13
