// c13_ops.hpp -- C13 Tier 1: the operations one MPI process performs (the code under test) and the bitwise result
// digest. Free of any scheduler dependency: the same source is compiled against engine/minimpi/mpi.h (harnesses
// c13_sync*) and against the real <mpi.h> (c13_real, OpenMPI cross-run).
#pragma once
#include "c13_core.hpp"
#include <kernel/global/mean_filter.hpp>
#include <unistd.h>

namespace c13
{
  enum Op { op_gate = 0, op_sync0, op_sync1, op_sync1_mean, op_from10_dot, op_apply, op_apply_axpy, op_diag, op_lump, op_to1, op_rect_apply, op_rect_to1, op_multi, op_repeat, op_derived, op_alpha, op_extreme, op_empty, op_splitter, op_misc, op_meanfilter, op_pcg, op_count };
  inline const char* op_name(int o)
  {
    static const char* n[] = {"gate", "sync_0", "sync_1", "sync_1(mean)", "from_1_to_0+dot+norm2", "matrix.apply", "matrix.apply(y,alpha)", "extract_diag", "lump_rows", "convert_to_1", "rect-block(2x3) matrix.apply", "rect-block(2x3) convert_to_1", "tickets-in-flight", "reuse-of-objects", "derived-gates", "apply-alpha-0-1", "extreme-values", "empty-mirrors-pushed", "splitter+muxer", "transposed+accessors+files", "mean-filter", "pcg-jacobi"};
    return n[o];
  }
  static const int pcg_iters = 4;
  /// operations with several synchronisations: explored with a deviation bound instead of the full product
  inline bool op_is_multi(int o) { return o == op_multi || o == op_repeat || o == op_derived || o == op_alpha || o == op_extreme || o == op_empty || o == op_misc || o == op_pcg; }

  // -----------------------------------------------------------------------------------------------
  // the code under test: what one MPI process does
  // -----------------------------------------------------------------------------------------------
  template<typename W_>
  void rank_body(const W_& w, int op, int rank, RankOut& out)
  {
    typedef typename W_::Vec Vec; typedef typename W_::Mat Mat;
    typedef typename W_::GVec GVec; typedef typename W_::GMat GMat; typedef typename W_::GFilt GFilt;
    constexpr int bs = W_::bs;
    const typename W_::Rank& R = *w.ranks[size_t(rank)];
    const Index n = R.ndofs;

    Dist::Comm comm = Dist::Comm::world();
    if(comm.rank() != rank || comm.size() != w.cfg.P) { out.note += "Dist::Comm::world() reports a wrong rank/size; "; return; }
    typename W_::GateType gate(comm);
    // neighbour order: ascending rank (as the control layer does); with a scrambled patch numbering the odd ranks push
    // their neighbours in descending order (legal: every pair of ranks still exchanges exactly one message per sync)
    const bool rev_nb = (w.cfg.renum != 0) && (rank % 2 == 1);
    auto fill_gate = [&](auto& g, bool with_empty)
    {
      const std::vector<int>& nbs = with_empty ? R.all_nb : R.nb;
      const std::vector<Mirror>& mrs = with_empty ? R.all_mirrors : R.mirrors;
      for(size_t k = 0; k < nbs.size(); ++k) { const size_t i = rev_nb ? nbs.size() - 1 - k : k; g.push(nbs[i], mrs[i].clone(LAFEM::CloneMode::Shallow)); }
    };
    fill_gate(gate, false);
    gate.compile(Vec(n));

    auto mk = [&](auto f) { Vec v(n); double* p = raw(v); for(Index j = 0; j < n; ++j) for(int c = 0; c < bs; ++c) p[size_t(j) * size_t(bs) + size_t(c)] = f(R.p2b[size_t(j)], c); return v; };
    auto put = [&](int slot, const Vec& v) { out.vec[slot].assign(raw(v), raw(v) + size_t(n) * size_t(bs)); };
    auto fu = [](Index b, int c) { return val_u(b, c); };
    auto fv = [](Index b, int c) { return val_v(b, c); };
    auto fw = [rank](Index b, int c) { return val_w(rank, b, c); };

    switch(op)
    {
    case op_gate:
      {
        put(0, gate.get_freqs());
        out.scal.push_back(double(gate.get_num_global_dofs()));
        out.scal.push_back(gate.sum(double(rank) + 1.5));
        out.scal.push_back(gate.min(double(rank) + 1.5));
        out.scal.push_back(gate.max(double(rank) + 1.5));
        out.scal.push_back(gate.norm2(0.5 * double(rank + 1)));
        GVec x(&gate, mk(fu));
        out.scal.push_back(x.max_abs_element());
        out.scal.push_back(x.min_abs_element());
        GFilt filter(R.filt.clone());
        GVec s(&gate, mk(fu)), d(&gate, mk(fu));
        filter.filter_sol(s); filter.filter_def(d);
        put(1, s.local()); put(2, d.local());
      }
      break;
    case op_sync0:
      { GVec x(&gate, mk(fw)); x.sync_0(); put(0, x.local()); }
      break;
    case op_sync1:
      { GVec x(&gate, mk(fu)); x.sync_1(); put(0, x.local()); }
      break;
    case op_sync1_mean:
      { GVec x(&gate, mk(fw)); x.sync_1(); put(0, x.local()); }
      break;
    case op_from10_dot:
      {
        GVec x(&gate, mk(fv)), u(&gate, mk(fu)), v(&gate, mk(fv));
        x.from_1_to_0(); put(0, x.local());
        out.scal.push_back(u.dot(v));
        out.scal.push_back(u.norm2());
        out.scal.push_back(u.norm2sqr());
        { auto t = u.dot_async(v); out.scal.push_back(t.wait()); }
        { auto t = u.norm2_async(); out.scal.push_back(t.wait()); }
        put(1, u.local()); put(2, v.local());   // operands must be unchanged
      }
      break;
    case op_apply:
      {
        GMat A(&gate, &gate, R.A0.clone(LAFEM::CloneMode::Shallow));
        GVec x(&gate, mk(fu)), r(&gate, Vec(n));
        r.format(-77.0);
        A.apply(r, x);
        put(0, r.local()); put(1, x.local());
      }
      break;
    case op_apply_axpy:
      {
        GMat A(&gate, &gate, R.A0.clone(LAFEM::CloneMode::Shallow));
        GVec x(&gate, mk(fu)), y(&gate, mk(fv)), r(&gate, Vec(n));
        r.format(-77.0);
        A.apply(r, x, y, -0.5);
        put(0, r.local()); put(1, y.local());
      }
      break;
    case op_diag:
      {
        GMat A(&gate, &gate, R.A0.clone(LAFEM::CloneMode::Shallow));
        GVec d = A.create_vector_l();
        A.extract_diag(d);
        put(0, d.local());
        GVec d0 = A.create_vector_l();
        A.extract_diag(d0, false);
        put(1, d0.local());
      }
      break;
    case op_lump:
      {
        GMat A(&gate, &gate, R.A0.clone(LAFEM::CloneMode::Shallow));
        GVec l = A.lump_rows();
        put(0, l.local());
      }
      break;
    case op_to1:
      {
        GMat A(&gate, &gate, R.A0.clone(LAFEM::CloneMode::Deep));
        Mat M1 = A.convert_to_1();
        const double* v = matval(M1);
        out.mat.assign(v, v + size_t(M1.used_elements()) * size_t(bs * bs));
        if(M1.used_elements() != R.A0.used_elements()) out.note += "convert_to_1 changed the pattern; ";
      }
      break;
    case op_rect_apply:
    case op_rect_to1:
      if constexpr(bs == 2)
      {
        // rectangular blocks: row space blocked<2>, column space blocked<3> with its own gate over the same mirrors
        typedef LAFEM::DenseVectorBlocked<double, Index, 3> Vec3;
        typedef LAFEM::SparseMatrixBCSR<double, Index, 2, 3> MatR;
        Global::Gate<Vec3, Mirror> gate3(comm);
        fill_gate(gate3, false);
        gate3.compile(Vec3(n));
        Global::Matrix<MatR, Mirror, Mirror> A(&gate, &gate3, R.A0r.clone(LAFEM::CloneMode::Deep));
        if(op == op_rect_apply)
        {
          Global::Vector<Vec3, Mirror> x(&gate3, Vec3(n));
          double* px = raw(x.local());
          for(Index j = 0; j < n; ++j) for(int c = 0; c < 3; ++c) px[size_t(j) * 3u + size_t(c)] = val_u(R.p2b[size_t(j)], c);
          GVec r(&gate, Vec(n));
          r.format(-77.0);
          A.apply(r, x);
          put(0, r.local());
        }
        else
        {
          MatR M1 = A.convert_to_1();
          const double* v = matval(M1);
          out.mat.assign(v, v + size_t(M1.used_elements()) * 6u);
          if(M1.used_elements() != R.A0r.used_elements()) out.note += "convert_to_1 changed the pattern; ";
        }
      }
      break;
    case op_multi:
      {
        // several tickets in flight at once, completed in an order different from their creation
        GVec x(&gate, mk(fw)), y(&gate, mk([rank](Index b, int c) { return val_w2(rank, b, c); })), u(&gate, mk(fu)), v(&gate, mk(fv));
        auto t1 = x.sync_0_async();
        auto t2 = y.sync_0_async();
        auto d = u.dot_async(v);
        auto nn = u.norm2_async();
        auto mx = u.max_abs_element_async();
        out.scal.push_back(nn.wait());
        t2.wait();                        // also on ranks without neighbours (empty ticket; fixed in 43ca79cee)
        out.scal.push_back(mx.wait());
        out.scal.push_back(d.wait());
        t1.wait();
        put(0, x.local()); put(1, y.local()); put(2, u.local()); put(3, v.local());
      }
      break;
    case op_repeat:
      {
        // the same gate, vectors, matrix are used again and again; results go into vectors that already hold results
        GMat A(&gate, &gate, R.A0.clone(LAFEM::CloneMode::Shallow));
        GVec x(&gate, mk(fw)), u(&gate, mk(fu)), v(&gate, mk(fv)), r(&gate, Vec(n));
        x.sync_0(); x.sync_0();                    // second sync of an already synchronised vector: count * sum
        put(0, x.local());
        out.scal.push_back(u.dot(v)); out.scal.push_back(u.dot(v)); out.scal.push_back(v.dot(u));
        A.apply(r, u); A.apply(r, v);              // r must be overwritten, not accumulated
        put(1, r.local());
        u.sync_1(); u.sync_1();                    // idempotent on a consistent vector
        put(2, u.local());
        out.scal.push_back(double(gate.get_num_global_dofs())); out.scal.push_back(double(gate.get_num_global_dofs()));
      }
      break;
    case op_derived:
      {
        // (i) gate converted to float / unsigned int
        typedef typename W_::GateType::template GateTypeByDI<float, unsigned int> GateF;
        typedef typename GateF::LocalVectorType VecF;
        GateF gf;
        gf.convert(gate);
        {
          VecF xf(n);
          float* pf = raw(xf);
          for(Index j = 0; j < n; ++j) for(int c = 0; c < bs; ++c) pf[size_t(j) * size_t(bs) + size_t(c)] = float(val_w(rank, R.p2b[size_t(j)], c));
          gf.sync_0(xf);
          out.vec[0].assign(size_t(n) * size_t(bs), 0.0);
          for(size_t k = 0; k < out.vec[0].size(); ++k) out.vec[0][k] = double(raw(xf)[k]);
          const float* ff = raw(gf.get_freqs());
          out.vec[1].assign(size_t(n) * size_t(bs), 0.0);
          for(size_t k = 0; k < out.vec[1].size(); ++k) out.vec[1][k] = double(ff[k]);
          VecF uf(n), vf(n);
          for(Index j = 0; j < n; ++j) for(int c = 0; c < bs; ++c) { raw(uf)[size_t(j) * size_t(bs) + size_t(c)] = float(val_u(R.p2b[size_t(j)], c)); raw(vf)[size_t(j) * size_t(bs) + size_t(c)] = float(val_v(R.p2b[size_t(j)], c)); }
          out.scal.push_back(double(gf.dot(uf, vf)));
        }
        // (ii) gate over another vector type built from this one's mirrors (convert with a vector template)
        {
          typedef LAFEM::DenseVectorBlocked<double, Index, 3> Vec3;
          Global::Gate<Vec3, Mirror> g3;
          g3.convert(gate, Vec3(n), LAFEM::CloneMode::Deep);
          Vec3 x3(n);
          for(Index j = 0; j < n; ++j) for(int c = 0; c < 3; ++c) raw(x3)[size_t(j) * 3u + size_t(c)] = val_w(rank, R.p2b[size_t(j)], c);
          g3.sync_0(x3);
          out.vec[2].assign(raw(x3), raw(x3) + size_t(n) * 3u);
        }
        // (iii) move construction and move assignment
        {
          typename W_::GateType ga(comm);
          fill_gate(ga, false);
          ga.compile(Vec(n));
          typename W_::GateType gb(std::move(ga));
          typename W_::GateType gc;
          gc = std::move(gb);
          Vec xm = mk(fw);
          gc.sync_0(xm);
          put(3, xm);
        }
        // (iv) clones of global vector / matrix / filter; the sources must stay intact
        {
          GMat A(&gate, &gate, R.A0.clone(LAFEM::CloneMode::Shallow));
          GMat Ac = A.clone(LAFEM::CloneMode::Weak);
          GVec u(&gate, mk(fu));
          GVec uc = u.clone(LAFEM::CloneMode::Deep);
          GVec r = Ac.create_vector_l();
          Ac.apply(r, uc);
          put(4, r.local());
          uc.format(123.0);
          const double* pu = raw(u.local());
          for(Index j = 0; j < n; ++j) for(int c = 0; c < bs; ++c) if(pu[size_t(j) * size_t(bs) + size_t(c)] != val_u(R.p2b[size_t(j)], c)) { out.note += "deep clone of a global vector shares data with its source; "; j = n; break; }
        }
        // (v) the source gate after all of that
        { Vec xs = mk(fw); gate.sync_0(xs); put(5, xs); }
      }
      break;
    case op_alpha:
      {
        GMat A(&gate, &gate, R.A0.clone(LAFEM::CloneMode::Shallow));
        GVec x(&gate, mk(fu)), y(&gate, mk(fv));
        const double alphas[3] = {0.0, 1.0, -1.0};
        for(int k = 0; k < 3; ++k) { GVec r(&gate, Vec(n)); r.format(-77.0); A.apply(r, x, y, alphas[k]); put(k, r.local()); }
      }
      break;
    case op_extreme:
      {
        const double big = std::ldexp(1.0, 500), tiny = std::ldexp(1.0, -1060), sc = std::ldexp(1.0, 200);
        GVec a(&gate, mk([&](Index b, int c) { return val_w(rank, b, c) * big; })); a.sync_0(); put(0, a.local());
        GVec d(&gate, mk([&](Index b, int c) { return val_w(rank, b, c) * tiny; })); d.sync_0(); put(1, d.local());
        GVec m(&gate, mk([&](Index b, int c) { return -std::fabs(val_w(rank, b, c)) - 0.25; })); m.sync_0(); put(2, m.local());
        GVec z(&gate, mk([](Index, int) { return 0.0; })); z.sync_0(); put(3, z.local());
        GVec u(&gate, mk([&](Index b, int c) { return val_u(b, c) * sc; })), v(&gate, mk([&](Index b, int c) { return val_v(b, c) / sc; }));
        out.scal.push_back(u.dot(v));
        out.scal.push_back(m.max_abs_element());
      }
      break;
    case op_empty:
      {
        // all halo neighbours are pushed, including those whose mirror is empty (zero-length messages)
        typename W_::GateType ge(comm);
        fill_gate(ge, true);
        ge.compile(Vec(n));
        GVec x(&ge, mk(fw)); x.sync_0(); put(0, x.local());
        GMat A(&ge, &ge, R.A0.clone(LAFEM::CloneMode::Deep));
        GVec u(&ge, mk(fu)), r(&ge, Vec(n));
        A.apply(r, u); put(1, r.local());
        Mat M1 = A.convert_to_1();
        const double* pv = matval(M1);
        out.mat.assign(pv, pv + size_t(M1.used_elements()) * size_t(bs * bs));
        put(2, ge.get_freqs());
      }
      break;
    case op_splitter:
      {
        const int P = w.cfg.P;
        const Index N = w.B.N;
        auto base_mirror = [&](int q) { const auto& Q = *w.ranks[size_t(q)]; Mirror m(N, Q.ndofs); for(Index j = 0; j < Q.ndofs; ++j) m.indices()[j] = Q.p2b[size_t(j)]; return m; };
        // Splitter, root = rank 0: base vector -> patches, type-1 patches -> base vector
        {
          Global::Splitter<Vec, Mirror> sp;
          sp.set_root(&comm, 0, Mirror::make_identity(n));
          if(rank == 0) { for(int q = 0; q < P; ++q) sp.push_patch(base_mirror(q)); sp.set_base_vector_template(Vec(N)); }
          sp.compile(Vec(n));
          Vec vb;
          if(rank == 0) { vb = Vec(N); for(Index i = 0; i < N; ++i) for(int c = 0; c < bs; ++c) raw(vb)[size_t(i) * size_t(bs) + size_t(c)] = val_u(i, c); }
          GVec x(&gate, Vec(n)); x.format(-77.0);
          sp.split(x, vb);
          put(0, x.local());
          GVec t1(&gate, mk(fv));
          Vec jb = sp.join(t1);
          if(rank == 0) out.vec[1].assign(raw(jb), raw(jb) + size_t(N) * size_t(bs));
          put(4, t1.local());
        }
        // Muxer, parent = last rank: type-0 patches -> parent sum, parent -> patches
        {
          const int pr = P - 1;
          Global::Muxer<Vec, Mirror> mux;
          mux.set_parent(&comm, pr, Mirror::make_identity(n));
          if(rank == pr) for(int q = 0; q < P; ++q) mux.push_child(base_mirror(q));
          mux.compile(Vec(n));
          Vec src = mk(fw);
          if(rank == pr) { Vec trg(N); trg.format(-77.0); mux.join(src, trg); out.vec[2].assign(raw(trg), raw(trg) + size_t(N) * size_t(bs)); }
          else mux.join_send(src);
          Vec back(n); back.format(-77.0);
          if(rank == pr) { Vec pb(N); for(Index i = 0; i < N; ++i) for(int c = 0; c < bs; ++c) raw(pb)[size_t(i) * size_t(bs) + size_t(c)] = val_v(i, c); mux.split(back, pb); }
          else mux.split_recv(back);
          put(3, back);
        }
      }
      break;
    case op_misc:
      {
        GMat A(&gate, &gate, R.A0.clone(LAFEM::CloneMode::Shallow));
        GVec x(&gate, mk(fu)), y(&gate, mk(fv)), r(&gate, Vec(n));
        out.scal.push_back(double(A.rows())); out.scal.push_back(double(A.columns())); out.scal.push_back(double(A.used_elements()));
        out.scal.push_back(double(x.size()));
        out.scal.push_back(double(A.template rows<LAFEM::Perspective::native>()));
        out.scal.push_back((A.bytes() > 0u && gate.bytes() > 0u) ? 1.0 : 0.0);
        r.format(-77.0); A.apply_transposed(r, x); put(0, r.local());
        r.format(-77.0); A.apply_transposed(r, x, y, 0.5); put(1, r.local());
        // asynchronous matrix-vector products: the ticket has to be waited for
        {
          GVec ra(&gate, Vec(n)), rb(&gate, Vec(n)), rc(&gate, Vec(n)), rd(&gate, Vec(n));
          ra.format(-77.0); rb.format(-77.0); rc.format(-77.0); rd.format(-77.0);
          auto ta = A.apply_async(ra, x);
          auto tb = A.apply_async(rb, x, y, -0.5);
          auto tc = A.apply_transposed_async(rc, x);
          auto td = A.apply_transposed_async(rd, x, y, 0.5);
          td.wait(); tb.wait(); tc.wait(); ta.wait();
          out.mat.assign(raw(rc.local()), raw(rc.local()) + size_t(n) * size_t(bs));
          out.mat.insert(out.mat.end(), raw(rd.local()), raw(rd.local()) + size_t(n) * size_t(bs));
          out.vec[2].assign(raw(ra.local()), raw(ra.local()) + size_t(n) * size_t(bs));
          out.vec[3].assign(raw(rb.local()), raw(rb.local()) + size_t(n) * size_t(bs));
        }
        { auto t = x.min_abs_element_async(); out.scal.push_back(t.wait()); }
        { auto t = x.max_element_async(); out.scal.push_back(t.wait()); }
        { auto t = x.min_element_async(); out.scal.push_back(t.wait()); }
        if constexpr(bs == 2)
        {
          typedef LAFEM::DenseVectorBlocked<double, Index, 3> Vec3;
          typedef LAFEM::SparseMatrixBCSR<double, Index, 2, 3> MatR;
          Global::Gate<Vec3, Mirror> gate3(comm);
          fill_gate(gate3, false);
          gate3.compile(Vec3(n));
          Global::Matrix<MatR, Mirror, Mirror> Ar(&gate, &gate3, R.A0r.clone(LAFEM::CloneMode::Shallow));
          Global::Vector<Vec3, Mirror> r3(&gate3, Vec3(n)), y3(&gate3, Vec3(n));
          for(Index j = 0; j < n; ++j) for(int c = 0; c < 3; ++c) raw(y3.local())[size_t(j) * 3u + size_t(c)] = val_v(R.p2b[size_t(j)], c);
          r3.format(-77.0); Ar.apply_transposed(r3, x);
          out.mat.insert(out.mat.end(), raw(r3.local()), raw(r3.local()) + size_t(n) * 3u);
          r3.format(-77.0); Ar.apply_transposed(r3, x, y3, -0.5);
          out.mat.insert(out.mat.end(), raw(r3.local()), raw(r3.local()) + size_t(n) * 3u);
          out.scal.push_back(double(Ar.rows())); out.scal.push_back(double(Ar.columns()));
        }
        // Splitter: converted to float / unsigned int, moved, and the file round trip join_write_out -> split_read_from
        if(!(w.cfg.P == 1 && w.cfg.renum != 0))
        {
          const Index N = w.B.N;
          const int P = w.cfg.P;
          Global::Splitter<Vec, Mirror> sp0;
          sp0.set_root(&comm, 0, Mirror::make_identity(n));
          if(rank == 0) { for(int q = 0; q < P; ++q) { const auto& Q = *w.ranks[size_t(q)]; Mirror m(N, Q.ndofs); for(Index j = 0; j < Q.ndofs; ++j) m.indices()[j] = Q.p2b[size_t(j)]; sp0.push_patch(std::move(m)); } sp0.set_base_vector_template(Vec(N)); }
          sp0.compile(Vec(n));
          Global::Splitter<Vec, Mirror> sp(std::move(sp0));
          char fn[256]; snprintf(fn, sizeof fn, "/verif/build/scratch/c13_sync/splitter.%d.bin", int(getpid()));
          GVec t1(&gate, mk(fv)), back(&gate, Vec(n));
          back.format(-77.0);
          sp.join_write_out(t1, fn);
          comm.barrier();
          sp.split_read_from(back, fn);
          put(4, back.local());
          comm.barrier();
          if(rank == 0) unlink(fn);
          typedef typename Vec::template ContainerType<float, unsigned int> VecF;
          typedef LAFEM::VectorMirror<float, unsigned int> MirrorF;
          Global::Splitter<VecF, MirrorF> spf;
          spf.convert(sp);
          VecF vbf, xf(n);
          if(rank == 0) { vbf = VecF(N); for(Index i = 0; i < N; ++i) for(int c = 0; c < bs; ++c) raw(vbf)[size_t(i) * size_t(bs) + size_t(c)] = float(val_u(i, c)); }
          xf.format(-77.0f);
          spf.split(xf, vbf);
          out.vec[5].assign(size_t(n) * size_t(bs), 0.0);
          for(size_t k = 0; k < out.vec[5].size(); ++k) out.vec[5][k] = double(raw(xf)[k]);
          out.scal.push_back((sp.bytes() > 0u || rank != 0) ? 1.0 : 0.0);
          // convert(other, vector template): a splitter / muxer for another vector type over the same mirrors
          {
            typedef LAFEM::DenseVectorBlocked<double, Index, 3> Vec3;
            Global::Splitter<Vec3, Mirror> sp3;
            sp3.convert(sp, Vec3(n), LAFEM::CloneMode::Deep);
            if(rank == 0) sp3.set_base_vector_template(Vec3(N));
            Vec3 vb3, x3(n);
            if(rank == 0) { vb3 = Vec3(N); for(Index i = 0; i < N; ++i) for(int c = 0; c < 3; ++c) raw(vb3)[size_t(i) * 3u + size_t(c)] = val_u(i, c); }
            x3.format(-77.0);
            sp3.split(x3, vb3);
            for(Index j = 0; j < n; ++j) for(int c = 0; c < 3; ++c) if(raw(x3)[size_t(j) * 3u + size_t(c)] != val_u(R.p2b[size_t(j)], c)) { out.note += "Splitter::convert(other, vector): split through the converted splitter is wrong; "; j = n; break; }
          }
        }
      }
      break;
    case op_meanfilter:
      if constexpr(bs == 1)
      {
        auto fp = [](Index b, int) { return 1.0 + 0.5 * double(b % 3); };
        auto fd = [](Index b, int) { return 0.25 * double(1 + (b % 4)); };
        Global::MeanFilter<double, Index> mf(mk(fp), mk(fd), gate.get_freqs().clone(LAFEM::CloneMode::Deep), &comm);
        out.scal.push_back(mf.get_volume());
        Global::Filter<Global::MeanFilter<double, Index>, Mirror> gfm(std::move(mf));
        GVec x(&gate, mk(fu)), y(&gate, mk(fv)), z(&gate, mk(fu));
        gfm.filter_rhs(x); put(0, x.local());
        gfm.filter_sol(y); put(1, y.local());
        auto gfc = gfm.clone(LAFEM::CloneMode::Deep);
        gfc.filter_def(z); gfc.filter_def(z);   // a projection: the second application must not change anything (up to rounding)
        put(2, z.local());
        out.scal.push_back(gfc.local().get_volume());
      }
      break;
    case op_pcg:
      {
        GMat A(&gate, &gate, R.A0.clone(LAFEM::CloneMode::Shallow));
        GFilt filter(R.filt.clone());
        auto solver = Solver::new_pcg(A, filter, Solver::new_jacobi_precond(A, filter));
        solver->set_plot_mode(Solver::PlotMode::none);
        solver->set_max_iter(Index(pcg_iters));
        solver->set_tol_rel(1e-12); solver->set_tol_abs(1e-300);
        solver->init();
        GVec b(&gate, mk(fv)), x(&gate, Vec(n));
        x.format(0.0);
        filter.filter_sol(x);
        const Solver::Status st = solver->correct(x, b);
        put(0, x.local());
        out.scal.push_back(double(int(st)));
        out.scal.push_back(double(solver->get_num_iter()));
        out.scal.push_back(solver->get_def_initial());
        out.scal.push_back(solver->get_def_final());
        solver->done();
      }
      break;
    default: break;
    }
  }

  inline uint64_t digest(const std::vector<RankOut>& outs)
  {
    verif::Hash h;
    for(auto& o : outs)
    {
      for(int s = 0; s < RankOut::nvec; ++s) { uint64_t n = o.vec[s].size(); h.pod(n); for(double v : o.vec[s]) { if(v == 0.0) v = 0.0; h.pod(v); } }
      for(double v : o.scal) h.pod(v);
      for(double v : o.mat) h.pod(v);
    }
    return h.get();
  }

} // namespace c13
